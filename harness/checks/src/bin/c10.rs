//! C10 — dummy-mapping filters remove exactly the placeholder entries.
//!
//! Engine: two exhaustive truth-table sweeps (E4), every case executed on the real code.
//!
//! 1. `Mappings::remove_dummy(namespace)`: every mapping set over a hand-labelled alphabet of names
//!    (placeholder / only contains the prefix / other package / real / absent) × comment yes/no at each of
//!    the four levels (class → field, method → parameter), for several namespace counts, positions of the
//!    chosen namespace and styles of the names in the *other* namespaces (which must not matter).
//!    Oracle: the rules documented on the function applied bottom-up, idempotence, entries that stay are
//!    untouched, nothing is removed above a retained child.
//! 2. `MappingsDiff::insert_dummy_and_contract_inner_names()`: every diff over name-action × comment-action
//!    at each of the four levels for top-level and inner class keys. Oracle from the property statement.
//!
//! Where the statement is silent the oracle accepts both behaviours (see `judge_*` for the exact list);
//! those cases are counted under `lenient:*` outcomes so that the evidence shows how often they occurred.
//!
//! # Clause table (statement of C10 → where it is decided)
//!
//! `remove_dummy` (engine 1, `remove_case` → `judge_remove`, expected set from `expected_remove`):
//!
//! | # | clause | decided in | over |
//! |---|--------|------------|------|
//! | R1 | deletes the placeholder-named parameters / fields / methods+constructors / classes without comment and without remaining children | `why()` = `documented_placeholder()` × comment × remaining children, `Judge::remove_entry` arm `(Removed, Some)` ⇒ `*:placeholder-kept:*` | every configuration of `remove_configs`: full product name × comment at four levels, 16/9/12/7 labelled names |
//! | R2 | deletes *precisely* those (nothing else goes) | `remove_entry` arm `(_, None)` ⇒ `*:removed-despite:*`; `*:invented`; final `out == expected` | same; names that contain / end with / are shorter than a prefix, carry the prefix of *another* level, sit below or beside `net/minecraft/unmapped/`, differ in case, `init` without brackets, absent names |
//! | R3 | every other entry is returned unchanged | `remove_entry` arm `(_, Some)`: names row and comment equal; key invariant of `mapmodel::from_quill` (descriptor, parameter index); namespaces and the set's own comment | same, with names of the opposite kind in all other namespaces (N = 1..4, chosen index 0..3) |
//! | R4 | "after filtering": children first, then the parent | bottom-up order of `expected_remove` / `judge_remove` | every parent state × every child state, incl. the sibling sweeps |
//! | R5 | never removes an entry that still has a retained child | `Why::Child`, `Why::CommentAndChild` ⇒ `*:removed-despite:retained-child` | same |
//! | R6 | idempotent | second real call in `remove_case` ⇒ `not-idempotent` | every case |
//! | R7 | "all mapping sets … at every nesting depth": nothing leaks from one entry to its siblings or to the next class | sibling sweeps (`siblings*`: up to 3 fields and 3 methods under one first-namespace name, 2 parameters each), `two-classes*`, `three-classes*`; floors `mixed-siblings:*` | reduced alphabets, see `alpha_siblings`, `alpha_two_classes*`, `alpha_three_classes` |
//! | R8 | R1/R2 over names as *text* and over odd but legal names (second extension) | same oracle; `names/<level>/*` configurations: the level under test takes every name of its alphabet, of `*_NAMES_ODD` (prefix followed by a letter, prefix without its underscore, bare `net/minecraft/unmapped/C_`, `net/minecraft/unmapped/C`, `…/Cls`, other case, `C_1/Real`, `clinit`, `p_0` at index 1 …) and of `text_names()` (a character of 2, 3, 4 UTF-8 bytes at every byte offset of and just behind every prefix, 0..=27 for the long class prefix, followed by the rest of the name or as last character); the other levels a two-symbol alphabet | N=2 chosen 1 (inverted first names), N=1 chosen 0 (the name is the key), N=3 chosen 1 (identity entries); floors per odd label and `multibyte-*` per level |
//! | R9 | "only depends on the mapping in the namespace given": identity entries (first-namespace name = chosen-namespace name) are judged like any other | `KeyStyle::Same`: `N=2/ns1/same-keys`, `N=3/ns2/same-keys`, `names/*/N=3/ns1/same-keys` | full alphabets |
//! | R10 | R1–R6 with many siblings (second extension): numbers of removed / retained entries of one map that do not fit one or two bytes | same oracle; `many-siblings/<n>-{removed, retained, removed-and-one-retained}`: every class gets n extra fields, every method n extra parameters (placeholder names without comment / real names) on top of the decoded ones | n = 255, 256, 257 (thorough also 65535, 65536, 65537) × the smallest alphabets; floors `many-siblings:*` |
//!
//! `insert_dummy_and_contract_inner_names` (engine 2, `insert_case` → `judge_insert`):
//!
//! | # | clause | decided in | over |
//! |---|--------|------------|------|
//! | I1 | every removal becomes an edit back to the placeholder: source name (field, method, top-level class) | `Judge::insert_content` ⇒ `*:removal-not-rewritten`, `*:wrong-placeholder`, `*:removal-rewritten-wrongly` | all variants |
//! | I2 | … `p_<index>` for parameters | same, `param_placeholder()` (digits written out by hand) | indices 0, 1 and the `parameter-index/*` variants: 9/10, 255/256, 65535/65536, 2^32-1/usize::MAX |
//! | I3 | … simple inner name for inner classes | same, `class_placeholders()` | keys `A$B`, `A$C`, the `class-key/*` variants (`A$1`, `Outer$Mid$Inner`, `$` only in the package, three levels below net/minecraft/unmapped) ; `class-key-undefined/*` (`$A`, `A$`, `A$$B`, `$`): either name accepted |
//! | I4 | additions of fields and parameters are discarded | `Judge::insert_leaf` ⇒ `*:addition-retained` | all variants |
//! | I5 | additions of methods and classes left without children are discarded (with children: kept, as additions) | `Judge::insert_parent_present` ⇒ `*:childless-addition-retained`; `insert_parent_absent` ⇒ `*:addition-with-children-dropped` | all variants |
//! | I6 | drops only nodes that change nothing and have no remaining children | `must_keep_*` ⇒ `*:removal-dropped`, `*:changing-node-dropped`, `*:dropped-with-retained-child`; the diff's own namespace / comment action ⇒ `top-level-changed` | all variants; `top-level-actions` for the diff's own actions |
//! | I7 | whatever stays is otherwise untouched (a silently wrong answer) | `insert_content` ⇒ `*:name-action-changed`, `*:comment-action-changed`; `*:invented` | all variants; class name actions whose names are inner-class names themselves (`dollar_names`) |
//! | I8 | idempotent | second real call in `insert_case` ⇒ `not-idempotent` | every case |
//! | I9 | "all … diffs": nothing leaks from one node to its siblings or to the next class | `siblings/*` (two fields, two fields under one name, two methods under one name, two parameters; second extension: three parameters below one method, three fields and three methods — first / middle / last), `two-classes/*` (second extension: `same-inner-name` = inner classes of two outer classes that share their simple name and hence their placeholder, `same-simple-name` = two packages), `three-classes` (an outer class and its inner classes in one diff) | reduced action alphabets |
//! | I10 | the placeholder is an ordinary name wherever it is not the old name of a removal (second extension): an addition *of* the placeholder is an addition (I4/I5), an edit *to* it or *away from* it changes the name (I6/I7) | same oracle, `NA::{AddPlaceholder, EditToPlaceholder, EditFromPlaceholder}` in the `placeholder-names/*` variants; floors `*:addition-of-the-placeholder:*`, `*:edit-to-the-placeholder:retained`, `*:edit-from-the-placeholder:retained` | 9 name actions × comment actions at all four levels, top-level and inner key |
//! | I11 | I1–I7 over keys and names as *text* (second extension) | same oracle; `multibyte` variant (class key, field and method keys and every name inside an action hold characters of 2, 3, 4 UTF-8 bytes), `class-key/*` with multi-byte outer / inner / package parts | floor per level: a removal rewritten in the multi-byte variant |
//! | I12 | I1–I8 with many siblings (second extension) | same oracle; `many-siblings/<n>-{additions, removals}`: n extra fields per class and n extra parameters (indices from 1000) per method, all additions (discarded) or all removals (rewritten to `p_<index>` / the source name) | n = 255, 256; floors `many-siblings:*` |
//!
//! Not decided (the statement is silent): the order of retained entries inside their maps; whether an empty comment
//! is a comment; whether a change-free childless node must be dropped (it may); whether the comment action of a
//! childless method/class addition keeps it.

use std::collections::BTreeMap;
use std::sync::atomic::{AtomicBool, AtomicU64, Ordering};
use std::sync::Mutex;
use mapmodel::{Act, DClass, DField, DMethod, DParam, MClass, MDiff, MField, MMethod, MParam, MSet, Order, Row};
use quill::tree::mappings::Mappings;
use rayon::prelude::*;
use vcore::{json, Ctx, Stats, Tier, Value};

const UNMAPPED: &str = "net/minecraft/unmapped/";

// ---------------------------------------------------------------------------------------------
// machinery failures (in a worker process they travel to the parent on stdout)

static IS_WORKER: AtomicBool = AtomicBool::new(false);

fn fail(msg: &str) -> ! {
	if IS_WORKER.load(Ordering::SeqCst) {
		println!("{}", json!({"machinery": msg}));
		std::process::exit(2);
	}
	vcore::machinery_fail(msg)
}

/// where differences go: the `Ctx` in the main process, a collector in a worker process
trait Report: Sync {
	fn report(&self, key: &str, what: &str, replay: &dyn Fn() -> String);
}

impl Report for Ctx {
	fn report(&self, key: &str, what: &str, replay: &dyn Fn() -> String) {
		self.diff(key, what, replay);
	}
}

// ---------------------------------------------------------------------------------------------
// levels and the documented rules

#[derive(Clone, Copy, Debug, PartialEq, Eq, PartialOrd, Ord, Hash)]
enum Level {
	Class,
	Field,
	Method,
	Param,
}

impl Level {
	fn name(self) -> &'static str {
		match self {
			Level::Class => "class",
			Level::Field => "field",
			Level::Method => "method",
			Level::Param => "parameter",
		}
	}
}

fn has_prefix(name: &str, prefix: &str) -> bool {
	name.get(..prefix.len()) == Some(prefix)
}

/// The "Removal Rules" of the documentation of `Mappings::remove_dummy`, name part:
/// class: "its name starts with `C_` or `net/minecraft/unmapped/C_`"; field: "starts with `f_`";
/// method: "starts with `m_`, or its name is equal to either `<init>` or `<clinit>`"; parameter: "starts with `p_`".
/// An entry without a name in the chosen namespace has no name that starts with anything.
fn documented_placeholder(level: Level, name: Option<&str>) -> bool {
	let Some(n) = name else { return false };
	match level {
		Level::Class => has_prefix(n, "C_") || has_prefix(n, "net/minecraft/unmapped/C_"),
		Level::Field => has_prefix(n, "f_"),
		Level::Method => has_prefix(n, "m_") || n == "<init>" || n == "<clinit>",
		Level::Param => has_prefix(n, "p_"),
	}
}

/// One symbol of a name alphabet, labelled by hand with what the documentation calls it.
#[derive(Clone, Copy, Debug)]
struct NameOpt {
	name: Option<&'static str>,
	placeholder: bool,
	tag: &'static str,
}

const fn ph(name: &'static str, tag: &'static str) -> NameOpt {
	NameOpt { name: Some(name), placeholder: true, tag }
}
const fn no(name: &'static str, tag: &'static str) -> NameOpt {
	NameOpt { name: Some(name), placeholder: false, tag }
}
const ABSENT: NameOpt = NameOpt { name: None, placeholder: false, tag: "absent" };

const CLASS_NAMES: &[NameOpt] = &[
	ph("C_1", "placeholder"),
	ph("net/minecraft/unmapped/C_1", "placeholder-unmapped-package"),
	no("pkg/C_1", "other-package"),
	no("xC_1", "contains-prefix"),
	no("pkg/Real", "real"),
	ABSENT,
	// beyond the design alphabet
	ph("C_", "placeholder-bare-prefix"),
	no("net/minecraft/unmapped/xC_1", "contains-prefix-unmapped-package"),
	no("pkg/Outer$C_1", "ends-with-prefix-inner"),
	ph("net/minecraft/unmapped/C_1$C_2", "placeholder-inner"),
	// added by the extension: one symbol per shortcut a maintainer could take in the name test
	ph("C_1$Real", "placeholder-outer-real-inner"),
	no("net/minecraft/unmapped/sub/C_1", "unmapped-subpackage"),
	no("x/net/minecraft/unmapped/C_1", "contains-unmapped-prefix"),
	no("net/minecraft/C_1", "parent-of-unmapped-package"),
	no("C", "shorter-than-prefix"),
	no("f_1", "other-level-prefix"),
];
const FIELD_NAMES: &[NameOpt] = &[
	ph("f_1", "placeholder"),
	no("xf_1", "contains-prefix"),
	no("af_", "ends-with-prefix"),
	no("real", "real"),
	ABSENT,
	ph("f_", "placeholder-bare-prefix"),
	no("f", "shorter-than-prefix"),
	no("m_1", "other-level-prefix"),
	no("F_1", "other-case"),
];
const METHOD_NAMES: &[NameOpt] = &[
	ph("m_1", "placeholder"),
	ph("<init>", "init"),
	ph("<clinit>", "clinit"),
	no("xm_1", "contains-prefix"),
	no("am_", "ends-with-prefix"),
	no("real", "real"),
	ABSENT,
	ph("m_", "placeholder-bare-prefix"),
	no("m", "shorter-than-prefix"),
	no("f_1", "other-level-prefix"),
	no("M_1", "other-case"),
	no("init", "init-without-brackets"),
];
const PARAM_NAMES: &[NameOpt] = &[
	ph("p_1", "placeholder"),
	no("xp_1", "contains-prefix"),
	no("real", "real"),
	ABSENT,
	ph("p_", "placeholder-bare-prefix"),
	no("p", "shorter-than-prefix"),
	no("m_1", "other-level-prefix"),
];
/// the alphabets of DESIGN.md §2 (plus the first extension): the prefix of the extended ones above
const DESIGN_SIZES: [usize; 4] = [10, 6, 8, 5];

// Second extension: odd but legal names, one per shortcut in the name test that the alphabets above cannot tell from the
// documented rule (a prefix that must be followed by digits, a prefix compared without its last character, a test that
// ignores case, a test of the simple name). They are explored one level at a time (`names/*` configurations: the level
// under test takes every name, the other levels a reduced alphabet), so their number adds up instead of multiplying.
const CLASS_NAMES_ODD: &[NameOpt] = &[
	ph("C_x", "placeholder-not-numeric"),
	ph("net/minecraft/unmapped/C_x", "placeholder-unmapped-not-numeric"),
	ph("net/minecraft/unmapped/C_", "placeholder-unmapped-bare-prefix"),
	ph("C_1/Real", "placeholder-prefix-is-package"),
	no("net/minecraft/unmapped/C", "unmapped-shorter-than-prefix"),
	no("net/minecraft/unmapped/Cls", "unmapped-real-starting-with-C"),
	no("net/minecraft/unmapped", "unmapped-package-as-class"),
	no("c_1", "other-case"),
	no("net/minecraft/unmapped/c_1", "unmapped-other-case"),
	no("Net/Minecraft/Unmapped/C_1", "unmapped-package-other-case"),
	no("C1", "prefix-without-underscore"),
];
const FIELD_NAMES_ODD: &[NameOpt] = &[ph("f_x", "placeholder-not-numeric"), no("f1", "prefix-without-underscore"), no("_f_1", "prefix-after-underscore")];
const METHOD_NAMES_ODD: &[NameOpt] = &[ph("m_x", "placeholder-not-numeric"), no("clinit", "clinit-without-brackets"), no("m1", "prefix-without-underscore"), no("INIT", "other-case-init")];
const PARAM_NAMES_ODD: &[NameOpt] = &[ph("p_x", "placeholder-not-numeric"), no("P_1", "other-case"), no("p1", "prefix-without-underscore"), ph("p_0", "placeholder-other-index")];

/// "Text is bytes, characters are not": a character of 2, 3 and 4 UTF-8 bytes at every byte offset of (and just behind)
/// every placeholder prefix of the level, once followed by the rest of the name and once as the last character.
/// The label is known by construction: the name starts with the prefix exactly when the character sits behind it.
fn text_names(level: Level) -> Vec<NameOpt> {
	let bases: &[(&str, usize)] = match level {
		Level::Class => &[("C_1x", 2), ("net/minecraft/unmapped/C_1x", 25)],
		Level::Field => &[("f_1x", 2)],
		Level::Method => &[("m_1x", 2)],
		Level::Param => &[("p_1x", 2)],
	};
	let mut seen = std::collections::BTreeSet::new();
	let mut out = Vec::new();
	for (base, prefix_len) in bases {
		for k in 0..=base.len() {
			for ch in ["\u{e9}", "\u{20ac}", "\u{1f600}"] {
				for rest in [&base[k..], ""] {
					let name = format!("{}{ch}{rest}", &base[..k]);
					if seen.insert(name.clone()) {
						let placeholder = k >= *prefix_len;
						let name: &'static str = Box::leak(name.into_boxed_str());
						out.push(NameOpt { name: Some(name), placeholder, tag: if placeholder { "multibyte-behind-prefix" } else { "multibyte-inside-prefix" } });
					}
				}
			}
		}
	}
	out
}

// reduced alphabets for the sweeps with several classes / several siblings per level
const CLASS_NAMES_2: &[NameOpt] = &[
	ph("C_1", "placeholder"),
	ph("net/minecraft/unmapped/C_1", "placeholder-unmapped-package"),
	no("pkg/C_1", "other-package"),
	no("xC_1", "contains-prefix"),
	no("pkg/Real", "real"),
	ABSENT,
];
const FIELD_NAMES_2: &[NameOpt] = &[ph("f_1", "placeholder"), no("real", "real")];
const METHOD_NAMES_2: &[NameOpt] = &[ph("m_1", "placeholder"), ph("<init>", "init"), no("real", "real")];
const PARAM_NAMES_2: &[NameOpt] = &[ph("p_1", "placeholder"), no("real", "real")];
const CLASS_NAMES_3: &[NameOpt] = &[ph("C_1", "placeholder"), ph("net/minecraft/unmapped/C_1", "placeholder-unmapped-package"), no("pkg/Real", "real")];
const CLASS_NAMES_4: &[NameOpt] = &[ph("C_1", "placeholder"), no("pkg/Real", "real")];
const METHOD_NAMES_4: &[NameOpt] = &[ph("m_1", "placeholder"), no("real", "real")];

#[derive(Clone, Debug)]
struct Alpha {
	class: Vec<NameOpt>,
	field: Vec<NameOpt>,
	method: Vec<NameOpt>,
	param: Vec<NameOpt>,
	max_params: usize,
	/// siblings per class (each slot may be empty); siblings share their first-namespace name and differ in the descriptor
	max_fields: usize,
	max_methods: usize,
	/// is the comment dimension (absent / present) explored at [class, field, method, parameter]? otherwise: no comment
	docs: [bool; 4],
}

const FIELD_DESCS: [&str; 3] = ["I", "J", "Z"];
const METHOD_DESCS: [&str; 3] = ["(II)V", "(IJ)V", "(JI)V"];

impl Alpha {
	fn of(&self, level: Level) -> &[NameOpt] {
		match level {
			Level::Class => &self.class,
			Level::Field => &self.field,
			Level::Method => &self.method,
			Level::Param => &self.param,
		}
	}
	fn doc_dim(&self, level: Level) -> u64 {
		if self.docs[level as usize] { 2 } else { 1 }
	}
	fn param_slot(&self) -> u64 {
		1 + self.doc_dim(Level::Param) * self.param.len() as u64
	}
	fn param_combos(&self) -> u64 {
		self.param_slot().pow(self.max_params as u32)
	}
	fn method_slot(&self) -> u64 {
		1 + self.doc_dim(Level::Method) * self.method.len() as u64 * self.param_combos()
	}
	fn field_slot(&self) -> u64 {
		1 + self.doc_dim(Level::Field) * self.field.len() as u64
	}
	fn class_variants(&self) -> u64 {
		self.doc_dim(Level::Class) * self.class.len() as u64 * self.field_slot().pow(self.max_fields as u32) * self.method_slot().pow(self.max_methods as u32)
	}
	fn tag(&self, level: Level, name: Option<&str>) -> &'static str {
		self.of(level).iter().find(|o| o.name == name).map(|o| o.tag).unwrap_or("unlabelled")
	}
	/// the hand labels and the documented rule must say the same about every symbol
	fn self_check(&self) {
		for level in [Level::Class, Level::Field, Level::Method, Level::Param] {
			for o in self.of(level) {
				if documented_placeholder(level, o.name) != o.placeholder {
					fail(&format!("alphabet label of {:?} ({}) disagrees with the documented rule", o.name, level.name()));
				}
			}
		}
		if self.max_fields > FIELD_DESCS.len() || self.max_methods > METHOD_DESCS.len() {
			fail("more siblings than descriptors");
		}
	}
	fn describe(&self) -> Value {
		let names = |a: &[NameOpt]| -> Vec<Value> { a.iter().map(|o| json!(o.name)).collect() };
		json!({
			"class_names": names(&self.class), "field_names": names(&self.field), "method_names": names(&self.method), "parameter_names": names(&self.param),
			"comment_explored_at": {"class": self.docs[0], "field": self.docs[1], "method": self.docs[2], "parameter": self.docs[3]},
			"fields_per_class": format!("0..{}", self.max_fields), "methods_per_class": format!("0..{}", self.max_methods), "parameters_per_method": format!("0..{}", self.max_params),
		})
	}
}

#[derive(Clone, Copy, Debug, PartialEq, Eq)]
enum KeyStyle {
	/// names in the first namespace look real
	Real,
	/// names in the first namespace look like placeholders (the realistic intermediary → named case)
	Placeholder,
	/// first-namespace name looks like a placeholder exactly when the chosen-namespace name does not
	Inverted,
	/// identity entries: the first-namespace name *is* the chosen-namespace name (where there is one), as in a set whose
	/// target column was filled from the source column
	Same,
}

#[derive(Clone, Debug)]
struct RConfig {
	label: String,
	n: usize,
	chosen: usize,
	keys: KeyStyle,
	order: Order,
	alpha: Alpha,
	classes: usize,
	top_doc: bool,
	/// many siblings: every class gets this many extra fields and every method this many extra parameters,
	/// (removed by the rules, retained by the rules) — placeholder names without comment and real names
	pad: (usize, usize),
}

impl RConfig {
	/// the row of a padding entry: `name` in the chosen namespace, `key` in the first one, something else elsewhere
	fn pad_row(&self, key: &str, name: &str) -> Row {
		(0..self.n).map(|j| Some(if j == self.chosen { name.to_owned() } else if j == 0 { key.to_owned() } else { "elsewhere".to_owned() })).collect()
	}

	fn pad_class(&self, c: &mut MClass) {
		let (removed, retained) = self.pad;
		for i in 0..removed + retained {
			let name = if i < removed { format!("f_9{i}") } else { format!("kept{i}") };
			let key = if self.chosen == 0 { name.clone() } else { format!("pad{i}") };
			if c.fields.insert((key.clone(), "S".into()), MField { names: self.pad_row(&key, &name), doc: None }).is_some() {
				fail("padding field collides");
			}
		}
		for m in c.methods.values_mut() {
			for i in 0..removed + retained {
				let name = if i < removed { format!("p_9{i}") } else { format!("kept{i}") };
				let key = if self.chosen == 0 { name.clone() } else { format!("pad{i}") };
				if m.params.insert(self.alpha.max_params + i, MParam { names: self.pad_row(&key, &name), doc: None }).is_some() {
					fail("padding parameter collides");
				}
			}
		}
	}

	fn total(&self) -> u64 {
		self.alpha.class_variants().pow(self.classes as u32)
	}

	fn ns(&self) -> Vec<String> {
		(0..self.n).map(|i| format!("ns{i}")).collect()
	}

	fn first_name(&self, level: Level, o: &NameOpt, ord: usize) -> Option<String> {
		if self.chosen == 0 {
			return o.name.map(|s| s.to_owned());
		}
		if self.keys == KeyStyle::Same {
			if let Some(n) = o.name {
				return Some(n.to_owned());
			}
		}
		let looks_placeholder = match self.keys {
			KeyStyle::Real | KeyStyle::Same => false,
			KeyStyle::Placeholder => true,
			KeyStyle::Inverted => !o.placeholder,
		};
		match (level, looks_placeholder) {
			(Level::Class, false) => Some(format!("a/K{ord}")),
			(Level::Class, true) => Some(format!("{UNMAPPED}C_0{ord}")),
			(Level::Field, false) => Some("fk".into()),
			(Level::Field, true) => Some("f_0".into()),
			(Level::Method, false) => Some("mk".into()),
			(Level::Method, true) => Some(if self.keys == KeyStyle::Placeholder { "<init>" } else { "m_0" }.into()),
			(Level::Param, false) => None,
			(Level::Param, true) => Some("p_0".into()),
		}
	}

	/// the row of an entry: the alphabet symbol in the chosen namespace, the key in the first one and, in any
	/// further namespace, a name of the opposite kind (so that looking at the wrong namespace is visible)
	fn row(&self, level: Level, o: &NameOpt, ord: usize) -> Row {
		let opposite = match (level, o.placeholder) {
			(Level::Class, true) => "o/Real",
			(Level::Class, false) => "C_9",
			(Level::Field, true) => "ofield",
			(Level::Field, false) => "f_9",
			(Level::Method, true) => "omethod",
			(Level::Method, false) => "m_9",
			(Level::Param, true) => "oparam",
			(Level::Param, false) => "p_9",
		};
		(0..self.n).map(|j| {
			if j == self.chosen {
				o.name.map(|s| s.to_owned())
			} else if j == 0 {
				self.first_name(level, o, ord)
			} else {
				Some(opposite.to_owned())
			}
		}).collect()
	}

	fn decode_class(&self, mut v: u64, ord: usize) -> (String, MClass) {
		let a = &self.alpha;
		let take = |v: &mut u64, d: u64| -> u64 {
			let r = *v % d;
			*v /= d;
			r
		};
		let m_slots: Vec<u64> = (0..a.max_methods).map(|_| take(&mut v, a.method_slot())).collect();
		let f_slots: Vec<u64> = (0..a.max_fields).map(|_| take(&mut v, a.field_slot())).collect();
		let c_doc = take(&mut v, a.doc_dim(Level::Class)) == 1;
		let c_name = &a.class[take(&mut v, a.class.len() as u64) as usize];
		let names = self.row(Level::Class, c_name, ord);
		let key = names[0].clone().unwrap_or_else(|| fail("class without first name"));
		let mut c = MClass { names, doc: c_doc.then(|| "class comment".to_owned()), ..Default::default() };
		for (i, f_slot) in f_slots.into_iter().enumerate() {
			if f_slot > 0 {
				let mut s = f_slot - 1;
				let doc = take(&mut s, a.doc_dim(Level::Field)) == 1;
				let o = &a.field[s as usize];
				let names = self.row(Level::Field, o, 0);
				let k = names[0].clone().unwrap_or_else(|| fail("field without first name"));
				if c.fields.insert((k, FIELD_DESCS[i].into()), MField { names, doc: doc.then(|| "field comment".to_owned()) }).is_some() {
					fail("generator produced two fields with one key");
				}
			}
		}
		for (i, m_slot) in m_slots.into_iter().enumerate() {
			if m_slot > 0 {
				let mut s = m_slot - 1;
				let mut params = BTreeMap::new();
				for index in 0..a.max_params {
					let p_slot = take(&mut s, a.param_slot());
					if p_slot > 0 {
						let mut p = p_slot - 1;
						let doc = take(&mut p, a.doc_dim(Level::Param)) == 1;
						let o = &a.param[p as usize];
						params.insert(index, MParam { names: self.row(Level::Param, o, 0), doc: doc.then(|| "parameter comment".to_owned()) });
					}
				}
				let doc = take(&mut s, a.doc_dim(Level::Method)) == 1;
				let o = &a.method[s as usize];
				let names = self.row(Level::Method, o, 0);
				let k = names[0].clone().unwrap_or_else(|| fail("method without first name"));
				if c.methods.insert((k, METHOD_DESCS[i].into()), MMethod { names, doc: doc.then(|| "method comment".to_owned()), params }).is_some() {
					fail("generator produced two methods with one key");
				}
			}
		}
		self.pad_class(&mut c);
		(key, c)
	}

	fn decode(&self, mut idx: u64) -> MSet {
		let mut set = MSet { ns: self.ns(), doc: self.top_doc.then(|| "top".to_owned()), classes: BTreeMap::new() };
		let cv = self.alpha.class_variants();
		for ord in 0..self.classes {
			let (k, c) = self.decode_class(idx % cv, ord);
			idx /= cv;
			if set.classes.insert(k, c).is_some() {
				fail("generator produced two classes with one key");
			}
		}
		set
	}
}

fn alpha_of(class: &[NameOpt], field: &[NameOpt], method: &[NameOpt], param: &[NameOpt], max_params: usize) -> Alpha {
	Alpha { class: class.to_vec(), field: field.to_vec(), method: method.to_vec(), param: param.to_vec(), max_params, max_fields: 1, max_methods: 1, docs: [true; 4] }
}

/// the extended alphabets: every labelled symbol
fn alpha_full(max_params: usize) -> Alpha {
	alpha_of(CLASS_NAMES, FIELD_NAMES, METHOD_NAMES, PARAM_NAMES, max_params)
}

/// the alphabets the check had before the extension (a prefix of the extended ones)
fn alpha_design(max_params: usize) -> Alpha {
	alpha_of(&CLASS_NAMES[..DESIGN_SIZES[0]], &FIELD_NAMES[..DESIGN_SIZES[1]], &METHOD_NAMES[..DESIGN_SIZES[2]], &PARAM_NAMES[..DESIGN_SIZES[3]], max_params)
}

fn alpha_two_classes() -> Alpha {
	alpha_of(CLASS_NAMES_2, FIELD_NAMES_2, METHOD_NAMES_2, PARAM_NAMES_2, 1)
}

/// two classes, small enough for the quick tier
fn alpha_two_classes_small() -> Alpha {
	alpha_of(CLASS_NAMES_3, FIELD_NAMES_2, METHOD_NAMES_4, PARAM_NAMES_2, 1)
}

/// three classes: comments only at the class
fn alpha_three_classes(method_and_parameter_comments: bool) -> Alpha {
	Alpha { docs: [true, false, method_and_parameter_comments, method_and_parameter_comments], ..alpha_of(CLASS_NAMES_4, FIELD_NAMES_2, METHOD_NAMES_4, PARAM_NAMES_2, 1) }
}

/// one class with up to `fields` fields and `methods` methods of up to `params` parameters each: siblings that share
/// their first-namespace name, some removed and some retained, in every combination
fn alpha_siblings(methods: &[NameOpt], fields: usize, n_methods: usize, params: usize) -> Alpha {
	Alpha { max_fields: fields, max_methods: n_methods, ..alpha_of(CLASS_NAMES_4, FIELD_NAMES_2, methods, PARAM_NAMES_2, params) }
}

/// one level takes every name there is (the alphabets above, the odd names and the multi-byte sweep), the other levels
/// the smallest alphabet that still has both kinds
fn alpha_names(level: Level) -> Alpha {
	let every = |base: &[NameOpt], odd: &[NameOpt]| -> Vec<NameOpt> { base.iter().chain(odd).copied().chain(text_names(level)).collect() };
	let mut a = alpha_of(CLASS_NAMES_4, FIELD_NAMES_2, METHOD_NAMES_4, PARAM_NAMES_2, 1);
	match level {
		Level::Class => a.class = every(CLASS_NAMES, CLASS_NAMES_ODD),
		Level::Field => a.field = every(FIELD_NAMES, FIELD_NAMES_ODD),
		Level::Method => a.method = every(METHOD_NAMES, METHOD_NAMES_ODD),
		Level::Param => a.param = every(PARAM_NAMES, PARAM_NAMES_ODD),
	}
	a
}

/// chosen namespace = the first one: the name is the key, so class/field/method cannot be absent
fn without_absent_keys(mut a: Alpha) -> Alpha {
	a.class.retain(|o| o.name.is_some());
	a.field.retain(|o| o.name.is_some());
	a.method.retain(|o| o.name.is_some());
	a
}

fn remove_configs(tier: Tier) -> Vec<RConfig> {
	let mut out = Vec::new();
	let mut push = |label: &str, n: usize, chosen: usize, keys: KeyStyle, order: Order, alpha: Alpha, classes: usize, top_doc: bool| {
		out.push(RConfig { label: label.to_owned(), n, chosen, keys, order, alpha, classes, top_doc, pad: (0, 0) });
	};
	let p = tier.pick(1, 2);
	push("N=2/ns1/real-keys", 2, 1, KeyStyle::Real, Order::Sorted, alpha_full(p), 1, false);
	push("N=2/ns1/placeholder-keys", 2, 1, KeyStyle::Placeholder, Order::Reversed, alpha_full(p), 1, true);
	push("N=2/ns1/inverted-keys", 2, 1, KeyStyle::Inverted, Order::Sorted, tier.pick(alpha_design(2), alpha_full(2)), 1, false);
	push("N=3/ns1/inverted", 3, 1, KeyStyle::Inverted, Order::Reversed, alpha_full(p), 1, false);
	push("N=3/ns2/inverted", 3, 2, KeyStyle::Inverted, Order::Sorted, alpha_full(p), 1, true);
	push("N=2/ns0", 2, 0, KeyStyle::Real, Order::Sorted, without_absent_keys(alpha_full(p)), 1, false);
	// added by the extension
	push("N=1/ns0", 1, 0, KeyStyle::Real, Order::Reversed, without_absent_keys(alpha_full(1)), 1, true);
	push("N=4/ns3/inverted", 4, 3, KeyStyle::Inverted, Order::Sorted, alpha_full(1), 1, false);
	push("siblings/N=2/ns1/inverted", 2, 1, KeyStyle::Inverted, Order::Reversed, alpha_siblings(METHOD_NAMES_4, 2, 2, 2), 1, false);
	push("two-classes-small/N=2/ns1/real-keys", 2, 1, KeyStyle::Real, Order::Reversed, alpha_two_classes_small(), 2, false);
	push("three-classes/N=3/ns2/inverted", 3, 2, KeyStyle::Inverted, Order::Rotated(1), alpha_three_classes(false), 3, true);
	// added by the second extension
	push("N=2/ns1/same-keys", 2, 1, KeyStyle::Same, Order::Sorted, alpha_full(p), 1, false);
	push("N=3/ns2/same-keys", 3, 2, KeyStyle::Same, Order::Reversed, tier.pick(alpha_design(1), alpha_full(2)), 1, true);
	for level in [Level::Class, Level::Field, Level::Method, Level::Param] {
		let l = level.name();
		push(&format!("names/{l}/N=2/ns1/inverted"), 2, 1, KeyStyle::Inverted, Order::Sorted, alpha_names(level), 1, false);
		push(&format!("names/{l}/N=1/ns0"), 1, 0, KeyStyle::Real, Order::Reversed, without_absent_keys(alpha_names(level)), 1, false);
		push(&format!("names/{l}/N=3/ns1/same-keys"), 3, 1, KeyStyle::Same, Order::Reversed, alpha_names(level), 1, true);
	}
	if tier == Tier::Thorough {
		push("N=3/ns2/placeholder-keys", 3, 2, KeyStyle::Placeholder, Order::Reversed, alpha_full(2), 1, false);
		push("N=3/ns0", 3, 0, KeyStyle::Real, Order::Reversed, without_absent_keys(alpha_full(2)), 1, true);
		push("two-classes/N=2/ns1/inverted", 2, 1, KeyStyle::Inverted, Order::Reversed, alpha_two_classes(), 2, false);
		push("two-classes/N=3/ns2/placeholder-keys", 3, 2, KeyStyle::Placeholder, Order::Sorted, alpha_two_classes(), 2, false);
		push("N=4/ns1/placeholder-keys", 4, 1, KeyStyle::Placeholder, Order::Reversed, alpha_design(2), 1, true);
		push("siblings/N=3/ns1/placeholder-keys", 3, 1, KeyStyle::Placeholder, Order::Rotated(1), alpha_siblings(METHOD_NAMES_2, 2, 2, 2), 1, true);
		push("siblings-three/N=2/ns1/real-keys", 2, 1, KeyStyle::Real, Order::Rotated(2), Alpha { docs: [true, false, true, false], ..alpha_siblings(METHOD_NAMES_4, 3, 3, 2) }, 1, false);
		push("three-classes/N=2/ns1/placeholder-keys", 2, 1, KeyStyle::Placeholder, Order::Rotated(2), alpha_three_classes(true), 3, false);
	}
	// many siblings (second extension): numbers of removed / retained entries in one map that do not fit one or two bytes
	let widths: Vec<usize> = tier.pick(vec![255, 256, 257], vec![255, 256, 257, 65535, 65536, 65537]);
	for w in widths {
		let kinds: &[(&str, (usize, usize))] = if w < 1000 { &[("removed", (w, 0)), ("retained", (0, w)), ("removed-and-one-retained", (w, 1))] } else { &[("removed", (w, 0)), ("retained", (0, w))] };
		for (what, pad) in kinds {
			out.push(RConfig {
				label: format!("many-siblings/{w}-{what}/N=2/ns1"), n: 2, chosen: 1, keys: KeyStyle::Real, order: Order::Sorted,
				alpha: alpha_of(CLASS_NAMES_4, FIELD_NAMES_2, METHOD_NAMES_4, PARAM_NAMES_2, 1), classes: 1, top_doc: false, pad: *pad,
			});
		}
	}
	out
}

// ---------------------------------------------------------------------------------------------
// remove_dummy: running the real code

fn real_remove_n<const N: usize>(m: &MSet, ns: &str, order: Order) -> Result<Result<MSet, String>, String> {
	let q: Mappings<N, ()> = mapmodel::to_quill_ordered(m, order).map_err(|e| format!("harness: cannot build the quill object: {e:#}"))?;
	Ok(match q.remove_dummy(ns) {
		Ok(r) => mapmodel::from_quill(&r).map_err(|k| format!("key-invariant: {}", k.0)),
		Err(e) => Err(format!("refused: {e:#}")),
	})
}

/// `Err(Panic)`; `Ok(Ok(set))`; `Ok(Err(text))` for a refusal or a broken key invariant
fn real_remove(m: &MSet, ns: &str, order: Order) -> Result<Result<MSet, String>, vcore::Panic> {
	let r = vcore::guard(|| match m.n() {
		1 => real_remove_n::<1>(m, ns, order),
		2 => real_remove_n::<2>(m, ns, order),
		3 => real_remove_n::<3>(m, ns, order),
		4 => real_remove_n::<4>(m, ns, order),
		n => Err(format!("harness: unsupported namespace count {n}")),
	})?;
	match r {
		Ok(x) => Ok(x),
		Err(e) => fail(&e),
	}
}

// ---------------------------------------------------------------------------------------------
// remove_dummy: the oracle

#[derive(Clone, Copy, Debug, PartialEq, Eq)]
enum Why {
	/// placeholder name, no comment, nothing left below: the rules delete it
	Removed,
	/// the name in the chosen namespace is not a placeholder (or there is none)
	Name,
	Comment,
	Child,
	CommentAndChild,
}

fn why(level: Level, name: Option<&str>, has_comment: bool, remaining_children: usize) -> Why {
	if !documented_placeholder(level, name) {
		Why::Name
	} else {
		match (has_comment, remaining_children > 0) {
			(false, false) => Why::Removed,
			(true, false) => Why::Comment,
			(false, true) => Why::Child,
			(true, true) => Why::CommentAndChild,
		}
	}
}

struct Judge<'a> {
	rep: &'a dyn Report,
	st: &'a mut Stats,
	engine: &'static str,
	replay: &'a dyn Fn() -> String,
	reported: bool,
}

impl Judge<'_> {
	fn diff(&mut self, key: &str, what: &str) {
		self.reported = true;
		self.rep.report(&format!("{}:{key}", self.engine), what, self.replay);
	}
	fn tally(&mut self, name: &str) {
		self.st.outcome(name);
	}
}

/// the place of an entry, rendered only when a difference is reported
struct Path<'a>(&'a dyn Fn() -> String);

impl std::fmt::Display for Path<'_> {
	fn fmt(&self, f: &mut std::fmt::Formatter<'_>) -> std::fmt::Result {
		f.write_str(&(self.0)())
	}
}

struct EntryView<'a> {
	names: &'a Row,
	doc: &'a Option<String>,
}

impl Judge<'_> {
	#[allow(clippy::too_many_arguments)]
	fn remove_entry(&mut self, level: Level, w: Why, tag: &str, path: &Path, input: EntryView, actual: Option<EntryView>, parent_gone_as_expected: bool) {
		let l = level.name();
		if parent_gone_as_expected {
			// deleted together with its (rightly deleted) parent; the rules deleted it before the parent
			self.tally(&format!("{l}:removed:{tag}"));
			return;
		}
		let reason = match w {
			Why::Removed => String::new(),
			Why::Name => format!("name-{tag}"),
			Why::Comment => "comment".into(),
			Why::Child => "retained-child".into(),
			Why::CommentAndChild => "comment-and-child".into(),
		};
		match (w, actual) {
			(Why::Removed, None) => self.tally(&format!("{l}:removed:{tag}")),
			(Why::Removed, Some(_)) => self.diff(&format!("{l}:placeholder-kept:{tag}"), &format!("{path}: placeholder-named {l} without comment and without remaining children was not removed")),
			(_, None) => self.diff(&format!("{l}:removed-despite:{reason}"), &format!("{path}: {l} was removed although the documented rules keep it ({reason})")),
			(_, Some(a)) => {
				self.tally(&format!("{l}:kept:{reason}"));
				if a.names != input.names {
					self.diff(&format!("{l}:names-changed"), &format!("{path}: names of a retained {l} changed from {:?} to {:?}", input.names, a.names));
				}
				if a.doc != input.doc {
					self.diff(&format!("{l}:comment-changed"), &format!("{path}: comment of a retained {l} changed from {:?} to {:?}", input.doc, a.doc));
				}
			},
		}
	}
}

/// Judges one result of the real `remove_dummy`, entry by entry, against the documented rules.
fn judge_remove(j: &mut Judge, alpha: &Alpha, t: usize, input: &MSet, out: &MSet, expected: &MSet) {
	if out.ns != input.ns {
		j.diff("namespaces-changed", &format!("namespaces changed from {:?} to {:?}", input.ns, out.ns));
	}
	if out.doc != input.doc {
		j.diff("mappings-comment-changed", "the comment of the mapping set changed");
	}
	for (ck, c) in &input.classes {
		// bottom-up: parameters, then methods and fields, then the class
		let field_whys: Vec<Why> = c.fields.values().map(|f| why(Level::Field, f.names[t].as_deref(), f.doc.is_some(), 0)).collect();
		let mut method_whys = Vec::new();
		for m in c.methods.values() {
			let pw: Vec<Why> = m.params.values().map(|p| why(Level::Param, p.names[t].as_deref(), p.doc.is_some(), 0)).collect();
			let remaining = pw.iter().filter(|w| **w != Why::Removed).count();
			method_whys.push((why(Level::Method, m.names[t].as_deref(), m.doc.is_some(), remaining), pw));
		}
		let remaining = field_whys.iter().filter(|w| **w != Why::Removed).count() + method_whys.iter().filter(|(w, _)| *w != Why::Removed).count();
		let cw = why(Level::Class, c.names[t].as_deref(), c.doc.is_some(), remaining);

		// compare with what the real code returned
		let oc = out.classes.get(ck);
		let cpath_text = || format!("class {ck:?}");
		let cpath = Path(&cpath_text);
		j.remove_entry(Level::Class, cw, alpha.tag(Level::Class, c.names[t].as_deref()), &cpath, EntryView { names: &c.names, doc: &c.doc }, oc.map(|o| EntryView { names: &o.names, doc: &o.doc }), false);
		let class_gone_ok = cw == Why::Removed && oc.is_none();
		if oc.is_some() || class_gone_ok {
			for ((fk, f), w) in c.fields.iter().zip(&field_whys) {
				let of = oc.and_then(|o| o.fields.get(fk));
				j.remove_entry(Level::Field, *w, alpha.tag(Level::Field, f.names[t].as_deref()), &Path(&|| format!("field {fk:?} of {cpath}")), EntryView { names: &f.names, doc: &f.doc }, of.map(|o| EntryView { names: &o.names, doc: &o.doc }), class_gone_ok);
			}
			for ((mk, m), (w, pw)) in c.methods.iter().zip(&method_whys) {
				let om = oc.and_then(|o| o.methods.get(mk));
				let mpath_text = || format!("method {mk:?} of {cpath}");
				let mpath = Path(&mpath_text);
				j.remove_entry(Level::Method, *w, alpha.tag(Level::Method, m.names[t].as_deref()), &mpath, EntryView { names: &m.names, doc: &m.doc }, om.map(|o| EntryView { names: &o.names, doc: &o.doc }), class_gone_ok);
				let method_gone_ok = class_gone_ok || (*w == Why::Removed && om.is_none() && oc.is_some());
				if om.is_some() || method_gone_ok {
					for ((pk, p), w) in m.params.iter().zip(pw) {
						let op = om.and_then(|o| o.params.get(pk));
						j.remove_entry(Level::Param, *w, alpha.tag(Level::Param, p.names[t].as_deref()), &Path(&|| format!("parameter {pk} of {mpath}")), EntryView { names: &p.names, doc: &p.doc }, op.map(|o| EntryView { names: &o.names, doc: &o.doc }), method_gone_ok);
					}
				}
				if let Some(om) = om {
					for pk in om.params.keys().filter(|k| !m.params.contains_key(k)) {
						j.diff("parameter:invented", &format!("parameter {pk} of {mpath} is not in the input"));
					}
				}
			}
			if let Some(oc) = oc {
				for fk in oc.fields.keys().filter(|k| !c.fields.contains_key(*k)) {
					j.diff("field:invented", &format!("field {fk:?} of {cpath} is not in the input"));
				}
				for mk in oc.methods.keys().filter(|k| !c.methods.contains_key(*k)) {
					j.diff("method:invented", &format!("method {mk:?} of {cpath} is not in the input"));
				}
			}
		}
	}
	for ck in out.classes.keys().filter(|k| !input.classes.contains_key(*k)) {
		j.diff("class:invented", &format!("class {ck:?} is not in the input"));
	}
	if out != expected && !j.reported {
		let (k, what) = mapmodel::first_difference(expected, out).unwrap_or(("other".into(), "sets differ".into()));
		j.diff(&format!("other:{k}"), &format!("result differs from the documented rules: {what}"));
	}
	if out == expected && j.reported {
		fail("the entry-wise judgement reported a difference although the result equals the expected set");
	}
}

fn remove_replay_text(cfg: &RConfig, idx: u64, input: &MSet, expected: Option<&MSet>, actual: &str) -> String {
	format!(
		"engine=remove_dummy\nconfig={}\nindex={idx}\ncall: remove_dummy({:?}) on (insertion order {:?})\n{}\nexpected by the documented rules:\n{}\nactual:\n{}",
		cfg.label, cfg.ns()[cfg.chosen], cfg.order, mapmodel::tiny::print(input),
		expected.map(mapmodel::tiny::print).unwrap_or_else(|| "(see rules)".into()), actual,
	)
}

fn remove_case(rep: &dyn Report, cfg: &RConfig, idx: u64, st: &mut Stats) {
	let input = cfg.decode(idx);
	let ns = cfg.ns()[cfg.chosen].clone();
	st.eval();
	let out = match real_remove(&input, &ns, cfg.order) {
		Err(p) => {
			rep.report(&format!("remove_dummy:panic@{}", p.file()), &format!("panic at {}: {}", p.site, p.msg), &|| remove_replay_text(cfg, idx, &input, None, "panic"));
			st.outcome("case:panic");
			return;
		},
		Ok(Err(e)) => {
			let key = if e.starts_with("key-invariant") { "remove_dummy:key-invariant" } else { "remove_dummy:refused" };
			rep.report(key, &e, &|| remove_replay_text(cfg, idx, &input, None, &e));
			st.outcome("case:error");
			return;
		},
		Ok(Ok(o)) => o,
	};
	let expected = expected_remove(&input, cfg.chosen);
	let replay = || remove_replay_text(cfg, idx, &input, Some(&expected), &mapmodel::tiny::print(&out));
	let mut j = Judge { rep, st, engine: "remove_dummy", replay: &replay, reported: false };
	judge_remove(&mut j, &cfg.alpha, cfg.chosen, &input, &out, &expected);
	let removed = input.entries() - out.entries().min(input.entries());
	// vacuity evidence for the sibling sweeps: some entries of one map removed, others of the same map retained
	if out == expected {
		fn mixed(st: &mut Stats, level: Level, before: usize, after: usize) {
			if before >= 2 && after > 0 && after < before {
				st.outcome(&format!("mixed-siblings:{}", level.name()));
			}
		}
		mixed(st, Level::Class, input.classes.len(), out.classes.len());
		for (ck, c) in &input.classes {
			if let Some(oc) = out.classes.get(ck) {
				mixed(st, Level::Field, c.fields.len(), oc.fields.len());
				mixed(st, Level::Method, c.methods.len(), oc.methods.len());
				for (mk, m) in &c.methods {
					if let Some(om) = oc.methods.get(mk) {
						mixed(st, Level::Param, m.params.len(), om.params.len());
					}
				}
				// two methods under one name: one removed, one retained
				for (mk, _) in c.methods.iter().filter(|(mk, _)| !oc.methods.contains_key(*mk)) {
					if oc.methods.keys().any(|k| k.0 == mk.0) {
						st.outcome("mixed-siblings:method-sharing-its-name");
					}
				}
				for (fk, _) in c.fields.iter().filter(|(fk, _)| !oc.fields.contains_key(*fk)) {
					if oc.fields.keys().any(|k| k.0 == fk.0) {
						st.outcome("mixed-siblings:field-sharing-its-name");
					}
				}
			}
		}
	}
	if out != input {
		st.outcome("case:something-removed");
		st.distinct.add(&(cfg.chosen, &input));
		if cfg.pad != (0, 0) {
			st.outcome(if out.entries() + 256 <= input.entries() { "many-siblings:255-or-more-removed" } else { "many-siblings:fewer-removed" });
			if out.entries() > 256 {
				st.outcome("many-siblings:255-or-more-retained");
			}
		}
		// (the padded sets are too long for a sample)
		st.sample(&format!("remove-{}", if cfg.pad == (0, 0) { removed.min(3).to_string() } else { "many".to_owned() }), || if cfg.pad != (0, 0) { json!({"kind": "remove_dummy", "config": cfg.label, "index": idx, "namespace": ns, "entries_in": input.entries(), "entries_out": out.entries()}) } else { json!({"kind": "remove_dummy", "config": cfg.label, "index": idx, "namespace": ns, "input": mapmodel::tiny::print(&input), "output": mapmodel::tiny::print(&out)}) });
	} else {
		st.outcome("case:nothing-removed");
	}
	// idempotence, on the real code
	st.eval();
	match real_remove(&out, &ns, cfg.order) {
		Ok(Ok(again)) => {
			if again != out {
				rep.report("remove_dummy:not-idempotent", "remove_dummy(remove_dummy(M)) differs from remove_dummy(M)", &|| format!("{}\nsecond application:\n{}", replay(), mapmodel::tiny::print(&again)));
			}
		},
		Ok(Err(e)) => rep.report("remove_dummy:second-application-refused", &e, &replay),
		Err(p) => rep.report(&format!("remove_dummy:panic@{}", p.file()), &format!("second application: panic at {}: {}", p.site, p.msg), &replay),
	}
}

/// The documented rules as a constructive bottom-up copy of everything that stays.
fn expected_remove(input: &MSet, t: usize) -> MSet {
	let mut expected = MSet { ns: input.ns.clone(), doc: input.doc.clone(), classes: BTreeMap::new() };
	for (ck, c) in &input.classes {
		let mut ec = MClass { names: c.names.clone(), doc: c.doc.clone(), ..Default::default() };
		for (fk, f) in &c.fields {
			if why(Level::Field, f.names[t].as_deref(), f.doc.is_some(), 0) != Why::Removed {
				ec.fields.insert(fk.clone(), f.clone());
			}
		}
		for (mk, m) in &c.methods {
			let mut em = MMethod { names: m.names.clone(), doc: m.doc.clone(), params: BTreeMap::new() };
			for (pk, p) in &m.params {
				if why(Level::Param, p.names[t].as_deref(), p.doc.is_some(), 0) != Why::Removed {
					em.params.insert(*pk, p.clone());
				}
			}
			if why(Level::Method, m.names[t].as_deref(), m.doc.is_some(), em.params.len()) != Why::Removed {
				ec.methods.insert(mk.clone(), em);
			}
		}
		if why(Level::Class, c.names[t].as_deref(), c.doc.is_some(), ec.fields.len() + ec.methods.len()) != Why::Removed {
			expected.classes.insert(ck.clone(), ec);
		}
	}
	expected
}

fn run_remove(ctx: &'static Ctx, cfg: &RConfig) -> Stats {
	cfg.alpha.self_check();
	(0..cfg.total()).into_par_iter().fold(Stats::new, |mut st, idx| {
		vcore::watched(|| format!("engine=remove_dummy\nconfig={}\nindex={idx}", cfg.label), || remove_case(ctx, cfg, idx, &mut st));
		st
	}).reduce(Stats::new, Stats::merge)
}

// ---------------------------------------------------------------------------------------------
// insert_dummy_and_contract_inner_names: the diff space

#[derive(Clone, Copy, Debug, PartialEq, Eq)]
enum NA {
	None,
	Add,
	Remove,
	Edit,
	EditSame,
	/// a removal whose old name already is the placeholder (the rewritten edit then changes nothing)
	RemovePlaceholder,
	/// the placeholder in the other positions an action has: it is an ordinary name there
	/// (an addition of it is an addition, an edit to it or away from it changes the name)
	AddPlaceholder,
	EditToPlaceholder,
	EditFromPlaceholder,
}

#[derive(Clone, Copy, Debug, PartialEq, Eq)]
enum DA {
	None,
	Add,
	Remove,
	Edit,
	EditSame,
}

const NA_ALL: &[NA] = &[NA::None, NA::Add, NA::Remove, NA::Edit, NA::EditSame, NA::RemovePlaceholder];
const DA_ALL: &[DA] = &[DA::None, DA::Add, DA::Remove, DA::Edit, DA::EditSame];
const NA_PLACEHOLDERS: &[NA] = &[NA::None, NA::Add, NA::Remove, NA::Edit, NA::EditSame, NA::RemovePlaceholder, NA::AddPlaceholder, NA::EditToPlaceholder, NA::EditFromPlaceholder];
const NA_SMALL: &[NA] = &[NA::None, NA::Add, NA::Remove, NA::EditSame];
const DA_SMALL: &[DA] = &[DA::None, DA::Add];

#[derive(Clone, Debug)]
struct DVariant {
	label: String,
	/// (key, hand-labelled name a removal of this class has to be edited back to); all classes have the same shape
	classes: Vec<(&'static str, &'static str)>,
	fields: Vec<(&'static str, &'static str)>,
	methods: Vec<(&'static str, &'static str)>,
	/// (index, hand-labelled placeholder)
	params: Vec<(usize, &'static str)>,
	na: &'static [NA],
	da: &'static [DA],
	order: Order,
	/// also explore the namespace action × comment action of the diff itself
	top: bool,
	/// the names inside the class name actions are inner-class names themselves (they must come out untouched)
	dollar_names: bool,
	/// the names inside all name actions hold characters of 2, 3 and 4 UTF-8 bytes
	wide_names: bool,
	/// many siblings: every class gets this many extra fields and every method this many extra parameters, all with
	/// this name action and without comment action
	pad: (usize, NA),
}

const TOP_INFO: &[NA] = &[NA::None, NA::Add, NA::Remove, NA::Edit];
const TOP_DOC: &[DA] = &[DA::None, DA::Add, DA::Remove, DA::Edit];

/// The names a removal of the class `key` may be edited back to. The statement: "source name", for an inner class the
/// "simple inner name". Where the key clearly is a top-level name (no `$` in its last `/`-separated part) or clearly an
/// inner name (`Outer$Inner` with both parts non-empty and no `$$`) there is one answer. For the shapes the statement is
/// silent about (`$A`, `A$`, `A$$B`) the source name and whatever follows the last `$` are both accepted.
fn class_placeholders(key: &str) -> Vec<String> {
	let last = key.rsplit('/').next().unwrap_or(key);
	match last.rfind('$') {
		None => vec![key.to_owned()],
		Some(i) => {
			let (outer, inner) = (&last[..i], &last[i + 1..]);
			if !outer.is_empty() && !inner.is_empty() && !outer.ends_with('$') {
				vec![inner.to_owned()]
			} else {
				let mut v = vec![key.to_owned()];
				if !inner.is_empty() {
					v.push(inner.to_owned());
				}
				v
			}
		},
	}
}

fn class_key_is_ambiguous(key: &str) -> bool {
	class_placeholders(key).len() > 1 || (key.rsplit('/').next().unwrap_or(key).contains('$') && class_placeholders(key)[0] == key)
}

/// the first (for unambiguous keys: the only) accepted placeholder
fn class_placeholder(key: &str) -> String {
	class_placeholders(key).swap_remove(0)
}

/// `p_<index>`, the index in decimal — written out digit by digit, independent of the formatting machinery the code uses
fn param_placeholder(index: usize) -> String {
	let mut digits = Vec::new();
	let mut n = index;
	loop {
		digits.push(b'0' + (n % 10) as u8);
		n /= 10;
		if n == 0 {
			break;
		}
	}
	digits.reverse();
	format!("p_{}", String::from_utf8(digits).unwrap_or_else(|_| fail("digits")))
}

impl DVariant {
	fn node(&self) -> u64 {
		(self.na.len() * self.da.len()) as u64
	}
	fn param_slot(&self) -> u64 {
		1 + self.node()
	}
	fn method_slot(&self) -> u64 {
		1 + self.node() * self.param_slot().pow(self.params.len() as u32)
	}
	fn field_slot(&self) -> u64 {
		1 + self.node()
	}
	fn class_total(&self) -> u64 {
		self.node() * self.field_slot().pow(self.fields.len() as u32) * self.method_slot().pow(self.methods.len() as u32)
	}
	fn top_total(&self) -> u64 {
		if self.top { (TOP_INFO.len() * TOP_DOC.len()) as u64 } else { 1 }
	}
	fn total(&self) -> u64 {
		self.class_total().pow(self.classes.len() as u32) * self.top_total()
	}
	fn self_check(&self) {
		for (key, label) in &self.classes {
			if class_placeholder(key) != *label {
				fail(&format!("hand label of {key:?} disagrees with class_placeholder()"));
			}
			if class_key_is_ambiguous(key) && self.na.iter().any(|a| matches!(a, NA::RemovePlaceholder | NA::AddPlaceholder | NA::EditToPlaceholder | NA::EditFromPlaceholder)) {
				fail(&format!("variant {}: a removal of the placeholder itself needs one definite placeholder, {key:?} has none", self.label));
			}
		}
		for (index, label) in &self.params {
			if param_placeholder(*index) != *label {
				fail(&format!("hand label of parameter {index} disagrees with param_placeholder()"));
			}
		}
		if self.classes.is_empty() {
			fail("variant without class");
		}
	}

	fn name_act(&self, level: Level, a: NA, placeholder: &str) -> Act {
		let (old, new, same) = match level {
			Level::Class if self.wide_names => ("\u{f6}/X$\u{1e8c}\u{20ac}", "\u{f1}/Y$\u{1f600}", "\u{df}/S$\u{15a}i"),
			Level::Field if self.wide_names => ("\u{f6}fld", "nfld\u{1f600}", "s\u{20ac}fld"),
			Level::Method if self.wide_names => ("\u{f6}meth", "nmeth\u{1f600}", "s\u{20ac}meth"),
			Level::Param if self.wide_names => ("\u{f6}prm", "nprm\u{1f600}", "s\u{20ac}prm"),
			Level::Class if self.dollar_names => ("o/X$Xi", "n/Y$Yi", "s/S$Si"),
			Level::Class => ("X", "Y", "S"),
			Level::Field => ("ofld", "nfld", "sfld"),
			Level::Method => ("ometh", "nmeth", "smeth"),
			Level::Param => ("oprm", "nprm", "sprm"),
		};
		match a {
			NA::None => Act::None,
			NA::Add => Act::Add(new.into()),
			NA::Remove => Act::Remove(old.into()),
			NA::Edit => Act::Edit(old.into(), new.into()),
			NA::EditSame => Act::Edit(same.into(), same.into()),
			NA::RemovePlaceholder => Act::Remove(placeholder.into()),
			NA::AddPlaceholder => Act::Add(placeholder.into()),
			NA::EditToPlaceholder => Act::Edit(old.into(), placeholder.into()),
			NA::EditFromPlaceholder => Act::Edit(placeholder.into(), new.into()),
		}
	}

	fn doc_act(&self, a: DA) -> Act {
		match a {
			DA::None => Act::None,
			DA::Add => Act::Add("new comment".into()),
			DA::Remove => Act::Remove("old comment".into()),
			DA::Edit => Act::Edit("old comment".into(), "new comment".into()),
			DA::EditSame => Act::Edit("same comment".into(), "same comment".into()),
		}
	}

	fn node_acts(&self, level: Level, v: u64, placeholder: &str) -> (Act, Act) {
		let d = self.da[(v % self.da.len() as u64) as usize];
		let n = self.na[(v / self.da.len() as u64) as usize];
		(self.name_act(level, n, placeholder), self.doc_act(d))
	}

	fn decode_class(&self, mut idx: u64, placeholder: &str) -> DClass {
		let take = |v: &mut u64, d: u64| -> u64 {
			let r = *v % d;
			*v /= d;
			r
		};
		let mut c = DClass::default();
		for (name, desc) in self.methods.iter().rev() {
			let slot = take(&mut idx, self.method_slot());
			if slot == 0 {
				continue;
			}
			let mut s = slot - 1;
			let mut m = DMethod::default();
			for (index, label) in self.params.iter().rev() {
				let p_slot = take(&mut s, self.param_slot());
				if p_slot > 0 {
					let (info, doc) = self.node_acts(Level::Param, p_slot - 1, label);
					m.params.insert(*index, DParam { info, doc });
				}
			}
			(m.info, m.doc) = self.node_acts(Level::Method, s, name);
			c.methods.insert((name.to_string(), desc.to_string()), m);
		}
		for (name, desc) in self.fields.iter().rev() {
			let slot = take(&mut idx, self.field_slot());
			if slot > 0 {
				let (info, doc) = self.node_acts(Level::Field, slot - 1, name);
				c.fields.insert((name.to_string(), desc.to_string()), DField { info, doc });
			}
		}
		(c.info, c.doc) = self.node_acts(Level::Class, idx, placeholder);
		for i in 0..self.pad.0 {
			let name = format!("pad{i}");
			let info = self.name_act(Level::Field, self.pad.1, &name);
			if c.fields.insert((name, "S".into()), DField { info, doc: Act::None }).is_some() {
				fail("padding field collides");
			}
			for m in c.methods.values_mut() {
				let index = PAD_PARAMETER_BASE + i;
				if m.params.insert(index, DParam { info: self.name_act(Level::Param, self.pad.1, &param_placeholder(index)), doc: Act::None }).is_some() {
					fail("padding parameter collides");
				}
			}
		}
		c
	}

	fn decode(&self, mut idx: u64) -> MDiff {
		let mut d = MDiff::default();
		let ct = self.class_total();
		for (key, placeholder) in self.classes.iter().rev() {
			d.classes.insert((*key).to_owned(), self.decode_class(idx % ct, placeholder));
			idx /= ct;
		}
		if self.top {
			let doc = TOP_DOC[(idx % TOP_DOC.len() as u64) as usize];
			let info = TOP_INFO[(idx / TOP_DOC.len() as u64) as usize];
			d.doc = self.doc_act(doc);
			d.info = match info {
				NA::None => Act::None,
				NA::Add => Act::Add("named".into()),
				NA::Remove => Act::Remove("named".into()),
				_ => Act::Edit("official".into(), "named".into()),
			};
		}
		d
	}
}

/// the indices of padding parameters start here
const PAD_PARAMETER_BASE: usize = 1000;
const NA_NO_PLACEHOLDER: &[NA] = &[NA::None, NA::Add, NA::Remove, NA::Edit, NA::EditSame];
const NA_TINY: &[NA] = &[NA::None, NA::Add, NA::Remove, NA::RemovePlaceholder];
const NA_THREE: &[NA] = &[NA::None, NA::Add, NA::Remove];
const DA_NONE: &[DA] = &[DA::None];

fn insert_variants(tier: Tier) -> Vec<DVariant> {
	let thorough = tier == Tier::Thorough;
	let one = |label: &str, class_key: &'static str, class_placeholder: &'static str, field: (&'static str, &'static str), method: (&'static str, &'static str), param: (usize, &'static str), order: Order| DVariant {
		label: label.to_owned(), classes: vec![(class_key, class_placeholder)], fields: vec![field], methods: vec![method], params: vec![param], na: NA_ALL, da: DA_ALL, order, top: false, dollar_names: class_key.contains('$'), wide_names: false, pad: (0, NA::None),
	};
	let mut out = vec![
		one("top-level", "A", "A", ("f_1", "I"), ("m_1", "(I)V"), (0, "p_0"), Order::Sorted),
		one("inner", "A$B", "B", ("fld", "I"), ("<init>", "(I)V"), (1, "p_1"), Order::Sorted),
	];
	if thorough {
		out.push(one("unmapped-inner", "net/minecraft/unmapped/C_1$C_2", "C_2", ("f_2", "LA;"), ("m_2", "(IJ)V"), (3, "p_3"), Order::Reversed));
		out.push(one("nested-inner", "pkg/Outer$Mid$Inner", "Inner", ("real", "I"), ("<clinit>", "()V"), (10, "p_10"), Order::Sorted));
		out.push(one("top-level-in-package", "pkg/sub/A", "pkg/sub/A", ("f_1", "I"), ("meth", "(I)V"), (255, "p_255"), Order::Sorted));
		out.push(one("package-with-dollar", "p$q/A", "p$q/A", ("f_1", "I"), ("m_1", "(I)V"), (2, "p_2"), Order::Sorted));
	}
	// siblings: two entries per level over a smaller action alphabet
	out.push(DVariant {
		label: "siblings/two-fields-two-params".into(), classes: vec![("A$C", "C")],
		fields: vec![("f_1", "I"), ("f_2", "I")], methods: vec![("m_1", "(II)V")], params: vec![(0, "p_0"), (1, "p_1")],
		na: if thorough { NA_ALL } else { NA_SMALL }, da: DA_SMALL, order: Order::Reversed, top: false, dollar_names: false, wide_names: false, pad: (0, NA::None),
	});
	out.push(DVariant {
		label: "siblings/two-methods".into(), classes: vec![("pkg/B", "pkg/B")],
		fields: vec![], methods: vec![("m_1", "(I)V"), ("m_1", "(J)V")], params: vec![(1, "p_1")],
		na: if thorough { NA_ALL } else { NA_SMALL }, da: DA_SMALL, order: Order::Reversed, top: false, dollar_names: false, wide_names: false, pad: (0, NA::None),
	});
	// ---- added by the extension ----
	// several classes in one diff (an outer class and its inner classes): nothing may leak from one class to the next
	out.push(DVariant {
		label: "two-classes/field-method".into(), classes: vec![("pkg/Out", "pkg/Out"), ("pkg/Out$In", "In")],
		fields: vec![("f_1", "I")], methods: vec![("m_1", "(I)V")], params: vec![],
		na: NA_TINY, da: DA_SMALL, order: Order::Sorted, top: false, dollar_names: true, wide_names: false, pad: (0, NA::None),
	});
	out.push(DVariant {
		label: "two-classes/method-parameter".into(), classes: vec![("q/M$N", "N"), ("q/M", "q/M")],
		fields: vec![], methods: vec![("<init>", "(I)V")], params: vec![(0, "p_0")],
		na: NA_TINY, da: DA_SMALL, order: Order::Reversed, top: false, dollar_names: false, wide_names: false, pad: (0, NA::None),
	});
	out.push(DVariant {
		label: "three-classes".into(), classes: vec![("r/A", "r/A"), ("r/A$B", "B"), ("r/A$B$C", "C")],
		fields: vec![("f_1", "I")], methods: vec![("m_1", "()V")], params: vec![],
		na: NA_TINY, da: DA_NONE, order: Order::Rotated(1), top: false, dollar_names: true, wide_names: false, pad: (0, NA::None),
	});
	if thorough {
		out.push(DVariant {
			label: "two-classes/full-depth".into(), classes: vec![("u/P$Q", "Q"), ("u/P", "u/P")],
			fields: vec![("f_1", "I")], methods: vec![("m_1", "(I)V")], params: vec![(2, "p_2")],
			na: NA_THREE, da: DA_SMALL, order: Order::Reversed, top: false, dollar_names: true, wide_names: false, pad: (0, NA::None),
		});
	}
	// the namespace action and the comment action of the diff itself
	out.push(DVariant {
		label: "top-level-actions".into(), classes: vec![("t/A$B", "B")],
		fields: vec![("f_1", "I")], methods: vec![("m_1", "(I)V")], params: vec![(0, "p_0")],
		na: if thorough { NA_ALL } else { NA_SMALL }, da: DA_SMALL, order: Order::Sorted, top: true, dollar_names: true, wide_names: false, pad: (0, NA::None),
	});
	// fields that share their name (they differ in the descriptor)
	out.push(DVariant {
		label: "siblings/two-fields-one-name".into(), classes: vec![("s/F", "s/F")],
		fields: vec![("f_1", "I"), ("f_1", "J")], methods: vec![], params: vec![],
		na: NA_ALL, da: DA_ALL, order: Order::Sorted, top: false, dollar_names: false, wide_names: false, pad: (0, NA::None),
	});
	// parameter indices around every width a conversion could truncate to, and the digits a non-decimal rendering changes
	let index_groups: [(&'static str, Vec<(usize, &'static str)>); 4] = [
		("i/P9", vec![(9, "p_9"), (10, "p_10")]),
		("i/P255", vec![(255, "p_255"), (256, "p_256")]),
		("i/P65535", vec![(65535, "p_65535"), (65536, "p_65536")]),
		("i/Pmax", vec![(4294967295, "p_4294967295"), (usize::MAX, if usize::BITS == 64 { "p_18446744073709551615" } else { "p_4294967295" })]),
	];
	for (key, params) in index_groups {
		if params[0].0 == params[1].0 {
			continue;
		}
		out.push(DVariant {
			label: format!("parameter-index/{}-{}", params[0].0, params[1].0), classes: vec![(key, key)],
			fields: vec![], methods: vec![("m_1", "(II)V")], params,
			na: NA_ALL, da: DA_SMALL, order: Order::Sorted, top: false, dollar_names: false, wide_names: false, pad: (0, NA::None),
		});
	}
	// shapes of the class key: where the inner name starts
	let definite: &[(&'static str, &'static str)] = &[
		("k/A$1", "1"), ("k/Outer$Mid$Inner", "Inner"), ("a$b/C", "a$b/C"), ("a$b/C$D", "D"), ("k/sub/deep/A", "k/sub/deep/A"), ("B$C", "C"),
		("net/minecraft/unmapped/C_3$C_4$C_5", "C_5"), ("k/A_B", "k/A_B"),
		// second extension: characters of 2, 3 and 4 UTF-8 bytes before, behind and around the `$`
		("k/\u{c4}$\u{d6}", "\u{d6}"), ("k/A$\u{1f600}", "\u{1f600}"), ("\u{1f600}/\u{20ac}$\u{e9}x", "\u{e9}x"), ("k/\u{c4}\u{20ac}", "k/\u{c4}\u{20ac}"), ("k/\u{1f600}$B", "B"),
	];
	for (key, label) in definite {
		out.push(DVariant {
			label: format!("class-key/{key}"), classes: vec![(key, label)],
			fields: vec![("f_1", "I")], methods: vec![], params: vec![],
			na: NA_ALL, da: DA_SMALL, order: Order::Sorted, top: false, dollar_names: true, wide_names: false, pad: (0, NA::None),
		});
	}
	// … and the shapes the statement does not define an inner name for: everything but the placeholder itself is judged
	let ambiguous: &[(&'static str, &'static str)] = &[("k/A$", "k/A$"), ("k/$A", "k/$A"), ("$A", "$A"), ("A$", "A$"), ("k/A$$B", "k/A$$B"), ("$", "$")];
	for (key, label) in ambiguous {
		out.push(DVariant {
			label: format!("class-key-undefined/{key}"), classes: vec![(key, label)],
			fields: vec![("f_1", "I")], methods: vec![], params: vec![],
			na: NA_NO_PLACEHOLDER, da: DA_SMALL, order: Order::Sorted, top: false, dollar_names: true, wide_names: false, pad: (0, NA::None),
		});
	}
	// ---- added by the second extension ----
	// the placeholder in every position of a name action (state that is already there): removal of it, addition of it,
	// edit to it, edit away from it, at all four levels, below a top-level and an inner class
	for (label, key, placeholder, field, method, param) in [
		("placeholder-names/top-level", "h/T", "h/T", ("f_7", "I"), ("m_7", "(I)V"), (0, "p_0")),
		("placeholder-names/inner", "h/U$V", "V", ("fld", "J"), ("<init>", "(JI)V"), (2, "p_2")),
	] {
		out.push(DVariant {
			label: label.into(), classes: vec![(key, placeholder)], fields: vec![field], methods: vec![method], params: vec![param],
			na: NA_PLACEHOLDERS, da: if thorough { DA_ALL } else { DA_SMALL }, order: Order::Reversed, top: false, dollar_names: key.contains('$'), wide_names: false, pad: (0, NA::None),
		});
	}
	// two names for one thing: inner classes of different outer classes that share their simple name (one placeholder
	// for both), top-level classes of different packages that share theirs
	out.push(DVariant {
		label: "two-classes/same-inner-name".into(), classes: vec![("v/A$In", "In"), ("v/B$In", "In")],
		fields: vec![("f_1", "I")], methods: vec![("m_1", "()V")], params: vec![],
		na: NA_THREE, da: DA_SMALL, order: Order::Sorted, top: false, dollar_names: true, wide_names: false, pad: (0, NA::None),
	});
	out.push(DVariant {
		label: "two-classes/same-simple-name".into(), classes: vec![("w1/S", "w1/S"), ("w2/S", "w2/S")],
		fields: vec![("f_1", "I")], methods: vec![("m_1", "()V")], params: vec![],
		na: NA_TINY, da: DA_NONE, order: Order::Reversed, top: false, dollar_names: false, wide_names: false, pad: (0, NA::None),
	});
	// placement: the first, the middle and the last of three siblings
	out.push(DVariant {
		label: "siblings/three-params".into(), classes: vec![("x/P3", "x/P3")],
		fields: vec![], methods: vec![("m_1", "(III)V")], params: vec![(0, "p_0"), (1, "p_1"), (2, "p_2")],
		na: NA_TINY, da: DA_SMALL, order: Order::Rotated(1), top: false, dollar_names: false, wide_names: false, pad: (0, NA::None),
	});
	out.push(DVariant {
		label: "siblings/three-fields-three-methods".into(), classes: vec![("x/F3$M3", "M3")],
		fields: vec![("f_1", "I"), ("f_2", "I"), ("f_1", "J")], methods: vec![("m_1", "()V"), ("m_2", "()V"), ("m_1", "(I)V")], params: vec![],
		na: NA_TINY, da: DA_NONE, order: Order::Rotated(2), top: false, dollar_names: false, wide_names: false, pad: (0, NA::None),
	});
	// many siblings: numbers of discarded / rewritten entries in one map that do not fit one or two bytes
	// (no two-byte widths here: the workers' watchdog counts wall time per case, and a diff of 130 000 nodes on a busy
	// machine must not become a timeout)
	let many: [(&'static str, &'static str, usize, NA); 4] = [
		("y/A255", "255-additions", 255, NA::Add), ("y/A256", "256-additions", 256, NA::Add),
		("y/R255", "255-removals", 255, NA::Remove), ("y/R256", "256-removals", 256, NA::Remove),
	];
	for (key, what, n, kind) in many {
		out.push(DVariant {
			label: format!("many-siblings/{what}"), classes: vec![(key, key)],
			fields: vec![("f_1", "I")], methods: vec![("m_1", "(I)V")], params: vec![(0, "p_0")],
			na: NA_THREE, da: DA_SMALL, order: Order::Sorted, top: false, dollar_names: false, wide_names: false, pad: (n, kind),
		});
	}
	// text is bytes: every key and every name inside an action holds characters of 2, 3 and 4 UTF-8 bytes
	out.push(DVariant {
		label: "multibyte".into(), classes: vec![("\u{fc}/\u{c4}$\u{d6}\u{1f600}", "\u{d6}\u{1f600}")],
		fields: vec![("f\u{e9}", "I")], methods: vec![("m\u{20ac}\u{e9}", "(I)V")], params: vec![(1, "p_1")],
		na: NA_ALL, da: DA_SMALL, order: Order::Sorted, top: false, dollar_names: true, wide_names: true, pad: (0, NA::None),
	});
	out
}

// ---------------------------------------------------------------------------------------------
// insert_dummy: running the real code and the oracle

fn real_insert(d: &MDiff, order: Order) -> Result<Result<MDiff, String>, vcore::Panic> {
	let q = mapmodel::diff_to_quill(d, order).unwrap_or_else(|e| fail(&format!("harness: cannot build the quill diff: {e:#}")));
	vcore::guard(move || match q.insert_dummy_and_contract_inner_names() {
		Ok(r) => Ok(mapmodel::diff_from_quill(&r)),
		Err(e) => Err(format!("{e:#}")),
	})
}

fn is_add(a: &Act) -> bool {
	matches!(a, Act::Add(_))
}

fn change_free(a: &Act) -> bool {
	match a {
		Act::None => true,
		Act::Edit(x, y) => x == y,
		_ => false,
	}
}

/// what the statement makes of a name action: a removal becomes an edit back to the placeholder, the rest stays
fn rewritten(info: &Act, placeholder: &str) -> Act {
	match info {
		Act::Remove(a) => Act::Edit(a.clone(), placeholder.to_owned()),
		other => other.clone(),
	}
}

/// does the node itself (after rewriting) change anything?
fn changes(info: &Act, doc: &Act, placeholder: &str) -> bool {
	!change_free(&rewritten(info, placeholder)) || !change_free(doc)
}

fn must_keep_leaf(info: &Act, doc: &Act, placeholder: &str) -> bool {
	!is_add(info) && changes(info, doc, placeholder)
}

fn must_keep_method(m: &DMethod, name: &str) -> bool {
	m.params.iter().any(|(i, p)| must_keep_leaf(&p.info, &p.doc, &param_placeholder(*i))) || (!is_add(&m.info) && changes(&m.info, &m.doc, name))
}

fn must_keep_class(c: &DClass, key: &str) -> bool {
	c.fields.iter().any(|((n, _), f)| must_keep_leaf(&f.info, &f.doc, n))
		|| c.methods.iter().any(|((n, _), m)| must_keep_method(m, n))
		|| (!is_add(&c.info) && changes(&c.info, &c.doc, &class_placeholder(key)))
}

/// where the placeholder sits in a name action that is not a removal (vacuity evidence of the `placeholder-names` variants)
fn placeholder_position(info: &Act, placeholder: &str) -> Option<&'static str> {
	match info {
		Act::Add(b) if b == placeholder => Some("addition-of-the-placeholder"),
		Act::Edit(a, b) if a != b && b == placeholder => Some("edit-to-the-placeholder"),
		Act::Edit(a, b) if a != b && a == placeholder => Some("edit-from-the-placeholder"),
		_ => None,
	}
}

impl Judge<'_> {
	fn tally_placeholder_position(&mut self, level: Level, info: &Act, placeholder: &str, present: bool) {
		if let Some(pos) = placeholder_position(info, placeholder) {
			self.tally(&format!("{}:{pos}:{}", level.name(), if present { "retained" } else { "gone" }));
		}
	}

	/// the node's own name action and comment action in the output
	#[allow(clippy::too_many_arguments)]
	fn insert_content(&mut self, level: Level, path: &Path, placeholder: &str, also_accepted: &[String], inner_class: Option<bool>, info: &Act, doc: &Act, oinfo: &Act, odoc: &Act) {
		let l = level.name();
		let kind = match inner_class {
			Some(true) => ":inner",
			Some(false) => ":top-level",
			None => "",
		};
		if let Act::Remove(a) = info {
			match oinfo {
				Act::Remove(_) => self.diff(&format!("{l}:removal-not-rewritten"), &format!("{path}: removal {info:?} was kept as a removal instead of an edit back to {placeholder:?}")),
				Act::Edit(x, y) if x == a && y == placeholder => self.tally(&format!("{l}:removal-rewritten{kind}")),
				// a class key the statement defines no inner name for
				Act::Edit(x, y) if x == a && also_accepted.contains(y) => self.tally(&format!("lenient:{l}:removal-rewritten:undefined-inner-name")),
				Act::Edit(x, _) if x == a => self.diff(&format!("{l}:wrong-placeholder{kind}"), &format!("{path}: removal {info:?} became {oinfo:?}, expected an edit back to {placeholder:?}")),
				_ => self.diff(&format!("{l}:removal-rewritten-wrongly"), &format!("{path}: removal {info:?} became {oinfo:?}, expected Edit({a:?}, {placeholder:?})")),
			}
		} else if oinfo != info {
			self.diff(&format!("{l}:name-action-changed"), &format!("{path}: name action {info:?} became {oinfo:?}"));
		}
		if odoc != doc {
			self.diff(&format!("{l}:comment-action-changed"), &format!("{path}: comment action {doc:?} became {odoc:?}"));
		}
	}

	fn insert_leaf(&mut self, level: Level, path: &Path, placeholder: &str, info: &Act, doc: &Act, out: Option<(&Act, &Act)>) {
		let l = level.name();
		self.tally_placeholder_position(level, info, placeholder, out.is_some());
		match out {
			None => {
				if is_add(info) {
					self.tally(&format!("{l}:addition-discarded"));
				} else if must_keep_leaf(info, doc, placeholder) {
					let what = if matches!(info, Act::Remove(_)) { "removal-dropped" } else { "changing-node-dropped" };
					self.diff(&format!("{l}:{what}"), &format!("{path}: node ({info:?}, comment {doc:?}) changes something but was dropped"));
				} else {
					self.tally(&format!("{l}:change-free-dropped"));
				}
			},
			Some((oinfo, odoc)) => {
				if is_add(info) {
					self.diff(&format!("{l}:addition-retained"), &format!("{path}: addition {info:?} was not discarded"));
					return;
				}
				self.insert_content(level, path, placeholder, &[], None, info, doc, oinfo, odoc);
				if must_keep_leaf(info, doc, placeholder) {
					self.tally(&format!("{l}:retained"));
				} else {
					// the statement says such nodes may be dropped, not that they must be
					self.tally(&format!("lenient:{l}:change-free-retained"));
				}
			},
		}
	}

	/// shared by methods and classes; `remaining_children` counts the children present in the output
	#[allow(clippy::too_many_arguments)]
	fn insert_parent_present(&mut self, level: Level, path: &Path, placeholder: &str, also_accepted: &[String], inner_class: Option<bool>, info: &Act, doc: &Act, oinfo: &Act, odoc: &Act, remaining_children: usize) {
		let l = level.name();
		self.tally_placeholder_position(level, info, placeholder, true);
		self.insert_content(level, path, placeholder, also_accepted, inner_class, info, doc, oinfo, odoc);
		if is_add(info) {
			if remaining_children > 0 {
				self.tally(&format!("{l}:addition-with-children-retained"));
			} else if !change_free(doc) {
				// does a comment count as a child of an addition? the statement does not say
				self.tally(&format!("lenient:{l}:childless-addition-with-comment-retained"));
			} else {
				self.diff(&format!("{l}:childless-addition-retained"), &format!("{path}: addition {info:?} left without children was not discarded"));
			}
		} else if changes(info, doc, placeholder) {
			self.tally(&format!("{l}:retained"));
		} else if remaining_children > 0 {
			self.tally(&format!("{l}:retained-for-child"));
		} else {
			self.tally(&format!("lenient:{l}:change-free-retained"));
		}
	}

	#[allow(clippy::too_many_arguments)]
	fn insert_parent_absent(&mut self, level: Level, path: &Path, placeholder: &str, info: &Act, doc: &Act, child_must_stay: bool, must_keep: bool) {
		let l = level.name();
		self.tally_placeholder_position(level, info, placeholder, false);
		if must_keep {
			let what = if child_must_stay {
				if is_add(info) { "addition-with-children-dropped" } else { "dropped-with-retained-child" }
			} else if matches!(info, Act::Remove(_)) {
				"removal-dropped"
			} else {
				"changing-node-dropped"
			};
			self.diff(&format!("{l}:{what}"), &format!("{path}: node ({info:?}, comment {doc:?}) was dropped although {}", if child_must_stay { "a child below it has to stay" } else { "it changes something" }));
		} else if is_add(info) {
			self.tally(&format!("{l}:childless-addition-discarded{}", if change_free(doc) { "" } else { ":with-comment" }));
		} else {
			self.tally(&format!("{l}:change-free-dropped"));
		}
	}
}

fn judge_insert(j: &mut Judge, input: &MDiff, out: &MDiff) {
	if out.info != input.info || out.doc != input.doc {
		j.diff("top-level-changed", "the namespace action or the comment action of the diff itself changed");
	} else if !input.info.is_none() || !input.doc.is_none() {
		j.tally("top-level:actions-untouched");
	}
	for (ck, c) in &input.classes {
		let cpath_text = || format!("class {ck:?}");
		let cpath = Path(&cpath_text);
		let accepted = class_placeholders(ck);
		let cph = accepted[0].clone();
		let inner = cph != *ck;
		match out.classes.get(ck) {
			None => {
				let child_must_stay = c.fields.iter().any(|((n, _), f)| must_keep_leaf(&f.info, &f.doc, n)) || c.methods.iter().any(|((n, _), m)| must_keep_method(m, n));
				j.insert_parent_absent(Level::Class, &cpath, &cph, &c.info, &c.doc, child_must_stay, must_keep_class(c, ck));
			},
			Some(oc) => {
				for (fk, f) in &c.fields {
					let of = oc.fields.get(fk);
					j.insert_leaf(Level::Field, &Path(&|| format!("field {fk:?} of {cpath}")), &fk.0, &f.info, &f.doc, of.map(|o| (&o.info, &o.doc)));
				}
				for fk in oc.fields.keys().filter(|k| !c.fields.contains_key(*k)) {
					j.diff("field:invented", &format!("field {fk:?} of {cpath} is not in the input"));
				}
				for (mk, m) in &c.methods {
					let mpath_text = || format!("method {mk:?} of {cpath}");
					let mpath = Path(&mpath_text);
					match oc.methods.get(mk) {
						None => {
							let child_must_stay = m.params.iter().any(|(i, p)| must_keep_leaf(&p.info, &p.doc, &param_placeholder(*i)));
							j.insert_parent_absent(Level::Method, &mpath, &mk.0, &m.info, &m.doc, child_must_stay, must_keep_method(m, &mk.0));
						},
						Some(om) => {
							for (pk, p) in &m.params {
								let op = om.params.get(pk);
								j.insert_leaf(Level::Param, &Path(&|| format!("parameter {pk} of {mpath}")), &param_placeholder(*pk), &p.info, &p.doc, op.map(|o| (&o.info, &o.doc)));
								if let (Act::Remove(a), Some(Act::Edit(x, y))) = (&p.info, op.map(|o| &o.info)) {
									if x == a && *y == param_placeholder(*pk) {
										let digits = y.len() - 2;
										j.tally(&format!("parameter:removal-rewritten:index-of-{}-digit{}", if digits >= 10 { "10-or-more".to_owned() } else { digits.to_string() }, if digits == 1 { "" } else { "s" }));
									}
								}
							}
							for pk in om.params.keys().filter(|k| !m.params.contains_key(*k)) {
								j.diff("parameter:invented", &format!("parameter {pk} of {mpath} is not in the input"));
							}
							j.insert_parent_present(Level::Method, &mpath, &mk.0, &[], None, &m.info, &m.doc, &om.info, &om.doc, om.params.len());
						},
					}
				}
				for mk in oc.methods.keys().filter(|k| !c.methods.contains_key(*k)) {
					j.diff("method:invented", &format!("method {mk:?} of {cpath} is not in the input"));
				}
				j.insert_parent_present(Level::Class, &cpath, &cph, &accepted[1..], Some(inner), &c.info, &c.doc, &oc.info, &oc.doc, oc.fields.len() + oc.methods.len());
			},
		}
	}
	for ck in out.classes.keys().filter(|k| !input.classes.contains_key(*k)) {
		j.diff("class:invented", &format!("class {ck:?} is not in the input"));
	}
}

fn render_diff(d: &MDiff) -> String {
	format!("{}(as data: {d:?})", mapmodel::diff::print(d))
}

fn insert_replay_text(v: &DVariant, idx: u64, input: &MDiff, actual: &str) -> String {
	format!("engine=insert_dummy\nvariant={}\nindex={idx}\ncall: insert_dummy_and_contract_inner_names() on (insertion order {:?})\n{}\nactual:\n{}", v.label, v.order, render_diff(input), actual)
}

fn insert_case(rep: &dyn Report, v: &DVariant, idx: u64, st: &mut Stats) {
	let input = v.decode(idx);
	st.eval();
	let out = match real_insert(&input, v.order) {
		Err(p) => {
			rep.report(&format!("insert_dummy:panic@{}", p.file()), &format!("panic at {}: {}", p.site, p.msg), &|| insert_replay_text(v, idx, &input, "panic"));
			st.outcome("case:panic");
			return;
		},
		Ok(Err(e)) => {
			rep.report("insert_dummy:refused", &format!("refused a diff: {e}"), &|| insert_replay_text(v, idx, &input, &e));
			st.outcome("case:error");
			return;
		},
		Ok(Ok(o)) => o,
	};
	let replay = || insert_replay_text(v, idx, &input, &render_diff(&out));
	let mut j = Judge { rep, st, engine: "insert_dummy", replay: &replay, reported: false };
	judge_insert(&mut j, &input, &out);
	if input.classes.len() >= 2 && !out.classes.is_empty() && out.classes.len() < input.classes.len() {
		st.outcome("several-classes:some-dropped-some-retained");
	}
	{
		// vacuity evidence: two class removals in one diff that are edited back to one and the same simple inner name;
		// three parameter removals below one method
		let rewritten_to = |i: &Act, o: &Act| -> Option<String> {
			match (i, o) {
				(Act::Remove(a), Act::Edit(x, y)) if a == x => Some(y.clone()),
				_ => None,
			}
		};
		let mut targets: Vec<String> = input.classes.iter().filter_map(|(k, c)| out.classes.get(k).and_then(|oc| rewritten_to(&c.info, &oc.info))).collect();
		let n = targets.len();
		targets.sort();
		targets.dedup();
		if targets.len() < n {
			st.outcome("several-classes:removals-rewritten-to-one-name");
		}
		for (ck, c) in &input.classes {
			for (mk, m) in &c.methods {
				if let Some(om) = out.classes.get(ck).and_then(|oc| oc.methods.get(mk)) {
					if m.params.iter().filter(|(i, p)| om.params.get(*i).is_some_and(|op| rewritten_to(&p.info, &op.info).is_some())).count() >= 3 {
						st.outcome("siblings:three-parameter-removals-below-one-method");
					}
				}
			}
		}
	}
	if out != input {
		st.outcome("case:diff-rewritten");
		let c = &input.classes[v.classes[0].0];
		if v.pad.0 > 0 {
			// (the padded diffs are too long for a sample)
			let count = |d: &MDiff| -> usize { d.classes.values().map(|c| 1 + c.fields.len() + c.methods.values().map(|m| 1 + m.params.len()).sum::<usize>()).sum() };
			st.outcome(if count(&out) + 255 <= count(&input) { "many-siblings:255-or-more-nodes-gone" } else { "many-siblings:255-or-more-nodes-retained" });
			st.sample(&format!("insert-{}", v.label), || json!({"kind": "insert_dummy_and_contract_inner_names", "variant": v.label, "index": idx, "nodes_in": count(&input), "nodes_out": count(&out)}));
		} else {
			st.sample(&format!("insert-{}-{}", v.label, c.info.kind()), || json!({"kind": "insert_dummy_and_contract_inner_names", "variant": v.label, "index": idx, "input": mapmodel::diff::print(&input), "output": mapmodel::diff::print(&out)}));
		}
	} else {
		st.outcome("case:diff-unchanged");
	}
	st.eval();
	match real_insert(&out, v.order) {
		Ok(Ok(again)) => {
			if again != out {
				rep.report("insert_dummy:not-idempotent", "applying the filter a second time changes the diff again", &|| format!("{}\nsecond application:\n{}", replay(), render_diff(&again)));
			}
		},
		Ok(Err(e)) => rep.report("insert_dummy:second-application-refused", &e, &replay),
		Err(p) => rep.report(&format!("insert_dummy:panic@{}", p.file()), &format!("second application: panic at {}: {}", p.site, p.msg), &replay),
	}
}

// ---------------------------------------------------------------------------------------------
// insert_dummy runs in worker processes: the code under test writes a line to stderr for every discarded
// addition while holding the process-wide stderr lock, which serialises all threads of one process.
// Each worker is this executable started with C10_WORKER=<i>/<k>/<tier>; it runs the cases with
// index ≡ i (mod k) of every variant, single-threaded, and prints one JSON document on stdout.

#[derive(Default)]
struct Found {
	count: u64,
	cases: Vec<(String, String)>,
}

#[derive(Default)]
struct Collector {
	found: Mutex<BTreeMap<String, Found>>,
}

impl Report for Collector {
	fn report(&self, key: &str, what: &str, replay: &dyn Fn() -> String) {
		let mut f = self.found.lock().unwrap();
		let e = f.entry(key.to_owned()).or_default();
		e.count += 1;
		if e.cases.len() < 3 {
			e.cases.push((what.to_owned(), replay()));
		}
	}
}

static WORKER_CASE: AtomicU64 = AtomicU64::new(0);
static WORKER_CASE_START_MS: AtomicU64 = AtomicU64::new(0);
const CASE_BUDGET_MS: u64 = 20_000;

fn worker_main(spec: &str) -> ! {
	IS_WORKER.store(true, Ordering::SeqCst);
	let parts: Vec<&str> = spec.split('/').collect();
	let (i, k, tier) = match parts.as_slice() {
		[i, k, t] => (i.parse::<u64>().ok(), k.parse::<u64>().ok(), match *t { "quick" => Some(Tier::Quick), "thorough" => Some(Tier::Thorough), _ => None }),
		_ => (None, None, None),
	};
	let (Some(i), Some(k), Some(tier)) = (i, k, tier) else { fail("bad C10_WORKER") };
	let variants = insert_variants(tier);
	let epoch = std::time::Instant::now();
	{
		// a case that hangs must not hang the check: name it and give up
		let labels: Vec<String> = variants.iter().map(|v| v.label.clone()).collect();
		std::thread::spawn(move || loop {
			std::thread::sleep(std::time::Duration::from_millis(250));
			let start = WORKER_CASE_START_MS.load(Ordering::SeqCst);
			let now = epoch.elapsed().as_millis() as u64 + 1;
			if start != 0 && now.saturating_sub(start) > CASE_BUDGET_MS {
				let c = WORKER_CASE.load(Ordering::SeqCst);
				println!("{}", json!({"timeout": {"variant": labels[(c >> 48) as usize], "index": c & ((1 << 48) - 1)}}));
				std::process::exit(3);
			}
		});
	}
	let col = Collector::default();
	let mut per_variant = Vec::new();
	for (vi, v) in variants.iter().enumerate() {
		v.self_check();
		let mut st = Stats::new();
		let mut idx = i;
		while idx < v.total() {
			WORKER_CASE.store(((vi as u64) << 48) | idx, Ordering::SeqCst);
			WORKER_CASE_START_MS.store(epoch.elapsed().as_millis() as u64 + 1, Ordering::SeqCst);
			insert_case(&col, v, idx, &mut st);
			idx += k;
		}
		WORKER_CASE_START_MS.store(0, Ordering::SeqCst);
		let tags: Vec<&String> = st.sample_tags.iter().collect();
		per_variant.push(json!({"variant": v.label, "evaluations": st.evaluations, "outcomes": st.outcomes, "samples": st.samples, "sample_tags": tags}));
	}
	let found = col.found.lock().unwrap();
	let diffs: Vec<Value> = found.iter().map(|(k, f)| json!({"key": k, "count": f.count, "cases": f.cases})).collect();
	println!("{}", json!({"variants": per_variant, "diffs": diffs}));
	std::process::exit(0);
}

struct Workers {
	children: Vec<std::process::Child>,
}

fn spawn_insert_workers(tier: Tier) -> Workers {
	let exe = std::env::current_exe().unwrap_or_else(|e| fail(&format!("cannot find my own executable: {e}")));
	let k = std::thread::available_parallelism().map(|n| n.get()).unwrap_or(4).clamp(2, 32);
	let children = (0..k).map(|i| {
		std::process::Command::new(&exe)
			.env("C10_WORKER", format!("{i}/{k}/{}", tier.name()))
			.stdin(std::process::Stdio::null())
			.stdout(std::process::Stdio::piped())
			.stderr(std::process::Stdio::null())
			.spawn()
			.unwrap_or_else(|e| fail(&format!("cannot start worker {i}: {e}")))
	}).collect();
	Workers { children }
}

/// Collects the workers' results in worker order; every difference a worker found goes through `ctx.diff`.
fn collect_insert_workers(ctx: &Ctx, w: Workers, variants: &[DVariant]) -> Vec<Stats> {
	let outputs: Vec<std::io::Result<std::process::Output>> = std::thread::scope(|s| {
		let handles: Vec<_> = w.children.into_iter().map(|c| s.spawn(move || c.wait_with_output())).collect();
		handles.into_iter().map(|h| h.join().unwrap_or_else(|_| fail("worker collector thread panicked"))).collect()
	});
	let mut per_variant: Vec<Stats> = variants.iter().map(|_| Stats::new()).collect();
	for (wi, out) in outputs.into_iter().enumerate() {
		let out = out.unwrap_or_else(|e| fail(&format!("cannot wait for worker {wi}: {e}")));
		let text = String::from_utf8_lossy(&out.stdout);
		let doc: Option<Value> = text.lines().last().and_then(|l| serde_json::from_str(l).ok());
		if let Some(msg) = doc.as_ref().and_then(|d| d.get("machinery")).and_then(|m| m.as_str()) {
			fail(&format!("worker {wi}: {msg}"));
		}
		if let Some(t) = doc.as_ref().and_then(|d| d.get("timeout")) {
			let label = t["variant"].as_str().unwrap_or("?").to_owned();
			let idx = t["index"].as_u64().unwrap_or(0);
			ctx.diff("insert_dummy:timeout", &format!("a case exceeded {CASE_BUDGET_MS} ms"), || format!("engine=insert_dummy\nvariant={label}\nindex={idx}"));
			continue;
		}
		let Some(doc) = doc.filter(|d| out.status.success() && d.get("variants").is_some()) else {
			// the worker died (signal, abort, stack overflow) while running the code under test
			ctx.diff("insert_dummy:engine-died", &format!("worker {wi} ended with {:?} without a result", out.status), || format!("engine=insert_dummy\nworker={wi}\nstatus={:?}\nlast output: {}", out.status, text.lines().last().unwrap_or("")));
			continue;
		};
		for (vi, v) in doc["variants"].as_array().cloned().unwrap_or_default().into_iter().enumerate() {
			if vi >= variants.len() || v["variant"].as_str() != Some(variants[vi].label.as_str()) {
				fail("worker and parent disagree about the variants");
			}
			let mut st = Stats::new();
			st.evaluations = v["evaluations"].as_u64().unwrap_or(0);
			for (k, n) in v["outcomes"].as_object().cloned().unwrap_or_default() {
				st.outcome_n(&k, n.as_u64().unwrap_or(0));
			}
			for (tag, s) in v["sample_tags"].as_array().cloned().unwrap_or_default().into_iter().zip(v["samples"].as_array().cloned().unwrap_or_default()) {
				st.sample(tag.as_str().unwrap_or(""), || s);
			}
			per_variant[vi] = std::mem::take(&mut per_variant[vi]).merge(st);
		}
		for d in doc["diffs"].as_array().cloned().unwrap_or_default() {
			let key = d["key"].as_str().unwrap_or("insert_dummy:unknown").to_owned();
			let cases = d["cases"].as_array().cloned().unwrap_or_default();
			let count = d["count"].as_u64().unwrap_or(cases.len() as u64).max(cases.len() as u64);
			for n in 0..count {
				let c = &cases[(n as usize).min(cases.len().saturating_sub(1))];
				ctx.diff(&key, c[0].as_str().unwrap_or(""), || c[1].as_str().unwrap_or("").to_owned());
			}
		}
	}
	per_variant
}

/// every index of a variant decodes to a different diff (so counting cases counts distinct inputs)
fn check_decoding_injective(v: &DVariant) {
	let d = (0..v.total()).into_par_iter().fold(vcore::Distinct::new, |mut d, idx| {
		d.add(&v.decode(idx));
		d
	}).reduce(vcore::Distinct::new, |mut a, b| {
		a.merge(b);
		a
	});
	if d.len() != v.total() {
		fail(&format!("variant {}: {} indices decode to {} distinct diffs", v.label, v.total(), d.len()));
	}
}

fn sum(st: &Stats, prefix: &str) -> u64 {
	st.outcomes.iter().filter(|(k, _)| k.starts_with(prefix)).map(|(_, v)| *v).sum()
}

fn main() {
	if let Ok(spec) = std::env::var("C10_WORKER") {
		worker_main(&spec);
	}
	let ctx: &'static Ctx = Box::leak(Box::new(Ctx::new("C10", "exploration")));
	if let Some(path) = ctx.replay.clone() {
		replay(ctx, &path);
	}
	let variants = insert_variants(ctx.tier);
	{
		// no class key occurs in two variants, so no diff is produced (and counted) by two variants
		let mut keys: Vec<&str> = variants.iter().flat_map(|v| v.classes.iter().map(|c| c.0)).collect();
		let n = keys.len();
		keys.sort();
		keys.dedup();
		if keys.len() != n {
			fail("two diff variants share a class key");
		}
	}
	let workers = spawn_insert_workers(ctx.tier);
	let n_workers = workers.children.len();

	let rconfigs = remove_configs(ctx.tier);
	let mut rem = Stats::new();
	let mut rem_bounds = Vec::new();
	for cfg in &rconfigs {
		let st = run_remove(ctx, cfg);
		rem_bounds.push(json!({"config": cfg.label, "namespaces": cfg.n, "chosen_namespace_index": cfg.chosen, "first_namespace_names": format!("{:?}", cfg.keys), "insertion_order": format!("{:?}", cfg.order), "classes": cfg.classes, "max_parameters": cfg.alpha.max_params, "padding_entries_per_map": {"removed_by_the_rules": cfg.pad.0, "retained_by_the_rules": cfg.pad.1}, "alphabet": cfg.alpha.describe(), "cases": cfg.total(), "real_executions": st.evaluations}));
		rem = rem.merge(st);
	}
	// a namespace that does not exist: anything but a panic (the documentation is silent)
	{
		let m = rconfigs[0].decode(0);
		rem.eval();
		match real_remove(&m, "no-such-namespace", Order::Sorted) {
			Err(p) => ctx.diff(&format!("remove_dummy:panic@{}", p.file()), &format!("unknown namespace: panic at {}: {}", p.site, p.msg), || "engine=remove_dummy\nconfig=N=2/ns1/real-keys\nindex=0\nnamespace no-such-namespace".into()),
			Ok(Err(_)) => rem.outcome("unknown-namespace:refused"),
			Ok(Ok(_)) => rem.outcome("unknown-namespace:accepted"),
		}
	}

	for v in &variants {
		check_decoding_injective(v);
	}
	let mut ins = Stats::new();
	let mut ins_bounds = Vec::new();
	let mut multibyte_rewritten: BTreeMap<&'static str, u64> = BTreeMap::new();
	for (v, st) in variants.iter().zip(collect_insert_workers(ctx, workers, &variants)) {
		if v.wide_names {
			for l in ["class", "field", "method", "parameter"] {
				*multibyte_rewritten.entry(l).or_default() += sum(&st, &format!("{l}:removal-rewritten"));
			}
		}
		ins_bounds.push(json!({"variant": v.label, "class_keys": v.classes.iter().map(|c| c.0).collect::<Vec<_>>(), "fields": v.fields.len(), "methods": v.methods.len(), "parameter_indices": v.params.iter().map(|p| p.0).collect::<Vec<_>>(), "diff_own_actions_explored": v.top, "padding_nodes_per_map": {"count": v.pad.0, "name_action": format!("{:?}", v.pad.1)}, "insertion_order": format!("{:?}", v.order), "name_actions": format!("{:?}", v.na), "comment_actions": format!("{:?}", v.da), "cases": v.total(), "real_executions": st.evaluations}));
		ins = ins.merge(st);
	}
	let ins_nontrivial = ins.get("case:diff-rewritten");

	// vacuity floors — remove_dummy: every rule fired
	for l in ["class", "field", "method", "parameter"] {
		ctx.floor(&format!("remove_dummy: {l} removed"), 1, sum(&rem, &format!("{l}:removed:")));
		ctx.floor(&format!("remove_dummy: placeholder {l} kept because of its comment"), 1, rem.get(&format!("{l}:kept:comment")));
		ctx.floor(&format!("remove_dummy: {l} kept because its name only contains the prefix"), 1, rem.get(&format!("{l}:kept:name-contains-prefix")));
		ctx.floor(&format!("remove_dummy: {l} kept because it has no name in the namespace"), 1, rem.get(&format!("{l}:kept:name-absent")));
	}
	for l in ["class", "method"] {
		ctx.floor(&format!("remove_dummy: placeholder {l} kept because of a retained child"), 1, rem.get(&format!("{l}:kept:retained-child")));
	}
	ctx.floor("remove_dummy: <init> removed", 1, rem.get("method:removed:init"));
	ctx.floor("remove_dummy: <clinit> removed", 1, rem.get("method:removed:clinit"));
	ctx.floor("remove_dummy: class in net/minecraft/unmapped removed", 1, rem.get("class:removed:placeholder-unmapped-package"));
	ctx.floor("remove_dummy: class C_ in another package kept", 1, rem.get("class:kept:name-other-package"));
	ctx.floor("remove_dummy: cases with a removal", 1000, rem.get("case:something-removed"));
	ctx.floor("remove_dummy: cases without any removal", 1000, rem.get("case:nothing-removed"));
	// insert_dummy: every rewrite rule fired
	for l in ["class", "field", "method", "parameter"] {
		ctx.floor(&format!("insert_dummy: {l} removal rewritten to an edit"), 1, sum(&ins, &format!("{l}:removal-rewritten")));
		ctx.floor(&format!("insert_dummy: change-free {l} dropped"), 1, ins.get(&format!("{l}:change-free-dropped")));
		ctx.floor(&format!("insert_dummy: changing {l} retained"), 1, ins.get(&format!("{l}:retained")));
	}
	ctx.floor("insert_dummy: inner class removal rewritten to the simple inner name", 1, ins.get("class:removal-rewritten:inner"));
	ctx.floor("insert_dummy: top-level class removal rewritten to the source name", 1, ins.get("class:removal-rewritten:top-level"));
	for l in ["field", "parameter"] {
		ctx.floor(&format!("insert_dummy: {l} addition discarded"), 1, ins.get(&format!("{l}:addition-discarded")));
	}
	for l in ["class", "method"] {
		ctx.floor(&format!("insert_dummy: childless {l} addition discarded"), 1, ins.get(&format!("{l}:childless-addition-discarded")));
		ctx.floor(&format!("insert_dummy: {l} addition with children retained"), 1, ins.get(&format!("{l}:addition-with-children-retained")));
		ctx.floor(&format!("insert_dummy: change-free {l} retained for a child"), 1, ins.get(&format!("{l}:retained-for-child")));
	}
	// the spaces added by the extension
	for (l, tags) in [
		("class", &["placeholder-outer-real-inner"][..]),
	] {
		for t in tags {
			ctx.floor(&format!("remove_dummy: {l} removed: {t}"), 1, rem.get(&format!("{l}:removed:{t}")));
		}
	}
	for (l, tags) in [
		("class", &["unmapped-subpackage", "contains-unmapped-prefix", "parent-of-unmapped-package", "shorter-than-prefix", "other-level-prefix", "ends-with-prefix-inner", "contains-prefix-unmapped-package"][..]),
		("field", &["shorter-than-prefix", "other-level-prefix", "other-case", "ends-with-prefix"][..]),
		("method", &["shorter-than-prefix", "other-level-prefix", "other-case", "init-without-brackets", "ends-with-prefix"][..]),
		("parameter", &["shorter-than-prefix", "other-level-prefix"][..]),
	] {
		for t in tags {
			ctx.floor(&format!("remove_dummy: {l} kept because of its name: {t}"), 1, rem.get(&format!("{l}:kept:name-{t}")));
		}
	}
	ctx.floor("remove_dummy: 255 or more entries removed from one set", 100, rem.get("many-siblings:255-or-more-removed"));
	ctx.floor("remove_dummy: 255 or more entries retained in one set", 100, rem.get("many-siblings:255-or-more-retained"));
	// the spaces added by the second extension
	for (l, removed, kept) in [
		("class", &["placeholder-not-numeric", "placeholder-unmapped-not-numeric", "placeholder-unmapped-bare-prefix", "placeholder-prefix-is-package"][..], &["unmapped-shorter-than-prefix", "unmapped-real-starting-with-C", "unmapped-package-as-class", "other-case", "unmapped-other-case", "unmapped-package-other-case", "prefix-without-underscore"][..]),
		("field", &["placeholder-not-numeric"][..], &["prefix-without-underscore", "prefix-after-underscore"][..]),
		("method", &["placeholder-not-numeric"][..], &["clinit-without-brackets", "prefix-without-underscore", "other-case-init"][..]),
		("parameter", &["placeholder-not-numeric", "placeholder-other-index"][..], &["other-case", "prefix-without-underscore"][..]),
	] {
		for t in removed {
			ctx.floor(&format!("remove_dummy: {l} removed: {t}"), 1, rem.get(&format!("{l}:removed:{t}")));
		}
		for t in kept {
			ctx.floor(&format!("remove_dummy: {l} kept because of its name: {t}"), 1, rem.get(&format!("{l}:kept:name-{t}")));
		}
		// the multi-byte sweep: three characters at every offset, in three configurations
		let prefixes = if l == "class" { 2 + 25 } else { 2 };
		ctx.floor(&format!("remove_dummy: {l} kept, multi-byte character inside the prefix"), 3 * 3 * prefixes, rem.get(&format!("{l}:kept:name-multibyte-inside-prefix")));
		ctx.floor(&format!("remove_dummy: {l} removed, multi-byte character behind the prefix"), 3 * 3 * 3, rem.get(&format!("{l}:removed:multibyte-behind-prefix")));
	}
	for l in ["class", "field", "method", "parameter"] {
		ctx.floor(&format!("remove_dummy: of several {l} entries in one map some removed and some retained"), 100, rem.get(&format!("mixed-siblings:{l}")));
	}
	ctx.floor("remove_dummy: of two methods under one name one removed and one retained", 100, rem.get("mixed-siblings:method-sharing-its-name"));
	ctx.floor("remove_dummy: of two fields under one name one removed and one retained", 100, rem.get("mixed-siblings:field-sharing-its-name"));
	for cfg in &rconfigs {
		ctx.floor(&format!("remove_dummy: configuration {} ran completely", cfg.label), cfg.total() * 2, rem_bounds.iter().find(|b| b["config"] == cfg.label.as_str()).and_then(|b| b["real_executions"].as_u64()).unwrap_or(0));
	}
	ctx.floor("insert_dummy: diffs with several classes of which some are dropped and some retained", 100, ins.get("several-classes:some-dropped-some-retained"));
	ctx.floor("insert_dummy: namespace / comment action of the diff itself present and returned untouched", 1000, ins.get("top-level:actions-untouched"));
	for d in ["1-digit", "2-digits", "3-digits", "5-digits", "10-or-more-digits"] {
		ctx.floor(&format!("insert_dummy: parameter removal rewritten to p_<index>, index of {d}"), 1, ins.get(&format!("parameter:removal-rewritten:index-of-{d}")));
	}
	ctx.floor("insert_dummy: class removal under a key without a defined inner name judged", 1, ins.get("lenient:class:removal-rewritten:undefined-inner-name"));
	// the spaces added by the second extension
	for l in ["class", "field", "method", "parameter"] {
		ctx.floor(&format!("insert_dummy: {l} edit to the placeholder retained"), 1, ins.get(&format!("{l}:edit-to-the-placeholder:retained")));
		ctx.floor(&format!("insert_dummy: {l} edit away from the placeholder retained"), 1, ins.get(&format!("{l}:edit-from-the-placeholder:retained")));
		ctx.floor(&format!("insert_dummy: {l} addition of the placeholder discarded"), 1, ins.get(&format!("{l}:addition-of-the-placeholder:gone")));
		ctx.floor(&format!("insert_dummy: {l} removal rewritten where keys and names hold multi-byte characters"), 1, multibyte_rewritten.get(l).copied().unwrap_or(0));
	}
	for l in ["class", "method"] {
		ctx.floor(&format!("insert_dummy: {l} addition of the placeholder with children retained"), 1, ins.get(&format!("{l}:addition-of-the-placeholder:retained")));
	}
	ctx.floor("insert_dummy: 255 or more nodes of one diff discarded", 100, ins.get("many-siblings:255-or-more-nodes-gone"));
	ctx.floor("insert_dummy: 255 or more nodes of one diff retained", 100, ins.get("many-siblings:255-or-more-nodes-retained"));
	ctx.floor("insert_dummy: two class removals in one diff edited back to one simple inner name", 100, ins.get("several-classes:removals-rewritten-to-one-name"));
	ctx.floor("insert_dummy: three parameter removals below one method rewritten", 10, ins.get("siblings:three-parameter-removals-below-one-method"));
	for v in &variants {
		ctx.floor(&format!("insert_dummy: variant {} ran completely", v.label), v.total() * 2, ins_bounds.iter().find(|b| b["variant"] == v.label.as_str()).and_then(|b| b["real_executions"].as_u64()).unwrap_or(0));
	}
	ctx.floor("insert_dummy: diffs rewritten", 1000, ins.get("case:diff-rewritten"));
	ctx.floor("insert_dummy: diffs returned unchanged", 100, ins.get("case:diff-unchanged"));

	let mut samples: Vec<Value> = rem.samples.iter().take(4).cloned().collect();
	samples.extend(ins.samples.iter().take(6).cloned());
	let mut outcomes: BTreeMap<String, u64> = BTreeMap::new();
	for (k, v) in &rem.outcomes {
		outcomes.insert(format!("remove_dummy/{k}"), *v);
	}
	for (k, v) in &ins.outcomes {
		outcomes.insert(format!("insert_dummy/{k}"), *v);
	}
	let alphabet = |a: &[NameOpt]| -> Vec<Value> { a.iter().map(|o| json!({"name": o.name, "documented_placeholder": o.placeholder, "label": o.tag})).collect() };
	let coverage = json!({
		"evaluations": rem.evaluations + ins.evaluations,
		"distinct_nontrivial": rem.distinct.len() + ins_nontrivial,
		"rule": "one case = one mapping set (remove_dummy) or one diff (insert_dummy_and_contract_inner_names) decoded from its index in the product space below; every case runs the real function twice (result, then idempotence). distinct_nontrivial = distinct inputs (remove_dummy: hash of chosen namespace + mapping set; insert_dummy: number of cases, every index of a variant is checked to decode to a different diff and no two variants share a class key) whose real result differs from the input, i.e. at least one entry was removed / one diff node rewritten or dropped",
		"exhaustive": true,
		"samples": samples,
		"outcomes": outcomes,
		"bounds": {
			"remove_dummy": {
				"class_names": alphabet(CLASS_NAMES), "field_names": alphabet(FIELD_NAMES), "method_names": alphabet(METHOD_NAMES), "parameter_names": alphabet(PARAM_NAMES),
				"comment": ["absent", "present"], "fields_per_class": "0..1 (siblings configurations: 0..3)", "methods_per_class": "0..1 (siblings configurations: 0..3)", "classes": "1 (two-classes / three-classes configurations: 2, 3)", "namespaces": "1..4",
				"odd_names": {"class": alphabet(CLASS_NAMES_ODD), "field": alphabet(FIELD_NAMES_ODD), "method": alphabet(METHOD_NAMES_ODD), "parameter": alphabet(PARAM_NAMES_ODD)},
				"multibyte_sweep": {
					"rule": "for every placeholder prefix P of the level (base = P + \"1x\"), every byte offset k in 0..=len(base), every character of U+00E9 (2 bytes), U+20AC (3 bytes), U+1F600 (4 bytes): base[..k] + character + base[k..] and base[..k] + character",
					"names": {"class": text_names(Level::Class).len(), "field": text_names(Level::Field).len(), "method": text_names(Level::Method).len(), "parameter": text_names(Level::Param).len()},
				},
				"note": "the listed names are the extended alphabets; the odd names and the multi-byte sweep are explored in the names/<level>/* configurations; every configuration lists the alphabet it really uses under 'alphabet'",
				"configurations": rem_bounds,
			},
			"insert_dummy": {"levels": 4, "children_per_level": "0..1 (siblings variants: 0..2)", "classes_per_diff": "1 (two-classes / three-classes variants: 2, 3)", "variants": ins_bounds},
		},
		"remove_dummy": {"evaluations": rem.evaluations, "cases_with_removal": rem.get("case:something-removed"), "distinct_nontrivial": rem.distinct.len()},
		"insert_dummy": {"evaluations": ins.evaluations, "cases_rewritten": ins.get("case:diff-rewritten"), "distinct_nontrivial": ins_nontrivial, "worker_processes": n_workers},
	});
	ctx.finish(coverage, &[
		"placeholder = the definition in the documentation of Mappings::remove_dummy (prefix of the whole name, with or without net/minecraft/unmapped/; <init>/<clinit> by equality)",
		"insert_dummy: a node whose actions change nothing (None or Edit(x, x)) and that has no remaining children may be dropped or kept; a childless method/class addition that carries a comment action may be dropped or kept (the statement does not say whether a comment is a child)",
		"names, comments and descriptors other than the listed alphabet are not explored",
		"insert_dummy: for a class key without a defined inner name ($A, A$, A$$B, $) a removal may be edited back to the source name or to what follows the last $",
		"the order of retained entries inside their maps is not judged",
	]);
}

fn replay(ctx: &'static Ctx, path: &std::path::Path) -> ! {
	let body = vcore::replay_body(path);
	let field = |name: &str| -> String {
		body.lines().find_map(|l| l.strip_prefix(&format!("{name}=")).map(|s| s.to_owned())).unwrap_or_else(|| vcore::machinery_fail(&format!("replay file has no {name}= line")))
	};
	let idx: u64 = field("index").trim().parse().unwrap_or_else(|_| vcore::machinery_fail("bad index"));
	let mut st = Stats::new();
	match field("engine").as_str() {
		"remove_dummy" => {
			let label = field("config");
			let cfg = [Tier::Quick, Tier::Thorough].into_iter().flat_map(remove_configs).find(|c| c.label == label && idx < c.total()).unwrap_or_else(|| vcore::machinery_fail("unknown configuration"));
			let input = cfg.decode(idx);
			let ns = cfg.ns()[cfg.chosen].clone();
			let a = real_remove(&input, &ns, cfg.order);
			let b = real_remove(&input, &ns, cfg.order);
			if a != b {
				vcore::machinery_fail("replay is not deterministic");
			}
			println!("input:\n{}expected by the documented rules:\n{}actual: {}", mapmodel::tiny::print(&input), mapmodel::tiny::print(&expected_remove(&input, cfg.chosen)), match &a {
				Ok(Ok(o)) => format!("\n{}", mapmodel::tiny::print(o)),
				other => format!("{other:?}"),
			});
			remove_case(ctx, &cfg, idx, &mut st);
		},
		"insert_dummy" => {
			let label = field("variant");
			let v = [Tier::Quick, Tier::Thorough].into_iter().flat_map(insert_variants).find(|v| v.label == label && idx < v.total()).unwrap_or_else(|| vcore::machinery_fail("unknown variant"));
			let input = v.decode(idx);
			let a = real_insert(&input, v.order);
			let b = real_insert(&input, v.order);
			if a != b {
				vcore::machinery_fail("replay is not deterministic");
			}
			println!("input:\n{}\nactual: {}", render_diff(&input), match &a {
				Ok(Ok(o)) => format!("\n{}", render_diff(o)),
				other => format!("{other:?}"),
			});
			insert_case(ctx, &v, idx, &mut st);
		},
		other => vcore::machinery_fail(&format!("unknown engine {other:?}")),
	}
	ctx.finish(json!({"evaluations": st.evaluations, "distinct_nontrivial": 1, "rule": "replay of one case", "samples": ["replay"], "exhaustive": false, "outcomes": st.outcomes, "bounds": {}}), &[]);
}
