//! C11 — inner-class name extension and contraction are consistent and inverse.
//!
//! Engine: explicit-state exploration (stateright BFS). A state is (depth, mapping set); the two
//! actions `extend` and `contract` (one per non-first namespace) rebuild a REAL
//! `quill::tree::mappings::Mappings` from the state, call the REAL `extend_inner_class_names` /
//! `contract_inner_class_names`, and project the result back; the successor state is the projection
//! of the real result. Every transition is judged against a reference written from the statement:
//!
//! * extension: in the chosen namespace only, a class whose *source* name is nested gets
//!   `extended name of its outer class + "$" + its own simple name`, recursively through the source
//!   nesting; top-level classes, members, comments, other namespaces untouched; `Err` (never a guess)
//!   when an outer class is not in the set;
//! * contraction: nested classes keep only the part after the last `$`;
//! * `contract(extend(M)) == M` whenever the names of M in that namespace were simple.
//!
//! Where the statement is silent (nested class without target name, outer class without target name,
//! target name of a nested class that already contains `$`, top-level class whose target contains `$`
//! under contraction) both readings are accepted, but never a changed name anywhere else.
//!
//! Second engine: exhaustive sweep of all short strings over {A b $ /} through duke's
//! `split_inner_class_parent_and_name` / `get_inner_class_{parent,name}` / `from_inner_class` against
//! the reference split (last `$` of the last `/`-section, both sides non-empty).
//!
//! Spaces (every one explored completely; bounds and counts are written to the evidence):
//!
//! | space | what varies | judged by |
//! |---|---|---|
//! | state graph, 13 universes | sets of present classes x target kind per class and namespace x action sequences to depth 3 (N=4: 2 in quick); at depth 0 also reversed and rotated insertion order | `step`: reference of extension / contraction, everything else untouched, inverse law, every produced name valid |
//! | … "base", "shared target names", "depth 0..4", "packages", "unsplittable $", "crossing names", "N=4" | chains to depth 4, packages, `$` in packages, empty sides, equal target names, names that are other classes' source names, acted-on index 1..3 | |
//! | … "siblings and prefixes" (N=2, N=3) | two inner classes of one outer class, equal simple names below different siblings, source names that begin with one another (`A`/`AB`), target names that are equal to / begin with the outer class's name (`Stem`, `Stemmed`); every class with comment, field, method, parameter | |
//! | … "anonymous and local" | `A$1`, `A$1$B`, `A$1B`, `A$B$1`, target names that are numbers (`OwnSimple`) | |
//! | … N=4 and siblings N=3 | namespace names that begin with one another and differ only in case (`n`, `nn1`, `nn`, `NN`; N=3: the last three) | |
//! | helper sweep | every string to length 8/10 over {A b $ / é} and to length 7/8 over {A 1 $ / € 𝄞} (3- and 4-byte characters, digits) | reference split; halves valid names; split ∘ join, join ∘ split |
//! | helper sweep on code points | every sequence to length 7/8 over {A $ / U+D800 U+1D11E}: names with a lone surrogate (legal in modified UTF-8, not a `&str`) | the same, on code points |
//! | long names | `a`^k + one character of 1/2/3/4 bytes (last or first), k = 0..140 (300), as source name of outer / inner / packaged depth-2 classes and as name in the chosen namespace; accepting sets, sets with a missing outer class (the refusal quotes the name), outer class without name; N=2 and N=3 | `step` (extend, contract of the result, contract) |
//! | insertion orders | every permutation of the classes of the chain (depth 0..4, every Simple/Extended assignment), the siblings, the shared-names set, each also with one class removed (refusals) | same result (or refusal) as the judged sorted order |
//! | out-of-domain probes | first namespace, unknown namespace | no panic |
//!
//! A result of the real code that holds a name duke itself rejects (an empty half of a split glued back) is a
//! difference (`…:invalid-class-name-produced`) and has no successor; it is never a machinery error.

use std::collections::BTreeMap;
use std::sync::{Arc, Mutex};
use duke::tree::class::ObjClassName;
use mapmodel::{tiny, MClass, MField, MMethod, MParam, MSet, Order};
use quill::tree::mappings::Mappings;
use rayon::prelude::*;
use stateright::{Checker, Model, Property};
use vcore::{json, Ctx, Stats, Value};

#[path = "c11/extra.rs"]
mod extra;

// ---------------------------------------------------------------------------------------------
// reference, written from the statement

/// `Outer$Inner` → (`Outer`, `Inner`): the nesting lives in the last `/`-separated section and is cut
/// at its last `$`; a cut that would leave an empty side is no cut.
fn ref_split(name: &str) -> Option<(&str, &str)> {
	let seg_start = name.rfind('/').map_or(0, |i| i + 1);
	let seg = &name[seg_start..];
	let d = seg.rfind('$')?;
	if d == 0 || d + 1 == seg.len() {
		return None;
	}
	Some((&name[..seg_start + d], &name[seg_start + d + 1..]))
}

fn nest_depth(key: &str) -> usize {
	let mut d = 0;
	let mut k = key;
	while let Some((o, _)) = ref_split(k) {
		d += 1;
		k = o;
	}
	d
}

/// rotations of the insertion order tried on every initial state (besides sorted and reversed)
const MAX_ROTATIONS: usize = 4;

#[derive(Clone, Copy, Debug, PartialEq, Eq, Hash)]
enum Op {
	Extend,
	Contract,
}

#[derive(Clone, Copy, Debug, PartialEq, Eq, Hash)]
struct Act {
	op: Op,
	ns: u8,
}

impl Act {
	fn text(self) -> String {
		format!("{}:{}", match self.op { Op::Extend => "extend", Op::Contract => "contract" }, self.ns)
	}
	fn parse(s: &str) -> Option<Act> {
		let (o, n) = s.trim().split_once(':')?;
		let op = match o {
			"extend" => Op::Extend,
			"contract" => Op::Contract,
			_ => return None,
		};
		Some(Act { op, ns: n.parse().ok()? })
	}
}

/// What the statement allows for one transition.
struct Expectation {
	/// the operation has to fail (text: why)
	must_err: Option<String>,
	/// the statement is silent about this input: failing is acceptable (text: why)
	may_err: Option<String>,
	/// per class: the acceptable values of the chosen column; `None` = statement silent for this entry
	accept: BTreeMap<String, Option<Vec<Option<String>>>>,
}

enum Ext {
	Names(Vec<String>),
	MissingOuter(String),
	Silent(String),
}

/// all readings of "the extended name" of class `key` in namespace `ns`
fn ext_name(set: &MSet, ns: usize, key: &str) -> Ext {
	let c = &set.classes[key];
	let Some(t) = &c.names[ns] else {
		return Ext::Silent(format!("class {key:?} has no name in namespace {ns}"));
	};
	match ref_split(key) {
		None => Ext::Names(vec![t.clone()]),
		Some((outer, _)) => {
			if !set.classes.contains_key(outer) {
				return Ext::MissingOuter(outer.to_owned());
			}
			match ext_name(set, ns, outer) {
				Ext::Names(os) => {
					// "its own simple name": the name as it stands; if that name already looks nested the
					// statement can also be read as "its innermost part" — both readings are accepted
					let mut own = vec![t.as_str()];
					if let Some((_, s)) = ref_split(t) {
						own.push(s);
					}
					let mut v = Vec::new();
					for o in &os {
						for s in &own {
							v.push(format!("{o}${s}"));
						}
					}
					Ext::Names(v)
				},
				other => other,
			}
		},
	}
}

fn ref_extend(set: &MSet, ns: usize) -> Expectation {
	let mut e = Expectation { must_err: None, may_err: None, accept: BTreeMap::new() };
	for (key, c) in &set.classes {
		let nested = ref_split(key).is_some();
		let acc = match &c.names[ns] {
			None => {
				if nested {
					e.may_err.get_or_insert_with(|| format!("nested class {key:?} has no name in the namespace"));
				}
				Some(vec![None])
			},
			Some(t) => match ext_name(set, ns, key) {
				Ext::Names(v) => Some(v.into_iter().map(Some).collect()),
				Ext::MissingOuter(o) => {
					e.must_err.get_or_insert_with(|| format!("outer class {o:?} of {key:?} is not in the set"));
					let _ = t;
					None
				},
				Ext::Silent(why) => {
					e.may_err.get_or_insert(why);
					None
				},
			},
		};
		e.accept.insert(key.clone(), acc);
	}
	e
}

fn ref_contract(set: &MSet, ns: usize) -> Expectation {
	// "contraction keeps only the innermost simple name": of every name in the chosen column, whatever the
	// class is called in the first namespace (the statement ties *extension* to the source nesting, not
	// contraction). A name without a valid cut (no `$` in its last section, or an empty side) has no inner
	// part and stays whole — the inverse law needs that for top-level names in packages.
	let mut e = Expectation { must_err: None, may_err: None, accept: BTreeMap::new() };
	for (key, c) in &set.classes {
		let acc = match &c.names[ns] {
			None => vec![None],
			Some(t) => match ref_split(t) {
				Some((_, s)) => vec![Some(s.to_owned())],
				None => vec![Some(t.clone())],
			},
		};
		e.accept.insert(key.clone(), Some(acc));
	}
	e
}

/// "the original names were simple": no name in the column looks nested, and nested classes carry no package
fn names_simple(set: &MSet, ns: usize) -> bool {
	set.classes.iter().all(|(k, c)| match &c.names[ns] {
		None => true,
		Some(t) => !t.contains('$') && (ref_split(k).is_none() || !t.contains('/')),
	})
}

// ---------------------------------------------------------------------------------------------
// the real code

type RealOut = Result<Result<MSet, String>, String>;

fn real_n<const N: usize>(set: &MSet, op: Op, ns_name: &str, order: Order) -> RealOut {
	let q: Mappings<N, ()> = mapmodel::to_quill_ordered(set, order).unwrap_or_else(|e| vcore::machinery_fail(&format!("cannot build the real mapping set: {e:#}\n{}", tiny::print(set))));
	let r = match op {
		Op::Extend => q.extend_inner_class_names(ns_name),
		Op::Contract => q.contract_inner_class_names(ns_name),
	};
	match r {
		Ok(m) => Ok(mapmodel::from_quill(&m).map_err(|k| k.0)),
		Err(e) => Err(format!("{e:#}")),
	}
}

fn real(set: &MSet, op: Op, ns_name: &str, order: Order) -> Result<RealOut, vcore::Panic> {
	vcore::guard(|| match set.n() {
		2 => real_n::<2>(set, op, ns_name, order),
		3 => real_n::<3>(set, op, ns_name, order),
		4 => real_n::<4>(set, op, ns_name, order),
		n => vcore::machinery_fail(&format!("unsupported namespace count {n}")),
	})
}

// ---------------------------------------------------------------------------------------------
// judging one transition

fn replay_text(set: &MSet, act: Act, extra: &str) -> String {
	// the Tiny text has no place for the comment of the set itself: it travels on a line of its own
	let doc = set.doc.as_ref().map_or(String::new(), |d| format!("set-comment={}\n", tiny::escape(d)));
	format!("action={}\n{doc}state:\n{}--end-state--\n{}", act.text(), tiny::print(set), extra)
}

/// Runs one action of the real code on `set`, judges it, returns the successor (projection of the real result).
fn step(ctx: &Ctx, st: &mut Stats, set: &MSet, act: Act, also_reversed: bool) -> Option<MSet> {
	let ns = act.ns as usize;
	let n = set.n();
	let opn = match act.op { Op::Extend => "extend", Op::Contract => "contract" };
	st.eval();
	let out = match real(set, act.op, &set.ns[ns], Order::Sorted) {
		Ok(o) => o,
		Err(p) => {
			ctx.diff(&format!("{opn}:panic@{}", p.file()), &format!("{opn} panicked at {}: {}", p.site, p.msg), || replay_text(set, act, ""));
			st.outcome(&format!("{opn}:panic"));
			return None;
		},
	};
	let exp = match act.op {
		Op::Extend => ref_extend(set, ns),
		Op::Contract => ref_contract(set, ns),
	};
	let after = match out {
		Err(msg) => {
			if exp.must_err.is_some() {
				st.outcome("extend:err-missing-outer");
				st.sample("err-missing-outer", || json!({"kind": "transition", "action": act.text(), "state": tiny::print(set), "result": format!("Err: {msg}")}));
			} else if exp.may_err.is_some() {
				st.outcome(&format!("{opn}:err-where-statement-silent"));
			} else {
				ctx.diff(&format!("{opn}:refused-valid-set"), &format!("{opn} failed on a set the statement covers: {msg}"), || replay_text(set, act, ""));
				st.outcome(&format!("{opn}:err-unexpected"));
			}
			return None;
		},
		Ok(Err(k)) => {
			ctx.diff(&format!("{opn}:key-invariant"), &format!("result stores an entry under a key that is not its first name: {k}"), || replay_text(set, act, ""));
			return None;
		},
		Ok(Ok(after)) => after,
	};
	let shown = |after: &MSet| format!("real result:\n{}", tiny::print(after));
	if let Some(why) = &exp.must_err {
		ctx.diff("extend:guessed-missing-outer", &format!("extend returned Ok although {why}"), || replay_text(set, act, &shown(&after)));
		st.outcome("extend:ok-but-outer-missing");
	}
	// everything but the chosen column of class names is untouched
	if after.ns != set.ns {
		ctx.diff(&format!("{opn}:namespaces-changed"), &format!("namespaces {:?} became {:?}", set.ns, after.ns), || replay_text(set, act, &shown(&after)));
	}
	if after.doc != set.doc {
		ctx.diff(&format!("{opn}:mappings-comment-touched"), "top-level comment changed", || replay_text(set, act, &shown(&after)));
	}
	for k in set.classes.keys() {
		if !after.classes.contains_key(k) {
			ctx.diff(&format!("{opn}:class-lost"), &format!("class {k:?} is gone"), || replay_text(set, act, &shown(&after)));
		}
	}
	for k in after.classes.keys() {
		if !set.classes.contains_key(k) {
			ctx.diff(&format!("{opn}:class-invented"), &format!("class {k:?} appeared"), || replay_text(set, act, &shown(&after)));
		}
	}
	// every name of the result is a name duke itself accepts (the real code builds names without validation:
	// `from_inner_class`, the two halves of the split); a result with such a name cannot be rebuilt, so it has no
	// successor — but it is a difference, not a problem of the machinery
	let mut rebuildable = true;
	for (k, a) in &after.classes {
		for (j, name) in a.names.iter().enumerate() {
			if let Some(t) = name {
				if mapmodel::cls(t).is_err() {
					rebuildable = false;
					ctx.diff(&format!("{opn}:invalid-class-name-produced"), &format!("class {k:?}: name in namespace {j} is now {t:?}, which is not a valid object class name (was {:?})", set.classes.get(k).and_then(|b| b.names.get(j))), || replay_text(set, act, &shown(&after)));
				}
			}
		}
	}
	let mut changed = 0usize;
	let mut deepest_changed = 0usize;
	for (k, b) in &set.classes {
		let Some(a) = after.classes.get(k) else { continue };
		for j in 0..n {
			if j != ns && a.names.get(j) != b.names.get(j) {
				ctx.diff(&format!("{opn}:other-namespace-touched"), &format!("class {k:?}: name in namespace {j} changed from {:?} to {:?} while working on namespace {ns}", b.names[j], a.names.get(j)), || replay_text(set, act, &shown(&after)));
			}
		}
		if a.names.len() != n {
			ctx.diff(&format!("{opn}:row-length"), &format!("class {k:?}: row {:?}", a.names), || replay_text(set, act, &shown(&after)));
			rebuildable = false;
			continue;
		}
		if a.doc != b.doc {
			ctx.diff(&format!("{opn}:comment-touched"), &format!("class {k:?}: comment changed from {:?} to {:?}", b.doc, a.doc), || replay_text(set, act, &shown(&after)));
		}
		if a.fields != b.fields || a.methods != b.methods {
			ctx.diff(&format!("{opn}:member-touched"), &format!("class {k:?}: fields/methods/parameters or their comments changed"), || replay_text(set, act, &shown(&after)));
			rebuildable = false;
		}
		let got = &a.names[ns];
		if got != &b.names[ns] {
			changed += 1;
			deepest_changed = deepest_changed.max(nest_depth(k));
		}
		if let Some(acc) = &exp.accept[k] {
			if !acc.contains(got) {
				let nested = ref_split(k).is_some();
				let looks_nested = b.names[ns].as_deref().is_some_and(|t| ref_split(t).is_some());
				let site = match (act.op, nested, &b.names[ns]) {
					(_, _, None) => "absent-name-filled",
					(Op::Extend, false, _) => "top-level-renamed",
					(Op::Extend, true, _) => "wrong-extended-name",
					// a nested name in the chosen column of a class that is top-level in the first namespace
					(Op::Contract, false, _) if looks_nested && got == &b.names[ns] => "nested-name-of-top-level-source-kept",
					(Op::Contract, false, _) if looks_nested => "nested-name-of-top-level-source-wrong",
					(Op::Contract, false, _) => "top-level-wrong-name",
					(Op::Contract, true, _) => "wrong-contracted-name",
				};
				ctx.diff(&format!("{opn}:{site}"), &format!("class {k:?}: name in namespace {ns} was {:?}, is now {:?}, the statement allows {:?}", b.names[ns], got, acc), || replay_text(set, act, &shown(&after)));
			}
		}
		// witnesses that the interesting inputs really went through the real code (vacuity floors)
		if let (Some(t), Some(g)) = (&b.names[ns], got) {
			let multibyte = t.len() != t.chars().count();
			match act.op {
				Op::Contract => {
					if ref_split(k).is_none() && ref_split(t).is_some() && g != t {
						st.outcome("contract:cut-nested-name-of-top-level-source");
					}
					if ref_split(t).is_none() && t.contains('$') && g == t {
						let only_in_package = !t[t.rfind('/').map_or(0, |i| i)..].contains('$');
						st.outcome(if only_in_package { "contract:kept-name-with-dollar-in-package-only" } else { "contract:kept-name-with-unsplittable-dollar" });
					}
					if nest_depth(t) >= 2 && g != t {
						st.outcome("contract:cut-name-nested>=2");
					}
					if multibyte && g != t {
						st.outcome("contract:cut-name-with-multibyte-character");
					}
					if g != t && g.bytes().all(|b| b.is_ascii_digit()) {
						st.outcome("contract:cut-to-numeric-name");
					}
				},
				Op::Extend => {
					if let Some((outer, own)) = ref_split(k) {
						if g != t {
							if set.classes.get(outer).is_some_and(|o| o.names[ns].as_deref() == Some(outer)) {
								st.outcome("extend:through-outer-that-keeps-its-source-name");
							}
							if t == own {
								st.outcome("extend:class-named-like-its-source-simple-name");
							}
							if t == k {
								st.outcome("extend:class-named-like-its-whole-source-name");
							}
							if multibyte {
								st.outcome("extend:rewrote-name-with-multibyte-character");
							}
							if k.contains('/') && nest_depth(k) >= 2 {
								st.outcome("extend:rewrote-packaged-class-nested>=2");
							}
							if k[..k.rfind('/').map_or(0, |i| i)].contains('$') {
								st.outcome("extend:rewrote-class-with-dollar-in-source-package");
							}
							if let Some(ot) = set.classes.get(outer).and_then(|o| o.names[ns].as_deref()) {
								if !t.contains('$') && !ot.contains('$') {
									if t == ot {
										st.outcome("extend:own-name-equals-name-of-outer");
									} else if t.starts_with(ot) {
										st.outcome("extend:own-name-begins-with-name-of-outer");
									} else if ot.starts_with(t.as_str()) {
										st.outcome("extend:name-of-outer-begins-with-own-name");
									}
								}
							}
							if own.bytes().all(|b| b.is_ascii_digit()) {
								st.outcome("extend:rewrote-class-with-numeric-source-simple-name");
							}
							if t.bytes().all(|b| b.is_ascii_digit()) {
								st.outcome("extend:rewrote-class-with-numeric-name");
							}
							if set.classes.keys().any(|o| o != k && ref_split(o).is_some_and(|(oo, _)| oo == outer)) {
								st.outcome("extend:rewrote-class-that-has-a-sibling");
							}
						}
					} else if (t.contains('$') || k.contains('$')) && g == t {
						st.outcome("extend:kept-top-level-class-with-dollar-in-a-name");
					}
				},
			}
		}
		// consistency: a nested class's extended name starts with the extended name of its outer class
		if act.op == Op::Extend {
			if let (Some((outer, _)), Some(got), Some(_)) = (ref_split(k), got, &b.names[ns]) {
				if let Some(Some(o)) = after.classes.get(outer).map(|oc| oc.names[ns].as_ref()) {
					if !got.starts_with(&format!("{o}$")) {
						ctx.diff("extend:inconsistent-with-outer", &format!("class {k:?} is now {got:?}, which does not start with the extended name {o:?} of its outer class"), || replay_text(set, act, &shown(&after)));
					}
				}
			}
		}
	}
	let silent = exp.may_err.is_some();
	st.outcome(&format!("{opn}:{}{}", if changed > 0 { "ok-changed" } else { "ok-unchanged" }, if silent { "-statement-silent-case" } else { "" }));
	if changed > 0 {
		st.outcome(&format!("N{n}/ns{ns}:{opn}-changed"));
		st.distinct.add(&(act, &after));
	}
	if act.op == Op::Extend && deepest_changed >= 2 {
		st.outcome("extend:rewrote-class-nested>=2");
		if deepest_changed >= 3 {
			st.outcome("extend:rewrote-class-nested>=3");
		}
		if deepest_changed >= 4 {
			st.outcome("extend:rewrote-class-nested>=4");
		}
		st.sample("extend-deep", || json!({"kind": "transition", "action": act.text(), "state": tiny::print(set), "result": tiny::print(&after)}));
	}
	if act.op == Op::Contract && changed > 0 {
		st.sample("contract", || json!({"kind": "transition", "action": act.text(), "state": tiny::print(set), "result": tiny::print(&after)}));
	}
	// insertion order of the classes must not matter
	if also_reversed {
		st.eval();
		match real(set, act.op, &set.ns[ns], Order::Reversed) {
			Ok(Ok(Ok(r))) if r == after => st.outcome("order:same-result-reversed"),
			Ok(other) => ctx.diff(&format!("{opn}:depends-on-insertion-order"), &format!("classes inserted in reverse order give {:?}", other.map(|r| r.map(|m| tiny::print(&m)))), || replay_text(set, act, &shown(&after))),
			Err(p) => ctx.diff(&format!("{opn}:panic@{}", p.file()), &format!("{opn} panicked at {}: {}", p.site, p.msg), || replay_text(set, act, "classes inserted in reverse order")),
		}
		// … nor where the walk over the classes starts (rotations of the sorted order: an inner class first and
		// its outer classes later, an unrelated class in between, …)
		for rot in 1..set.classes.len().min(MAX_ROTATIONS + 1) {
			st.eval();
			match real(set, act.op, &set.ns[ns], Order::Rotated(rot)) {
				Ok(Ok(Ok(r))) if r == after => st.outcome("order:same-result-rotated"),
				Ok(other) => ctx.diff(&format!("{opn}:depends-on-insertion-order"), &format!("classes inserted in sorted order rotated by {rot} give {:?}", other.map(|r| r.map(|m| tiny::print(&m)))), || replay_text(set, act, &shown(&after))),
				Err(p) => ctx.diff(&format!("{opn}:panic@{}", p.file()), &format!("{opn} panicked at {}: {}", p.site, p.msg), || replay_text(set, act, &format!("classes inserted in sorted order rotated by {rot}"))),
			}
		}
	}
	if set.doc.is_some() {
		st.outcome(&format!("{opn}:ok-on-set-with-comment"));
	}
	// the inverse law
	if !rebuildable {
		// already reported; the result cannot be given back to the real code
		st.outcome(&format!("{opn}:result-not-rebuildable"));
		return None;
	}
	if act.op == Op::Extend && exp.must_err.is_none() && names_simple(set, ns) {
		st.eval();
		let back_act = Act { op: Op::Contract, ns: act.ns };
		match real(&after, Op::Contract, &set.ns[ns], Order::Sorted) {
			Ok(Ok(Ok(back))) => {
				if &back == set {
					if changed > 0 {
						st.outcome("law:contract-extend-identity-exercised");
						st.sample("law", || json!({"kind": "law contract(extend(M)) == M", "namespace": ns, "M": tiny::print(set), "extend(M)": tiny::print(&after)}));
					} else {
						st.outcome("law:contract-extend-identity-trivial");
					}
				} else {
					let (k, what) = mapmodel::first_difference(set, &back).unwrap_or(("other".into(), "differ".into()));
					ctx.diff(&format!("law:contract-extend-not-identity:{k}"), &format!("contract(extend(M)) != M although all names of M were simple: {what}"), || replay_text(set, act, &format!("{}contract of that:\n{}", shown(&after), tiny::print(&back))));
				}
			},
			Ok(Ok(Err(k))) => ctx.diff("contract:key-invariant", &k, || replay_text(&after, back_act, "")),
			Ok(Err(e)) => ctx.diff("law:contract-refused-extended-set", &format!("contract failed on the result of extend: {e}"), || replay_text(set, act, &shown(&after))),
			Err(p) => ctx.diff(&format!("contract:panic@{}", p.file()), &format!("contract panicked at {}: {}", p.site, p.msg), || replay_text(&after, back_act, "")),
		}
	}
	Some(after)
}

// ---------------------------------------------------------------------------------------------
// the alphabet of initial states

/// (class key, base of its simple target name)
const KEYS_QUICK: &[(&str, &str)] = &[("A", "Aa"), ("A$B", "Bb"), ("A$B$C", "Cc"), ("A$B$C$D", "Dd"), ("p/A", "q/Pa"), ("p/A$B", "Pb"), ("X$Y", "Yy")];
const KEYS_THOROUGH_EXTRA: &[(&str, &str)] = &[("A$", "Ae"), ("$A", "Ea"), ("A$$B", "Eb")];
/// A second universe in which several classes share one simple target name (`S`): two different nested
/// classes called the same under different outer classes, one of them with classes nested inside it, and a
/// top-level class with that name. The target namespace is not required to be injective, and anything the
/// implementation keys by *target* name instead of source name shows here and nowhere else.
const KEYS_SHARED: &[(&str, &str)] = &[("A", "Aa"), ("A$B", "S"), ("A$B$C", "Cc"), ("X", "Xx"), ("X$B", "S"), ("X$B$C", "Cd"), ("S", "S")];
/// The complete range of the quantifier's nesting depth, 0..4, in one chain. The simple target names carry
/// characters of two and three bytes on both sides of every `$` an extension inserts.
const KEYS_DEEP: &[(&str, &str)] = &[("A", "Aä"), ("A$B", "Bé"), ("A$B$C", "C€"), ("A$B$C$D", "Dö"), ("A$B$C$D$E", "Eü")];
/// Outer classes in packages of several sections, nested two levels; a package section that contains a `$`
/// (never a nesting: `d$e/A` is top-level, `d$e/A$B` is nested in it); top-level classes whose simple name
/// begins or ends with the only `$` of the name.
const KEYS_PACKAGES: &[(&str, &str)] = &[("p/q/A", "r/s/Pa"), ("p/q/A$B", "Pb"), ("p/q/A$B$C", "Pc"), ("d$e/A", "f$g/Da"), ("d$e/A$B", "Db"), ("p/q/$Z", "r/Zl"), ("p/q/Z$", "r/Zt")];
/// Source names whose `$` is not a nesting (`A$`, `$A`: an empty side) next to ones where it is (`A$$B` is
/// nested in `A$`; `A$B` in `A`).
const KEYS_EDGE: &[(&str, &str)] = &[("A", "Aa"), ("A$", "Ae"), ("$A", "Ea"), ("A$$B", "Eb"), ("A$B", "Bb"), ("A$$B$C", "Ec")];
/// Two chains whose names cross: the target name of a class may be the *source* name of the corresponding
/// class of the other chain (kind `Swap`), or its own source name.
const KEYS_CROSS: &[(&str, &str)] = &[("A", "Aa"), ("A$B", "Bb"), ("A$B$C", "Cc"), ("X", "Xx"), ("X$B", "Yb"), ("X$B$C", "Yc")];

/// Sibling inner classes (`A$B`, `A$C`), equal simple names below different siblings (`A$B$D`, `A$C$D`), and
/// source names that are string prefixes of each other without being nested in each other (`A` / `AB`,
/// `A$B` / `AB$B`): anything carried over from the class visited before, or compared by `starts_with`.
const KEYS_SIBLINGS: &[(&str, &str)] = &[("A", "Aa"), ("A$B", "Bb"), ("A$C", "Cc"), ("A$B$D", "Dd"), ("A$C$D", "De"), ("AB", "Ab"), ("AB$B", "Bc")];
/// Anonymous and local classes (`A$1`, `A$1B`), named classes inside them and anonymous classes inside named
/// inner classes: a simple name that is a number is a simple name.
const KEYS_ANON: &[(&str, &str)] = &[("A", "Aa"), ("A$1", "N"), ("A$1$B", "Bb"), ("A$1B", "Lb"), ("A$B", "Bc"), ("A$B$1", "M"), ("p/A$1", "Pn")];

/// What a class is called in one non-first namespace.
#[derive(Clone, Copy, Debug, PartialEq, Eq)]
enum Kind {
	/// no name
	Absent,
	/// `<base><j>`
	Simple,
	/// as many `Oo<j>$Pp<j>$…` in front of the simple name as the source name is nested (at least one)
	Extended,
	/// the source name itself, in every namespace
	Identity,
	/// `Uu<j>$Vv<j>$<simple>`: nested two levels, however the source name is nested
	Deep,
	/// `k$l/<simple>`: the only `$` sits in a package section, the name is not a nested one
	DollarPkg,
	/// `<simple>$`: ends with its only `$`, not a nested name
	TrailDollar,
	/// the source name of the corresponding class of the other chain (`A…` <-> `X…`)
	Swap,
	/// `Zz<j>` — the same name for every class of the universe
	Stem,
	/// `Zz<j><simple>`: begins with the `Stem` name (an inner class called `FooBuilder` in an outer class called
	/// `Foo`, or the other way round): a test by `starts_with` instead of by the `$` goes wrong here only
	Stemmed,
	/// the innermost part of the source name (`1` for `A$1`, `B` for `A$1$B`; the whole name if top-level)
	OwnSimple,
}

const KINDS_BASE: &[Kind] = &[Kind::Absent, Kind::Simple, Kind::Extended];

struct Alphabet {
	label: &'static str,
	ns: Vec<String>,
	kinds: Vec<Kind>,
	/// the comment of the set itself
	doc: Option<String>,
	keys: Vec<(String, String)>,
	/// decorated class templates (row filled in later)
	templates: Vec<MClass>,
	rejected: Vec<String>,
}

/// Namespace names that begin with one another, in both directions as seen from a later namespace (`nn` comes
/// after `nn1`, which begins with it, and after `n`, with which it begins), and two that differ only in case
const NS_PREFIXED: [&str; 4] = ["n", "nn1", "nn", "NN"];

fn target(base: &str, key: &str, j: usize, kind: Kind) -> Option<String> {
	let (pkg, simple) = match base.rfind('/') {
		Some(i) => (&base[..=i], &base[i + 1..]),
		None => ("", base),
	};
	match kind {
		Kind::Absent => None,
		Kind::Simple => Some(format!("{base}{j}")),
		Kind::Extended => {
			let levels = nest_depth(key).max(1);
			let prefix: String = ["Oo", "Pp", "Qq", "Rr"][..levels].iter().map(|p| format!("{p}{j}$")).collect();
			Some(format!("{pkg}{prefix}{simple}{j}"))
		},
		Kind::Identity => Some(key.to_owned()),
		Kind::Deep => Some(format!("{pkg}Uu{j}$Vv{j}${simple}{j}")),
		Kind::DollarPkg => Some(format!("k$l/{simple}{j}")),
		Kind::TrailDollar => Some(format!("{pkg}{simple}{j}$")),
		Kind::Swap => {
			let other = match key.as_bytes().first() {
				Some(b'A') => "X",
				Some(b'X') => "A",
				_ => vcore::machinery_fail("kind Swap needs class keys that begin with A or X"),
			};
			Some(format!("{other}{}", &key[1..]))
		},
		Kind::Stem => Some(format!("{pkg}Zz{j}")),
		Kind::Stemmed => Some(format!("{pkg}Zz{j}{simple}")),
		Kind::OwnSimple => Some(ref_split(key).map_or(key, |(_, own)| own).to_owned()),
	}
}

impl Alphabet {
	fn new(n: usize, tier: vcore::Tier) -> Alphabet {
		let mut all: Vec<(&str, &str)> = KEYS_QUICK.to_vec();
		if tier == vcore::Tier::Thorough {
			all.extend(KEYS_THOROUGH_EXTRA);
		}
		Alphabet::with_keys(if n == 2 { "base N=2" } else { "base N=3" }, n, all, KINDS_BASE, None)
	}

	fn with_keys(label: &'static str, n: usize, all: Vec<(&str, &str)>, kinds: &[Kind], doc: Option<&str>) -> Alphabet {
		let ns: Vec<String> = if n == 2 { vec!["official".into(), "named".into()] } else { ["a", "b", "c", "d"][..n].iter().map(|s| s.to_string()).collect() };
		let mut keys = Vec::new();
		let mut rejected = Vec::new();
		for (k, b) in all {
			// names duke rejects are skipped (and reported in the evidence)
			let mut ok = mapmodel::cls(k).is_ok();
			for j in 1..n {
				for &kind in kinds {
					if let Some(t) = target(b, k, j, kind) {
						ok &= mapmodel::cls(&t).is_ok();
					}
				}
			}
			if ok {
				keys.push((k.to_owned(), b.to_owned()));
			} else {
				rejected.push(k.to_owned());
			}
		}
		let row = |src: Option<&str>, base: &str, absent_in: Option<usize>| -> Vec<Option<String>> {
			let mut r = vec![src.map(|s| s.to_owned())];
			for j in 1..n {
				r.push(if absent_in == Some(j) { None } else { Some(format!("{base}{j}")) });
			}
			r
		};
		let templates = keys.iter().map(|(k, _)| {
			let mut c = MClass::default();
			match k.as_str() {
				"A" => {
					c.doc = Some("comment of A, mentions A$B".into());
					c.fields.insert(("f".into(), "LA$B;".into()), MField { names: row(Some("f"), "fA", None), doc: Some("field comment".into()) });
				},
				"A$B" => {
					let mut m = MMethod { names: row(Some("m"), "mB", None), doc: Some("method comment".into()), params: BTreeMap::new() };
					m.params.insert(0, MParam { names: row(None, "p", None), doc: Some("parameter comment".into()) });
					c.methods.insert(("m".into(), "(LA$B$C;)LA$B;".into()), m);
				},
				"A$B$C" => c.doc = Some("Untouched $ comment".into()),
				"A$B$C$D" => {
					c.fields.insert(("g".into(), "[LA$B$C$D;".into()), MField { names: row(Some("g"), "gD", None), doc: None });
				},
				"A$B$C$D$E" => {
					c.doc = Some("innermost: A$B$C$D$E".into());
					let mut m = MMethod { names: row(Some("A$B$C$D$E"), "E$", None), doc: None, params: BTreeMap::new() };
					m.params.insert(1, MParam { names: row(Some("A$B"), "A$B", None), doc: None });
					c.methods.insert(("A$B$C$D$E".into(), "(ILA$B$C$D;)LA$B$C$D$E;".into()), m);
				},
				"p/A" => {
					c.methods.insert(("<init>".into(), "(Lp/A$B;)V".into()), MMethod { names: vec![Some("<init>".into()); n], doc: None, params: BTreeMap::new() });
				},
				"p/A$B" => {
					c.doc = Some("two\nlines".into());
					c.fields.insert(("h".into(), "Lp/A;".into()), MField { names: row(Some("h"), "hB", Some(1)), doc: None });
				},
				"X$Y" => {
					c.fields.insert(("x".into(), "LX;".into()), MField { names: row(Some("x"), "xY", None), doc: Some("outer X is not mapped".into()) });
				},
				"$A" => c.doc = Some("dollar first".into()),
				"A$$B" => {
					c.fields.insert(("e".into(), "LA$;".into()), MField { names: row(Some("e"), "eB", None), doc: None });
				},
				"p/q/A$B" => {
					// members called like nested classes: nothing below the class level is a class name
					c.fields.insert(("A$B".into(), "Lp/q/A$B$C;".into()), MField { names: row(Some("A$B"), "A$B", None), doc: Some("p/q/A$B".into()) });
				},
				"p/q/A$B$C" => c.doc = Some("p/q/A$B$C".into()),
				"d$e/A$B" => {
					c.methods.insert(("m$n".into(), "(Ld$e/A;)Ld$e/A$B;".into()), MMethod { names: row(Some("m$n"), "m$n", None), doc: Some("d$e".into()), params: BTreeMap::new() });
				},
				"p/q/$Z" => c.doc = Some("$".into()),
				_ => {},
			}
			c
		}).collect();
		Alphabet { label, ns, kinds: kinds.to_vec(), doc: doc.map(|d| d.to_owned()), keys, templates, rejected }
	}

	/// every class carries a comment, a field and a method with a parameter (all with comments) that mention
	/// the class's own name
	fn decorated(mut self) -> Alphabet {
		let n = self.n();
		let row = |src: Option<&str>, base: &str| -> Vec<Option<String>> {
			let mut r = vec![src.map(|s| s.to_owned())];
			for j in 1..n {
				r.push(Some(format!("{base}{j}")));
			}
			r
		};
		for ((k, _), c) in self.keys.iter().zip(self.templates.iter_mut()) {
			if c.doc.is_some() || !c.fields.is_empty() || !c.methods.is_empty() {
				continue;
			}
			c.doc = Some(format!("comment of {k}"));
			c.fields.insert(("f".into(), format!("L{k};")), MField { names: row(Some("f"), "f$"), doc: Some(format!("field of {k}")) });
			let mut m = MMethod { names: row(Some("m"), "m$"), doc: Some(format!("method of {k}")), params: BTreeMap::new() };
			m.params.insert(0, MParam { names: row(None, "p$"), doc: Some(format!("parameter in {k}")) });
			c.methods.insert(("m".into(), format!("(L{k};)V")), m);
		}
		self
	}

	fn with_namespaces(mut self, ns: &[&str]) -> Alphabet {
		if ns.len() != self.n() {
			vcore::machinery_fail("with_namespaces: wrong number of namespace names");
		}
		self.ns = ns.iter().map(|s| s.to_string()).collect();
		self
	}

	fn n(&self) -> usize {
		self.ns.len()
	}

	/// variants of one present class: one target kind per non-first namespace
	fn variants(&self) -> usize {
		self.kinds.len().pow(self.n() as u32 - 1)
	}

	/// the `idx`-th mapping set whose present classes are exactly `mask`
	fn build(&self, mask: u32, mut idx: u64) -> MSet {
		let n = self.n();
		let nk = self.kinds.len();
		let mut set = MSet { ns: self.ns.clone(), doc: self.doc.clone(), classes: BTreeMap::new() };
		for i in (0..self.keys.len()).rev() {
			if mask & (1 << i) == 0 {
				continue;
			}
			let (k, b) = &self.keys[i];
			let mut c = self.templates[i].clone();
			c.names = vec![Some(k.clone())];
			let mut v = (idx % self.variants() as u64) as usize;
			idx /= self.variants() as u64;
			for j in 1..n {
				c.names.push(target(b, k, j, self.kinds[v % nk]));
				v /= nk;
			}
			set.classes.insert(k.clone(), c);
		}
		set
	}

	/// every name that can stand in a set of this alphabet
	fn names(&self) -> Vec<String> {
		let mut v = Vec::new();
		for (k, b) in &self.keys {
			v.push(k.clone());
			for j in 1..self.n() {
				for &kind in &self.kinds {
					v.extend(target(b, k, j, kind));
				}
			}
		}
		v
	}
}

/// One explored universe: an alphabet, the sets of simultaneously present classes, the depth of the BFS.
struct Universe {
	alpha: Alphabet,
	masks: Vec<u32>,
	sets_rule: String,
	chunk: u64,
	depth: u8,
}

impl Universe {
	fn all_subsets(alpha: Alphabet, chunk: u64, depth: u8) -> Universe {
		let masks = vcore::enumerate::subsets_by_size(alpha.keys.len());
		Universe { alpha, masks, sets_rule: "every subset of the class keys".into(), chunk, depth }
	}
	fn subsets_up_to(alpha: Alphabet, max: u32, chunk: u64, depth: u8) -> Universe {
		let masks = vcore::enumerate::subsets_by_size(alpha.keys.len()).into_iter().filter(|m| m.count_ones() <= max).collect();
		Universe { alpha, masks, sets_rule: format!("every subset of <= {max} class keys"), chunk, depth }
	}
	fn init_states(&self) -> u64 {
		self.masks.iter().map(|m| (self.alpha.variants() as u64).pow(m.count_ones())).sum()
	}
}

// ---------------------------------------------------------------------------------------------
// the state graph

#[derive(Clone, Debug, Hash, PartialEq, Eq)]
struct St {
	depth: u8,
	set: MSet,
}

struct NestModel {
	inits: Vec<MSet>,
	max_depth: u8,
	ctx: &'static Ctx,
	stats: Arc<Mutex<Stats>>,
}

impl Model for NestModel {
	type State = St;
	type Action = Act;

	fn init_states(&self) -> Vec<St> {
		self.inits.iter().map(|s| St { depth: 0, set: s.clone() }).collect()
	}

	fn actions(&self, s: &St, actions: &mut Vec<Act>) {
		if s.depth >= self.max_depth {
			return;
		}
		for ns in 1..s.set.n() {
			actions.push(Act { op: Op::Extend, ns: ns as u8 });
			actions.push(Act { op: Op::Contract, ns: ns as u8 });
		}
	}

	fn next_state(&self, last: &St, act: Act) -> Option<St> {
		let mut st = self.stats.lock().unwrap();
		let next = step(self.ctx, &mut st, &last.set, act, last.depth == 0)?;
		st.outcome(&format!("depth{}:successor", last.depth + 1));
		Some(St { depth: last.depth + 1, set: next })
	}

	fn properties(&self) -> Vec<Property<Self>> {
		// the oracle runs inside next_state (on the transition) and reports through the Ctx so that every
		// distinct difference is collected; the invariant re-checks the model's own well-formedness
		vec![Property::always("states are well-formed projections", |_: &NestModel, s: &St| s.set.check().is_ok())]
	}
}

struct Chunk {
	alpha: usize,
	mask: u32,
	start: u64,
	len: u64,
}

struct GraphTotals {
	stats: Stats,
	init_states: u64,
	states: u64,
	successors: u64,
	max_depth: usize,
}

/// outcome counters that are also kept per universe (`<label>/<counter>`)
const PER_UNIVERSE: &[&str] = &["extend:ok-changed", "extend:ok-changed-statement-silent-case", "contract:ok-changed", "extend:err-missing-outer", "law:contract-extend-identity-exercised"];

fn run_graph(ctx: &'static Ctx, universes: &[Universe]) -> GraphTotals {
	let mut chunks = Vec::new();
	for (ui, u) in universes.iter().enumerate() {
		for &mask in &u.masks {
			let total = (u.alpha.variants() as u64).pow(mask.count_ones());
			let mut start = 0;
			while start < total {
				let len = u.chunk.min(total - start);
				chunks.push(Chunk { alpha: ui, mask, start, len });
				start += len;
			}
		}
	}
	chunks.into_par_iter().map(|c| {
		let u = &universes[c.alpha];
		let a = &u.alpha;
		vcore::watched(|| format!("chunk universe={:?} N={} mask={:b} start={} len={}", a.label, a.n(), c.mask, c.start, c.len), || {
			let inits: Vec<MSet> = (c.start..c.start + c.len).map(|i| a.build(c.mask, i)).collect();
			let n_init = inits.len() as u64;
			let stats = Arc::new(Mutex::new(Stats::new()));
			let model = NestModel { inits, max_depth: u.depth, ctx, stats: stats.clone() };
			let checker = model.checker().threads(1).spawn_bfs().join();
			if !checker.is_done() {
				vcore::machinery_fail("stateright did not finish the state space");
			}
			if checker.discoveries().len() != 0 {
				vcore::machinery_fail("a projected state is not well-formed");
			}
			let mut st = std::mem::take(&mut *stats.lock().unwrap());
			st.outcome_n(&format!("N{}:init-states", a.n()), n_init);
			st.outcome_n(&format!("{}/init-states", a.label), n_init);
			st.outcome_n(&format!("{}/states", a.label), checker.unique_state_count() as u64);
			for k in PER_UNIVERSE {
				let v = st.get(k);
				if v > 0 {
					st.outcome_n(&format!("{}/{k}", a.label), v);
				}
			}
			GraphTotals {
				stats: st,
				init_states: n_init,
				states: checker.unique_state_count() as u64,
				successors: checker.state_count() as u64 - n_init,
				max_depth: checker.max_depth(),
			}
		})
	}).reduce(|| GraphTotals { stats: Stats::new(), init_states: 0, states: 0, successors: 0, max_depth: 0 }, |a, b| GraphTotals {
		stats: a.stats.merge(b.stats),
		init_states: a.init_states + b.init_states,
		states: a.states + b.states,
		successors: a.successors + b.successors,
		max_depth: a.max_depth.max(b.max_depth),
	})
}

// ---------------------------------------------------------------------------------------------
// duke's split / join helpers

/// `é` takes two bytes: an index counted in characters and used in bytes (or the other way round) goes wrong
const HELPER_ALPHABET: &[char] = &['A', 'b', '$', '/', 'é'];
/// characters of three and four bytes (the latter two UTF-16 units: an index counted in UTF-16 units, as Java
/// does, is right for everything else), and a digit (the simple name of an anonymous class)
const HELPER_ALPHABET_WIDE: &[char] = &['A', '1', '$', '/', '€', '𝄞'];

fn check_helpers_on(ctx: &Ctx, st: &mut Stats, s: &str) {
	st.eval();
	let Ok(name) = mapmodel::cls(s) else {
		st.outcome("helpers:name-rejected-by-duke");
		return;
	};
	let want = ref_split(s).map(|(p, i)| (p.to_owned(), i.to_owned()));
	let real = vcore::guard(|| {
		let sl = name.as_slice();
		let split = sl.split_inner_class_parent_and_name().map(|(p, i)| (p.as_inner().to_string(), i.as_inner().to_string()));
		let parent = sl.get_inner_class_parent().map(|p| p.as_inner().to_string());
		let inner = sl.get_inner_class_name().map(|p| p.as_inner().to_string());
		let joined = sl.split_inner_class_parent_and_name().map(|(p, i)| ObjClassName::from_inner_class(p.to_owned(), i).as_inner().to_string());
		(split, parent, inner, joined)
	});
	let (split, parent, inner, joined) = match real {
		Ok(r) => r,
		Err(p) => {
			ctx.diff(&format!("helpers:panic@{}", p.file()), &format!("split helpers panicked at {}: {}", p.site, p.msg), || format!("name={s}"));
			return;
		},
	};
	if let Some((p, i)) = &split {
		// both halves are typed as object class names (built without validation)
		if mapmodel::cls(p).is_err() || mapmodel::cls(i).is_err() {
			ctx.diff("helpers:split-returns-invalid-name", &format!("split_inner_class_parent_and_name({s:?}) = {split:?}: a half is not a valid object class name"), || format!("name={s}"));
		}
	}
	if split != want {
		ctx.diff("helpers:split-differs", &format!("split_inner_class_parent_and_name({s:?}) = {split:?}, the reference split gives {want:?}"), || format!("name={s}"));
	}
	if parent != want.as_ref().map(|w| w.0.clone()) || inner != want.as_ref().map(|w| w.1.clone()) {
		ctx.diff("helpers:getter-differs", &format!("get_inner_class_parent/name({s:?}) = {parent:?}/{inner:?}, the reference split gives {want:?}"), || format!("name={s}"));
	}
	match (&split, &joined) {
		(Some(_), Some(j)) => {
			if j != s {
				ctx.diff("helpers:join-not-inverse-of-split", &format!("from_inner_class(split({s:?})) = {j:?}"), || format!("name={s}"));
			}
			st.outcome("helpers:split-some");
			if s.len() != s.chars().count() {
				st.outcome("helpers:split-some-with-multibyte-character");
			}
			if s.chars().any(|c| c.len_utf8() == 4) {
				st.outcome("helpers:split-some-with-4-byte-character");
			}
			st.distinct.add(s);
			st.sample("helpers", || json!({"kind": "split", "name": s, "split": split}));
		},
		_ => st.outcome("helpers:split-none"),
	}
	// split ∘ join: joining this name (as outer) with a simple inner name and splitting again gives both back
	for inner in ["I", "b1", "é€", "1", "𝄞"] {
		st.eval();
		let r = vcore::guard(|| {
			let i = mapmodel::cls(inner).unwrap();
			let j = ObjClassName::from_inner_class(name.clone(), i.as_slice());
			let valid = ObjClassName::is_valid(j.as_inner());
			let back = j.as_slice().split_inner_class_parent_and_name().map(|(p, i)| (p.as_inner().to_string(), i.as_inner().to_string()));
			(j.as_inner().to_string(), valid, back)
		});
		match r {
			Ok((j, valid, back)) => {
				if j != format!("{s}${inner}") || !valid || back != Some((s.to_owned(), inner.to_owned())) {
					ctx.diff("helpers:split-not-inverse-of-join", &format!("from_inner_class({s:?}, {inner:?}) = {j:?} (valid: {valid}), split again: {back:?}"), || format!("name={s}"));
				}
				st.outcome("helpers:join-then-split");
			},
			Err(p) => ctx.diff(&format!("helpers:panic@{}", p.file()), &format!("join helpers panicked at {}: {}", p.site, p.msg), || format!("name={s}")),
		}
	}
}

fn run_helpers(ctx: &Ctx, alphabet: &[char], max_len: usize, used: &[String]) -> Stats {
	let total = vcore::enumerate::strings_count(alphabet.len(), max_len);
	let mut st = (0..total).into_par_iter().fold(Stats::new, |mut st, idx| {
		let s: String = vcore::enumerate::string_nth(alphabet, max_len, idx).into_iter().collect();
		check_helpers_on(ctx, &mut st, &s);
		st
	}).reduce(Stats::new, Stats::merge);
	for s in used {
		check_helpers_on(ctx, &mut st, s);
		st.outcome("helpers:names-of-the-mapping-alphabet");
	}
	st
}

// ---------------------------------------------------------------------------------------------
// outside the statement's domain (first namespace, unknown namespace): only "no panic"

fn run_probes(ctx: &Ctx, a: &Alphabet, max_present: usize) -> Stats {
	let masks: Vec<u32> = vcore::enumerate::subsets_by_size(a.keys.len()).into_iter().filter(|m| m.count_ones() as usize <= max_present).collect();
	masks.into_par_iter().fold(Stats::new, |mut st, mask| {
		let total = (a.variants() as u64).pow(mask.count_ones());
		vcore::watched(|| format!("probes mask={mask:b}"), || {
			for i in 0..total {
				let set = a.build(mask, i);
				for (op, ns_name) in [(Op::Extend, a.ns[0].as_str()), (Op::Contract, a.ns[0].as_str()), (Op::Extend, "no-such-namespace"), (Op::Contract, "no-such-namespace")] {
					st.eval();
					let opn = match op { Op::Extend => "extend", Op::Contract => "contract" };
					let which = if ns_name == a.ns[0] { "first-namespace" } else { "unknown-namespace" };
					match real(&set, op, ns_name, Order::Sorted) {
						Err(p) => ctx.diff(&format!("{opn}:panic@{}", p.file()), &format!("{opn} on {which} panicked at {}: {}", p.site, p.msg), || format!("namespace={ns_name}\n{}", replay_text(&set, Act { op, ns: 0 }, ""))),
						Ok(Err(_)) => st.outcome(&format!("probe:{opn}:{which}:err")),
						Ok(Ok(Err(_))) => st.outcome(&format!("probe:{opn}:{which}:ok-but-keys-no-longer-first-names")),
						Ok(Ok(Ok(_))) => st.outcome(&format!("probe:{opn}:{which}:ok")),
					}
				}
			}
		});
		st
	}).reduce(Stats::new, Stats::merge)
}

// ---------------------------------------------------------------------------------------------

fn main() {
	let ctx: &'static Ctx = Box::leak(Box::new(Ctx::new("C11", "model_checking")));
	if let Some(path) = ctx.replay.clone() {
		replay(ctx, &path);
	}
	let thorough = ctx.tier == vcore::Tier::Thorough;
	let timing = std::env::var_os("C11_TIMING").is_some();
	let only: Option<String> = std::env::var("C11_ONLY").ok();
	let max_depth: u8 = 3;
	const DOC: Option<&str> = Some("comment of the whole set: A$B, p/A$B\nsecond line");

	// base universes (as in the first version of the check).
	// N=2: every subset of the class keys. N=3 (9 variants per present class): every subset of at most 3
	// keys, the complete chain A ⊂ A$B ⊂ A$B$C ⊂ A$B$C$D, and in the thorough tier every 4-subset of the
	// seven quick-tier keys.
	let base2 = Universe::all_subsets(Alphabet::new(2, ctx.tier), 256, max_depth);
	let base3 = {
		let a = Alphabet::new(3, ctx.tier);
		let nquick = KEYS_QUICK.len().min(a.keys.len());
		let chain: u32 = a.keys.iter().enumerate().filter(|(_, (k, _))| ["A", "A$B", "A$B$C", "A$B$C$D"].contains(&k.as_str())).map(|(i, _)| 1u32 << i).sum();
		let masks: Vec<u32> = vcore::enumerate::subsets_by_size(a.keys.len()).into_iter().filter(|m| {
			m.count_ones() <= 3 || *m == chain || (thorough && m.count_ones() == 4 && (*m >> nquick) == 0)
		}).collect();
		let rule = ctx.tier.pick("every subset of <= 3 class keys, plus the complete chain {A, A$B, A$B$C, A$B$C$D}", "every subset of <= 3 class keys, plus every 4-subset of the first seven keys");
		Universe { alpha: a, masks, sets_rule: rule.into(), chunk: 128, depth: max_depth }
	};
	let shared = Universe::all_subsets(Alphabet::with_keys("shared target names N=2", 2, KEYS_SHARED.to_vec(), KINDS_BASE, None), 256, max_depth);
	// added universes
	use Kind::*;
	let deep2 = Universe::all_subsets(Alphabet::with_keys("depth 0..4 N=2", 2, KEYS_DEEP.to_vec(), &[Absent, Simple, Extended, Identity, Deep, DollarPkg, TrailDollar], DOC), 256, max_depth);
	let deep3 = {
		let kinds: &[Kind] = ctx.tier.pick(&[Simple, Extended, Identity], &[Absent, Simple, Extended, Identity]);
		Universe::all_subsets(Alphabet::with_keys("depth 0..4 N=3", 3, KEYS_DEEP.to_vec(), kinds, DOC), 128, max_depth)
	};
	let packages = {
		let a = Alphabet::with_keys("packages N=2", 2, KEYS_PACKAGES.to_vec(), &[Absent, Simple, Extended, Identity, Deep, DollarPkg], DOC);
		if thorough { Universe::all_subsets(a, 256, max_depth) } else { Universe::subsets_up_to(a, 4, 256, max_depth) }
	};
	let packages3 = Universe::subsets_up_to(Alphabet::with_keys("packages N=3", 3, KEYS_PACKAGES.to_vec(), &[Simple, Identity, Deep], None), ctx.tier.pick(3, 4), 128, max_depth);
	let edge = Universe::all_subsets(Alphabet::with_keys("unsplittable $ N=2", 2, KEYS_EDGE.to_vec(), &[Absent, Simple, Extended, TrailDollar], None), 256, max_depth);
	let cross = Universe::all_subsets(Alphabet::with_keys("crossing names N=2", 2, KEYS_CROSS.to_vec(), &[Absent, Simple, Identity, Swap], DOC), 256, max_depth);
	let four = Universe::all_subsets(Alphabet::with_keys("N=4", 4, vec![("A", "Aa"), ("A$B", "Bb"), ("A$B$C", "Cc"), ("p/A", "q/Pa"), ("p/A$B", "Pb")], &[Simple, Deep], DOC), 64, ctx.tier.pick(2, 3));
	let four = Universe { alpha: four.alpha.with_namespaces(&NS_PREFIXED), ..four };
	// quick: the kinds that make names equal to / beginning with one another; thorough adds the already extended ones
	let siblings = Universe::all_subsets(Alphabet::with_keys("siblings and prefixes N=2", 2, KEYS_SIBLINGS.to_vec(), ctx.tier.pick(&[Simple, Stem, Stemmed][..], &[Simple, Extended, Stem, Stemmed, Absent][..]), DOC).decorated(), 256, max_depth);
	let siblings3 = Universe::subsets_up_to(Alphabet::with_keys("siblings and prefixes N=3", 3, KEYS_SIBLINGS.to_vec(), ctx.tier.pick(&[Simple, Stemmed][..], &[Simple, Stem, Stemmed][..]), None).decorated().with_namespaces(&NS_PREFIXED[1..]), ctx.tier.pick(3, 4), 128, max_depth);
	let anon = {
		// quick: without the packaged anonymous class
		let keys = &KEYS_ANON[..ctx.tier.pick(KEYS_ANON.len() - 1, KEYS_ANON.len())];
		Universe::all_subsets(Alphabet::with_keys("anonymous and local N=2", 2, keys.to_vec(), &[Absent, Simple, Extended, OwnSimple], None).decorated(), 256, max_depth)
	};
	let mut universes = vec![base2, base3, shared, deep2, deep3, packages, packages3, edge, cross, four, siblings, siblings3, anon];
	if let Some(o) = &only {
		universes.retain(|u| u.alpha.label.contains(o.as_str()));
	}
	for u in &universes {
		if timing { eprintln!("universe {:?}: {} sets of present classes, {} initial states", u.alpha.label, u.masks.len(), u.init_states()); }
	}
	let g = if timing {
		// one universe after the other, to see where the time goes
		let mut total = GraphTotals { stats: Stats::new(), init_states: 0, states: 0, successors: 0, max_depth: 0 };
		for u in &universes {
			let t0 = ctx.elapsed_s();
			let g = run_graph(ctx, std::slice::from_ref(u));
			eprintln!("universe {:?}: {} states, {} evaluations, {:.1}s", u.alpha.label, g.states, g.stats.evaluations, ctx.elapsed_s() - t0);
			total = GraphTotals { stats: total.stats.merge(g.stats), init_states: total.init_states + g.init_states, states: total.states + g.states, successors: total.successors + g.successors, max_depth: total.max_depth.max(g.max_depth) };
		}
		total
	} else {
		run_graph(ctx, &universes)
	};
	if timing { eprintln!("graph done at {:.1}s", ctx.elapsed_s()); }

	let mut used: Vec<String> = universes.iter().flat_map(|u| u.alpha.names()).collect();
	used.sort();
	used.dedup();
	let helper_len = ctx.tier.pick(8, 10);
	let helper_len_wide = ctx.tier.pick(7, 8);
	let helper_len_cps = ctx.tier.pick(7, 8);
	let helpers = run_helpers(ctx, HELPER_ALPHABET, helper_len, &used).merge(run_helpers(ctx, HELPER_ALPHABET_WIDE, helper_len_wide, &[])).merge(extra::run_helpers_cps(ctx, helper_len_cps));
	if timing { eprintln!("helpers done at {:.1}s", ctx.elapsed_s()); }
	let (long, long_bounds) = extra::run_long(ctx, ctx.tier.pick(140, 300));
	if timing { eprintln!("long names done at {:.1}s", ctx.elapsed_s()); }
	let (perms, perm_bounds) = extra::run_perms(ctx, thorough);
	if timing { eprintln!("permutations done at {:.1}s", ctx.elapsed_s()); }
	let mut probes = Stats::new();
	for u in &universes {
		if ["base N=2", "depth 0..4 N=3", "N=4"].contains(&u.alpha.label) {
			probes = probes.merge(run_probes(ctx, &u.alpha, if u.alpha.n() == 2 { ctx.tier.pick(4, 5) } else { ctx.tier.pick(2, 3) }));
		}
	}
	if timing { eprintln!("probes done at {:.1}s", ctx.elapsed_s()); }

	let s = &g.stats;
	if only.is_none() {
		let floor_n = ctx.tier.pick(1000, 10000);
		ctx.floor("extend refused because an outer class is not in the set", 1, s.get("extend:err-missing-outer"));
		ctx.floor("extensions that rewrote a class nested >= 2 levels deep", floor_n, s.get("extend:rewrote-class-nested>=2"));
		ctx.floor("extensions that rewrote a class nested >= 3 levels deep", floor_n / 10, s.get("extend:rewrote-class-nested>=3"));
		ctx.floor("extensions that rewrote a class nested 4 levels deep", floor_n / 10, s.get("extend:rewrote-class-nested>=4"));
		ctx.floor("contract(extend(M)) == M exercised on sets where extend changed a name", floor_n, s.get("law:contract-extend-identity-exercised"));
		for (n, idx) in [(2, 1), (3, 1), (3, 2), (4, 1), (4, 2), (4, 3)] {
			ctx.floor(&format!("N={n} namespace {idx}: extensions that changed a name"), 100, s.get(&format!("N{n}/ns{idx}:extend-changed")));
			ctx.floor(&format!("N={n} namespace {idx}: contractions that changed a name"), 100, s.get(&format!("N{n}/ns{idx}:contract-changed")));
		}
		ctx.floor("states reached at depth 3", 1000, s.get("depth3:successor"));
		for u in &universes {
			let l = u.alpha.label;
			ctx.floor(&format!("universe {l:?}: extensions that changed a name"), 10, s.get(&format!("{l}/extend:ok-changed")) + s.get(&format!("{l}/extend:ok-changed-statement-silent-case")));
			ctx.floor(&format!("universe {l:?}: contractions that changed a name"), 10, s.get(&format!("{l}/contract:ok-changed")));
		}
		ctx.floor("contractions that cut the nested name of a class whose source name is top-level", 100, s.get("contract:cut-nested-name-of-top-level-source"));
		ctx.floor("contractions that cut a name nested >= 2 levels", 100, s.get("contract:cut-name-nested>=2"));
		ctx.floor("contractions that kept a name whose only `$` is in a package section", 100, s.get("contract:kept-name-with-dollar-in-package-only"));
		ctx.floor("contractions that kept a name whose `$` has an empty side", 100, s.get("contract:kept-name-with-unsplittable-dollar"));
		ctx.floor("contractions that cut a name with a multi-byte character", 100, s.get("contract:cut-name-with-multibyte-character"));
		ctx.floor("extensions that rewrote a name with a multi-byte character", 100, s.get("extend:rewrote-name-with-multibyte-character"));
		ctx.floor("extensions through an outer class that keeps its source name", 100, s.get("extend:through-outer-that-keeps-its-source-name"));
		ctx.floor("extensions of a class named like its own source simple name", 100, s.get("extend:class-named-like-its-source-simple-name"));
		ctx.floor("extensions of a class named like its whole source name", 100, s.get("extend:class-named-like-its-whole-source-name"));
		ctx.floor("extensions that rewrote a class nested >= 2 levels in a package", 100, s.get("extend:rewrote-packaged-class-nested>=2"));
		ctx.floor("extensions that rewrote a class whose source package contains `$`", 100, s.get("extend:rewrote-class-with-dollar-in-source-package"));
		ctx.floor("extensions that kept a top-level class with `$` in one of its names", 100, s.get("extend:kept-top-level-class-with-dollar-in-a-name"));
		ctx.floor("extensions on a set that has a comment of its own", 100, s.get("extend:ok-on-set-with-comment"));
		ctx.floor("contractions on a set that has a comment of its own", 100, s.get("contract:ok-on-set-with-comment"));
		ctx.floor("initial states re-run with rotated insertion order", 1000, s.get("order:same-result-rotated"));
		ctx.floor("helper sweep: names that split", 100, helpers.get("helpers:split-some"));
		ctx.floor("helper sweep: names with a multi-byte character that split", 100, helpers.get("helpers:split-some-with-multibyte-character"));
		ctx.floor("helper sweep: names that do not split", 100, helpers.get("helpers:split-none"));
		ctx.floor("helper sweep: names with a 4-byte character that split", 100, helpers.get("helpers:split-some-with-4-byte-character"));
		ctx.floor("helper sweep on code points: names with a lone surrogate that split", 100, helpers.get("helpers-cp:split-some-with-lone-surrogate"));
		ctx.floor("helper sweep on code points: names with a lone surrogate that do not split", 100, helpers.get("helpers-cp:split-none-with-lone-surrogate"));
		ctx.floor("extensions of a class whose name begins with the name of its outer class", 100, s.get("extend:own-name-begins-with-name-of-outer"));
		ctx.floor("extensions of a class whose outer class's name begins with its own name", 100, s.get("extend:name-of-outer-begins-with-own-name"));
		ctx.floor("extensions of a class called like its outer class", 100, s.get("extend:own-name-equals-name-of-outer"));
		ctx.floor("extensions of a class whose source simple name is a number", 100, s.get("extend:rewrote-class-with-numeric-source-simple-name"));
		ctx.floor("extensions of a class whose name is a number", 100, s.get("extend:rewrote-class-with-numeric-name"));
		ctx.floor("contractions that left a number", 100, s.get("contract:cut-to-numeric-name"));
		ctx.floor("extensions of a class that has a sibling inner class", 1000, s.get("extend:rewrote-class-that-has-a-sibling"));
		for w in 1..=4 {
			ctx.floor(&format!("long names, {w}-byte character: extensions refused for a missing outer class"), 200, long.get(&format!("long/{w}-byte:refused-missing-outer")));
			ctx.floor(&format!("long names, {w}-byte character: extensions refused or passed with an outer class without name"), 100, long.get(&format!("long/{w}-byte:refused-outer-without-name")) );
			ctx.floor(&format!("long names, {w}-byte character: extensions that changed a name"), 500, long.get(&format!("long/{w}-byte:extend-changed")));
			ctx.floor(&format!("long names, {w}-byte character: contractions that changed a name"), 500, long.get(&format!("long/{w}-byte:contract-changed")));
			ctx.floor(&format!("long names, {w}-byte character: inverse law exercised"), 200, long.get(&format!("long/{w}-byte:law-exercised")));
		}
		ctx.floor("insertion orders: extensions with the same result as in sorted order", 10000, perms.get("order:extend:same-result-permuted"));
		ctx.floor("insertion orders: contractions with the same result as in sorted order", 10000, perms.get("order:contract:same-result-permuted"));
		ctx.floor("insertion orders: extensions refused in every order", 1000, perms.get("order:extend:refused-in-every-order"));
	}
	for u in &universes {
		for r in &u.alpha.rejected {
			ctx.note(format!("universe {:?}: class key {r:?} (or one of its target names) is rejected by duke and was skipped", u.alpha.label));
		}
	}

	let transitions = s.get("extend:ok-changed") + s.get("extend:ok-unchanged") + s.get("extend:ok-changed-statement-silent-case") + s.get("extend:ok-unchanged-statement-silent-case")
		+ s.get("contract:ok-changed") + s.get("contract:ok-unchanged")
		+ s.get("extend:err-missing-outer") + s.get("extend:err-where-statement-silent") + s.get("contract:err-where-statement-silent")
		+ s.get("extend:err-unexpected") + s.get("contract:err-unexpected") + s.get("extend:panic") + s.get("contract:panic");
	let mut samples: Vec<Value> = s.samples.clone();
	samples.extend(helpers.samples.iter().cloned());
	let mut outcomes = s.outcomes.clone();
	outcomes.extend(helpers.outcomes.clone());
	outcomes.extend(probes.outcomes.clone());
	for (k, v) in long.outcomes.iter().chain(perms.outcomes.iter()) {
		if k.starts_with("long/") || k.starts_with("order:") {
			outcomes.insert(k.clone(), *v);
		} else {
			*outcomes.entry(format!("direct-sweeps/{k}")).or_insert(0) += *v;
		}
	}
	let by_label = |l: &str| universes.iter().find(|u| u.alpha.label == l);
	let old_style = |l: &str, idx: &[usize]| by_label(l).map(|u| json!({"namespaces": u.alpha.ns, "present_class_sets": u.sets_rule, "present_class_set_count": u.masks.len(), "acted_on_namespace_indices": idx}));
	let coverage = json!({
		"states": g.states,
		"init_states": g.init_states,
		"transitions": transitions,
		"successor_states": g.successors,
		"traces_validated_against_impl": transitions,
		"max_depth": g.max_depth.saturating_sub(1),
		"evaluations": s.evaluations + helpers.evaluations + probes.evaluations + long.evaluations + perms.evaluations,
		"distinct_nontrivial": s.distinct.len(),
		"rule": "a state is (depth, mapping set); a transition rebuilds a real quill Mappings from the state, calls the real extend_inner_class_names / contract_inner_class_names for one non-first namespace and projects the result, which is judged against the reference of the statement; transitions = (state, action) pairs executed (failed calls have no successor). evaluations additionally count the runs with reversed and rotated insertion order at depth 0, the contract run of the inverse law, the helper sweep and the out-of-domain probes. distinct_nontrivial = distinct (action, result) pairs where the action changed at least one class name",
		"exhaustive": true,
		"samples": samples,
		"outcomes": outcomes,
		"bounds": {
			"class_keys": by_label("base N=2").map(|u| u.alpha.keys.iter().map(|(k, _)| k.clone()).collect::<Vec<_>>()),
			"target_kinds_per_class_and_namespace": KINDS_BASE.iter().map(|k| format!("{k:?}")).collect::<Vec<_>>(),
			"N=2": old_style("base N=2", &[1]),
			"N=3": old_style("base N=3", &[1, 2]),
			"N=2, shared target names": by_label("shared target names N=2").map(|u| json!({"class_keys_and_simple_target_bases": KEYS_SHARED, "present_class_sets": "every subset", "present_class_set_count": u.masks.len(), "why": "several classes carry the same simple target name; the target namespace need not be injective"})),
			"universes": universes.iter().map(|u| json!({
				"label": u.alpha.label,
				"namespaces": u.alpha.ns,
				"acted_on_namespace_indices": (1..u.alpha.n()).collect::<Vec<_>>(),
				"class_keys_and_simple_target_bases": u.alpha.keys,
				"target_kinds_per_class_and_namespace": u.alpha.kinds.iter().map(|k| format!("{k:?}")).collect::<Vec<_>>(),
				"comment_of_the_set": u.alpha.doc.is_some(),
				"present_class_sets": u.sets_rule,
				"present_class_set_count": u.masks.len(),
				"initial_states": u.init_states(),
				"bfs_depth": u.depth,
			})).collect::<Vec<_>>(),
			"bfs_depth": max_depth,
			"actions": ["extend:<ns>", "contract:<ns>"],
			"insertion_orders_at_depth_0": format!("sorted, reversed, sorted rotated by 1..{MAX_ROTATIONS}"),
			"helper_alphabet": HELPER_ALPHABET.iter().map(|c| c.to_string()).collect::<Vec<_>>(),
			"helper_max_len": helper_len,
			"helper_alphabet_wide": HELPER_ALPHABET_WIDE.iter().map(|c| c.to_string()).collect::<Vec<_>>(),
			"helper_max_len_wide": helper_len_wide,
			"helper_alphabet_code_points": extra::CP_ALPHABET.iter().map(|c| format!("U+{c:04X}")).collect::<Vec<_>>(),
			"helper_max_len_code_points": helper_len_cps,
			"long_names": {
				"name": "k times `a` and one character of 1/2/3/4 UTF-8 bytes, last or first",
				"k": format!("0..={}", long_bounds.max_k),
				"characters": extra::WIDTH_CHARS.iter().map(|c| c.to_string()).collect::<Vec<_>>(),
				"namespaces": "N=2 acting on 1, N=3 acting on 2",
				"shapes": long.outcomes.keys().filter_map(|k| k.strip_prefix("long/shape:")).collect::<Vec<_>>(),
				"per_shape": "extend, contract of the extended set, contract of the set",
				"cases": long_bounds.cases,
			},
			"insertion_order_permutations": perm_bounds.sets,
			"names_of_the_mapping_alphabet_checked_through_helpers": used.len(),
		},
		"helper_sweep": {"evaluations": helpers.evaluations, "distinct_splitting_names": helpers.distinct.len()},
		"long_name_sweep": {"evaluations": long.evaluations},
		"insertion_order_sweep": {"evaluations": perms.evaluations},
		"out_of_domain_probes": {"evaluations": probes.evaluations, "outcomes": probes.outcomes},
	});
	ctx.finish(coverage, &[
		"the statement is read as: a class is nested iff its *source* name splits at the last `$` of its last `/`-section with both sides non-empty",
		"contraction is read as: every name in the chosen namespace that splits that way keeps only the part after that `$`, whatever the class is called in the first namespace; a name that does not split stays whole",
		"where the statement is silent (nested class or outer class without a name in the namespace; whether 'its own simple name' of a nested class whose name already contains `$` is that name or its innermost part) every behaviour is accepted except a panic or a change anywhere else",
		"acting on the first namespace or an unknown namespace is outside the statement; explored for absence of panics only",
		"members and comments are fixed per class key (not enumerated); depth is part of the state key so counts do not depend on scheduling",
		"every universe is explored completely (all listed sets of present classes x all target kinds per class and namespace x all action sequences up to its depth); the universes themselves are a choice",
		"stateright's BFS visits every reachable state (its exhaustiveness is trusted)",
	]);
}

fn replay(ctx: &'static Ctx, path: &std::path::Path) -> ! {
	let body = vcore::replay_body(path);
	if let Some(cps) = body.strip_prefix("codepoints=") {
		let cps = extra::parse_cps(cps.lines().next().unwrap_or("")).unwrap_or_else(|| vcore::machinery_fail("bad code points in replay"));
		let mut st = Stats::new();
		extra::check_helpers_on_cps(ctx, &mut st, &cps);
		ctx.finish(json!({"states": 1, "transitions": 1, "traces_validated_against_impl": 1, "samples": ["replay"]}), &[]);
	}
	if let Some(name) = body.strip_prefix("name=") {
		let mut st = Stats::new();
		check_helpers_on(ctx, &mut st, name.lines().next().unwrap_or(""));
		ctx.finish(json!({"states": 1, "transitions": 1, "traces_validated_against_impl": 1, "samples": ["replay"]}), &[]);
	}
	let act_line = body.lines().find(|l| l.starts_with("action=")).unwrap_or_else(|| vcore::machinery_fail("no action in replay"));
	let act = Act::parse(&act_line["action=".len()..]).unwrap_or_else(|| vcore::machinery_fail("bad action"));
	let text = body.split_once("state:\n").and_then(|(_, r)| r.split_once("--end-state--")).map(|(t, _)| t).unwrap_or_else(|| vcore::machinery_fail("no state in replay"));
	let mut set = tiny::parse(text).unwrap_or_else(|e| vcore::machinery_fail(&format!("cannot parse the state: {e:?}")));
	set.doc = body.lines().take_while(|l| !l.starts_with("state:")).find_map(|l| l.strip_prefix("set-comment=")).map(tiny::unescape);
	if let Some(ns_name) = body.strip_prefix("namespace=").and_then(|r| r.lines().next()) {
		// an out-of-domain probe: only "no panic"
		let opn = match act.op { Op::Extend => "extend", Op::Contract => "contract" };
		match real(&set, act.op, ns_name, Order::Sorted) {
			Err(p) => ctx.diff(&format!("{opn}:panic@{}", p.file()), &format!("{opn} panicked at {}: {}", p.site, p.msg), || body.clone()),
			Ok(r) => println!("result: {r:?}"),
		}
		ctx.finish(json!({"states": 1, "transitions": 1, "traces_validated_against_impl": 1, "samples": ["replay"]}), &[]);
	}
	if act.ns as usize >= set.n() || act.ns == 0 {
		vcore::machinery_fail("action namespace outside the statement's domain");
	}
	let mut st = Stats::new();
	let a = step(ctx, &mut st, &set, act, true);
	let b = step(ctx, &mut Stats::new(), &set, act, true);
	if a != b {
		vcore::machinery_fail("replay is not deterministic");
	}
	println!("outcomes: {:?}", st.outcomes);
	match &a {
		Some(m) => println!("result:\n{}", tiny::print(m)),
		None => println!("no successor (the call failed)"),
	}
	ctx.finish(json!({"states": 1, "transitions": 1, "traces_validated_against_impl": 1, "samples": ["replay"]}), &[]);
}
