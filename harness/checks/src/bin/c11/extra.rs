//! Spaces of C11 that are swept directly (no state graph): long names with a character of 1/2/3/4 bytes at every
//! byte offset, in accepting and in refusing situations; every permutation of the insertion order of the classes.
//! Every case goes through the same `step` (same reference, same keys) as a transition of the state graph.

use super::*;
use quill::tree::mappings::JavadocMapping;

// ---------------------------------------------------------------------------------------------
// long names

/// one character of 1, 2, 3 and 4 UTF-8 bytes (the last one is two UTF-16 units)
pub const WIDTH_CHARS: &[char] = &['x', 'é', '€', '𝄞'];

/// `k` ASCII characters and the character `ch`, which stands last or first: with `k` running, `ch` lies across
/// every byte offset counted from the beginning and from the end of the name (and of any message that quotes it)
fn padded(k: usize, ch: char, first: bool) -> String {
	let mut s = String::with_capacity(k + 4);
	if first {
		s.push(ch);
	}
	for _ in 0..k {
		s.push('a');
	}
	if !first {
		s.push(ch);
	}
	s
}

fn mk(n: usize, rows: &[(String, Option<String>)]) -> MSet {
	let ns: Vec<&str> = ["src", "dst", "third"][..n].to_vec();
	let mut set = MSet::new(&ns);
	for (k, t) in rows {
		let mut c = MClass::default();
		c.names = vec![Some(k.clone())];
		for j in 1..n {
			// the namespace in the middle of three holds other names: it must stay as it is
			c.names.push(if j == n - 1 { t.clone() } else { Some(format!("Mid{}", rows.iter().position(|r| &r.0 == k).unwrap_or(0))) });
		}
		c.doc = Some(format!("comment of {k}"));
		set.classes.insert(k.clone(), c);
	}
	set
}

/// the sets built around one padded name `p`
fn long_sets(n: usize, p: &str) -> Vec<(&'static str, MSet)> {
	let s = |x: &str| Some(x.to_owned());
	let mut v = Vec::new();
	// the long name is a source name: of the outer class, of the inner class, of all three in a package
	v.push(("src-outer", mk(n, &[(p.into(), s("Oo")), (format!("{p}$I"), s("Ii"))])));
	v.push(("src-outer-missing", mk(n, &[(format!("{p}$I"), s("Ii"))])));
	v.push(("src-inner", mk(n, &[("O".into(), s("Oo")), (format!("O${p}"), s("Ii"))])));
	v.push(("src-inner-missing", mk(n, &[(format!("O${p}"), s("Ii")), ("Q".into(), s("Qq"))])));
	v.push(("src-packaged-depth2", mk(n, &[(format!("p/{p}"), s("q/Oo")), (format!("p/{p}${p}"), s("Ii")), (format!("p/{p}${p}${p}"), s("Jj"))])));
	v.push(("src-packaged-depth2-middle-missing", mk(n, &[(format!("p/{p}"), s("q/Oo")), (format!("p/{p}${p}${p}"), s("Jj"))])));
	v.push(("src-outer-without-name", mk(n, &[(p.into(), None), (format!("{p}$I"), s("Ii"))])));
	// the long name is a name of the chosen namespace
	v.push(("dst-simple-depth2", mk(n, &[("O".into(), s(p)), ("O$I".into(), s(p)), ("O$I$J".into(), s(p))])));
	v.push(("dst-packaged", mk(n, &[("p/O".into(), Some(format!("q/{p}"))), ("p/O$I".into(), s(p))])));
	v.push(("dst-nested-and-not", mk(n, &[("X".into(), Some(format!("q/{p}${p}"))), ("Y".into(), Some(format!("{p}$"))), ("Z".into(), Some(format!("${p}"))), ("W".into(), Some(format!("{p}${p}${p}")))])));
	v
}

pub struct LongBounds {
	pub max_k: usize,
	pub cases: u64,
}

pub fn run_long(ctx: &Ctx, max_k: usize) -> (Stats, LongBounds) {
	let mut cases: Vec<(usize, char, bool, usize)> = Vec::new();
	for k in 0..=max_k {
		for &ch in WIDTH_CHARS {
			for first in [false, true] {
				for n in [2usize, 3] {
					cases.push((k, ch, first, n));
				}
			}
		}
	}
	let total = cases.len() as u64;
	let st = cases.into_par_iter().fold(Stats::new, |mut st, (k, ch, first, n)| {
		vcore::watched(|| format!("long names k={k} ch={ch:?} first={first} N={n}"), || {
			let p = padded(k, ch, first);
			for (shape, set) in long_sets(n, &p) {
				let ns = (n - 1) as u8;
				let wide = ch.len_utf8();
				let before = (st.get("extend:err-missing-outer"), st.get("extend:ok-changed"), st.get("contract:ok-changed"), st.get("law:contract-extend-identity-exercised"), st.get("extend:err-where-statement-silent"));
				if let Some(ext) = step(ctx, &mut st, &set, Act { op: Op::Extend, ns }, false) {
					// … and the extended set back through contraction (also where the law does not apply)
					step(ctx, &mut st, &ext, Act { op: Op::Contract, ns }, false);
				}
				step(ctx, &mut st, &set, Act { op: Op::Contract, ns }, false);
				let after = (st.get("extend:err-missing-outer"), st.get("extend:ok-changed"), st.get("contract:ok-changed"), st.get("law:contract-extend-identity-exercised"), st.get("extend:err-where-statement-silent"));
				st.outcome_n(&format!("long/{wide}-byte:refused-missing-outer"), after.0 - before.0);
				st.outcome_n(&format!("long/{wide}-byte:extend-changed"), after.1 - before.1);
				st.outcome_n(&format!("long/{wide}-byte:contract-changed"), after.2 - before.2);
				st.outcome_n(&format!("long/{wide}-byte:law-exercised"), after.3 - before.3);
				st.outcome_n(&format!("long/{wide}-byte:refused-outer-without-name"), after.4 - before.4);
				st.outcome(&format!("long/shape:{shape}"));
			}
		});
		st
	}).reduce(Stats::new, Stats::merge);
	(st, LongBounds { max_k, cases: total })
}

// ---------------------------------------------------------------------------------------------
// every insertion order

fn real_perm_n<const N: usize>(set: &MSet, op: Op, ns_name: &str, perm: &[usize]) -> RealOut {
	let fail = |e: anyhow::Error| -> ! { vcore::machinery_fail(&format!("cannot build the real mapping set: {e:#}\n{}", tiny::print(set))) };
	let ns: Vec<&str> = set.ns.iter().map(|s| s.as_str()).collect();
	let ns: [&str; N] = ns.try_into().unwrap_or_else(|_| vcore::machinery_fail("namespace count"));
	let mut q: Mappings<N, ()> = Mappings::from_namespaces(ns).unwrap_or_else(|e| fail(e));
	q.javadoc = set.doc.clone().map(JavadocMapping);
	let entries: Vec<(&String, &MClass)> = set.classes.iter().collect();
	for &i in perm {
		let (k, c) = entries[i];
		let qc = mapmodel::class_to_quill::<N>(c, Order::Sorted).unwrap_or_else(|e| fail(e));
		if q.classes.insert(mapmodel::cls(k).unwrap_or_else(|e| fail(e)), qc).is_some() {
			vcore::machinery_fail("duplicate class");
		}
	}
	let r = match op {
		Op::Extend => q.extend_inner_class_names(ns_name),
		Op::Contract => q.contract_inner_class_names(ns_name),
	};
	match r {
		Ok(m) => Ok(mapmodel::from_quill(&m).map_err(|k| k.0)),
		Err(e) => Err(format!("{e:#}")),
	}
}

fn real_perm(set: &MSet, op: Op, ns_name: &str, perm: &[usize]) -> Result<RealOut, vcore::Panic> {
	vcore::guard(|| match set.n() {
		2 => real_perm_n::<2>(set, op, ns_name, perm),
		3 => real_perm_n::<3>(set, op, ns_name, perm),
		n => vcore::machinery_fail(&format!("unsupported namespace count {n}")),
	})
}

pub struct PermBounds {
	pub sets: Vec<Value>,
}

/// For every listed set: the judged result of the sorted insertion order, then every other insertion order of
/// the classes must give the same result (or fail as well).
pub fn run_perms(ctx: &Ctx, thorough: bool) -> (Stats, PermBounds) {
	use Kind::*;
	let mut jobs: Vec<(String, MSet)> = Vec::new();
	let mut described = Vec::new();
	let mut add = |label: &str, keys: &[(&str, &str)], n: usize, uniform: &[Kind], mixed: Option<[Kind; 2]>, with_one_removed: bool, described: &mut Vec<Value>| {
		let all_kinds: Vec<Kind> = uniform.iter().copied().chain(mixed.into_iter().flatten()).collect();
		let a = Alphabet::with_keys("permutations", n, keys.to_vec(), &all_kinds, Some("set comment")).decorated();
		let nk = a.keys.len();
		let full: u32 = (1u32 << nk) - 1;
		let mut count = 0usize;
		let kind_index = |k: Kind| a.kinds.iter().position(|x| *x == k).unwrap();
		let variants = a.variants() as u64;
		// index of the set in which every class has kind `k` in every namespace
		let uniform_idx = |k: Kind, present: u32| -> u64 {
			let mut v = 0u64;
			for _ in 1..n {
				v = v * a.kinds.len() as u64 + kind_index(k) as u64;
			}
			let mut idx = 0u64;
			for _ in 0..present.count_ones() {
				idx = idx * variants + v;
			}
			idx
		};
		for &k in uniform {
			let mut masks = vec![full];
			if with_one_removed && k == uniform[0] {
				masks.extend((0..nk).map(|i| full & !(1 << i)));
			}
			for m in masks {
				jobs.push((format!("{label}: all {k:?}, classes {m:b}"), a.build(m, uniform_idx(k, m))));
				count += 1;
			}
		}
		if let Some([x, y]) = mixed {
			// every assignment of two kinds to the classes of the full set (N=2 only)
			if n == 2 {
				for bits in 0..(1u64 << nk) {
					let mut idx = 0u64;
					for i in 0..nk {
						let k = if bits >> i & 1 == 0 { x } else { y };
						idx = idx * variants + kind_index(k) as u64;
					}
					jobs.push((format!("{label}: kinds {x:?}/{y:?} by {bits:b}"), a.build(full, idx)));
					count += 1;
				}
			}
		}
		described.push(json!({"keys": a.keys.iter().map(|(k, _)| k.clone()).collect::<Vec<_>>(), "namespaces": n, "sets": count, "uniform_kinds": uniform.iter().map(|k| format!("{k:?}")).collect::<Vec<_>>(), "every_assignment_of_two_kinds": mixed.map(|m| m.iter().map(|k| format!("{k:?}")).collect::<Vec<_>>()), "also_each_set_with_one_class_removed": with_one_removed}));
	};
	add("chain", KEYS_DEEP, 2, &[Simple, Identity], Some([Simple, Extended]), true, &mut described);
	add("siblings", KEYS_SIBLINGS, 2, &[Simple, Extended, Stem, Stemmed], None, true, &mut described);
	add("shared", KEYS_SHARED, 2, &[Simple, Extended], None, thorough, &mut described);
	add("chain N=3", KEYS_DEEP, 3, &[Simple, Extended], None, thorough, &mut described);
	if thorough {
		add("anonymous", KEYS_ANON, 2, &[Simple, OwnSimple], None, true, &mut described);
		add("crossing", KEYS_CROSS, 2, &[Simple, Swap, Identity], None, true, &mut described);
	}
	let mut perm_cache: BTreeMap<usize, Vec<Vec<usize>>> = BTreeMap::new();
	for (_, set) in &jobs {
		let n = set.classes.len();
		perm_cache.entry(n).or_insert_with(|| vcore::enumerate::permutations(n));
	}
	// chunks of 256 permutations of one set
	let mut chunk_of: Vec<(usize, usize)> = Vec::new();
	for (ji, (_, set)) in jobs.iter().enumerate() {
		let total = perm_cache[&set.classes.len()].len();
		let mut start = 0;
		while start < total {
			chunk_of.push((ji, start));
			start += 256;
		}
	}
	// the sorted order of every job, judged
	let baselines: Vec<Vec<(Act, Option<MSet>, Stats)>> = jobs.par_iter().map(|(_, set)| {
		let mut v = Vec::new();
		for ns in 1..set.n() {
			for op in [Op::Extend, Op::Contract] {
				let act = Act { op, ns: ns as u8 };
				let mut st = Stats::new();
				let r = step(ctx, &mut st, set, act, false);
				v.push((act, r, st));
			}
		}
		v
	}).collect();
	let mut st = chunk_of.par_iter().fold(Stats::new, |mut st, &(ji, start)| {
		let (label, set) = &jobs[ji];
		let perms = &perm_cache[&set.classes.len()];
		vcore::watched(|| format!("permutations of {label} from {start}"), || {
			for perm in &perms[start..perms.len().min(start + 256)] {
				for (act, base, _) in &baselines[ji] {
					st.eval();
					let opn = match act.op { Op::Extend => "extend", Op::Contract => "contract" };
					let shown = |what: &str| format!("classes inserted in the order {:?} of the sorted order: {what}", perm);
					match real_perm(set, act.op, &set.ns[act.ns as usize], perm) {
						Err(p) => ctx.diff(&format!("{opn}:panic@{}", p.file()), &format!("{opn} panicked at {}: {}", p.site, p.msg), || replay_text(set, *act, &shown("panic"))),
						Ok(Ok(Ok(m))) => match base {
							Some(b) if *b == m => st.outcome(&format!("order:{opn}:same-result-permuted")),
							Some(_) => ctx.diff(&format!("{opn}:depends-on-insertion-order"), &shown(&format!("another result than in sorted order:\n{}", tiny::print(&m))), || replay_text(set, *act, &shown(&tiny::print(&m)))),
							None => ctx.diff(&format!("{opn}:depends-on-insertion-order"), &shown("Ok, but refused (or not rebuildable) in sorted order"), || replay_text(set, *act, &shown(&tiny::print(&m)))),
						},
						Ok(Ok(Err(k))) => ctx.diff(&format!("{opn}:key-invariant"), &k, || replay_text(set, *act, &shown("key invariant"))),
						Ok(Err(e)) => match base {
							None => st.outcome(&format!("order:{opn}:refused-in-every-order")),
							Some(_) => ctx.diff(&format!("{opn}:depends-on-insertion-order"), &shown(&format!("refused ({e}), but accepted in sorted order")), || replay_text(set, *act, &shown(&e))),
						},
					}
				}
			}
		});
		st
	}).reduce(Stats::new, Stats::merge);
	for b in baselines {
		for (_, _, s) in b {
			st = st.merge(s);
		}
	}
	st.outcome_n("order:sets-permuted", jobs.len() as u64);
	(st, PermBounds { sets: described })
}

// ---------------------------------------------------------------------------------------------
// the split / join helpers on names that are not UTF-8: a lone surrogate (legal in a class file's modified
// UTF-8, kept as it is by duke's strings) — anything that goes through `&str` on the way loses or refuses it

/// code points; U+D800 is a lone high surrogate, never followed by a low one in this alphabet
pub const CP_ALPHABET: &[u32] = &[0x41, 0x24, 0x2f, 0xD800, 0x1D11E];

fn jstring(cps: &[u32]) -> java_string::JavaString {
	let mut s = java_string::JavaString::new();
	for &c in cps {
		s.push_java(java_string::JavaCodePoint::from_u32(c).unwrap_or_else(|| vcore::machinery_fail("not a code point")));
	}
	s
}

fn cps_of(s: &java_string::JavaStr) -> Vec<u32> {
	s.chars().map(|c| c.as_u32()).collect()
}

/// the reference split on code points (same rule as `ref_split`)
fn ref_split_cps(name: &[u32]) -> Option<(&[u32], &[u32])> {
	let seg_start = name.iter().rposition(|c| *c == 0x2f).map_or(0, |i| i + 1);
	let d = name[seg_start..].iter().rposition(|c| *c == 0x24)?;
	if d == 0 || seg_start + d + 1 == name.len() {
		return None;
	}
	Some((&name[..seg_start + d], &name[seg_start + d + 1..]))
}

fn show_cps(c: &[u32]) -> String {
	c.iter().map(|c| format!("{c:x}")).collect::<Vec<_>>().join(".")
}

pub fn check_helpers_on_cps(ctx: &Ctx, st: &mut Stats, cps: &[u32]) {
	st.eval();
	let Ok(name) = ObjClassName::try_from(jstring(cps)) else {
		st.outcome("helpers-cp:name-rejected-by-duke");
		return;
	};
	if cps_of(name.as_inner()) != cps {
		vcore::machinery_fail(&format!("code points {} do not survive in a JavaString", show_cps(cps)));
	}
	let want = ref_split_cps(cps).map(|(p, i)| (p.to_vec(), i.to_vec()));
	let replay = || format!("codepoints={}", show_cps(cps));
	let real = vcore::guard(|| {
		let sl = name.as_slice();
		let split = sl.split_inner_class_parent_and_name().map(|(p, i)| (cps_of(p.as_inner()), cps_of(i.as_inner())));
		let parent = sl.get_inner_class_parent().map(|p| cps_of(p.as_inner()));
		let inner = sl.get_inner_class_name().map(|p| cps_of(p.as_inner()));
		let joined = sl.split_inner_class_parent_and_name().map(|(p, i)| cps_of(ObjClassName::from_inner_class(p.to_owned(), i).as_inner()));
		// join with a lone surrogate as inner name and split again
		let lone = ObjClassName::try_from(jstring(&[0xD800])).unwrap_or_else(|_| vcore::machinery_fail("a lone surrogate is a valid name"));
		let j = ObjClassName::from_inner_class(name.clone(), lone.as_slice());
		let back = j.as_slice().split_inner_class_parent_and_name().map(|(p, i)| (cps_of(p.as_inner()), cps_of(i.as_inner())));
		(split, parent, inner, joined, cps_of(j.as_inner()), back)
	});
	let (split, parent, inner, joined, j, back) = match real {
		Ok(r) => r,
		Err(p) => {
			ctx.diff(&format!("helpers:panic@{}", p.file()), &format!("split helpers panicked at {} on a name with code points {}: {}", p.site, show_cps(cps), p.msg), replay);
			return;
		},
	};
	let shown = |x: &Option<(Vec<u32>, Vec<u32>)>| x.as_ref().map(|(p, i)| format!("({}, {})", show_cps(p), show_cps(i)));
	if split != want {
		ctx.diff("helpers:split-differs", &format!("split_inner_class_parent_and_name(code points {}) = {:?}, the reference split gives {:?}", show_cps(cps), shown(&split), shown(&want)), replay);
	}
	if parent != want.as_ref().map(|w| w.0.clone()) || inner != want.as_ref().map(|w| w.1.clone()) {
		ctx.diff("helpers:getter-differs", &format!("get_inner_class_parent/name(code points {}) differ from the reference split {:?}", show_cps(cps), shown(&want)), replay);
	}
	if let Some(jn) = &joined {
		if jn != cps {
			ctx.diff("helpers:join-not-inverse-of-split", &format!("from_inner_class(split(code points {})) = {}", show_cps(cps), show_cps(jn)), replay);
		}
	}
	let mut expect_j = cps.to_vec();
	expect_j.extend([0x24, 0xD800]);
	if j != expect_j || back != Some((cps.to_vec(), vec![0xD800])) {
		ctx.diff("helpers:split-not-inverse-of-join", &format!("from_inner_class(code points {}, d800) = {}, split again: {:?}", show_cps(cps), show_cps(&j), shown(&back)), replay);
	}
	let lone = cps.contains(&0xD800);
	match split {
		Some(_) => {
			st.outcome("helpers-cp:split-some");
			if lone {
				st.outcome("helpers-cp:split-some-with-lone-surrogate");
				st.distinct.add(cps);
			}
		},
		None => st.outcome(if lone { "helpers-cp:split-none-with-lone-surrogate" } else { "helpers-cp:split-none" }),
	}
}

pub fn run_helpers_cps(ctx: &Ctx, max_len: usize) -> Stats {
	let total = vcore::enumerate::strings_count(CP_ALPHABET.len(), max_len);
	(0..total).into_par_iter().fold(Stats::new, |mut st, idx| {
		let cps: Vec<u32> = vcore::enumerate::string_nth(CP_ALPHABET, max_len, idx);
		check_helpers_on_cps(ctx, &mut st, &cps);
		st
	}).reduce(Stats::new, Stats::merge)
}

pub fn parse_cps(s: &str) -> Option<Vec<u32>> {
	if s.trim().is_empty() {
		return Some(Vec::new());
	}
	s.trim().split('.').map(|x| u32::from_str_radix(x, 16).ok()).collect()
}
