//! C12 — Enigma files and directories round-trip the mappings they can express.
//!
//! Engine: exhaustive enumeration (level "exploration") of two-namespace mapping sets over several
//! small universes (mapmodel::gen), each enumerated completely. Every set is built as a real
//! `quill::tree::mappings::Mappings<2, _>` in several insertion orders and pushed through
//!
//! * single stream: `enigma_file::write_all` → `enigma_file::read_into`,
//! * directory:     `enigma_dir::write` into a fresh tmpfs directory → `enigma_dir::read`,
//!
//! and the results are compared with the set itself (reference model = mapmodel::MSet). The written
//! text is additionally read by an independent reference reader of the Enigma text written in this file
//! (so a writer and a reader that are wrong in the same way are still caught), which also yields the
//! indentation depth of every `CLASS` line ("nesting in the text mirrors source-name nesting") and the
//! file every class landed in ("exactly one file, once").
//!
//! Sets outside the statement's domain (see `exclusions`) are explored for "no panic" only.
//!
//! Clause table (statement / quantifier clause → where it is decided, over which space)
//!
//! | clause | decided in | space |
//! |---|---|---|
//! | single stream: write, read back, same classes / keys / targets / fields / methods / parameters / comments | `run_case` stream part: `judge_read("stream")` on `write_all`→`read_into`, and `judge_text("stream-text")` (reference reader on the same bytes) | every in-domain set of every universe |
//! | one file per top-level class, as a stream (`write_one`, listed in observe_at) | `run_case` write_one part: for every top-level class `write_one(file name)` must succeed and `read_into` / the reference reader must give exactly that class's tree (`judge_read("write_one")`, `judge_text("write_one-text")`, exactly one top-level CLASS); names that are no top-level file: no panic | every in-domain set without a file-name collision, every top-level class of it |
//! | one file per top-level class in a directory tree: write, read back, the same | directory part: `judge_read("dir")` on `enigma_dir::write`→`read`, `judge_read("dir-listing-order")` on the same files created in the opposite order, `judge_read("dir-overwrite")` after writing the comment-less set over the files of the set | every in-domain set; overwrite: every set with a comment |
//! | provided nested targets follow the nesting | `exclusions` (EX_NEST, EX_NEST_OPEN, EX_ROOT_NESTED_TARGET): other sets no-panic only | all universes; listed sets are asserted to be in the domain |
//! | constructors are treated as unnamed | `normalise` (`<init>`→`<init>` = unnamed), EX_CTOR | universe constructors, identity-names |
//! | nesting in the text mirrors source-name nesting | `judge_text`: the reference reader derives each key from the textual parent and the CLASS line's indentation must equal the length of the chain of present outer classes | universes nest, nest-wide, transitions, same-simple-names, dollar-edges, listed chains up to depth 256 |
//! | every class lands in exactly one file | directory part: each file states exactly one top-level class, `ref_set` duplicates (`class-stated-twice`), number of files = number of top-level classes; write_one part: the trees partition the set | as above |
//! | output is deterministic | `stream:not-deterministic` (the same object written twice), replay | every in-domain set |
//! | ... and sorted | identical bytes / files for every insertion order (`bytes-depend-on-insertion-order`, `files-depend-on-insertion-order`); no particular key demanded | 3 (quick) / 4 (thorough) insertion orders; sibling counts up to 40 in the listed wide sets |
//! | quantifier: inner classes whose outer class is absent | universes orphans, orphans-simple-name-clash, nest (every gap), same-simple-names, dollar-edges | |
//! | quantifier: classes without target name | every universe has `None` rows; identity-names adds target = source (must stay distinct from "no target") | |
//! | quantifier: parameters with comments; comments with blank lines, leading spaces, # | COMMENTS alphabet in every slot (members/*), inner-members, transitions (every pop of the indentation stack) | |
//! | quantifier: packages at any depth | universes packages (0..3), deep-packages (8 and 10, a class named like a package directory), same-simple-names; listed package-depths (16, 32, 64, 100; thorough 11..=40 … 200) | |
//!
//! Second extension pass (PATTERNS.md), what it adds to the table above:
//!
//! | pattern | decided in | space |
//! |---|---|---|
//! | 1 text is bytes | the same oracles (`run_case`) on the universes `slot-texts*`: every text slot (package, class, nested class ×2, field, method, parameter names on both sides, class names in descriptors, comment lines of every kind of entry) = k ASCII letters + one character of 1/2/2/3/3/4 UTF-8 bytes (x, é, NO-BREAK SPACE, €, EM SPACE, U+1F600) at the first / second / last position | k = 0..=140, accepting (in-domain set) and refusing (file-name collision, parameter without name: the writer quotes the names) |
//! | 1 … in error paths of the reader | `env::refusal_case`: no panic, no hang (text that is not the writer's: nothing else demanded) | 2526 slot texts × 59 texts: unknown keyword at every level, wrong number of columns, indices that are no numbers, indentation without parent, entries stated twice, invalid names / descriptors, misplaced entries, text that is no UTF-8, nothing to read, remark / modifier / CRLF / no final line break |
//! | 2 the environment answers differently (streams) | `env::stream_env_case`: `read_into` through every scripted reader gives the set; `write_all` / `write_one` through every scripted writer deliver the bytes they deliver into a Vec; a writer failing after any prefix, a slice one byte too small ⇒ an error | 5 listed sets (every kind of entry with text outside ASCII, chains of 9 and 128, two texts > 8 KiB of multi-byte lines; thorough > 64 KiB) × the alphabet of c20/io.rs (chunk sizes, BufReader / BufWriter capacities, one boundary at every byte offset, periodic boundaries, Interrupted) |
//! | 2 … (directory) / 4 state that is already there | `env::dir_env_case`: an error is accepted, success must be followed by reading back the set; a file behind which nothing can be stored (symbolic link to /dev/full) ⇒ success is an error swallowed; files of other kinds next to the mapping files: no panic | every in-domain set of the universe packages + the 5 listed sets × (target directory and its parent missing; every file in turn a link to /dev/full; every file in turn a directory; every first package component in turn a file; README.md, x.mapping.bak, .mapping, notes.txt, an empty directory empty.mapping; a path that does not exist) |
//! | 4 / 7 a directory that already holds files of the same names and sizes | `dir-overwrite-same-size`: other facts of the same length (last letter of every member target name and comment replaced) written over the files of another insertion order: reading gives what was written last | every in-domain set with a comment or a member target name, without file-name collision |
//! | 4 / 7 what was read is written again | `stream:rewrite-differs`: `write_all` of the object `read_into` read equals the text read (same set ⇒ same bytes; not compared where a constructor is named `<init>`: the set read back is the same only by the proviso) | every in-domain set without file-name collision |
//! | 3 / 9 odd-but-legal values | `run_case` | universes param-indices-large (256, 65535, 65536, 2^32−1, 2^32, usize::MAX), keyword-names (CLASS, FIELD, METHOD, ARG, COMMENT, ACC, ACCESS, ACC:x as parameter name, L, LL; as names on every kind of entry: the header remark of write_all states the target name), constructors (`<clinit>` named `<clinit>` keeps its name), outside-domain-names (ACC:… class targets, methods named `<init>`: no panic) |
//! | 5 one name in two roles | `run_case` | universe name-roles (the source / target name of a nested class is the file name of an orphan; an inner name equal to its outer class's inner name and to one in another branch) |
//! | 8 boundaries | `run_case`: file names of 253..=255 bytes must work, longer ones may be refused by the directory writer (NAME_MAX) but not by the stream; `env::beyond_case`: chains of 257, 258, 300, 1000 nested classes: refusal or round trip, no panic | listed file-name-lengths (64 … 1000 bytes, ASCII and three-byte characters, source- and target-named files), beyond-bound |
//!
//! Patterns 6 (order and placement) and 10 (masks per level) were covered before: every member is optional in the
//! product universes (a method with parameters before / after one without, a commented entry before / after a bare one),
//! siblings after branching children in nest / nest-wide / name-roles, 3–4 insertion orders; the reader has no masks,
//! the modifier column is explored in keyword-names, outside-domain-names and the refusal space.

use std::collections::{BTreeMap, BTreeSet};
use std::path::{Path, PathBuf};
use mapmodel::gen::{self, ClassU, FieldU, MethodU, ParamU, Space, Universe};
use mapmodel::{tiny, MClass, MField, MMethod, MParam, MSet, Order, Row};
use quill::tree::mappings::Mappings;
use quill::tree::names::Namespaces;
use rayon::prelude::*;
use vcore::{json, Ctx, Stats, Value};

#[path = "c12/more.rs"]
mod more;
#[path = "c12/env.rs"]
mod env;
#[allow(dead_code)]
#[path = "c20/io.rs"]
mod io;

const NS: [&str; 2] = ["official", "named"];

/// Comments that the format can express: text lines separated by `\n`, made of anything but the
/// tokeniser's other white space. (`""` is one empty comment line.)
const COMMENTS: &[&str] = &[
	"x", "a b", " lead", "trail ", "a  b", "#x", "x # y", "l1\nl2", "l1\n\nl3", "", "b\\s", "\\n", "l1\n",
	// a line of one space; three empty lines; an empty first line; a lone #
	" ", "\n\n", "\nx", "#",
	// lines that look like entries of the format
	"COMMENT c\nCLASS A B\nARG 0 x",
	// text outside ASCII: letters, NO-BREAK SPACE, EM SPACE in front, LINE SEPARATOR and NEXT LINE inside and at the
	// end (white space for Unicode, plain text for the format, whose only separators are SP HT LF VT FF CR), non-BMP
	"\u{e9}\u{a0}\u{fc}", "\u{2003}x\u{2028}y\u{85}", "\u{1f600}",
];

/// Comments outside the format (explored for "no panic" only).
const ODD_COMMENTS: &[&str] = &["a\tb", "\tx", "x\r", "a\u{b}b", "a\u{c}b"];

/// the white space of the format (what separates columns); everything else is text
const FORMAT_WS: [char; 6] = [' ', '\t', '\n', '\u{b}', '\u{c}', '\r'];

/// white space for Unicode, text for the format
fn is_unicode_only_ws(c: char) -> bool {
	c.is_whitespace() && !FORMAT_WS.contains(&c)
}

const KEY_UWS: &str = "name-at-line-end:trailing-unicode-white-space-trimmed";
const KEY_ORPHAN: &str = "orphan-inner-class:outer-prefix-dropped";
const KEY_COLLISION: &str = "file-name-collision:class-silently-dropped";

// ---------------------------------------------------------------------------------------------
// source-name nesting, written from "extended inner names": `A$B` is the class `B` inside `A`

/// `(outer, simple)` of an extended inner name; the `$` must be in the last `/` segment, both sides non-empty
fn split_inner(k: &str) -> Option<(&str, &str)> {
	let (p, s) = k.rsplit_once('$')?;
	if p.is_empty() || s.is_empty() || p.ends_with('/') || s.contains('/') {
		None
	} else {
		Some((p, s))
	}
}

/// the outer class of `k` if it is present in the set
fn present_parent<'a>(set: &MSet, k: &'a str) -> Option<&'a str> {
	split_inner(k).map(|(p, _)| p).filter(|p| set.classes.contains_key(*p))
}

/// number of outer classes of `k` that are present in an unbroken chain
fn tree_depth(set: &MSet, k: &str) -> usize {
	let mut d = 0;
	let mut cur = k;
	while let Some(p) = present_parent(set, cur) {
		d += 1;
		cur = p;
	}
	d
}

/// the class at the top of the unbroken chain of present outer classes
fn tree_root<'a>(set: &MSet, k: &'a str) -> &'a str {
	let mut cur = k;
	while let Some(p) = present_parent(set, cur) {
		cur = p;
	}
	cur
}

fn is_orphan(set: &MSet, k: &str) -> bool {
	split_inner(k).is_some() && present_parent(set, k).is_none()
}

/// names whose simple part has an empty piece between `$`s (`A$`, `$A`, `A$$B`): which `$` separates outer and
/// inner class is not said by the statement, so the indentation of their CLASS lines is not judged
/// (the round trip, the once-only and the determinism clauses are)
fn ambiguous_nesting(k: &str) -> bool {
	let simple = k.rsplit_once('/').map(|(_, s)| s).unwrap_or(k);
	simple.contains('$') && simple.split('$').any(|p| p.is_empty())
}

/// the classes of the tree below (and including) the top-level class `root`
fn subtree(set: &MSet, root: &str) -> MSet {
	let mut s = MSet::new(&NS);
	for (k, c) in &set.classes {
		if tree_root(set, k) == root {
			s.classes.insert(k.clone(), c.clone());
		}
	}
	s
}

fn strip_docs(set: &MSet) -> MSet {
	let mut s = set.clone();
	for c in s.classes.values_mut() {
		c.doc = None;
		for f in c.fields.values_mut() {
			f.doc = None;
		}
		for m in c.methods.values_mut() {
			m.doc = None;
			for p in m.params.values_mut() {
				p.doc = None;
			}
		}
	}
	s
}

/// The same classes with other facts of the same length: the last character of every target name of a field, method
/// and parameter and of every comment, if it is an ASCII letter or digit, is replaced by its successor (z → a, 9 → 0).
/// Every file of the directory form keeps its name and its size. `None` if nothing can be changed.
fn same_length_variant(set: &MSet) -> Option<MSet> {
	fn bump(s: &mut String) -> bool {
		let next = match s.chars().last() {
			Some(c @ ('a'..='y' | 'A'..='Y' | '0'..='8')) => (c as u8 + 1) as char,
			Some('z') => 'a',
			Some('Z') => 'A',
			Some('9') => '0',
			_ => return false,
		};
		s.pop();
		s.push(next);
		true
	}
	let mut out = set.clone();
	let mut changed = false;
	let mut doc = |d: &mut Option<String>, changed: &mut bool| {
		if let Some(d) = d {
			*changed |= bump(d);
		}
	};
	for c in out.classes.values_mut() {
		doc(&mut c.doc, &mut changed);
		for f in c.fields.values_mut() {
			doc(&mut f.doc, &mut changed);
			if let Some(t) = &mut f.names[1] {
				changed |= bump(t);
			}
		}
		for ((name, _), m) in c.methods.iter_mut() {
			doc(&mut m.doc, &mut changed);
			if let Some(t) = &mut m.names[1] {
				if !name.starts_with('<') && !t.starts_with('<') {
					changed |= bump(t);
				}
			}
			for p in m.params.values_mut() {
				doc(&mut p.doc, &mut changed);
				if let Some(t) = &mut p.names[1] {
					changed |= bump(t);
				}
			}
		}
	}
	changed.then_some(out)
}

/// The target-side name a nested class's target has to extend: the class's own target name, or its
/// source name when the class and all its present outer classes are unnamed; `None` where the
/// statement leaves it open (an unnamed class inside a renamed one).
fn effective_target(set: &MSet, k: &str) -> Option<String> {
	let c = &set.classes[k];
	if let Some(t) = &c.names[1] {
		return Some(t.clone());
	}
	match present_parent(set, k) {
		None => Some(k.to_owned()),
		Some(p) => {
			let e = effective_target(set, p)?;
			if e == p { Some(k.to_owned()) } else { None }
		},
	}
}

// ---------------------------------------------------------------------------------------------
// the statement's domain

const EX_NEST: &str = "target name of a nested class does not extend the target name of its outer class (statement: 'provided target names of nested classes follow the nesting')";
const EX_NEST_OPEN: &str = "named class nested in an unnamed class that is itself nested in a renamed class (the statement does not say which outer name the target has to extend)";
const EX_ROOT_NESTED_TARGET: &str = "non-nested source class with a nested-looking ($) target name (target nesting does not follow source nesting)";
const EX_CTOR: &str = "constructor with a target name other than <init> (statement: 'constructors are treated as unnamed')";
const EX_PARAM_SRC: &str = "parameter with a name in the first namespace (an ARG line has one name column only)";
const EX_PARAM_UNNAMED: &str = "parameter without target name, with or without comment (an ARG line needs a name; a comment needs an ARG line to hang below)";
const EX_ACC: &str = "class whose target name is written as a column starting with ACC: (the format reads such a column as a modifier, not as a name)";
const EX_INIT_NAME: &str = "method other than a constructor with the target name <init> (the statement treats what is called <init> as unnamed and does not say which side decides)";
const EX_COMMENT_WS: &str = "comment containing TAB, CR, VT or FF (the line tokeniser's separators; only space-separated text lines are expressible)";

fn exclusions(set: &MSet) -> BTreeSet<&'static str> {
	let mut out = BTreeSet::new();
	let doc = |d: &Option<String>, out: &mut BTreeSet<&'static str>| {
		if let Some(d) = d {
			if d.contains(['\t', '\r', '\u{b}', '\u{c}']) {
				out.insert(EX_COMMENT_WS);
			}
		}
	};
	for (k, c) in &set.classes {
		doc(&c.doc, &mut out);
		if let Some(t) = &c.names[1] {
			if t.starts_with("ACC:") || t.contains("$ACC:") {
				out.insert(EX_ACC);
			}
			match split_inner(k) {
				None => {
					if t.contains('$') {
						out.insert(EX_ROOT_NESTED_TARGET);
					}
				},
				Some((p, _)) => {
					if set.classes.contains_key(p) {
						match effective_target(set, p) {
							None => {
								out.insert(EX_NEST_OPEN);
							},
							Some(e) => {
								let ok = t.strip_prefix(e.as_str()).and_then(|r| r.strip_prefix('$')).is_some_and(|s| !s.is_empty() && !s.contains(['$', '/']));
								if !ok {
									out.insert(EX_NEST);
								}
							},
						}
					} else if split_inner(t).is_none() {
						out.insert(EX_NEST);
					}
				},
			}
		}
		for f in c.fields.values() {
			doc(&f.doc, &mut out);
		}
		for ((name, _), m) in &c.methods {
			doc(&m.doc, &mut out);
			if name == "<init>" && m.names[1].as_deref().is_some_and(|t| t != "<init>") {
				out.insert(EX_CTOR);
			}
			if name != "<init>" && m.names[1].as_deref() == Some("<init>") {
				out.insert(EX_INIT_NAME);
			}
			for p in m.params.values() {
				doc(&p.doc, &mut out);
				if p.names[0].is_some() {
					out.insert(EX_PARAM_SRC);
				}
				if p.names[1].is_none() {
					out.insert(EX_PARAM_UNNAMED);
				}
			}
		}
	}
	out
}

/// "constructors are treated as unnamed": `<init>` named `<init>` is the same as `<init>` without name
fn normalise(set: &MSet) -> MSet {
	let mut s = set.clone();
	for c in s.classes.values_mut() {
		for ((name, _), m) in c.methods.iter_mut() {
			if name == "<init>" && m.names[1].as_deref() == Some("<init>") {
				m.names[1] = None;
			}
		}
	}
	s
}

// ---------------------------------------------------------------------------------------------
// independent reference reader of the Enigma text
//
// Format, as far as the writer's output needs it: one entry per line, nesting by leading TABs;
// `CLASS name [target]`, `FIELD name [target] desc`, `METHOD name [target] desc`, `ARG index name`,
// `COMMENT text` (the text after the keyword and one space, verbatim, one line of the entry's comment);
// outside COMMENT lines everything from `#` on is a remark. A nested CLASS states simple names: its full
// source name is `outer$name`, its full target name `outer-target$target` (outer-target = the outer
// class's target name, or its source name if it has none).

#[derive(Clone, Debug)]
struct RefClass {
	key: String,
	class: MClass,
	depth: usize,
}

#[derive(Clone)]
enum Frame {
	Class(usize),
	Field(usize, (String, String)),
	Method(usize, (String, String)),
	Param(usize, (String, String), usize),
}

fn push_doc(doc: &mut Option<String>, line: &str) {
	match doc {
		Some(d) => {
			d.push('\n');
			d.push_str(line);
		},
		None => *doc = Some(line.to_owned()),
	}
}

fn ref_read(text: &str) -> Result<Vec<RefClass>, String> {
	let mut out: Vec<RefClass> = Vec::new();
	let mut stack: Vec<Frame> = Vec::new();
	let mut lines: Vec<&str> = text.split('\n').collect();
	if lines.last() == Some(&"") {
		lines.pop();
	}
	for (no, raw) in lines.iter().enumerate() {
		let no = no + 1;
		let indent = raw.bytes().take_while(|b| *b == b'\t').count();
		let rest = &raw[indent..];
		let comment_text = if rest == "COMMENT" { Some("") } else { rest.strip_prefix("COMMENT ") };
		if let Some(t) = comment_text {
			if indent == 0 || indent > stack.len() {
				return Err(format!("line {no}: COMMENT at indentation {indent} has no entry one level up"));
			}
			stack.truncate(indent);
			match stack.last().cloned() {
				Some(Frame::Class(ci)) => push_doc(&mut out[ci].class.doc, t),
				Some(Frame::Field(ci, k)) => push_doc(&mut out[ci].class.fields.get_mut(&k).ok_or("internal")?.doc, t),
				Some(Frame::Method(ci, k)) => push_doc(&mut out[ci].class.methods.get_mut(&k).ok_or("internal")?.doc, t),
				Some(Frame::Param(ci, k, i)) => push_doc(&mut out[ci].class.methods.get_mut(&k).ok_or("internal")?.params.get_mut(&i).ok_or("internal")?.doc, t),
				None => return Err(format!("line {no}: COMMENT without entry")),
			}
			continue;
		}
		// (the separators of the format are SP HT LF VT FF CR; NO-BREAK SPACE, EM SPACE, … are text)
		let code = rest.split_once('#').map(|(c, _)| c).unwrap_or(rest).trim_matches(FORMAT_WS);
		if code.is_empty() {
			continue;
		}
		let mut tok: Vec<&str> = code.split(FORMAT_WS).collect();
		if tok.iter().any(|t| t.is_empty()) {
			return Err(format!("line {no}: an empty column"));
		}
		// (a modifier column exists on CLASS, FIELD and METHOD lines; the last column of an ARG line is the name)
		if matches!(tok[0], "CLASS" | "FIELD" | "METHOD") && tok.last().is_some_and(|t| t.starts_with("ACC:")) {
			tok.pop();
		}
		if indent > stack.len() {
			return Err(format!("line {no}: indentation {indent} has no entry one level up"));
		}
		stack.truncate(indent);
		let parent = stack.last().cloned();
		match tok[0] {
			"CLASS" => {
				let (name, target) = match tok.len() {
					2 => (tok[1], None),
					3 => (tok[1], Some(tok[2])),
					n => return Err(format!("line {no}: CLASS with {} columns", n - 1)),
				};
				let (key, full_target) = match &parent {
					None => (name.to_owned(), target.map(|t| t.to_owned())),
					Some(Frame::Class(pi)) => {
						let p = &out[*pi];
						let outer_target = p.class.names[1].clone().unwrap_or_else(|| p.key.clone());
						(format!("{}${}", p.key, name), target.map(|t| format!("{outer_target}${t}")))
					},
					Some(_) => return Err(format!("line {no}: CLASS below something that is not a CLASS")),
				};
				out.push(RefClass { key: key.clone(), class: MClass { names: vec![Some(key), full_target], ..Default::default() }, depth: indent });
				stack.push(Frame::Class(out.len() - 1));
			},
			kw @ ("FIELD" | "METHOD") => {
				let Some(Frame::Class(ci)) = parent else { return Err(format!("line {no}: {kw} not directly below a CLASS")) };
				let (name, target, desc) = match tok.len() {
					3 => (tok[1], None, tok[2]),
					4 => (tok[1], Some(tok[2]), tok[3]),
					n => return Err(format!("line {no}: {kw} with {} columns", n - 1)),
				};
				let k = (name.to_owned(), desc.to_owned());
				let names: Row = vec![Some(name.to_owned()), target.map(|t| t.to_owned())];
				if kw == "FIELD" {
					if out[ci].class.fields.insert(k.clone(), MField { names, doc: None }).is_some() {
						return Err(format!("line {no}: field {k:?} stated twice"));
					}
					stack.push(Frame::Field(ci, k));
				} else {
					if out[ci].class.methods.insert(k.clone(), MMethod { names, doc: None, params: BTreeMap::new() }).is_some() {
						return Err(format!("line {no}: method {k:?} stated twice"));
					}
					stack.push(Frame::Method(ci, k));
				}
			},
			"ARG" => {
				let Some(Frame::Method(ci, k)) = parent else { return Err(format!("line {no}: ARG not directly below a METHOD")) };
				if tok.len() != 3 {
					return Err(format!("line {no}: ARG with {} columns", tok.len() - 1));
				}
				let index: usize = tok[1].parse().map_err(|_| format!("line {no}: ARG index {:?}", tok[1]))?;
				let m = out[ci].class.methods.get_mut(&k).ok_or("internal")?;
				if m.params.insert(index, MParam { names: vec![None, Some(tok[2].to_owned())], doc: None }).is_some() {
					return Err(format!("line {no}: parameter {index} stated twice"));
				}
				stack.push(Frame::Param(ci, k, index));
			},
			other => return Err(format!("line {no}: unknown keyword {other:?}")),
		}
	}
	Ok(out)
}

/// classes stated by the reference reader as a set, plus the keys stated more than once
fn ref_set(entries: &[RefClass]) -> (MSet, Vec<String>) {
	let mut set = MSet::new(&NS);
	let mut dups = Vec::new();
	for e in entries {
		if set.classes.insert(e.key.clone(), e.class.clone()).is_some() {
			dups.push(e.key.clone());
		}
	}
	(set, dups)
}

/// the reference reader read against a hand-written text and its hand-written content (exit 2 if off)
fn self_check() {
	let text = "# remark\nCLASS a/A b/X\n\tCOMMENT c1\n\tCOMMENT \n\tCOMMENT  # c3 \n\tFIELD f g I\n\t\tCOMMENT fc\n\tFIELD f J # remark\n\tMETHOD <init> (I)V\n\t\tARG 1 p\n\t\t\tCOMMENT pc\n\tMETHOD m n ()V\n\t\tCOMMENT mc\n\tCLASS B Y\n\t\tCLASS C\n\t\t\tFIELD h [I\n\tCLASS D\n\t\tCLASS E Z\nCLASS P$Q R$S\n\tCOMMENT\n";
	let got = ref_read(text).unwrap_or_else(|e| vcore::machinery_fail(&format!("self-check: reference reader refused its sample: {e}")));
	let (got_set, dups) = ref_set(&got);
	let mut want = MSet::new(&NS);
	let r = |a: &str, b: Option<&str>| -> Row { vec![Some(a.to_owned()), b.map(|s| s.to_owned())] };
	let mut a = MClass { names: r("a/A", Some("b/X")), doc: Some("c1\n\n # c3 ".into()), ..Default::default() };
	a.fields.insert(("f".into(), "I".into()), MField { names: r("f", Some("g")), doc: Some("fc".into()) });
	a.fields.insert(("f".into(), "J".into()), MField { names: r("f", None), doc: None });
	let mut init = MMethod { names: r("<init>", None), doc: None, params: BTreeMap::new() };
	init.params.insert(1, MParam { names: vec![None, Some("p".into())], doc: Some("pc".into()) });
	a.methods.insert(("<init>".into(), "(I)V".into()), init);
	a.methods.insert(("m".into(), "()V".into()), MMethod { names: r("m", Some("n")), doc: Some("mc".into()), params: BTreeMap::new() });
	want.classes.insert("a/A".into(), a);
	want.classes.insert("a/A$B".into(), MClass { names: r("a/A$B", Some("b/X$Y")), ..Default::default() });
	let mut c = MClass { names: r("a/A$B$C", None), ..Default::default() };
	c.fields.insert(("h".into(), "[I".into()), MField { names: r("h", None), doc: None });
	want.classes.insert("a/A$B$C".into(), c);
	want.classes.insert("a/A$D".into(), MClass { names: r("a/A$D", None), ..Default::default() });
	want.classes.insert("a/A$D$E".into(), MClass { names: r("a/A$D$E", Some("a/A$D$Z")), ..Default::default() });
	want.classes.insert("P$Q".into(), MClass { names: r("P$Q", Some("R$S")), doc: Some("".into()), ..Default::default() });
	if got_set != want || !dups.is_empty() {
		vcore::machinery_fail(&format!("self-check: reference reader misreads its sample: {:?}", mapmodel::first_difference(&want, &got_set)));
	}
	let depths: Vec<usize> = got.iter().map(|e| e.depth).collect();
	if depths != [0, 1, 2, 1, 2, 0] {
		vcore::machinery_fail("self-check: reference reader reports wrong depths");
	}
	for bad in ["\tCLASS A\n", "CLASS A\n\t\tFIELD f I\n", "FIELD f I\n", "CLASS A\n\tARG 0 x\n", "CLASS A\nCOMMENT x\n", "CLASS A\n\tFIELD f I\n\tFIELD f I\n", "CLASS\n", "NOPE x\n"] {
		if ref_read(bad).is_ok() {
			vcore::machinery_fail(&format!("self-check: reference reader accepts {bad:?}"));
		}
	}
	let mut probe = MSet::new(&NS);
	probe.classes.insert("A".into(), MClass { names: r("A", Some("X")), ..Default::default() });
	probe.classes.insert("A$B".into(), MClass { names: r("A$B", None), ..Default::default() });
	probe.classes.insert("A$B$C".into(), MClass { names: r("A$B$C", Some("X$B$Z")), ..Default::default() });
	probe.classes.insert("Q$R".into(), MClass { names: r("Q$R", Some("Flat")), ..Default::default() });
	let ex = exclusions(&probe);
	if !(ex.contains(EX_NEST_OPEN) && ex.contains(EX_NEST) && ex.len() == 2 && is_orphan(&probe, "Q$R") && !is_orphan(&probe, "A$B") && tree_depth(&probe, "A$B$C") == 2) {
		vcore::machinery_fail("self-check: domain classification");
	}
}

// ---------------------------------------------------------------------------------------------
// the real code

/// insertion order of the classes and insertion order below each class (fields, methods, parameters)
#[derive(Clone, Copy, Debug, PartialEq, Eq)]
struct Ins {
	classes: Order,
	members: Order,
}

impl Ins {
	const SORTED: Ins = Ins { classes: Order::Sorted, members: Order::Sorted };
	const fn both(o: Order) -> Ins {
		Ins { classes: o, members: o }
	}
}

fn build(set: &MSet, o: Ins) -> Mappings<2, ()> {
	let fail = |e: anyhow::Error| -> ! { vcore::machinery_fail(&format!("generator produced a set quill's public API refuses: {e:#}")) };
	if o.classes == o.members {
		return mapmodel::to_quill_ordered::<2, ()>(set, o.classes).unwrap_or_else(|e| fail(e));
	}
	if let Err(e) = set.check() {
		fail(e);
	}
	let mut q: Mappings<2, ()> = Mappings::from_namespaces(NS).unwrap_or_else(|e| fail(e));
	let mut keys: Vec<&String> = set.classes.keys().collect();
	match o.classes {
		Order::Sorted => {},
		Order::Reversed => keys.reverse(),
		Order::Rotated(k) => {
			if !keys.is_empty() {
				let k = k % keys.len();
				keys.rotate_left(k);
			}
		},
	}
	for k in keys {
		let qc = mapmodel::class_to_quill::<2>(&set.classes[k], o.members).unwrap_or_else(|e| fail(e));
		if q.classes.insert(mapmodel::cls(k).unwrap_or_else(|e| fail(e)), qc).is_some() {
			vcore::machinery_fail("duplicate class");
		}
	}
	q
}

enum ReadOut {
	Set(MSet),
	Refused(String),
	KeyBroken(String),
}

type Guarded<T> = Result<T, vcore::Panic>;

fn real_write_stream(set: &MSet, o: Ins) -> Guarded<Result<Vec<u8>, String>> {
	let q = build(set, o);
	vcore::guard(|| {
		let mut v = Vec::new();
		quill::enigma_file::write_all(&q, &mut v).map(|_| v).map_err(|e| format!("{e:#}"))
	})
}

/// `write_one` for each of the names, on one object built in insertion order `o`
fn real_write_ones(set: &MSet, o: Ins, names: &[&str]) -> Vec<Guarded<Result<Vec<u8>, String>>> {
	let q = build(set, o);
	names.iter().map(|name| {
		vcore::guard(|| {
			let mut v = Vec::new();
			quill::enigma_file::write_one(&q, name, &mut v).map(|_| v).map_err(|e| format!("{e:#}"))
		})
	}).collect()
}

fn real_read_stream(text: &[u8]) -> Guarded<ReadOut> {
	real_read_stream_rewrite(text, false).map(|(r, _)| r)
}

/// `read_into`, and with `rewrite` also `write_all` of the object that was read (`None` if nothing was read)
fn real_read_stream_rewrite(text: &[u8], rewrite: bool) -> Guarded<(ReadOut, Option<Result<Vec<u8>, String>>)> {
	vcore::guard(|| {
		let mut m: Mappings<2, ()> = Mappings::from_namespaces(NS).unwrap_or_else(|e| vcore::machinery_fail(&format!("{e}")));
		match quill::enigma_file::read_into(text, &mut m) {
			Err(e) => (ReadOut::Refused(format!("{e:#}")), None),
			Ok(()) => {
				let again = rewrite.then(|| {
					let mut v = Vec::new();
					quill::enigma_file::write_all(&m, &mut v).map(|_| v).map_err(|e| format!("{e:#}"))
				});
				match mapmodel::from_quill(&m) {
					Ok(s) => (ReadOut::Set(s), again),
					Err(k) => (ReadOut::KeyBroken(k.0), again),
				}
			},
		}
	})
}

fn real_write_dir(set: &MSet, o: Ins, dir: &Path) -> Guarded<Result<(), String>> {
	let q = build(set, o);
	vcore::guard(|| quill::enigma_dir::write(&q, dir).map_err(|e| format!("{e:#}")))
}

fn real_read_dir(dir: &Path) -> Guarded<ReadOut> {
	vcore::guard(|| {
		let ns: Namespaces<2, ()> = Namespaces::try_from(NS.map(|s| s.to_owned())).unwrap_or_else(|e| vcore::machinery_fail(&format!("{e}")));
		match quill::enigma_dir::read(dir, ns) {
			Err(e) => ReadOut::Refused(format!("{e:#}")),
			Ok(m) => match mapmodel::from_quill(&m) {
				Ok(s) => ReadOut::Set(s),
				Err(k) => ReadOut::KeyBroken(k.0),
			},
		}
	})
}

// ---------------------------------------------------------------------------------------------
// scratch directories

fn scratch_base() -> PathBuf {
	let pid = std::process::id();
	let usable = |p: &Path| -> bool { std::fs::create_dir_all(p).is_ok() && std::fs::write(p.join(".probe"), b"x").is_ok() && std::fs::remove_file(p.join(".probe")).is_ok() };
	// leftovers of runs that were killed
	if let Ok(rd) = std::fs::read_dir("/dev/shm") {
		for e in rd.flatten() {
			let name = e.file_name().to_string_lossy().to_string();
			if let Some(p) = name.strip_prefix("verif-c12-") {
				if p.parse::<u32>().is_ok_and(|p| p != pid && !Path::new(&format!("/proc/{p}")).exists()) {
					let _ = std::fs::remove_dir_all(e.path());
				}
			}
		}
	}
	let shm = PathBuf::from(format!("/dev/shm/verif-c12-{pid}"));
	if usable(&shm) {
		return shm;
	}
	let fallback = vcore::verif_root().join("harness/target/tmp").join(format!("verif-c12-{pid}"));
	if usable(&fallback) {
		return fallback;
	}
	vcore::machinery_fail("no writable scratch directory (/dev/shm, harness/target/tmp)")
}

fn fresh_dir(p: &Path) {
	let _ = std::fs::remove_dir_all(p);
	std::fs::create_dir_all(p).unwrap_or_else(|e| vcore::machinery_fail(&format!("cannot create scratch {p:?}: {e}")));
}

/// every file below `dir` (relative path with `/`) with its bytes; my own walk, sorted by path
fn list_files(dir: &Path) -> BTreeMap<String, Vec<u8>> {
	fn walk(base: &Path, rel: &str, out: &mut BTreeMap<String, Vec<u8>>) {
		let here = if rel.is_empty() { base.to_path_buf() } else { base.join(rel) };
		let rd = std::fs::read_dir(&here).unwrap_or_else(|e| vcore::machinery_fail(&format!("cannot list {here:?}: {e}")));
		for e in rd {
			let e = e.unwrap_or_else(|e| vcore::machinery_fail(&format!("listing: {e}")));
			let name = e.file_name().to_string_lossy().to_string();
			let r = if rel.is_empty() { name } else { format!("{rel}/{name}") };
			let ft = e.file_type().unwrap_or_else(|e| vcore::machinery_fail(&format!("file type: {e}")));
			if ft.is_dir() {
				walk(base, &r, out);
			} else {
				let bytes = std::fs::read(e.path()).unwrap_or_else(|e| vcore::machinery_fail(&format!("read: {e}")));
				out.insert(r, bytes);
			}
		}
	}
	let mut out = BTreeMap::new();
	walk(dir, "", &mut out);
	out
}

// ---------------------------------------------------------------------------------------------
// one case

/// where the sets of a universe come from: the complete product over a small alphabet, or an explicit list of
/// (large) sets that no product reaches
enum Source {
	Product(Space),
	Listed(Vec<(String, MSet)>),
}

struct Uni {
	label: String,
	src: Source,
}

impl Uni {
	fn len(&self) -> u64 {
		match &self.src {
			Source::Product(s) => s.len(),
			Source::Listed(v) => v.len() as u64,
		}
	}
	fn nth(&self, idx: u64) -> MSet {
		match &self.src {
			Source::Product(s) => s.nth(idx),
			Source::Listed(v) => v[idx as usize].1.clone(),
		}
	}
	fn describe(&self) -> Value {
		match &self.src {
			Source::Product(s) => json!(s.keys),
			Source::Listed(v) => json!(v.iter().map(|(d, _)| d.clone()).collect::<Vec<_>>()),
		}
	}
}

struct Case<'a> {
	ctx: &'a Ctx,
	label: &'a str,
	idx: u64,
	set: &'a MSet,
	expected: MSet,
	/// classes of trees whose root is an inner class without its outer class: key → the name it has
	/// when the root is stated by its simple name only
	orphan_members: BTreeMap<String, String>,
	/// trees whose roots would be stored under the same file name (target name, else source name)
	colliding_roots: BTreeSet<String>,
	orphan_name_clash: bool,
	/// a name that is the last column of its line (class: target name, else source name; parameter: name) ends with a
	/// character that is white space for Unicode only
	uws_tail: bool,
	/// … and the last piece of such a name consists of such characters only
	uws_only_tail: bool,
}

/// (a name written as last column ends with Unicode-only white space, the last `/`- or `$`-piece of one is nothing else)
fn uws_flags(set: &MSet) -> (bool, bool) {
	let mut last_columns: Vec<&str> = Vec::new();
	for (k, c) in &set.classes {
		last_columns.push(c.names[1].as_deref().unwrap_or(k));
		for m in c.methods.values() {
			last_columns.extend(m.params.values().filter_map(|p| p.names[1].as_deref()));
		}
	}
	let tail = last_columns.iter().any(|n| n.ends_with(is_unicode_only_ws));
	let only = last_columns.iter().any(|n| n.rsplit(['/', '$']).next().is_some_and(|l| !l.is_empty() && l.chars().all(is_unicode_only_ws)));
	(tail, only)
}

/// the set with every Unicode-only white space character taken out of every name; `None` if names meet
fn without_uws(set: &MSet) -> Option<MSet> {
	let f = |s: &str| -> String { s.chars().filter(|c| !is_unicode_only_ws(*c)).collect() };
	let row = |r: &Row| -> Row { r.iter().map(|n| n.as_deref().map(f)).collect() };
	let mut out = MSet::new(&NS);
	for (k, c) in &set.classes {
		let mut nc = MClass { names: row(&c.names), doc: c.doc.clone(), ..Default::default() };
		for ((n, d), fl) in &c.fields {
			if nc.fields.insert((f(n), f(d)), MField { names: row(&fl.names), doc: fl.doc.clone() }).is_some() {
				return None;
			}
		}
		for ((n, d), m) in &c.methods {
			let params = m.params.iter().map(|(i, p)| (*i, MParam { names: row(&p.names), doc: p.doc.clone() })).collect();
			if nc.methods.insert((f(n), f(d)), MMethod { names: row(&m.names), doc: m.doc.clone(), params }).is_some() {
				return None;
			}
		}
		if out.classes.insert(f(k), nc).is_some() {
			return None;
		}
	}
	Some(out)
}

impl<'a> Case<'a> {
	/// a case without the two historical shapes (used for the parts of a set)
	fn plain(ctx: &'a Ctx, label: &'a str, idx: u64, set: &'a MSet, expected: MSet) -> Case<'a> {
		let (uws_tail, uws_only_tail) = uws_flags(&expected);
		Case { ctx, label, idx, set, expected, orphan_members: BTreeMap::new(), colliding_roots: BTreeSet::new(), orphan_name_clash: false, uws_tail, uws_only_tail }
	}
}

impl Case<'_> {
	fn replay_text(&self, extra: &str) -> String {
		format!(
			"universe={}\nindex={}\nthe set (Tiny v2 rendering, for reading only):\n{}{}",
			self.label, self.idx, tiny::print_with(self.set, &tiny::escape), extra
		)
	}

	fn diff(&self, key: &str, what: &str, extra: &str) {
		self.ctx.diff(key, what, || self.replay_text(extra));
	}

	fn panic(&self, site: &str, p: &vcore::Panic) {
		self.diff(&format!("panic@{}", p.file()), &format!("{site}: panic at {}: {}", p.site, p.msg), "");
	}

	/// compares what came back with the content; differences of the two known shapes get their own
	/// narrow keys and the rest of the comparison goes on without them
	fn judge(&self, site: &str, actual: &MSet, extra: &str) -> bool {
		let exp = &self.expected;
		if exp == actual {
			return true;
		}
		if self.uws_tail {
			if let (Some(e), Some(a)) = (without_uws(exp), without_uws(actual)) {
				if e == a {
					let what = mapmodel::first_difference(exp, actual).map(|(_, w)| w).unwrap_or_default();
					self.diff(KEY_UWS, &format!("{site}: a name written as the last column of its line ends with a character that is white space for Unicode but not for the format, and came back without it: {what}"), extra);
					return false;
				}
			}
		}
		let mut e2 = exp.clone();
		let mut a2 = actual.clone();
		let mut orphan_hit: Vec<String> = Vec::new();
		for (k, d) in &self.orphan_members {
			if !actual.classes.contains_key(k) && actual.classes.contains_key(d) && (self.orphan_name_clash || !exp.classes.contains_key(d)) {
				// (when simple names clash, what is found under the simple name is a mixture: not compared)
				e2.classes.remove(k);
				e2.classes.remove(d);
				a2.classes.remove(d);
				orphan_hit.push(format!("{k:?} came back as {d:?}"));
			}
		}
		if !orphan_hit.is_empty() {
			self.diff(KEY_ORPHAN, &format!("{site}: inner class whose outer class is absent lost its outer prefix: {}", orphan_hit.join(", ")), extra);
		}
		let mut lost: Vec<String> = Vec::new();
		for k in exp.classes.keys() {
			if self.colliding_roots.contains(tree_root(exp, k)) && !actual.classes.contains_key(k) && e2.classes.contains_key(k) {
				e2.classes.remove(k);
				lost.push(k.clone());
			}
		}
		if !lost.is_empty() {
			self.diff(KEY_COLLISION, &format!("{site}: top-level classes {:?} share a file name; written without error but {lost:?} did not come back", self.colliding_roots), extra);
		}
		if let Some((k, what)) = mapmodel::first_difference(&e2, &a2) {
			self.diff(&format!("{site}:{k}"), &format!("{site}: {what}"), extra);
		}
		false
	}

	fn refused(&self, site: &str, e: &str, extra: &str) {
		if self.uws_only_tail {
			self.diff(KEY_UWS, &format!("{site}: a name written as the last column of its line ends in a piece made of characters that are white space for Unicode but not for the format; the text is refused: {e}"), extra);
		} else if self.orphan_name_clash {
			self.diff(KEY_ORPHAN, &format!("{site}: inner classes whose outer class is absent were stated by their simple names, which clash: {e}"), extra);
		} else {
			self.diff(&format!("{site}:read-refused"), &format!("{site}: reading back the written text failed: {e}"), extra);
		}
	}

	fn judge_read(&self, site: &str, r: &Guarded<ReadOut>, extra: &str) -> bool {
		match r {
			Err(p) => {
				self.panic(site, p);
				false
			},
			Ok(ReadOut::Set(back)) => self.judge(site, back, extra),
			Ok(ReadOut::Refused(e)) => {
				self.refused(site, e, extra);
				false
			},
			Ok(ReadOut::KeyBroken(k)) => {
				self.diff(&format!("{site}:key-invariant"), &format!("{site}: {k}"), extra);
				false
			},
		}
	}

	/// the independent reading of written text: content, every class once, depth of CLASS lines
	fn judge_text(&self, site: &str, entries: &[RefClass], extra: &str) -> bool {
		let (seen, dups) = ref_set(entries);
		let mut ok = true;
		for d in &dups {
			ok = false;
			if self.orphan_members.values().any(|v| v == d) {
				self.diff(KEY_ORPHAN, &format!("{site}: inner classes whose outer class is absent are stated by simple name; {d:?} is stated twice"), extra);
			} else {
				self.diff(&format!("{site}:class-stated-twice"), &format!("{site}: class {d:?} is stated more than once"), extra);
			}
		}
		ok &= self.judge(site, &seen, extra);
		for e in entries {
			if self.expected.classes.contains_key(&e.key) && !ambiguous_nesting(&e.key) {
				let want = tree_depth(&self.expected, &e.key);
				if e.depth != want {
					ok = false;
					self.diff(&format!("{site}:class-line-depth"), &format!("{site}: CLASS line of {:?} is at indentation {}, source-name nesting says {want}", e.key, e.depth), extra);
				}
			}
		}
		ok
	}
}

fn orders(tier: vcore::Tier) -> Vec<Ins> {
	let same = vec![Ins::SORTED, Ins::both(Order::Reversed), Ins::both(Order::Rotated(1))];
	let mixed = vec![Ins::both(Order::Rotated(2)), Ins { classes: Order::Sorted, members: Order::Reversed }, Ins { classes: Order::Reversed, members: Order::Rotated(1) }];
	tier.pick(same.clone(), same.into_iter().chain(mixed).collect())
}

fn file_name_of(set: &MSet, k: &str) -> String {
	set.classes[k].names[1].clone().unwrap_or_else(|| k.to_owned())
}

fn run_case(ctx: &Ctx, label: &str, idx: u64, set: &MSet, scratch: &Path, st: &mut Stats) {
	st.eval();
	let ords = orders(ctx.tier);
	let ex = exclusions(set);
	if !ex.is_empty() {
		// outside the statement's domain: no panic, nothing else
		st.outcome("outside-domain");
		for e in &ex {
			st.outcome(&format!("outside: {e}"));
		}
		let case = Case::plain(ctx, label, idx, set, set.clone());
		for o in &ords {
			match real_write_stream(set, *o) {
				Err(p) => case.panic("outside-domain stream write", &p),
				Ok(Err(_)) => st.outcome("outside-domain: write refused"),
				Ok(Ok(text)) => match real_read_stream(&text) {
					Err(p) => case.panic("outside-domain stream read", &p),
					Ok(ReadOut::Set(back)) => st.outcome(if back == *set { "outside-domain: round trip holds anyway" } else { "outside-domain: comes back different" }),
					Ok(_) => st.outcome("outside-domain: read refused"),
				},
			}
			st.outcome("real calls");
		}
		let d = scratch.join("x");
		fresh_dir(&d);
		match real_write_dir(set, Ins::SORTED, &d) {
			Err(p) => case.panic("outside-domain directory write", &p),
			Ok(Err(_)) => {},
			Ok(Ok(())) => {
				if let Err(p) = real_read_dir(&d) {
					case.panic("outside-domain directory read", &p);
				}
			},
		}
		let _ = std::fs::remove_dir_all(&d);
		let names: BTreeSet<String> = set.classes.iter().flat_map(|(k, c)| [Some(k.clone()), c.names[1].clone()]).flatten().collect();
		let names: Vec<&str> = names.iter().map(|s| s.as_str()).collect();
		for r in real_write_ones(set, Ins::SORTED, &names) {
			st.outcome("real calls");
			if let Err(p) = r {
				case.panic("outside-domain write_one", &p);
			}
		}
		st.sample("outside",|| json!({"kind": "outside-domain set (no panic only)", "universe": label, "index": idx, "why": ex.iter().collect::<Vec<_>>(), "set": tiny::print_with(set, &tiny::escape)}));
		return;
	}

	st.outcome("in-domain");
	let expected = normalise(set);
	// classification of the two known shapes (keys only; the verdicts come from the comparisons)
	let mut orphan_members = BTreeMap::new();
	let mut roots: BTreeMap<String, Vec<String>> = BTreeMap::new();
	for k in expected.classes.keys() {
		let root = tree_root(&expected, k);
		if let Some((outer, _)) = split_inner(root) {
			orphan_members.insert(k.clone(), k[outer.len() + 1..].to_owned());
		}
		if root == k {
			roots.entry(file_name_of(&expected, k)).or_default().push(k.clone());
		}
	}
	let colliding_roots: BTreeSet<String> = roots.values().filter(|v| v.len() > 1).flatten().cloned().collect();
	let orphan_name_clash = {
		let mut seen = BTreeSet::new();
		orphan_members.values().any(|d| expected.classes.contains_key(d) || !seen.insert(d.clone()))
	};
	let (uws_tail, uws_only_tail) = uws_flags(&expected);
	let case = Case { ctx, label, idx, set, expected, orphan_members, colliding_roots, orphan_name_clash, uws_tail, uws_only_tail };
	if uws_tail {
		st.outcome("sets with a name at the end of its line that ends with Unicode-only white space");
	}
	let exp = &case.expected;

	// what this set exercises
	let max_depth = exp.classes.keys().map(|k| tree_depth(exp, k)).max().unwrap_or(0);
	let n_orphans = exp.classes.keys().filter(|k| is_orphan(exp, k)).count();
	let n_roots = roots.values().map(|v| v.len()).sum::<usize>();
	let mut all_docs: Vec<&str> = Vec::new();
	let mut param_docs = 0;
	let mut unnamed_classes = 0;
	for c in exp.classes.values() {
		all_docs.extend(c.doc.as_deref());
		if c.names[1].is_none() {
			unnamed_classes += 1;
		}
		for f in c.fields.values() {
			all_docs.extend(f.doc.as_deref());
		}
		for m in c.methods.values() {
			all_docs.extend(m.doc.as_deref());
			for p in m.params.values() {
				all_docs.extend(p.doc.as_deref());
				param_docs += p.doc.is_some() as u64;
			}
		}
	}
	if max_depth >= 2 {
		st.outcome("sets with nesting depth >= 2");
	}
	if max_depth >= 3 {
		st.outcome("sets with nesting depth >= 3");
	}
	if n_orphans > 0 {
		st.outcome("sets with an orphan inner class");
	}
	if unnamed_classes > 0 {
		st.outcome("sets with a class without target name");
	}
	if all_docs.iter().any(|d| d.contains("\n\n")) {
		st.outcome("sets with a comment with a blank line");
	}
	if all_docs.iter().any(|d| d.starts_with(' ') || d.contains("\n ")) {
		st.outcome("sets with a comment line with leading space");
	}
	if all_docs.iter().any(|d| d.contains('#')) {
		st.outcome("sets with a # in a comment");
	}
	if param_docs > 0 {
		st.outcome("sets with a parameter comment");
	}
	if !case.colliding_roots.is_empty() {
		st.outcome("sets with two top-level classes of equal file name");
	}
	if max_depth >= 8 {
		st.outcome("sets with nesting depth >= 8");
	}
	if max_depth >= 256 {
		st.outcome("sets with nesting depth >= 256");
	}
	if all_docs.iter().any(|d| !d.is_ascii()) {
		st.outcome("sets with a comment with text outside ASCII");
	}
	if all_docs.iter().any(|d| d.split('\n').any(|l| l.starts_with("COMMENT") || l.starts_with("CLASS"))) {
		st.outcome("sets with a comment line that looks like an entry");
	}
	if exp.classes.keys().any(|k| ambiguous_nesting(k)) {
		st.outcome("sets with a class name with an empty piece between $s");
	}
	{
		let same = |row: &Row| row[1].is_some() && row[0] == row[1];
		if exp.classes.values().any(|c| same(&c.names) || c.fields.values().any(|f| same(&f.names)) || c.methods.values().any(|m| same(&m.names))) {
			st.outcome("sets with an entry whose target name equals its source name");
		}
		let simple = |k: &str| k.rsplit_once('/').map(|(_, s)| s.to_owned()).unwrap_or_else(|| k.to_owned());
		let mut seen = BTreeSet::new();
		if exp.classes.keys().any(|k| !seen.insert(simple(k))) {
			st.outcome("sets with classes of equal simple name in different packages");
		}
		if exp.classes.values().any(|c| c.methods.values().any(|m| m.params.keys().any(|i| *i >= 10))) {
			st.outcome("sets with a parameter index >= 10");
		}
		if exp.classes.values().any(|c| c.methods.values().any(|m| m.params.keys().any(|i| *i > 65535))) {
			st.outcome("sets with a parameter index > 65535");
		}
		let keyword = |n: &str| n.rsplit(['/', '$']).next().is_some_and(|l| matches!(l, "CLASS" | "FIELD" | "METHOD" | "ARG" | "COMMENT") || l.starts_with("ACC"));
		let mut all_names: Vec<&str> = Vec::new();
		for c in exp.classes.values() {
			all_names.extend(c.names.iter().flatten().map(|s| s.as_str()));
			for f in c.fields.values() {
				all_names.extend(f.names.iter().flatten().map(|s| s.as_str()));
			}
			for m in c.methods.values() {
				all_names.extend(m.names.iter().flatten().map(|s| s.as_str()));
				for p in m.params.values() {
					all_names.extend(p.names.iter().flatten().map(|s| s.as_str()));
				}
			}
		}
		if all_names.iter().any(|n| keyword(n)) {
			st.outcome("sets with a name that is a keyword of the format or starts like its modifier column");
		}
		if all_names.iter().any(|n| !n.is_ascii()) {
			st.outcome("sets with a name outside ASCII");
		}
		if all_names.iter().any(|n| n.len() >= 100 && !n.is_ascii()) {
			st.outcome("sets with a name of 100 bytes or more with a multi-byte character");
		}
		if exp.classes.values().any(|c| c.methods.iter().any(|((n, _), m)| n == "<clinit>" && m.names[1].is_some())) {
			st.outcome("sets with a static initialiser that has a target name");
		}
		let mut siblings: BTreeMap<String, u64> = BTreeMap::new();
		for k in exp.classes.keys() {
			*siblings.entry(present_parent(exp, k).unwrap_or("").to_owned()).or_default() += 1;
		}
		if siblings.values().any(|n| *n >= 32) {
			st.outcome("sets with >= 32 classes below one parent");
		}
	}

	// ---- single stream ----
	let mut texts: Vec<Vec<u8>> = Vec::new();
	let mut stream_ok = true;
	for o in &ords {
		st.outcome("real calls");
		match real_write_stream(set, *o) {
			Err(p) => {
				case.panic("stream write", &p);
				stream_ok = false;
			},
			Ok(Err(e)) => {
				stream_ok = false;
				if case.colliding_roots.is_empty() {
					case.diff("stream:write-refused", &format!("write_all refused a set of the domain ({o:?}): {e}"), "");
				} else {
					st.outcome("collision: write refused (accepted)");
				}
			},
			Ok(Ok(t)) => texts.push(t),
		}
	}
	if let Some(first) = texts.first() {
		let shown = format!("\n---- write_all ----\n{}", String::from_utf8_lossy(first));
		for (i, t) in texts.iter().enumerate().skip(1) {
			if t != first {
				stream_ok = false;
				let extra = format!("{shown}\n---- write_all, other insertion order ({:?}) ----\n{}", ords[i], String::from_utf8_lossy(t));
				if case.colliding_roots.is_empty() {
					case.diff("stream:bytes-depend-on-insertion-order", "write_all writes different bytes for two insertion orders of the same content", &extra);
				} else {
					case.diff(KEY_COLLISION, "stream: which of the classes sharing a file name survives depends on the insertion order", &extra);
				}
			}
		}
		st.outcome("real calls");
		// (where a constructor is named <init> the set read back is the same only by the statement's proviso: not compared)
		let same_content = case.expected == *set;
		let (back, again) = match real_read_stream_rewrite(first, case.colliding_roots.is_empty() && same_content) {
			Ok((r, again)) => (Ok(r), again),
			Err(p) => (Err(p), None),
		};
		let read_ok = case.judge_read("stream", &back, &shown);
		stream_ok &= read_ok;
		// what was read is the same set, so writing it once more gives the same text (deterministic: a function of the set)
		if let (true, Some(again)) = (read_ok, again) {
			st.outcome("real calls");
			match again {
				Ok(t) if t == *first => st.outcome("stream: read and written again, same bytes"),
				Ok(t) => {
					stream_ok = false;
					case.diff("stream:rewrite-differs", "write_all of what read_into read differs from the text that was read, although the sets are equal", &format!("{shown}\n---- write_all of what was read ----\n{}", String::from_utf8_lossy(&t)));
				},
				Err(e) => {
					stream_ok = false;
					case.diff("stream:rewrite-refused", &format!("write_all refuses what read_into read from write_all's text: {e}"), &shown);
				},
			}
		}
		match std::str::from_utf8(first).map_err(|e| e.to_string()).and_then(ref_read) {
			Ok(entries) => stream_ok &= case.judge_text("stream-text", &entries, &shown),
			Err(e) => {
				stream_ok = false;
				case.diff("stream-text:not-enigma", &format!("the reference reader cannot read what write_all wrote: {e}"), &shown);
			},
		}
		if !exp.classes.is_empty() {
			st.distinct.add(&first[..]);
		}
		// deterministic: the same content in the same insertion order once more
		st.outcome("real calls");
		match real_write_stream(set, ords[0]) {
			Ok(Ok(again)) if again == *first => st.outcome("stream: written twice, same bytes"),
			Ok(Ok(again)) => {
				stream_ok = false;
				case.diff("stream:not-deterministic", "write_all writes different bytes for the same content in the same insertion order", &format!("{shown}\n---- write_all, second time ----\n{}", String::from_utf8_lossy(&again)));
			},
			Ok(Err(e)) => {
				stream_ok = false;
				case.diff("stream:not-deterministic", &format!("write_all refused the second time what it wrote the first time: {e}"), &shown);
			},
			Err(p) => {
				stream_ok = false;
				case.panic("stream write, second time", &p);
			},
		}
	}
	if stream_ok {
		st.outcome("stream: round trip, text and order independence hold");
	}

	// ---- write_one: the file of one top-level class as a stream ----
	let mut one_ok = case.colliding_roots.is_empty();
	if case.colliding_roots.is_empty() {
		let o = ords[1 % ords.len()];
		let file_names: Vec<(&str, &str)> = roots.iter().map(|(f, ks)| (f.as_str(), ks[0].as_str())).collect();
		let names: Vec<&str> = file_names.iter().map(|(f, _)| *f).collect();
		for ((fname, root), r) in file_names.iter().zip(real_write_ones(set, o, &names)) {
			st.outcome("real calls");
			match r {
				Err(p) => {
					one_ok = false;
					case.panic("write_one", &p);
				},
				Ok(Err(e)) => {
					one_ok = false;
					case.diff("write_one:refused", &format!("write_one refused the top-level class {root:?} under its file name {fname:?}: {e}"), "");
				},
				Ok(Ok(bytes)) => {
					let sub = Case::plain(ctx, label, idx, set, subtree(exp, root));
					let shown = format!("\n---- write_one({fname:?}) ----\n{}", String::from_utf8_lossy(&bytes));
					st.outcome("real calls");
					one_ok &= sub.judge_read("write_one", &real_read_stream(&bytes), &shown);
					match std::str::from_utf8(&bytes).map_err(|e| e.to_string()).and_then(ref_read) {
						Ok(entries) => {
							let tops = entries.iter().filter(|e| e.depth == 0).count();
							if tops != 1 {
								one_ok = false;
								case.diff("write_one-text:not-exactly-one-top-level-class", &format!("write_one({fname:?}) states {tops} top-level classes"), &shown);
							}
							one_ok &= sub.judge_text("write_one-text", &entries, &shown);
						},
						Err(e) => {
							one_ok = false;
							case.diff("write_one-text:not-enigma", &format!("the reference reader cannot read what write_one({fname:?}) wrote: {e}"), &shown);
						},
					}
					st.outcome("write_one: trees written and read back");
					if sub.expected.classes.len() >= 2 {
						st.outcome("write_one: trees with nested classes");
					}
					if split_inner(root).is_some() {
						st.outcome("write_one: trees whose top is an orphan inner class");
					}
				},
			}
		}
		// names that are not the name of a file (nested classes): the statement says nothing, no panic
		let others: BTreeSet<String> = exp.classes.iter()
			.filter(|(k, _)| tree_root(exp, k) != k.as_str())
			.flat_map(|(k, c)| [Some(k.clone()), c.names[1].clone()]).flatten()
			.filter(|n| !roots.contains_key(n))
			.collect();
		let others: Vec<&str> = others.iter().map(|s| s.as_str()).collect();
		for r in real_write_ones(set, o, &others) {
			st.outcome("real calls");
			match r {
				Err(p) => {
					one_ok = false;
					case.panic("write_one on the name of a nested class", &p);
				},
				Ok(Err(_)) => st.outcome("write_one on the name of a nested class: refused (accepted)"),
				Ok(Ok(_)) => st.outcome("write_one on the name of a nested class: wrote something (accepted)"),
			}
		}
	}
	if one_ok {
		st.outcome("write_one: every top-level class gives exactly its tree");
	}

	// ---- directory ----
	// (a file system entry of more than NAME_MAX bytes cannot exist: refusing is the environment's answer)
	let longest = more::longest_file_name_component(exp);
	let dir_may_refuse = longest > more::NAME_MAX;
	if longest == more::NAME_MAX {
		st.outcome("sets with a file name of exactly NAME_MAX bytes");
	}
	let mut listings: Vec<BTreeMap<String, Vec<u8>>> = Vec::new();
	let mut dir_ok = true;
	for (i, o) in ords.iter().enumerate() {
		let d = scratch.join(format!("o{i}"));
		fresh_dir(&d);
		st.outcome("real calls");
		match real_write_dir(set, *o, &d) {
			Err(p) => {
				case.panic("directory write", &p);
				dir_ok = false;
			},
			Ok(Err(e)) => {
				dir_ok = false;
				if dir_may_refuse {
					st.outcome("file name longer than NAME_MAX: directory write refused (accepted)");
				} else if case.colliding_roots.is_empty() {
					case.diff("dir:write-refused", &format!("enigma_dir::write refused a set of the domain ({o:?}): {e}"), "");
				} else {
					st.outcome("collision: write refused (accepted)");
				}
			},
			Ok(Ok(())) => listings.push(list_files(&d)),
		}
	}
	if let Some(first) = listings.first() {
		let show = |l: &BTreeMap<String, Vec<u8>>| -> String { l.iter().map(|(p, b)| format!("== {p}\n{}", String::from_utf8_lossy(b))).collect::<Vec<_>>().join("") };
		let shown = format!("\n---- enigma_dir::write ----\n{}", show(first));
		for (i, l) in listings.iter().enumerate().skip(1) {
			if l != first {
				dir_ok = false;
				let extra = format!("{shown}\n---- enigma_dir::write, other insertion order ({:?}) ----\n{}", ords[i], show(l));
				if case.colliding_roots.is_empty() {
					case.diff("dir:files-depend-on-insertion-order", "enigma_dir::write writes different files for two insertion orders of the same content", &extra);
				} else {
					case.diff(KEY_COLLISION, "directory: which of the classes sharing a file name survives depends on the insertion order", &extra);
				}
			}
		}
		// the real reader on the directory the real writer made
		st.outcome("real calls");
		dir_ok &= case.judge_read("dir", &real_read_dir(&scratch.join("o0")), &shown);
		// the same files created in the opposite order (tmpfs lists by creation): same content
		if first.len() >= 2 {
			let c = scratch.join("copy");
			fresh_dir(&c);
			for (p, b) in first.iter().rev() {
				let t = c.join(p);
				if let Some(parent) = t.parent() {
					std::fs::create_dir_all(parent).unwrap_or_else(|e| vcore::machinery_fail(&format!("copy: {e}")));
				}
				std::fs::write(&t, b).unwrap_or_else(|e| vcore::machinery_fail(&format!("copy: {e}")));
			}
			st.outcome("real calls");
			dir_ok &= case.judge_read("dir-listing-order", &real_read_dir(&c), &shown);
			let _ = std::fs::remove_dir_all(&c);
		}
		// independent reading of every file: one top-level class per file, every class once
		let mut entries: Vec<RefClass> = Vec::new();
		let mut readable = true;
		for (p, b) in first {
			match std::str::from_utf8(b).map_err(|e| e.to_string()).and_then(ref_read) {
				Ok(es) => {
					let tops = es.iter().filter(|e| e.depth == 0).count();
					if tops != 1 {
						dir_ok = false;
						case.diff("dir-text:file-without-exactly-one-top-level-class", &format!("file {p:?} states {tops} top-level classes"), &shown);
					}
					entries.extend(es);
				},
				Err(e) => {
					readable = false;
					dir_ok = false;
					case.diff("dir-text:not-enigma", &format!("the reference reader cannot read file {p:?}: {e}"), &shown);
				},
			}
		}
		if readable {
			dir_ok &= case.judge_text("dir-text", &entries, &shown);
		}
		// other facts of the same length written over the files of another insertion order (same file names, every file
		// of the same size): what is read back is what was written last
		if let (Some(variant), true, true) = (same_length_variant(set), case.colliding_roots.is_empty(), listings.len() >= 2) {
			if !exclusions(&variant).is_empty() {
				vcore::machinery_fail("harness: the same-length variant of a set of the domain is outside the domain");
			}
			let sub = Case::plain(ctx, label, idx, set, normalise(&variant));
			let d1 = scratch.join("o1");
			st.outcome("real calls");
			match real_write_dir(&variant, ords[0], &d1) {
				Err(p) => {
					dir_ok = false;
					case.panic("directory write over existing files of the same size", &p);
				},
				Ok(Err(e)) => {
					dir_ok = false;
					case.diff("dir-overwrite-same-size:write-refused", &format!("enigma_dir::write refused to write classes of the same names over the files it wrote before: {e}"), &shown);
				},
				Ok(Ok(())) => {
					st.outcome("real calls");
					let after = list_files(&d1);
					let sizes = |l: &BTreeMap<String, Vec<u8>>| -> Vec<(String, usize)> { l.iter().map(|(p, b)| (p.clone(), b.len())).collect() };
					if sizes(&after) != sizes(first) {
						// (the premise of this part, not a verdict: the variant must keep names and sizes)
						st.outcome("directory cases written over: sizes differ (premise not met)");
					} else {
						st.outcome("directory cases written over with other files of the same size");
					}
					let extra = format!("{shown}\n---- the same directory after writing other facts of the same length over it ----\n{}", show(&after));
					dir_ok &= sub.judge_read("dir-overwrite-same-size", &real_read_dir(&d1), &extra);
				},
			}
		}
		// the same classes without their comments written over these files (same file names, every file
		// shorter): what is read back is what was written last
		if !all_docs.is_empty() && case.colliding_roots.is_empty() {
			let bare = strip_docs(set);
			let sub = Case::plain(ctx, label, idx, set, normalise(&bare));
			st.outcome("real calls");
			match real_write_dir(&bare, ords[0], &scratch.join("o0")) {
				Err(p) => {
					dir_ok = false;
					case.panic("directory write over existing files", &p);
				},
				Ok(Err(e)) => {
					dir_ok = false;
					case.diff("dir-overwrite:write-refused", &format!("enigma_dir::write refused to write the same classes without comments over the files it wrote before: {e}"), &shown);
				},
				Ok(Ok(())) => {
					st.outcome("real calls");
					let after = list_files(&scratch.join("o0"));
					let extra = format!("{shown}\n---- the same directory after writing the set without its comments over it ----\n{}", show(&after));
					dir_ok &= sub.judge_read("dir-overwrite", &real_read_dir(&scratch.join("o0")), &extra);
					st.outcome("directory cases written over with shorter files");
				},
			}
		}
		if first.len() >= 2 {
			st.outcome("directory cases with >= 2 files");
		}
		if first.keys().any(|p| p.contains('/')) {
			st.outcome("directory cases with a package directory");
		}
		if first.keys().any(|p| p.matches('/').count() >= 3) {
			st.outcome("directory cases with a package directory of depth 3");
		}
		if first.keys().any(|p| p.matches('/').count() >= 8) {
			st.outcome("directory cases with a package directory of depth >= 8");
		}
		{
			// a file `x.mapping` next to a directory `x`
			let dirs: BTreeSet<&str> = first.keys().filter_map(|p| p.rsplit_once('/').map(|(d, _)| d)).collect();
			if first.keys().any(|p| p.strip_suffix(".mapping").is_some_and(|stem| dirs.contains(stem))) {
				st.outcome("directory cases with a file named like a package directory next to it");
			}
		}
		st.outcome_n("files written and read back", first.len() as u64);
		if dir_ok && first.len() != n_roots {
			// implied by the checks above; kept as a cross-check of the harness itself
			vcore::machinery_fail(&format!("harness: {} files for {n_roots} top-level classes passed the text checks ({label} #{idx})", first.len()));
		}
	}
	for i in 0..ords.len() {
		let _ = std::fs::remove_dir_all(scratch.join(format!("o{i}")));
	}
	if dir_ok {
		st.outcome("directory: round trip, text, one file per top-level class and order independence hold");
	}
	if stream_ok && dir_ok && one_ok {
		let tag = if max_depth >= 8 { "very-deep" } else if max_depth >= 2 { "deep" } else if n_orphans > 0 { "orphan" } else if param_docs > 0 { "param-doc" } else if n_roots >= 2 { "multi-file" } else { "plain" };
		st.sample(tag, || json!({"kind": "mapping set that round-trips both ways", "universe": label, "index": idx, "classes": exp.classes.keys().take(12).collect::<Vec<_>>(), "number_of_classes": exp.classes.len(), "write_all": texts.first().map(|t| String::from_utf8_lossy(t).chars().take(1500).collect::<String>()), "files": listings.first().map(|l| l.keys().take(12).cloned().collect::<Vec<_>>())}));
	}
}

// ---------------------------------------------------------------------------------------------
// universes

fn o(v: &[Option<&str>]) -> Vec<Row> {
	gen::tails(&[v])
}

fn d(v: &[Option<&str>]) -> Vec<Option<String>> {
	gen::docs(v)
}

fn all_comments() -> Vec<Option<&'static str>> {
	let mut v = vec![None];
	v.extend(COMMENTS.iter().map(|c| Some(*c)));
	v
}

fn class(key: &str, targets: &[Option<&str>], docs: &[Option<&str>], fields: Vec<FieldU>, methods: Vec<MethodU>) -> ClassU {
	ClassU { key: key.into(), rows: o(targets), docs: d(docs), fields, methods, optional: true }
}

fn field(name: &str, desc: &str, targets: &[Option<&str>], docs: &[Option<&str>]) -> FieldU {
	FieldU { name: name.into(), desc: desc.into(), rows: o(targets), docs: d(docs) }
}

fn method(name: &str, desc: &str, targets: &[Option<&str>], docs: &[Option<&str>], params: Vec<ParamU>) -> MethodU {
	MethodU { name: name.into(), desc: desc.into(), rows: o(targets), docs: d(docs), params }
}

fn param(index: usize, rows: &[(Option<&str>, Option<&str>)], docs: &[Option<&str>]) -> ParamU {
	ParamU { index, rows: rows.iter().map(|(a, b)| vec![a.map(|s| s.to_owned()), b.map(|s| s.to_owned())]).collect(), docs: d(docs) }
}

struct Slots<'a> {
	class: &'a [Option<&'a str>],
	field: &'a [Option<&'a str>],
	method: &'a [Option<&'a str>],
	param: &'a [Option<&'a str>],
}

/// a class with two fields of one name, a method with two parameters and a constructor with one
fn member_class(key: &str, targets: &[Option<&str>], s: &Slots, rich: bool) -> ClassU {
	let side: &[Option<&str>] = if rich { &[None, Some("x")] } else { &[None] };
	class(key, targets, s.class, vec![
		field("f", "I", &[None, Some("g")], s.field),
		field("f", "J", &[Some("g")], &[None]),
	], vec![
		method("m", "(II)V", &[None, Some("n")], s.method, vec![
			param(0, &[(None, Some("p0"))], s.param),
			param(1, &[(None, Some("p1"))], side),
		]),
		method("<init>", "(I)V", &[None], &[None], vec![param(1, &[(None, Some("q"))], side)]),
	])
}

fn universes(tier: vcore::Tier) -> Vec<Uni> {
	let mut out: Vec<(String, Universe)> = Vec::new();
	let mut add = |label: &str, classes: Vec<ClassU>| out.push((label.to_owned(), Universe { ns: NS.iter().map(|s| s.to_string()).collect(), classes }));
	let full = all_comments();
	let full = &full[..];
	let small: &[Option<&str>] = &[None, Some("a b")];
	let none: &[Option<&str>] = &[None];
	let nl: &[Option<&str>] = &[None, Some("l1\n\nl3")];

	// nesting up to depth 3, every class optional (so every kind of gap), targets that follow the
	// nesting through renamed and through unnamed outer classes, and targets that do not
	add("nest", vec![
		class("A", &[None, Some("X")], none, vec![], vec![]),
		class("A$B", &[None, Some("X$Y"), Some("A$Y"), Some("Flat")], nl, vec![], vec![]),
		class("A$B$C", &[None, Some("X$Y$Z"), Some("A$Y$Z"), Some("A$B$Z"), Some("X$B$Z")], none, vec![], vec![]),
		class("A$B$C$D", &[None, Some("X$Y$Z$W"), Some("A$B$C$W"), Some("A$B$Z$W")], none, vec![], vec![]),
		class("A$E", &[None, Some("X$F"), Some("A$F")], none, vec![], vec![]),
	]);
	// packages at depth 0..3 on both sides, a nested class and an orphan inside packages, non-ASCII
	add("packages", vec![
		class("A0", &[None, Some("X0")], none, vec![], vec![]),
		class("p/A1", &[None, Some("q/X1"), Some("X1")], none, vec![], vec![]),
		class("p/q/A2", &[None, Some("r/s/t/X2"), Some("p/q/X2")], none, vec![], vec![]),
		class("p/q/r/A3", &[None, Some("p/q/r/X3"), Some("u/X3")], none, vec![], vec![]),
		class("p/q/A2$B", &[None, Some("r/s/t/X2$Y"), Some("p/q/X2$Y"), Some("p/q/A2$Y")], none, vec![], vec![]),
		class("p/O$I", &[None, Some("q/O$J")], none, vec![], vec![]),
		class("É", &[None, Some("ü/Ñ")], none, vec![], vec![]),
	]);
	// the comment alphabet in every kind of slot, one slot at a time
	add("members/class-comments", vec![member_class("p/A", &[None, Some("q/X")], &Slots { class: full, field: none, method: small, param: none }, false)]);
	add("members/field-comments", vec![member_class("p/A", &[None, Some("q/X")], &Slots { class: small, field: full, method: none, param: small }, false)]);
	add("members/method-comments", vec![member_class("p/A", &[None, Some("q/X")], &Slots { class: none, field: small, method: full, param: small }, false)]);
	add("members/param-comments", vec![member_class("p/A", &[None, Some("q/X")], &Slots { class: none, field: none, method: small, param: full }, false)]);
	// members and comments of nested classes (deeper indentation)
	add("inner-members", vec![
		class("A", &[None, Some("X")], none, vec![], vec![]),
		class("A$B", &[None, Some("X$Y"), Some("A$Y")], nl, vec![field("f", "I", &[Some("g")], nl)], vec![method("m", "(I)V", &[Some("n")], none, vec![param(0, &[(None, Some("p"))], full)])]),
		class("A$B$C", &[None, Some("X$Y$Z")], nl, vec![field("h", "[LA$B;", &[Some("k")], nl)], vec![]),
	]);
	// inner classes whose outer class is absent from the set
	add("orphans", vec![
		class("P$In", &[None, Some("P$Jn"), Some("X$Jn"), Some("Flat")], small, vec![field("f", "I", &[None, Some("g")], none)], vec![method("m", "(I)V", &[Some("n")], none, vec![param(0, &[(None, Some("p"))], small)])]),
		class("P$In$K", &[None, Some("P$Jn$L"), Some("X$Jn$L"), Some("P$In$L")], none, vec![], vec![]),
		class("Q$R$S", &[None, Some("Q$R$T")], none, vec![], vec![]),
		class("p/P$I2", &[None, Some("q/X$J2")], none, vec![], vec![]),
		class("B", &[None, Some("Y")], none, vec![], vec![]),
	]);
	// orphans whose simple names meet each other or a top-level class
	add("orphans-simple-name-clash", vec![
		class("A", &[None, Some("X")], none, vec![], vec![]),
		class("P$A", &[None, Some("P$B")], none, vec![], vec![]),
		class("p/Q$A", &[None, Some("p/Q$C")], none, vec![], vec![]),
	]);
	// top-level classes whose files would get the same name
	add("file-name-collisions", vec![
		class("A", &[None, Some("X"), Some("B")], none, vec![], vec![]),
		class("B", &[None, Some("X"), Some("A")], none, vec![field("f", "I", &[Some("g")], none)], vec![]),
		class("p/C", &[None, Some("X"), Some("p/D")], none, vec![], vec![]),
		class("p/D", &[None, Some("p/C")], none, vec![], vec![]),
		class("A$I", &[None], none, vec![], vec![]),
	]);
	// constructors
	add("constructors", vec![
		class("A", &[None, Some("X")], none, vec![], vec![
			method("<init>", "()V", &[None, Some("<init>"), Some("make")], small, vec![]),
			method("<init>", "(I)V", &[None, Some("<init>")], none, vec![param(1, &[(None, Some("p"))], small)]),
			// (only constructors are treated as unnamed: a static initialiser named like itself keeps its name)
			method("<clinit>", "()V", &[None, Some("<clinit>")], small, vec![]),
			method("m", "()V", &[None, Some("n")], none, vec![]),
		]),
		class("A$B", &[None, Some("X$Y")], none, vec![], vec![method("<init>", "(LA;)V", &[None, Some("<init>")], none, vec![param(1, &[(None, Some("outer"))], none)])]),
	]);
	// target names equal to the source name (not the same as "no target name"), on every kind of entry that has one
	add("identity-names", vec![
		class("A", &[None, Some("A"), Some("X")], none, vec![field("f", "I", &[None, Some("f"), Some("g")], none)], vec![
			method("m", "(I)V", &[None, Some("m"), Some("n")], none, vec![param(0, &[(None, Some("p"))], none)]),
			method("<init>", "()V", &[None, Some("<init>")], none, vec![]),
		]),
		class("A$B", &[None, Some("A$B"), Some("X$B"), Some("X$Y")], none, vec![field("B", "LA$B;", &[None, Some("B")], none)], vec![]),
		class("p/C", &[None, Some("p/C"), Some("C")], none, vec![], vec![]),
	]);
	// the same simple names in different packages, top-level and nested (anything keyed by less than the full
	// name mixes them up); a target name that is another class's source name
	add("same-simple-names", vec![
		class("A", &[None, Some("X")], none, vec![], vec![]),
		class("p/A", &[None, Some("q/A"), Some("p/X")], none, vec![], vec![]),
		class("q/A", &[None, Some("p/B")], none, vec![], vec![]),
		class("A$B", &[None, Some("X$Y"), Some("A$Y")], none, vec![], vec![]),
		class("p/A$B", &[None, Some("q/A$Y"), Some("p/X$Y"), Some("p/A$Y")], none, vec![field("b", "I", &[Some("x")], none)], vec![]),
		class("q/A$B", &[None, Some("p/B$B")], none, vec![field("c", "I", &[Some("x")], none)], vec![]),
		class("q/A$B$C", &[None, Some("p/B$B$C"), Some("q/A$B$D")], none, vec![], vec![]),
	]);
	// `$` at the edges of a simple name and doubled, numeric (anonymous) inner names
	add("dollar-edges", vec![
		class("A", &[None, Some("X")], none, vec![], vec![]),
		class("A$", &[None, Some("Y")], none, vec![], vec![]),
		class("A$$B", &[None, Some("Y$C"), Some("A$$C")], small, vec![], vec![]),
		class("$C", &[None, Some("Z")], none, vec![], vec![]),
		class("A$1", &[None, Some("X$1"), Some("A$1"), Some("X$Named")], none, vec![], vec![]),
		class("A$1$2", &[None, Some("X$1$2"), Some("A$1$2"), Some("X$Named$2")], none, vec![], vec![]),
		class("p/$D$E", &[None, Some("p/$D$F")], none, vec![], vec![]),
	]);
	// packages of depth 8 and 10; classes named like a package directory that exists next to their file
	add("deep-packages", vec![
		class("a/b/c/d/e/f/g/h/K", &[None, Some("a/b/c/d/e/f/g/h/i/j/L"), Some("L")], none, vec![], vec![]),
		class("a/b/c/d/e/f/g/h/K$I", &[None, Some("a/b/c/d/e/f/g/h/i/j/L$J"), Some("L$J"), Some("a/b/c/d/e/f/g/h/K$J")], small, vec![], vec![]),
		class("a/b/c/d/e/f/g/h/M", &[None], none, vec![], vec![]),
		class("p", &[None, Some("p/q")], none, vec![], vec![]),
		class("p/q", &[None, Some("r")], none, vec![], vec![]),
		class("p/q/A", &[None, Some("p/X"), Some("a/b")], none, vec![], vec![]),
		class("a", &[None, Some("a/b/c")], none, vec![], vec![]),
	]);
	// parameter indices with one, two and three digits, the largest index a method can have
	{
		let p = |i: usize, n: &str, docs: &[Option<&str>]| param(i, &[(None, Some(n))], docs);
		add("param-indices", vec![
			class("A", &[Some("X")], none, vec![], vec![
				method("m", "(IIIIIIIIIIII)V", &[None, Some("n")], none, vec![p(0, "a", none), p(1, "b", none), p(2, "c", none), p(9, "d", none), p(10, "e", small), p(11, "f", none), p(100, "g", none), p(255, "h", small)]),
			]),
		]);
	}
	// parameter indices beyond every width a reader might parse them into (8, 16, 32 bits), the largest a usize holds
	{
		let p = |i: usize, n: &str, docs: &[Option<&str>]| param(i, &[(None, Some(n))], docs);
		add("param-indices-large", vec![
			class("A", &[Some("X")], none, vec![], vec![
				method("m", "(I)V", &[None, Some("n")], none, vec![p(0, "a", none), p(255, "b", none), p(256, "c", small), p(65535, "d", none), p(65536, "e", none), p(4294967295, "f", none), p(4294967296, "g", none), p(usize::MAX, "h", small)]),
			]),
		]);
	}
	// names that are keywords of the format, start like its modifier column (ACC…), or are descriptor tag letters: on every
	// kind of entry, as source and as target name (the file header of write_all states the target name in a remark)
	add("keyword-names", vec![
		class("COMMENT", &[None, Some("CLASS"), Some("ACCESS")], none, vec![
			field("COMMENT", "LCOMMENT;", &[None, Some("FIELD")], none),
			field("L", "LL;", &[Some("ACC")], none),
		], vec![
			method("ARG", "(LL;[LCOMMENT;)LLL;", &[None, Some("COMMENT"), Some("ACC")], none, vec![param(0, &[(None, Some("COMMENT")), (None, Some("ACC:x"))], none)]),
		]),
		class("COMMENT$ARG", &[None, Some("CLASS$METHOD"), Some("CLASS$ACC"), Some("ACCESS$ACCESS"), Some("COMMENT$ACC")], small, vec![], vec![]),
		class("p/ACC", &[None, Some("ACC"), Some("p/ACCOUNT")], none, vec![], vec![]),
		class("L", &[None, Some("LL")], none, vec![], vec![]),
	]);
	// one name in two roles: the source or target name of a nested class is also the file name of an orphan; an inner
	// name that is the inner name of its outer class, and of a class in another branch
	add("name-roles", vec![
		class("A", &[None, Some("X")], none, vec![], vec![]),
		class("A$B", &[None, Some("X$Y"), Some("A$Y")], none, vec![], vec![]),
		class("A$B$B", &[None, Some("X$Y$Y"), Some("A$B$Y")], none, vec![], vec![]),
		class("A$E", &[None, Some("X$B")], none, vec![], vec![]),
		class("A$E$B", &[None, Some("X$B$B")], none, vec![], vec![]),
		class("X$Y", &[None, Some("Q$Y")], none, vec![], vec![]),
		class("P$Q", &[None, Some("A$B"), Some("X$Y")], none, vec![], vec![]),
	]);
	// names the format cannot state or the statement leaves open: no panic
	add("outside-domain-names", vec![
		class("A", &[None, Some("X"), Some("ACC:X"), Some("ACC:")], none, vec![], vec![
			method("n", "()V", &[None, Some("<init>"), Some("<clinit>")], small, vec![]),
			method("<clinit>", "()V", &[None, Some("<init>")], none, vec![]),
		]),
		class("A$B", &[None, Some("X$ACC:Y"), Some("A$ACC:Y"), Some("ACC:X$Y"), Some("X$Y")], none, vec![], vec![]),
		class("P$Q", &[None, Some("P$ACC:R")], none, vec![], vec![]),
	]);
	// every way an entry can end: comments of parameters, methods, fields and classes at indentation 1..5 followed
	// by a sibling, by an entry of an outer class, by a nested class of an outer class, by the next top-level class
	{
		let c1: &[Option<&str>] = &[None, Some("c")];
		let f = || vec![field("f", "I", &[Some("g")], c1)];
		let m = |docs: &[Option<&str>]| vec![method("m", "(I)V", &[Some("n")], docs, vec![param(0, &[(None, Some("p"))], c1)])];
		add("transitions", vec![
			ClassU { optional: false, ..class("A", &[Some("X")], none, f(), m(c1)) },
			class("A$B", &[Some("X$Y")], c1, f(), m(c1)),
			class("A$B$C", &[Some("X$Y$Z")], none, vec![], m(none)),
			class("A$E", &[None], none, vec![], m(none)),
			class("Z", &[None], none, vec![], vec![]),
		]);
	}
	// what the format cannot state: explored for "no panic"
	let odd: Vec<Option<&str>> = std::iter::once(None).chain(ODD_COMMENTS.iter().map(|c| Some(*c))).collect();
	add("outside-domain", vec![
		class("A", &[None, Some("X"), Some("X$Y")], &odd, vec![field("f", "I", &[Some("g")], small)], vec![
			method("m", "(II)V", &[None, Some("n")], none, vec![
				param(0, &[(None, Some("p")), (None, None), (Some("s"), Some("p")), (Some("s"), None)], small),
				param(1, &[(None, Some("q")), (None, None)], &odd),
			]),
		]),
	]);

	// second order: comments in the other slots as well / the whole alphabet in two slots at once
	add("members-rich/param-comments", vec![member_class("p/A", &[None, Some("q/X")], &Slots { class: small, field: small, method: small, param: full }, true)]);
	let mid: &[Option<&str>] = &[None, Some(" lead"), Some("l1\n\nl3"), Some("#x"), Some(""), Some("\nx"), Some("\u{2003}x\u{2028}y\u{85}")];
	add("members/field+param-comments-small", vec![member_class("p/A", &[Some("q/X")], &Slots { class: none, field: mid, method: none, param: full }, true)]);
	// two classes with members at once, one nested in the other, and a third file
	add("two-member-classes-small", vec![
		class("p/A", &[Some("q/X")], small, vec![field("f", "I", &[None, Some("g")], small)], vec![method("m", "(I)V", &[None, Some("n")], small, vec![param(0, &[(None, Some("p"))], small)])]),
		class("p/A$B", &[None, Some("q/X$Y")], none, vec![field("f", "I", &[None, Some("g")], small)], vec![method("m", "(I)V", &[None, Some("n")], none, vec![param(0, &[(None, Some("p"))], small)])]),
		class("C", &[None, Some("r/Z")], none, vec![], vec![]),
	]);
	// wider trees: two branches below one root, orphans in the middle
	add("nest-wide", vec![
		class("p/A", &[None, Some("q/X")], none, vec![], vec![]),
		class("p/A$B", &[None, Some("q/X$Y"), Some("p/A$Y")], none, vec![], vec![]),
		class("p/A$B$C", &[None, Some("q/X$Y$Z"), Some("p/A$Y$Z"), Some("p/A$B$Z")], small, vec![], vec![]),
		class("p/A$B$D", &[None, Some("q/X$Y$V"), Some("p/A$B$V")], none, vec![], vec![]),
		class("p/A$E", &[None, Some("q/X$F")], none, vec![], vec![]),
		class("p/A$E$G", &[None, Some("q/X$F$H"), Some("p/A$E$H")], none, vec![], vec![]),
		class("p/A$E$G$I", &[None, Some("q/X$F$H$J"), Some("p/A$E$G$J")], nl, vec![], vec![]),
	]);

	if tier == vcore::Tier::Thorough {
		// the same with a second file next to the tree
		add("nest-wide+file", vec![
			class("p/A", &[None, Some("q/X")], none, vec![], vec![]),
			class("p/A$B", &[None, Some("q/X$Y"), Some("p/A$Y")], none, vec![], vec![]),
			class("p/A$B$C", &[None, Some("q/X$Y$Z"), Some("p/A$Y$Z"), Some("p/A$B$Z")], small, vec![], vec![]),
			class("p/A$B$D", &[None, Some("q/X$Y$V"), Some("p/A$B$V")], none, vec![], vec![]),
			class("p/A$E", &[None, Some("q/X$F")], none, vec![], vec![]),
			class("p/A$E$G", &[None, Some("q/X$F$H"), Some("p/A$E$H")], none, vec![], vec![]),
			class("p/A$E$G$I", &[None, Some("q/X$F$H$J"), Some("p/A$E$G$J")], nl, vec![], vec![]),
			class("K", &[None, Some("q/L")], none, vec![], vec![]),
		]);
		let ml: &[Option<&str>] = &[None, Some(" lead"), Some("l1\n\nl3"), Some("#x")];
		// the one-slot universes again with comments in the other slots as well
		add("members-rich/class-comments", vec![member_class("p/A", &[None, Some("q/X")], &Slots { class: full, field: small, method: small, param: small }, true)]);
		add("members-rich/field-comments", vec![member_class("p/A", &[None, Some("q/X")], &Slots { class: small, field: full, method: small, param: small }, true)]);
		add("members-rich/method-comments", vec![member_class("p/A", &[None, Some("q/X")], &Slots { class: small, field: small, method: full, param: small }, true)]);
		// two slots with the whole alphabet at once
		add("members/field+param-comments", vec![member_class("p/A", &[Some("q/X")], &Slots { class: none, field: full, method: none, param: full }, true)]);
		add("members/class+method-comments", vec![member_class("p/A", &[Some("q/X")], &Slots { class: full, field: none, method: full, param: none }, true)]);
		add("outside-domain-rich", vec![
			class("A", &[None, Some("X"), Some("X$Y")], &odd, vec![field("f", "I", &[None, Some("g")], &odd)], vec![
				method("m", "(II)V", &[None, Some("n")], &odd, vec![
					param(0, &[(None, Some("p")), (None, None), (Some("s"), Some("p")), (Some("s"), None)], small),
					param(1, &[(None, Some("q")), (None, None)], &odd),
				]),
			]),
		]);
		// two classes with members at once, nested and not, every slot with a few comments
		add("two-member-classes", vec![
			class("p/A", &[None, Some("q/X")], ml, vec![field("f", "I", &[None, Some("g")], small)], vec![method("m", "(I)V", &[None, Some("n")], small, vec![param(0, &[(None, Some("p"))], ml)])]),
			class("p/A$B", &[None, Some("q/X$Y"), Some("p/A$Y")], nl, vec![field("f", "I", &[None, Some("g")], small)], vec![method("m", "(I)V", &[None, Some("n")], none, vec![param(0, &[(None, Some("p"))], ml)])]),
			class("C", &[None, Some("r/Z")], none, vec![], vec![]),
		]);
		// the ends of entries again, with an optional top-level class and fields with comments further down
		{
			let c1: &[Option<&str>] = &[None, Some("c")];
			let f = || vec![field("f", "I", &[Some("g")], c1)];
			let m = |docs: &[Option<&str>]| vec![method("m", "(I)V", &[Some("n")], docs, vec![param(0, &[(None, Some("p"))], c1)])];
			add("transitions-rich", vec![
				class("A", &[Some("X")], c1, f(), m(c1)),
				class("A$B", &[Some("X$Y")], c1, f(), m(c1)),
				class("A$B$C", &[Some("X$Y$Z")], none, f(), m(none)),
				class("A$E", &[None], none, vec![], m(none)),
				class("Z", &[None], none, vec![], vec![]),
			]);
		}
		// target names equal to source names, with comments
		add("identity-names-rich", vec![
			class("A", &[None, Some("A"), Some("X")], small, vec![field("f", "I", &[None, Some("f"), Some("g")], small)], vec![
				method("m", "(I)V", &[None, Some("m"), Some("n")], none, vec![param(0, &[(None, Some("p"))], none)]),
				method("<init>", "()V", &[None, Some("<init>")], none, vec![]),
			]),
			class("A$B", &[None, Some("A$B"), Some("X$B"), Some("X$Y")], small, vec![field("B", "LA$B;", &[None, Some("B")], none)], vec![]),
			class("p/C", &[None, Some("p/C"), Some("C")], none, vec![], vec![]),
		]);
	}
	let mut unis: Vec<Uni> = out.into_iter().map(|(label, u)| Uni { label, src: Source::Product(Space::new(&u)) }).collect();
	// (the list differs between the tiers, so does the label: a replay file names universe and index)
	unis.push(Uni { label: format!("chains-and-wide/{}", tier.name()), src: Source::Listed(listed_sets(tier)) });
	// every text slot with k ASCII letters and a 1/2/3/4-byte character at its first / second / last position
	unis.push(Uni { label: "slot-texts".into(), src: Source::Listed(more::long_text_sets(0)) });
	unis.push(Uni { label: "slot-texts/file-name-collision".into(), src: Source::Listed(more::long_text_sets(1)) });
	unis.push(Uni { label: "slot-texts/parameter-without-name".into(), src: Source::Listed(more::long_text_sets(2)) });
	unis.push(Uni { label: "file-name-lengths".into(), src: Source::Listed(more::name_length_sets()) });
	unis.push(Uni { label: format!("package-depths/{}", tier.name()), src: Source::Listed(more::deep_package_sets(tier)) });
	unis.push(Uni { label: format!("environment-sets/{}", tier.name()), src: Source::Listed(more::environment_sets(tier)) });
	for u in &unis {
		if let Source::Listed(v) = &u.src {
			for (d, set) in v {
				if let Err(e) = set.check() {
					vcore::machinery_fail(&format!("listed set {d:?} of {} is malformed: {e}", u.label));
				}
				let outside = !exclusions(set).is_empty();
				if outside != (u.label == "slot-texts/parameter-without-name") {
					vcore::machinery_fail(&format!("listed set {d:?} of {}: wrong side of the statement's domain: {:?}", u.label, exclusions(set)));
				}
			}
		}
	}
	unis
}

/// the reader's documented bound on the nesting of CLASS sections (quill/src/enigma_file.rs, MAX_NESTING_DEPTH):
/// a class with this many outer classes is the deepest it reads; deeper ones are refused with an error
const READER_NESTING_BOUND: usize = 256;

/// One chain `d/A`, `d/A$a`, `d/A$a$b`, … with `depth` nested levels.
/// `pattern` 0: no target names; 1: every class named, following the nesting; 2: only the top-level class named;
/// 3: the upper half unnamed, the lower half named (following the unnamed source names above).
/// With `members` the innermost class carries a comment, a field and a method with a parameter, all commented.
fn chain_set(depth: usize, pattern: usize, members: bool) -> MSet {
	let simple = ["a", "b", "c"];
	let mut set = MSet::new(&NS);
	let mut key = String::from("d/A");
	let mut target: Option<String> = match pattern {
		1 | 2 => Some("e/X".into()),
		_ => None,
	};
	let first_named = depth / 2 + 1;
	for level in 0..=depth {
		if level > 0 {
			let s = simple[level % 3];
			let outer_key = key.clone();
			key = format!("{key}${s}");
			target = match pattern {
				1 => target.map(|t| format!("{t}${}", s.to_uppercase())),
				3 if level == first_named => Some(format!("{outer_key}$N")),
				3 if level > first_named => target.map(|t| format!("{t}$N")),
				_ => None,
			};
		}
		let mut c = MClass { names: vec![Some(key.clone()), target.clone()], ..Default::default() };
		if members && level == depth {
			c.doc = Some("deep\n\n # c ".into());
			c.fields.insert(("f".into(), "I".into()), MField { names: vec![Some("f".into()), Some("g".into())], doc: Some(" fc".into()) });
			let mut m = MMethod { names: vec![Some("m".into()), None], doc: Some("mc\n".into()), params: BTreeMap::new() };
			m.params.insert(0, MParam { names: vec![None, Some("p".into())], doc: Some("#pc".into()) });
			c.methods.insert(("m".into(), "(I)V".into()), m);
		}
		set.classes.insert(key.clone(), c);
	}
	set
}

/// `tops` top-level classes in two packages and the default package, `inner` nested classes below the first of
/// them; every second one named, the target names in the opposite order of the source names
fn wide_set(tops: usize, inner: usize) -> MSet {
	let mut set = MSet::new(&NS);
	let mut put = |key: String, target: Option<String>| {
		set.classes.insert(key.clone(), MClass { names: vec![Some(key), target], ..Default::default() });
	};
	for i in 0..tops {
		let key = match i % 3 {
			0 => format!("w/C{i}"),
			1 => format!("v/C{i}"),
			_ => format!("C{i}"),
		};
		let target = if i == 0 { Some("u/D".to_owned()) } else if i % 2 == 0 { Some(format!("u/D{}", tops - i)) } else { None };
		put(key, target);
	}
	for j in 0..inner {
		put(format!("w/C0$I{j}"), if j % 2 == 1 { Some(format!("u/D$J{}", inner - j)) } else { None });
	}
	set
}

fn listed_sets(tier: vcore::Tier) -> Vec<(String, MSet)> {
	let mut out = Vec::new();
	let depths: Vec<usize> = tier.pick(
		vec![4, 5, 6, 7, 8, 9, 12, 16, 17, 32, 33, 64, 65, 128, 255, READER_NESTING_BOUND],
		(4..=40).chain([63, 64, 65, 100, 127, 128, 129, 200, 254, 255, READER_NESTING_BOUND]).collect(),
	);
	for d in depths {
		for pattern in 0..4 {
			for members in [false, true] {
				out.push((format!("chain depth={d} pattern={pattern} members={members}"), chain_set(d, pattern, members)));
			}
		}
	}
	for (tops, inner) in tier.pick(vec![(40, 33), (3, 40)], vec![(40, 33), (3, 40), (33, 0), (100, 70), (20, 21), (21, 20)]) {
		out.push((format!("wide tops={tops} inner={inner}"), wide_set(tops, inner)));
	}
	for (d, set) in &out {
		if let Err(e) = set.check() {
			vcore::machinery_fail(&format!("listed set {d:?} is malformed: {e}"));
		}
		let ex = exclusions(set);
		if !ex.is_empty() {
			vcore::machinery_fail(&format!("listed set {d:?} is outside the statement's domain: {ex:?}"));
		}
	}
	out
}

// ---------------------------------------------------------------------------------------------

fn thread_scratch(base: &Path) -> PathBuf {
	match rayon::current_thread_index() {
		Some(i) => base.join(format!("t{i}")),
		None => base.join("main"),
	}
}

fn main() {
	let ctx: &'static Ctx = Box::leak(Box::new(Ctx::new("C12", "exploration")));
	self_check();
	if let Err(e) = io::self_test() {
		vcore::machinery_fail(&format!("self-check of the scripted readers and writers: {e}"));
	}
	let base = scratch_base();
	if let Some(path) = ctx.replay.clone() {
		replay(ctx, &path, &base);
	}
	let unis = universes(ctx.tier);
	let mut total = Stats::new();
	let mut per_universe: Vec<Value> = Vec::new();
	for u in &unis {
		let n = u.len();
		let st = (0..n).into_par_iter().fold(Stats::new, |mut st, idx| {
			let set = u.nth(idx);
			let scratch = thread_scratch(&base);
			vcore::watched(|| format!("universe={}\nindex={}\n", u.label, idx), || run_case(ctx, &u.label, idx, &set, &scratch, &mut st));
			st
		}).reduce(Stats::new, Stats::merge);
		per_universe.push(json!({"universe": u.label, "sets": n, "in_domain": st.get("in-domain"), "outside_domain": st.get("outside-domain"), "classes": u.describe()}));
		total = total.merge(st);
	}
	// ---- second pass: the environment answers differently, the reader's refusal paths, beyond the reader's bound ----
	let mut env_tot = env::EnvTotals::default();
	let mut spaces: Vec<Value> = Vec::new();
	for space in extra_spaces(ctx.tier) {
		let (st, tot, n) = run_space(ctx, &space, &unis, &base, None);
		spaces.push(json!({"space": space, "cases": n, "evaluations": st.evaluations}));
		env_tot.add(&tot);
		total = total.merge(st);
	}
	let _ = std::fs::remove_dir_all(&base);

	let in_domain = total.get("in-domain");
	ctx.floor("universes, each enumerated completely", 10, unis.len() as u64);
	ctx.floor("sets of the domain", 10_000, in_domain);
	ctx.floor("sets with nesting depth >= 2", 200, total.get("sets with nesting depth >= 2"));
	ctx.floor("sets with nesting depth >= 3", 20, total.get("sets with nesting depth >= 3"));
	ctx.floor("sets with an orphan inner class", 50, total.get("sets with an orphan inner class"));
	ctx.floor("sets with a class without target name", 100, total.get("sets with a class without target name"));
	ctx.floor("sets with a comment with a blank line", 100, total.get("sets with a comment with a blank line"));
	ctx.floor("sets with a comment line with leading space", 100, total.get("sets with a comment line with leading space"));
	ctx.floor("sets with a # in a comment", 100, total.get("sets with a # in a comment"));
	ctx.floor("sets with a parameter comment", 100, total.get("sets with a parameter comment"));
	ctx.floor("sets with two top-level classes of equal file name", 1, total.get("sets with two top-level classes of equal file name"));
	ctx.floor("directory cases with >= 2 files", 100, total.get("directory cases with >= 2 files"));
	ctx.floor("directory cases with a package directory", 100, total.get("directory cases with a package directory"));
	ctx.floor("directory cases with a package directory of depth 3", 10, total.get("directory cases with a package directory of depth 3"));
	ctx.floor("sets outside the domain explored for no panic", 100, total.get("outside-domain"));
	ctx.floor("sets with nesting depth >= 8", 50, total.get("sets with nesting depth >= 8"));
	ctx.floor("sets with nesting depth >= 256 (the reader's bound)", 8, total.get("sets with nesting depth >= 256"));
	ctx.floor("sets with >= 32 classes below one parent", 2, total.get("sets with >= 32 classes below one parent"));
	ctx.floor("sets with a comment with text outside ASCII", 500, total.get("sets with a comment with text outside ASCII"));
	ctx.floor("sets with a comment line that looks like an entry", 100, total.get("sets with a comment line that looks like an entry"));
	ctx.floor("sets with a class name with an empty piece between $s", 500, total.get("sets with a class name with an empty piece between $s"));
	ctx.floor("sets with an entry whose target name equals its source name", 1_000, total.get("sets with an entry whose target name equals its source name"));
	ctx.floor("sets with classes of equal simple name in different packages", 1_000, total.get("sets with classes of equal simple name in different packages"));
	ctx.floor("sets with a parameter index >= 10", 500, total.get("sets with a parameter index >= 10"));
	ctx.floor("directory cases with a package directory of depth >= 8", 500, total.get("directory cases with a package directory of depth >= 8"));
	ctx.floor("directory cases with a file named like a package directory next to it", 500, total.get("directory cases with a file named like a package directory next to it"));
	ctx.floor("directory cases written over with other files of the same size", 50_000, total.get("directory cases written over with other files of the same size"));
	ctx.floor("directory cases written over with shorter files", 5_000, total.get("directory cases written over with shorter files"));
	ctx.floor("stream cases written twice with the same bytes", 5_000, total.get("stream: written twice, same bytes"));
	ctx.floor("write_one: trees written and read back", 10_000, total.get("write_one: trees written and read back"));
	ctx.floor("write_one: trees with nested classes", 1_000, total.get("write_one: trees with nested classes"));
	ctx.floor("write_one: trees whose top is an orphan inner class", 1_000, total.get("write_one: trees whose top is an orphan inner class"));
	ctx.floor("write_one: calls with the name of a nested class (no panic)", 1_000, total.get("write_one on the name of a nested class: refused (accepted)") + total.get("write_one on the name of a nested class: wrote something (accepted)"));
	ctx.floor("sets on which every write_one check held", 5_000, total.get("write_one: every top-level class gives exactly its tree"));
	ctx.floor("sets on which every stream check held", 5_000, total.get("stream: round trip, text and order independence hold"));
	ctx.floor("sets on which every directory check held", 5_000, total.get("directory: round trip, text, one file per top-level class and order independence hold"));

	// second pass
	ctx.floor("universes, each enumerated completely (second pass: 30)", 30, unis.len() as u64);
	ctx.floor("stream cases read and written again with the same bytes", 20_000, total.get("stream: read and written again, same bytes"));
	ctx.floor("sets with a parameter index > 65535", 100, total.get("sets with a parameter index > 65535"));
	ctx.floor("sets with a name that is a keyword of the format or starts like its modifier column", 1_000, total.get("sets with a name that is a keyword of the format or starts like its modifier column"));
	ctx.floor("sets with a name outside ASCII", 2_000, total.get("sets with a name outside ASCII"));
	ctx.floor("sets with a name of 100 bytes or more with a multi-byte character", 500, total.get("sets with a name of 100 bytes or more with a multi-byte character"));
	ctx.floor("sets with a static initialiser that has a target name", 1_000, total.get("sets with a static initialiser that has a target name"));
	ctx.floor("sets with a name at the end of its line that ends with Unicode-only white space", 500, total.get("sets with a name at the end of its line that ends with Unicode-only white space"));
	ctx.floor("sets with a file name of exactly NAME_MAX bytes", 1, total.get("sets with a file name of exactly NAME_MAX bytes"));
	ctx.floor("sets with a file name longer than NAME_MAX, refused by the file system", 3, total.get("file name longer than NAME_MAX: directory write refused (accepted)"));
	ctx.floor("slot texts: file-name collisions with long names refused or reported", 2_000, total.get("sets with two top-level classes of equal file name"));
	ctx.floor("stream-env: read_into through scripted readers", 2_000, total.get("stream-env: reads"));
	ctx.floor("stream-env: reads with the one boundary inside a multi-byte character", 200, total.get("stream-env: reads with the one boundary inside a multi-byte character"));
	ctx.floor("stream-env: requests served short", 100_000, env_tot.short_serves);
	ctx.floor("stream-env: requests answered with Interrupted", 10_000, env_tot.interrupts);
	ctx.floor("stream-env: write_all / write_one through scripted writers", 1_500, total.get("stream-env: writes"));
	ctx.floor("stream-env: calls of which fewer bytes were accepted than offered", 10_000, env_tot.short_accepts);
	ctx.floor("stream-env: writers failing after a prefix", 1_500, total.get("stream-env: failing writer: error reported"));
	ctx.floor("stream-env: texts larger than 8 KiB", 2, total.get("stream-env: texts larger than 8 KiB"));
	ctx.floor("stream-env: texts with a multi-byte character across a multiple of 8 KiB", 1, total.get("stream-env: texts with a multi-byte character across a multiple of 8 KiB"));
	if ctx.tier == vcore::Tier::Thorough {
		ctx.floor("stream-env: texts larger than 64 KiB", 1, total.get("stream-env: texts larger than 64 KiB"));
	}
	ctx.floor("dir-env: target directory that does not exist yet", 300, total.get("dir-env:fresh-path: cases"));
	if env::dev_full_usable() {
		ctx.floor("dir-env: files behind which nothing can be stored (/dev/full)", 1_000, total.get("dir-env:no-space-behind-file: cases"));
	}
	ctx.floor("dir-env: a directory where the file should be", 1_000, total.get("dir-env:directory-in-the-way: cases"));
	ctx.floor("dir-env: a file where a package directory should be", 500, total.get("dir-env:file-in-the-way: cases"));
	ctx.floor("dir-env: directories with files of other kinds read", 300, total.get("dir-env:strangers: read gives the set") + total.get("dir-env:strangers: read gives another set (not stated)") + total.get("dir-env:strangers: read refused (not stated)"));
	ctx.floor("beyond-bound: chains deeper than the reader's bound", 8, total.get("beyond-bound: read refused (accepted)") + total.get("beyond-bound: round trip holds") + total.get("beyond-bound: write refused (accepted)"));
	ctx.floor("surrogates: cases with an unpaired surrogate in a name given to the writers", 18, total.get("surrogates: cases"));
	for class in more::REFUSAL_CLASSES {
		let refused = total.get(&format!("refusals: {class}: refused"));
		let read = total.get(&format!("refusals: {class}: read"));
		ctx.floor(&format!("refusals: texts of the class '{class}' given to read_into"), 2_000, refused + read);
		// descriptors are not validated by the Enigma reader (any column is taken for one; the statement is silent): their
		// class had refusals only through the trailing-white-space defect repaired in /repo fe9ec3e
		if !matches!(class, "nothing to read" | "remark and modifier columns" | "invalid descriptor") {
			ctx.floor(&format!("refusals: texts of the class '{class}' refused (the error path ran)"), 1, refused);
		}
	}

	let coverage = json!({
		"evaluations": total.evaluations,
		"real_calls": total.get("real calls"),
		"distinct_nontrivial": total.distinct.len(),
		"rule": "one evaluation = one mapping set of a universe (every universe enumerated completely), built as a real quill Mappings in each insertion order and run through write_all→read_into and enigma_dir::write→enigma_dir::read on tmpfs, compared with the set itself and with an independent reference reading of the written text; distinct_nontrivial = distinct write_all texts of non-empty sets of the domain; real_calls = calls of write_all / write_one / read_into / enigma_dir::write / enigma_dir::read; every product universe is enumerated completely, the universe chains-and-wide is an explicit list of large sets (every one run)",
		"exhaustive": true,
		"samples": total.samples,
		"outcomes": total.outcomes,
		"bounds": {
			"namespaces": NS,
			"universes": per_universe,
			"insertion_orders": orders(ctx.tier).iter().map(|o| format!("{o:?}")).collect::<Vec<_>>(),
			"comment_alphabet": COMMENTS,
			"nesting_depth_max": {"product universes": 3, "listed chains": READER_NESTING_BOUND},
			"nesting_depth_not_explored": format!("more than {READER_NESTING_BOUND} outer classes: the reader refuses such text with an error by design (MAX_NESTING_DEPTH); the boundary itself is explored"),
			"package_depth": [0, 1, 2, 3, 8, 10],
			"parameter_indices": [0, 1, 2, 9, 10, 11, 100, 255],
			"siblings_below_one_parent_max": ctx.tier.pick(40, 100),
			"write_one": "for every top-level class of every in-domain set without file-name collision: called with the class's file name (target name, source name when unnamed) on an object built in the second insertion order; the names of nested classes: no panic only",
			"deterministic": "write_all is called twice on objects built in the same insertion order: same bytes",
			"overwrite": "sets with a comment: the same classes without comments are written over the directory; reading gives the comment-less set (same file names, every file shorter)",
			"overwrite_same_size": "sets with a comment or a target name of a field, method or parameter: the last ASCII letter or digit of each is replaced by its successor and the result written over the directory of the second insertion order (same file names, same sizes); reading gives what was written last",
			"outside_domain_no_panic_only": [EX_NEST, EX_NEST_OPEN, EX_ROOT_NESTED_TARGET, EX_CTOR, EX_PARAM_SRC, EX_PARAM_UNNAMED, EX_COMMENT_WS],
			"outside_domain_comments": ODD_COMMENTS,
			"constructors": "<init> named <init> is compared as <init> without name",
			"file_name_collisions": "two top-level classes whose target names (source name when unnamed) are equal: refusing to write is accepted, losing a class silently is not",
			"sorted": "checked as: identical bytes / identical files for every insertion order; no particular sort key is demanded",
			"rewrite": "every in-domain set without file-name collision: write_all of the object read_into read equals the text that was read",
			"slot_texts": {"k": format!("0..={}", more::SLOT_K_MAX), "characters": more::SLOT_CHARS.iter().map(|c| format!("U+{:04X} ({} bytes)", *c as u32, c.len_utf8())).collect::<Vec<_>>(), "positions": ["first", "second", "last"], "slots": "package, class, nested class (two levels), field, method, parameter names on both sides, class names inside descriptors, comment lines of class / field / method / parameter", "situations": ["accepting: set of the domain", "refusing: two top-level classes with the same long target name", "refusing: parameter without name"]},
			"parameter_indices_large": [0, 255, 256, 65535, 65536, 4294967295u64, 4294967296u64, usize::MAX],
			"file_name_bytes": [64, 128, 200, 253, 254, 255, 256, 257, 300, 1000],
			"package_depth_listed": ctx.tier.pick("16, 32, 64, 100", "11..=40, 63, 64, 65, 100, 127, 128, 200"),
			"second_pass_spaces": spaces,
			"stream_env": {
				"sets": more::environment_sets(ctx.tier).iter().map(|(d, _)| d.clone()).collect::<Vec<_>>(),
				"readers": "slice, Cursor<Vec>, at most 1/2/3/5/8/13 bytes per call, BufReader of capacity 1/2/3/4/7/8/16/64, BufReader 1/4/16 over a 3-byte source, Interrupted before every request (then 1 / 4 bytes), no request across a multiple of 2/3/4/5/7/8/16/61 (+ phase 0..3), one boundary at every byte offset (texts up to 3000 bytes; larger: a grid of 257, 4 bytes around every multiple of 4 KiB and inside the next 40 multi-byte characters)",
				"writers": "Cursor<Vec>, slice of exactly the size, at most 1/2/3/7 bytes accepted per call, Interrupted before every call (then 1 / 5), BufWriter of capacity 1/3/8/64, one boundary at every byte offset (larger texts: grid of 101); failing after every prefix (larger texts and write_one: grid of 61); a slice one byte too small",
				"requests_served_short": env_tot.short_serves,
				"requests_answered_interrupted": env_tot.interrupts,
				"calls_accepted_short": env_tot.short_accepts,
			},
			"dir_env": {"sets": "every in-domain set of the universe packages, the environment sets", "situations": ["target directory and its parent do not exist", "every file in turn is a symbolic link to /dev/full", "every file in turn is a directory", "every first package component in turn is a file", "README.md, x.mapping.bak, .mapping, notes.txt in a package, an empty directory empty.mapping next to the files (reading: no panic)", "reading a path that does not exist"], "dev_full_usable": env::dev_full_usable()},
			"beyond_bound": more::beyond_bound_sets(ctx.tier).iter().map(|(d, _)| d.clone()).collect::<Vec<_>>(),
			"surrogates": {"slots": env::SURROGATE_SLOTS, "code_points": ["U+D800", "U+DFFF"], "judged": "no panic (the text cannot state such names)"},
			"refusals": {"slot_texts": more::refusal_slots().len(), "texts_per_slot": more::refusal_texts("x").len() + more::tolerated_texts("x").len(), "classes": more::REFUSAL_CLASSES},
		},
	});
	ctx.finish(coverage, &[
		"names containing white space or '#' are outside the alphabet; '$' at the edges of a simple name and doubled is explored, with the indentation clause not judged for those names",
		"the directory is fresh and exists before enigma_dir::write is called, or holds exactly the files of an earlier write of the same classes; stale files of other classes are not explored",
		"classes nested below more than 256 outer classes are not explored (the reader's stated bound)",
		"the file system is case sensitive (tmpfs); class names differing only in case are not generated",
		"the reference reader in this file is the independent reading of the Enigma text (self-checked against a hand-written sample at start)",
		"insertion orders explored: sorted, reversed, rotated by one on every level (thorough: also rotated by two, and two mixtures where classes and members are inserted in different orders)",
		"Read and Write are used as std documents them: a request may be served / accepted in part, Interrupted asks for a retry; the scripted readers and writers (c20/io.rs) are self-tested at start",
		"a file system entry has at most 255 bytes (NAME_MAX): a top-level class whose file name is longer may be refused by enigma_dir::write; its single-stream round trip is still demanded",
		"/dev/full is a device that accepts no byte (checked at start; without it the no-space situation is skipped and said so in bounds.dir_env)",
		"names with an unpaired surrogate cannot be stated in UTF-8 text: explored for no panic only (built directly as quill objects)",
	]);
}

// ---------------------------------------------------------------------------------------------
// second pass: spaces that are not mapping-set universes

fn extra_spaces(tier: vcore::Tier) -> Vec<String> {
	vec![format!("stream-env/{}", tier.name()), format!("dir-env-listed/{}", tier.name()), "dir-env-packages".to_owned(), format!("beyond-bound/{}", tier.name()), "refusals".to_owned(), "surrogates".to_owned()]
}

/// runs one space (or, for a replay, its case `only`): statistics, I/O totals, number of cases
fn run_space(ctx: &'static Ctx, space: &str, unis: &[Uni], base: &Path, only: Option<u64>) -> (Stats, env::EnvTotals, u64) {
	let (kind, tier) = match space.split_once('/') {
		Some((k, "quick")) => (k, vcore::Tier::Quick),
		Some((k, "thorough")) => (k, vcore::Tier::Thorough),
		_ => (space, ctx.tier),
	};
	let pick = |n: u64| -> Vec<u64> {
		match only {
			Some(i) if i < n => vec![i],
			Some(_) => vcore::machinery_fail("case outside the space"),
			None => (0..n).collect(),
		}
	};
	type Acc = (Stats, env::EnvTotals);
	let new = || -> Acc { (Stats::new(), env::EnvTotals::default()) };
	let merge = |a: Acc, b: Acc| -> Acc {
		let mut t = a.1;
		t.add(&b.1);
		(a.0.merge(b.0), t)
	};
	let desc = |i: u64| format!("space={space}\ncase={i}\n");
	let (n, (st, tot)) = match kind {
		"stream-env" => {
			let sets = more::environment_sets(tier);
			let n = sets.len() as u64;
			(n, pick(n).into_par_iter().fold(new, |mut acc, i| {
				let (label, set) = &sets[i as usize];
				vcore::watched(|| desc(i), || env::stream_env_case(ctx, space, i, label, set, &mut acc.0, &mut acc.1));
				acc
			}).reduce(new, merge))
		},
		"dir-env-listed" => {
			let sets = more::environment_sets(tier);
			let n = sets.len() as u64;
			(n, pick(n).into_par_iter().fold(new, |mut acc, i| {
				let (label, set) = &sets[i as usize];
				let scratch = thread_scratch(base);
				vcore::watched(|| desc(i), || env::dir_env_case(ctx, space, i, label, set, &scratch, &mut acc.0));
				acc
			}).reduce(new, merge))
		},
		"dir-env-packages" => {
			let u = unis.iter().find(|u| u.label == "packages").unwrap_or_else(|| vcore::machinery_fail("no universe packages"));
			let n = u.len();
			(n, pick(n).into_par_iter().fold(new, |mut acc, i| {
				let set = u.nth(i);
				if exclusions(&set).is_empty() {
					let scratch = thread_scratch(base);
					vcore::watched(|| desc(i), || env::dir_env_case(ctx, space, i, "universe packages", &set, &scratch, &mut acc.0));
				}
				acc
			}).reduce(new, merge))
		},
		"beyond-bound" => {
			let sets = more::beyond_bound_sets(tier);
			let n = sets.len() as u64;
			(n, pick(n).into_par_iter().fold(new, |mut acc, i| {
				let (label, set) = &sets[i as usize];
				let scratch = thread_scratch(base);
				vcore::watched(|| desc(i), || env::beyond_case(ctx, space, i, label, set, &scratch, &mut acc.0));
				acc
			}).reduce(new, merge))
		},
		"refusals" => {
			let slots = more::refusal_slots();
			let n = slots.len() as u64;
			(n, pick(n).into_par_iter().fold(new, |mut acc, i| {
				let (label, slot) = &slots[i as usize];
				vcore::watched(|| desc(i), || env::refusal_case(ctx, space, i, label, slot, &mut acc.0));
				acc
			}).reduce(new, merge))
		},
		"surrogates" => {
			let n = 2 * env::SURROGATE_SLOTS.len() as u64;
			(n, pick(n).into_par_iter().fold(new, |mut acc, i| {
				let scratch = thread_scratch(base);
				// (case i: slot i / 2, the high surrogate U+D800 for even i, the low surrogate U+DFFF for odd i)
				vcore::watched(|| desc(i), || env::surrogate_case(ctx, space, i, &scratch, &mut acc.0));
				acc
			}).reduce(new, merge))
		},
		_ => vcore::machinery_fail(&format!("unknown space {space:?}")),
	};
	(st, tot, n)
}

fn replay(ctx: &'static Ctx, path: &Path, base: &Path) -> ! {
	let body = vcore::replay_body(path);
	let get = |name: &str| -> String {
		body.lines().find_map(|l| l.strip_prefix(name)).unwrap_or_else(|| vcore::machinery_fail(&format!("replay file has no {name} line"))).trim().to_owned()
	};
	if body.lines().any(|l| l.starts_with("space=")) {
		let space = get("space=");
		let case: u64 = get("case=").parse().unwrap_or_else(|_| vcore::machinery_fail("bad case"));
		let unis = universes(vcore::Tier::Quick);
		let (st, _, _) = run_space(ctx, &space, &unis, base, Some(case));
		let _ = std::fs::remove_dir_all(base);
		ctx.finish(json!({"evaluations": st.evaluations, "distinct_nontrivial": 1, "rule": "replay of one case of a second-pass space", "samples": ["replay"], "outcomes": st.outcomes}), &[]);
	}
	let label = get("universe=");
	let idx: u64 = get("index=").parse().unwrap_or_else(|_| vcore::machinery_fail("bad index"));
	let u = [vcore::Tier::Quick, vcore::Tier::Thorough].into_iter().flat_map(universes).find(|u| u.label == label).unwrap_or_else(|| vcore::machinery_fail("unknown universe"));
	if idx >= u.len() {
		vcore::machinery_fail("index outside the universe");
	}
	let set = u.nth(idx);
	let scratch = thread_scratch(base);
	let mut st = Stats::new();
	run_case(ctx, &u.label, idx, &set, &scratch, &mut st);
	// determinism of the real code on this case: two more observations must agree byte for byte
	let a = real_write_stream(&set, Ins::SORTED);
	let b = real_write_stream(&set, Ins::SORTED);
	if a != b {
		vcore::machinery_fail("replay is not deterministic");
	}
	println!("{}", tiny::print_with(&set, &tiny::escape));
	if let Ok(Ok(t)) = &a {
		println!("---- write_all ----\n{}", String::from_utf8_lossy(t));
	}
	let _ = std::fs::remove_dir_all(base);
	ctx.finish(json!({"evaluations": 1, "distinct_nontrivial": 1, "rule": "replay of one case", "samples": ["replay"], "outcomes": st.outcomes}), &[]);
}
