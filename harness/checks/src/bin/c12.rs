//! C12 — Enigma files and directories round-trip the mappings they can express.
//!
//! Engine: exhaustive enumeration (level "exploration") of two-namespace mapping sets over several
//! small universes (mapmodel::gen), each enumerated completely. Every set is built as a real
//! `quill::tree::mappings::Mappings<2, _>` in several insertion orders and pushed through
//!
//! * single stream: `enigma_file::write_all` → `enigma_file::read_into`,
//! * directory:     `enigma_dir::write` into a fresh tmpfs directory → `enigma_dir::read`,
//!
//! and the results are compared with the set itself (reference model = mapmodel::MSet). The written
//! text is additionally read by an independent reference reader of the Enigma text written in this file
//! (so a writer and a reader that are wrong in the same way are still caught), which also yields the
//! indentation depth of every `CLASS` line ("nesting in the text mirrors source-name nesting") and the
//! file every class landed in ("exactly one file, once").
//!
//! Sets outside the statement's domain (see `exclusions`) are explored for "no panic" only.

use std::collections::{BTreeMap, BTreeSet};
use std::path::{Path, PathBuf};
use mapmodel::gen::{self, ClassU, FieldU, MethodU, ParamU, Space, Universe};
use mapmodel::{tiny, MClass, MField, MMethod, MParam, MSet, Order, Row};
use quill::tree::mappings::Mappings;
use quill::tree::names::Namespaces;
use rayon::prelude::*;
use vcore::{json, Ctx, Stats, Value};

const NS: [&str; 2] = ["official", "named"];

/// Comments that the format can express: text lines separated by `\n`, made of anything but the
/// tokeniser's other white space. (`""` is one empty comment line.)
const COMMENTS: &[&str] = &["x", "a b", " lead", "trail ", "a  b", "#x", "x # y", "l1\nl2", "l1\n\nl3", "", "b\\s", "\\n", "l1\n"];

/// Comments outside the format (explored for "no panic" only).
const ODD_COMMENTS: &[&str] = &["a\tb", "\tx", "x\r", "a\u{b}b", "a\u{c}b"];

const KEY_ORPHAN: &str = "orphan-inner-class:outer-prefix-dropped";
const KEY_COLLISION: &str = "file-name-collision:class-silently-dropped";

// ---------------------------------------------------------------------------------------------
// source-name nesting, written from "extended inner names": `A$B` is the class `B` inside `A`

/// `(outer, simple)` of an extended inner name; the `$` must be in the last `/` segment, both sides non-empty
fn split_inner(k: &str) -> Option<(&str, &str)> {
	let (p, s) = k.rsplit_once('$')?;
	if p.is_empty() || s.is_empty() || p.ends_with('/') || s.contains('/') {
		None
	} else {
		Some((p, s))
	}
}

/// the outer class of `k` if it is present in the set
fn present_parent<'a>(set: &MSet, k: &'a str) -> Option<&'a str> {
	split_inner(k).map(|(p, _)| p).filter(|p| set.classes.contains_key(*p))
}

/// number of outer classes of `k` that are present in an unbroken chain
fn tree_depth(set: &MSet, k: &str) -> usize {
	let mut d = 0;
	let mut cur = k;
	while let Some(p) = present_parent(set, cur) {
		d += 1;
		cur = p;
	}
	d
}

/// the class at the top of the unbroken chain of present outer classes
fn tree_root<'a>(set: &MSet, k: &'a str) -> &'a str {
	let mut cur = k;
	while let Some(p) = present_parent(set, cur) {
		cur = p;
	}
	cur
}

fn is_orphan(set: &MSet, k: &str) -> bool {
	split_inner(k).is_some() && present_parent(set, k).is_none()
}

/// The target-side name a nested class's target has to extend: the class's own target name, or its
/// source name when the class and all its present outer classes are unnamed; `None` where the
/// statement leaves it open (an unnamed class inside a renamed one).
fn effective_target(set: &MSet, k: &str) -> Option<String> {
	let c = &set.classes[k];
	if let Some(t) = &c.names[1] {
		return Some(t.clone());
	}
	match present_parent(set, k) {
		None => Some(k.to_owned()),
		Some(p) => {
			let e = effective_target(set, p)?;
			if e == p { Some(k.to_owned()) } else { None }
		},
	}
}

// ---------------------------------------------------------------------------------------------
// the statement's domain

const EX_NEST: &str = "target name of a nested class does not extend the target name of its outer class (statement: 'provided target names of nested classes follow the nesting')";
const EX_NEST_OPEN: &str = "named class nested in an unnamed class that is itself nested in a renamed class (the statement does not say which outer name the target has to extend)";
const EX_ROOT_NESTED_TARGET: &str = "non-nested source class with a nested-looking ($) target name (target nesting does not follow source nesting)";
const EX_CTOR: &str = "constructor with a target name other than <init> (statement: 'constructors are treated as unnamed')";
const EX_PARAM_SRC: &str = "parameter with a name in the first namespace (an ARG line has one name column only)";
const EX_PARAM_UNNAMED: &str = "parameter without target name, with or without comment (an ARG line needs a name; a comment needs an ARG line to hang below)";
const EX_COMMENT_WS: &str = "comment containing TAB, CR, VT or FF (the line tokeniser's separators; only space-separated text lines are expressible)";

fn exclusions(set: &MSet) -> BTreeSet<&'static str> {
	let mut out = BTreeSet::new();
	let doc = |d: &Option<String>, out: &mut BTreeSet<&'static str>| {
		if let Some(d) = d {
			if d.contains(['\t', '\r', '\u{b}', '\u{c}']) {
				out.insert(EX_COMMENT_WS);
			}
		}
	};
	for (k, c) in &set.classes {
		doc(&c.doc, &mut out);
		if let Some(t) = &c.names[1] {
			match split_inner(k) {
				None => {
					if t.contains('$') {
						out.insert(EX_ROOT_NESTED_TARGET);
					}
				},
				Some((p, _)) => {
					if set.classes.contains_key(p) {
						match effective_target(set, p) {
							None => {
								out.insert(EX_NEST_OPEN);
							},
							Some(e) => {
								let ok = t.strip_prefix(e.as_str()).and_then(|r| r.strip_prefix('$')).is_some_and(|s| !s.is_empty() && !s.contains(['$', '/']));
								if !ok {
									out.insert(EX_NEST);
								}
							},
						}
					} else if split_inner(t).is_none() {
						out.insert(EX_NEST);
					}
				},
			}
		}
		for f in c.fields.values() {
			doc(&f.doc, &mut out);
		}
		for ((name, _), m) in &c.methods {
			doc(&m.doc, &mut out);
			if name == "<init>" && m.names[1].as_deref().is_some_and(|t| t != "<init>") {
				out.insert(EX_CTOR);
			}
			for p in m.params.values() {
				doc(&p.doc, &mut out);
				if p.names[0].is_some() {
					out.insert(EX_PARAM_SRC);
				}
				if p.names[1].is_none() {
					out.insert(EX_PARAM_UNNAMED);
				}
			}
		}
	}
	out
}

/// "constructors are treated as unnamed": `<init>` named `<init>` is the same as `<init>` without name
fn normalise(set: &MSet) -> MSet {
	let mut s = set.clone();
	for c in s.classes.values_mut() {
		for ((name, _), m) in c.methods.iter_mut() {
			if name == "<init>" && m.names[1].as_deref() == Some("<init>") {
				m.names[1] = None;
			}
		}
	}
	s
}

// ---------------------------------------------------------------------------------------------
// independent reference reader of the Enigma text
//
// Format, as far as the writer's output needs it: one entry per line, nesting by leading TABs;
// `CLASS name [target]`, `FIELD name [target] desc`, `METHOD name [target] desc`, `ARG index name`,
// `COMMENT text` (the text after the keyword and one space, verbatim, one line of the entry's comment);
// outside COMMENT lines everything from `#` on is a remark. A nested CLASS states simple names: its full
// source name is `outer$name`, its full target name `outer-target$target` (outer-target = the outer
// class's target name, or its source name if it has none).

#[derive(Clone, Debug)]
struct RefClass {
	key: String,
	class: MClass,
	depth: usize,
}

#[derive(Clone)]
enum Frame {
	Class(usize),
	Field(usize, (String, String)),
	Method(usize, (String, String)),
	Param(usize, (String, String), usize),
}

fn push_doc(doc: &mut Option<String>, line: &str) {
	match doc {
		Some(d) => {
			d.push('\n');
			d.push_str(line);
		},
		None => *doc = Some(line.to_owned()),
	}
}

fn ref_read(text: &str) -> Result<Vec<RefClass>, String> {
	let mut out: Vec<RefClass> = Vec::new();
	let mut stack: Vec<Frame> = Vec::new();
	let mut lines: Vec<&str> = text.split('\n').collect();
	if lines.last() == Some(&"") {
		lines.pop();
	}
	for (no, raw) in lines.iter().enumerate() {
		let no = no + 1;
		let indent = raw.bytes().take_while(|b| *b == b'\t').count();
		let rest = &raw[indent..];
		let comment_text = if rest == "COMMENT" { Some("") } else { rest.strip_prefix("COMMENT ") };
		if let Some(t) = comment_text {
			if indent == 0 || indent > stack.len() {
				return Err(format!("line {no}: COMMENT at indentation {indent} has no entry one level up"));
			}
			stack.truncate(indent);
			match stack.last().cloned() {
				Some(Frame::Class(ci)) => push_doc(&mut out[ci].class.doc, t),
				Some(Frame::Field(ci, k)) => push_doc(&mut out[ci].class.fields.get_mut(&k).ok_or("internal")?.doc, t),
				Some(Frame::Method(ci, k)) => push_doc(&mut out[ci].class.methods.get_mut(&k).ok_or("internal")?.doc, t),
				Some(Frame::Param(ci, k, i)) => push_doc(&mut out[ci].class.methods.get_mut(&k).ok_or("internal")?.params.get_mut(&i).ok_or("internal")?.doc, t),
				None => return Err(format!("line {no}: COMMENT without entry")),
			}
			continue;
		}
		let code = rest.split_once('#').map(|(c, _)| c).unwrap_or(rest).trim();
		if code.is_empty() {
			continue;
		}
		let mut tok: Vec<&str> = code.split_whitespace().collect();
		if tok.last().is_some_and(|t| t.starts_with("ACC:")) {
			tok.pop();
		}
		if indent > stack.len() {
			return Err(format!("line {no}: indentation {indent} has no entry one level up"));
		}
		stack.truncate(indent);
		let parent = stack.last().cloned();
		match tok[0] {
			"CLASS" => {
				let (name, target) = match tok.len() {
					2 => (tok[1], None),
					3 => (tok[1], Some(tok[2])),
					n => return Err(format!("line {no}: CLASS with {} columns", n - 1)),
				};
				let (key, full_target) = match &parent {
					None => (name.to_owned(), target.map(|t| t.to_owned())),
					Some(Frame::Class(pi)) => {
						let p = &out[*pi];
						let outer_target = p.class.names[1].clone().unwrap_or_else(|| p.key.clone());
						(format!("{}${}", p.key, name), target.map(|t| format!("{outer_target}${t}")))
					},
					Some(_) => return Err(format!("line {no}: CLASS below something that is not a CLASS")),
				};
				out.push(RefClass { key: key.clone(), class: MClass { names: vec![Some(key), full_target], ..Default::default() }, depth: indent });
				stack.push(Frame::Class(out.len() - 1));
			},
			kw @ ("FIELD" | "METHOD") => {
				let Some(Frame::Class(ci)) = parent else { return Err(format!("line {no}: {kw} not directly below a CLASS")) };
				let (name, target, desc) = match tok.len() {
					3 => (tok[1], None, tok[2]),
					4 => (tok[1], Some(tok[2]), tok[3]),
					n => return Err(format!("line {no}: {kw} with {} columns", n - 1)),
				};
				let k = (name.to_owned(), desc.to_owned());
				let names: Row = vec![Some(name.to_owned()), target.map(|t| t.to_owned())];
				if kw == "FIELD" {
					if out[ci].class.fields.insert(k.clone(), MField { names, doc: None }).is_some() {
						return Err(format!("line {no}: field {k:?} stated twice"));
					}
					stack.push(Frame::Field(ci, k));
				} else {
					if out[ci].class.methods.insert(k.clone(), MMethod { names, doc: None, params: BTreeMap::new() }).is_some() {
						return Err(format!("line {no}: method {k:?} stated twice"));
					}
					stack.push(Frame::Method(ci, k));
				}
			},
			"ARG" => {
				let Some(Frame::Method(ci, k)) = parent else { return Err(format!("line {no}: ARG not directly below a METHOD")) };
				if tok.len() != 3 {
					return Err(format!("line {no}: ARG with {} columns", tok.len() - 1));
				}
				let index: usize = tok[1].parse().map_err(|_| format!("line {no}: ARG index {:?}", tok[1]))?;
				let m = out[ci].class.methods.get_mut(&k).ok_or("internal")?;
				if m.params.insert(index, MParam { names: vec![None, Some(tok[2].to_owned())], doc: None }).is_some() {
					return Err(format!("line {no}: parameter {index} stated twice"));
				}
				stack.push(Frame::Param(ci, k, index));
			},
			other => return Err(format!("line {no}: unknown keyword {other:?}")),
		}
	}
	Ok(out)
}

/// classes stated by the reference reader as a set, plus the keys stated more than once
fn ref_set(entries: &[RefClass]) -> (MSet, Vec<String>) {
	let mut set = MSet::new(&NS);
	let mut dups = Vec::new();
	for e in entries {
		if set.classes.insert(e.key.clone(), e.class.clone()).is_some() {
			dups.push(e.key.clone());
		}
	}
	(set, dups)
}

/// the reference reader read against a hand-written text and its hand-written content (exit 2 if off)
fn self_check() {
	let text = "# remark\nCLASS a/A b/X\n\tCOMMENT c1\n\tCOMMENT \n\tCOMMENT  # c3 \n\tFIELD f g I\n\t\tCOMMENT fc\n\tFIELD f J # remark\n\tMETHOD <init> (I)V\n\t\tARG 1 p\n\t\t\tCOMMENT pc\n\tMETHOD m n ()V\n\t\tCOMMENT mc\n\tCLASS B Y\n\t\tCLASS C\n\t\t\tFIELD h [I\n\tCLASS D\n\t\tCLASS E Z\nCLASS P$Q R$S\n\tCOMMENT\n";
	let got = ref_read(text).unwrap_or_else(|e| vcore::machinery_fail(&format!("self-check: reference reader refused its sample: {e}")));
	let (got_set, dups) = ref_set(&got);
	let mut want = MSet::new(&NS);
	let r = |a: &str, b: Option<&str>| -> Row { vec![Some(a.to_owned()), b.map(|s| s.to_owned())] };
	let mut a = MClass { names: r("a/A", Some("b/X")), doc: Some("c1\n\n # c3 ".into()), ..Default::default() };
	a.fields.insert(("f".into(), "I".into()), MField { names: r("f", Some("g")), doc: Some("fc".into()) });
	a.fields.insert(("f".into(), "J".into()), MField { names: r("f", None), doc: None });
	let mut init = MMethod { names: r("<init>", None), doc: None, params: BTreeMap::new() };
	init.params.insert(1, MParam { names: vec![None, Some("p".into())], doc: Some("pc".into()) });
	a.methods.insert(("<init>".into(), "(I)V".into()), init);
	a.methods.insert(("m".into(), "()V".into()), MMethod { names: r("m", Some("n")), doc: Some("mc".into()), params: BTreeMap::new() });
	want.classes.insert("a/A".into(), a);
	want.classes.insert("a/A$B".into(), MClass { names: r("a/A$B", Some("b/X$Y")), ..Default::default() });
	let mut c = MClass { names: r("a/A$B$C", None), ..Default::default() };
	c.fields.insert(("h".into(), "[I".into()), MField { names: r("h", None), doc: None });
	want.classes.insert("a/A$B$C".into(), c);
	want.classes.insert("a/A$D".into(), MClass { names: r("a/A$D", None), ..Default::default() });
	want.classes.insert("a/A$D$E".into(), MClass { names: r("a/A$D$E", Some("a/A$D$Z")), ..Default::default() });
	want.classes.insert("P$Q".into(), MClass { names: r("P$Q", Some("R$S")), doc: Some("".into()), ..Default::default() });
	if got_set != want || !dups.is_empty() {
		vcore::machinery_fail(&format!("self-check: reference reader misreads its sample: {:?}", mapmodel::first_difference(&want, &got_set)));
	}
	let depths: Vec<usize> = got.iter().map(|e| e.depth).collect();
	if depths != [0, 1, 2, 1, 2, 0] {
		vcore::machinery_fail("self-check: reference reader reports wrong depths");
	}
	for bad in ["\tCLASS A\n", "CLASS A\n\t\tFIELD f I\n", "FIELD f I\n", "CLASS A\n\tARG 0 x\n", "CLASS A\nCOMMENT x\n", "CLASS A\n\tFIELD f I\n\tFIELD f I\n", "CLASS\n", "NOPE x\n"] {
		if ref_read(bad).is_ok() {
			vcore::machinery_fail(&format!("self-check: reference reader accepts {bad:?}"));
		}
	}
	let mut probe = MSet::new(&NS);
	probe.classes.insert("A".into(), MClass { names: r("A", Some("X")), ..Default::default() });
	probe.classes.insert("A$B".into(), MClass { names: r("A$B", None), ..Default::default() });
	probe.classes.insert("A$B$C".into(), MClass { names: r("A$B$C", Some("X$B$Z")), ..Default::default() });
	probe.classes.insert("Q$R".into(), MClass { names: r("Q$R", Some("Flat")), ..Default::default() });
	let ex = exclusions(&probe);
	if !(ex.contains(EX_NEST_OPEN) && ex.contains(EX_NEST) && ex.len() == 2 && is_orphan(&probe, "Q$R") && !is_orphan(&probe, "A$B") && tree_depth(&probe, "A$B$C") == 2) {
		vcore::machinery_fail("self-check: domain classification");
	}
}

// ---------------------------------------------------------------------------------------------
// the real code

fn build(set: &MSet, o: Order) -> Mappings<2, ()> {
	mapmodel::to_quill_ordered::<2, ()>(set, o).unwrap_or_else(|e| vcore::machinery_fail(&format!("generator produced a set quill's public API refuses: {e:#}")))
}

enum ReadOut {
	Set(MSet),
	Refused(String),
	KeyBroken(String),
}

type Guarded<T> = Result<T, vcore::Panic>;

fn real_write_stream(set: &MSet, o: Order) -> Guarded<Result<Vec<u8>, String>> {
	let q = build(set, o);
	vcore::guard(|| {
		let mut v = Vec::new();
		quill::enigma_file::write_all(&q, &mut v).map(|_| v).map_err(|e| format!("{e:#}"))
	})
}

fn real_read_stream(text: &[u8]) -> Guarded<ReadOut> {
	vcore::guard(|| {
		let mut m: Mappings<2, ()> = Mappings::from_namespaces(NS).unwrap_or_else(|e| vcore::machinery_fail(&format!("{e}")));
		match quill::enigma_file::read_into(text, &mut m) {
			Err(e) => ReadOut::Refused(format!("{e:#}")),
			Ok(()) => match mapmodel::from_quill(&m) {
				Ok(s) => ReadOut::Set(s),
				Err(k) => ReadOut::KeyBroken(k.0),
			},
		}
	})
}

fn real_write_dir(set: &MSet, o: Order, dir: &Path) -> Guarded<Result<(), String>> {
	let q = build(set, o);
	vcore::guard(|| quill::enigma_dir::write(&q, dir).map_err(|e| format!("{e:#}")))
}

fn real_read_dir(dir: &Path) -> Guarded<ReadOut> {
	vcore::guard(|| {
		let ns: Namespaces<2, ()> = Namespaces::try_from(NS.map(|s| s.to_owned())).unwrap_or_else(|e| vcore::machinery_fail(&format!("{e}")));
		match quill::enigma_dir::read(dir, ns) {
			Err(e) => ReadOut::Refused(format!("{e:#}")),
			Ok(m) => match mapmodel::from_quill(&m) {
				Ok(s) => ReadOut::Set(s),
				Err(k) => ReadOut::KeyBroken(k.0),
			},
		}
	})
}

// ---------------------------------------------------------------------------------------------
// scratch directories

fn scratch_base() -> PathBuf {
	let pid = std::process::id();
	let usable = |p: &Path| -> bool { std::fs::create_dir_all(p).is_ok() && std::fs::write(p.join(".probe"), b"x").is_ok() && std::fs::remove_file(p.join(".probe")).is_ok() };
	// leftovers of runs that were killed
	if let Ok(rd) = std::fs::read_dir("/dev/shm") {
		for e in rd.flatten() {
			let name = e.file_name().to_string_lossy().to_string();
			if let Some(p) = name.strip_prefix("verif-c12-") {
				if p.parse::<u32>().is_ok_and(|p| p != pid && !Path::new(&format!("/proc/{p}")).exists()) {
					let _ = std::fs::remove_dir_all(e.path());
				}
			}
		}
	}
	let shm = PathBuf::from(format!("/dev/shm/verif-c12-{pid}"));
	if usable(&shm) {
		return shm;
	}
	let fallback = vcore::verif_root().join("harness/target/tmp").join(format!("verif-c12-{pid}"));
	if usable(&fallback) {
		return fallback;
	}
	vcore::machinery_fail("no writable scratch directory (/dev/shm, harness/target/tmp)")
}

fn fresh_dir(p: &Path) {
	let _ = std::fs::remove_dir_all(p);
	std::fs::create_dir_all(p).unwrap_or_else(|e| vcore::machinery_fail(&format!("cannot create scratch {p:?}: {e}")));
}

/// every file below `dir` (relative path with `/`) with its bytes; my own walk, sorted by path
fn list_files(dir: &Path) -> BTreeMap<String, Vec<u8>> {
	fn walk(base: &Path, rel: &str, out: &mut BTreeMap<String, Vec<u8>>) {
		let here = if rel.is_empty() { base.to_path_buf() } else { base.join(rel) };
		let rd = std::fs::read_dir(&here).unwrap_or_else(|e| vcore::machinery_fail(&format!("cannot list {here:?}: {e}")));
		for e in rd {
			let e = e.unwrap_or_else(|e| vcore::machinery_fail(&format!("listing: {e}")));
			let name = e.file_name().to_string_lossy().to_string();
			let r = if rel.is_empty() { name } else { format!("{rel}/{name}") };
			let ft = e.file_type().unwrap_or_else(|e| vcore::machinery_fail(&format!("file type: {e}")));
			if ft.is_dir() {
				walk(base, &r, out);
			} else {
				let bytes = std::fs::read(e.path()).unwrap_or_else(|e| vcore::machinery_fail(&format!("read: {e}")));
				out.insert(r, bytes);
			}
		}
	}
	let mut out = BTreeMap::new();
	walk(dir, "", &mut out);
	out
}

// ---------------------------------------------------------------------------------------------
// one case

struct Uni {
	label: String,
	space: Space,
}

struct Case<'a> {
	ctx: &'a Ctx,
	label: &'a str,
	idx: u64,
	set: &'a MSet,
	expected: MSet,
	/// classes of trees whose root is an inner class without its outer class: key → the name it has
	/// when the root is stated by its simple name only
	orphan_members: BTreeMap<String, String>,
	/// trees whose roots would be stored under the same file name (target name, else source name)
	colliding_roots: BTreeSet<String>,
	orphan_name_clash: bool,
}

impl Case<'_> {
	fn replay_text(&self, extra: &str) -> String {
		format!(
			"universe={}\nindex={}\nthe set (Tiny v2 rendering, for reading only):\n{}{}",
			self.label, self.idx, tiny::print_with(self.set, &tiny::escape), extra
		)
	}

	fn diff(&self, key: &str, what: &str, extra: &str) {
		self.ctx.diff(key, what, || self.replay_text(extra));
	}

	fn panic(&self, site: &str, p: &vcore::Panic) {
		self.diff(&format!("panic@{}", p.file()), &format!("{site}: panic at {}: {}", p.site, p.msg), "");
	}

	/// compares what came back with the content; differences of the two known shapes get their own
	/// narrow keys and the rest of the comparison goes on without them
	fn judge(&self, site: &str, actual: &MSet, extra: &str) -> bool {
		let exp = &self.expected;
		if exp == actual {
			return true;
		}
		let mut e2 = exp.clone();
		let mut a2 = actual.clone();
		let mut orphan_hit: Vec<String> = Vec::new();
		for (k, d) in &self.orphan_members {
			if !actual.classes.contains_key(k) && actual.classes.contains_key(d) && (self.orphan_name_clash || !exp.classes.contains_key(d)) {
				// (when simple names clash, what is found under the simple name is a mixture: not compared)
				e2.classes.remove(k);
				e2.classes.remove(d);
				a2.classes.remove(d);
				orphan_hit.push(format!("{k:?} came back as {d:?}"));
			}
		}
		if !orphan_hit.is_empty() {
			self.diff(KEY_ORPHAN, &format!("{site}: inner class whose outer class is absent lost its outer prefix: {}", orphan_hit.join(", ")), extra);
		}
		let mut lost: Vec<String> = Vec::new();
		for k in exp.classes.keys() {
			if self.colliding_roots.contains(tree_root(exp, k)) && !actual.classes.contains_key(k) && e2.classes.contains_key(k) {
				e2.classes.remove(k);
				lost.push(k.clone());
			}
		}
		if !lost.is_empty() {
			self.diff(KEY_COLLISION, &format!("{site}: top-level classes {:?} share a file name; written without error but {lost:?} did not come back", self.colliding_roots), extra);
		}
		if let Some((k, what)) = mapmodel::first_difference(&e2, &a2) {
			self.diff(&format!("{site}:{k}"), &format!("{site}: {what}"), extra);
		}
		false
	}

	fn refused(&self, site: &str, e: &str, extra: &str) {
		if self.orphan_name_clash {
			self.diff(KEY_ORPHAN, &format!("{site}: inner classes whose outer class is absent were stated by their simple names, which clash: {e}"), extra);
		} else {
			self.diff(&format!("{site}:read-refused"), &format!("{site}: reading back the written text failed: {e}"), extra);
		}
	}

	fn judge_read(&self, site: &str, r: &Guarded<ReadOut>, extra: &str) -> bool {
		match r {
			Err(p) => {
				self.panic(site, p);
				false
			},
			Ok(ReadOut::Set(back)) => self.judge(site, back, extra),
			Ok(ReadOut::Refused(e)) => {
				self.refused(site, e, extra);
				false
			},
			Ok(ReadOut::KeyBroken(k)) => {
				self.diff(&format!("{site}:key-invariant"), &format!("{site}: {k}"), extra);
				false
			},
		}
	}

	/// the independent reading of written text: content, every class once, depth of CLASS lines
	fn judge_text(&self, site: &str, entries: &[RefClass], extra: &str) -> bool {
		let (seen, dups) = ref_set(entries);
		let mut ok = true;
		for d in &dups {
			ok = false;
			if self.orphan_members.values().any(|v| v == d) {
				self.diff(KEY_ORPHAN, &format!("{site}: inner classes whose outer class is absent are stated by simple name; {d:?} is stated twice"), extra);
			} else {
				self.diff(&format!("{site}:class-stated-twice"), &format!("{site}: class {d:?} is stated more than once"), extra);
			}
		}
		ok &= self.judge(site, &seen, extra);
		for e in entries {
			if self.expected.classes.contains_key(&e.key) {
				let want = tree_depth(&self.expected, &e.key);
				if e.depth != want {
					ok = false;
					self.diff(&format!("{site}:class-line-depth"), &format!("{site}: CLASS line of {:?} is at indentation {}, source-name nesting says {want}", e.key, e.depth), extra);
				}
			}
		}
		ok
	}
}

fn orders(tier: vcore::Tier) -> Vec<Order> {
	tier.pick(vec![Order::Sorted, Order::Reversed, Order::Rotated(1)], vec![Order::Sorted, Order::Reversed, Order::Rotated(1), Order::Rotated(2)])
}

fn file_name_of(set: &MSet, k: &str) -> String {
	set.classes[k].names[1].clone().unwrap_or_else(|| k.to_owned())
}

fn run_case(ctx: &Ctx, label: &str, idx: u64, set: &MSet, scratch: &Path, st: &mut Stats) {
	st.eval();
	let ords = orders(ctx.tier);
	let ex = exclusions(set);
	if !ex.is_empty() {
		// outside the statement's domain: no panic, nothing else
		st.outcome("outside-domain");
		for e in &ex {
			st.outcome(&format!("outside: {e}"));
		}
		let case = Case { ctx, label, idx, set, expected: set.clone(), orphan_members: BTreeMap::new(), colliding_roots: BTreeSet::new(), orphan_name_clash: false };
		for o in &ords {
			match real_write_stream(set, *o) {
				Err(p) => case.panic("outside-domain stream write", &p),
				Ok(Err(_)) => st.outcome("outside-domain: write refused"),
				Ok(Ok(text)) => match real_read_stream(&text) {
					Err(p) => case.panic("outside-domain stream read", &p),
					Ok(ReadOut::Set(back)) => st.outcome(if back == *set { "outside-domain: round trip holds anyway" } else { "outside-domain: comes back different" }),
					Ok(_) => st.outcome("outside-domain: read refused"),
				},
			}
			st.outcome("real calls");
		}
		let d = scratch.join("x");
		fresh_dir(&d);
		match real_write_dir(set, Order::Sorted, &d) {
			Err(p) => case.panic("outside-domain directory write", &p),
			Ok(Err(_)) => {},
			Ok(Ok(())) => {
				if let Err(p) = real_read_dir(&d) {
					case.panic("outside-domain directory read", &p);
				}
			},
		}
		let _ = std::fs::remove_dir_all(&d);
		st.sample("outside", || json!({"kind": "outside-domain set (no panic only)", "universe": label, "index": idx, "why": ex.iter().collect::<Vec<_>>(), "set": tiny::print_with(set, &tiny::escape)}));
		return;
	}

	st.outcome("in-domain");
	let expected = normalise(set);
	// classification of the two known shapes (keys only; the verdicts come from the comparisons)
	let mut orphan_members = BTreeMap::new();
	let mut roots: BTreeMap<String, Vec<String>> = BTreeMap::new();
	for k in expected.classes.keys() {
		let root = tree_root(&expected, k);
		if let Some((outer, _)) = split_inner(root) {
			orphan_members.insert(k.clone(), k[outer.len() + 1..].to_owned());
		}
		if root == k {
			roots.entry(file_name_of(&expected, k)).or_default().push(k.clone());
		}
	}
	let colliding_roots: BTreeSet<String> = roots.values().filter(|v| v.len() > 1).flatten().cloned().collect();
	let orphan_name_clash = {
		let mut seen = BTreeSet::new();
		orphan_members.values().any(|d| expected.classes.contains_key(d) || !seen.insert(d.clone()))
	};
	let case = Case { ctx, label, idx, set, expected, orphan_members, colliding_roots, orphan_name_clash };
	let exp = &case.expected;

	// what this set exercises
	let max_depth = exp.classes.keys().map(|k| tree_depth(exp, k)).max().unwrap_or(0);
	let n_orphans = exp.classes.keys().filter(|k| is_orphan(exp, k)).count();
	let n_roots = roots.values().map(|v| v.len()).sum::<usize>();
	let mut all_docs: Vec<&str> = Vec::new();
	let mut param_docs = 0;
	let mut unnamed_classes = 0;
	for c in exp.classes.values() {
		all_docs.extend(c.doc.as_deref());
		if c.names[1].is_none() {
			unnamed_classes += 1;
		}
		for f in c.fields.values() {
			all_docs.extend(f.doc.as_deref());
		}
		for m in c.methods.values() {
			all_docs.extend(m.doc.as_deref());
			for p in m.params.values() {
				all_docs.extend(p.doc.as_deref());
				param_docs += p.doc.is_some() as u64;
			}
		}
	}
	if max_depth >= 2 {
		st.outcome("sets with nesting depth >= 2");
	}
	if max_depth >= 3 {
		st.outcome("sets with nesting depth >= 3");
	}
	if n_orphans > 0 {
		st.outcome("sets with an orphan inner class");
	}
	if unnamed_classes > 0 {
		st.outcome("sets with a class without target name");
	}
	if all_docs.iter().any(|d| d.contains("\n\n")) {
		st.outcome("sets with a comment with a blank line");
	}
	if all_docs.iter().any(|d| d.starts_with(' ') || d.contains("\n ")) {
		st.outcome("sets with a comment line with leading space");
	}
	if all_docs.iter().any(|d| d.contains('#')) {
		st.outcome("sets with a # in a comment");
	}
	if param_docs > 0 {
		st.outcome("sets with a parameter comment");
	}
	if !case.colliding_roots.is_empty() {
		st.outcome("sets with two top-level classes of equal file name");
	}

	// ---- single stream ----
	let mut texts: Vec<Vec<u8>> = Vec::new();
	let mut stream_ok = true;
	for o in &ords {
		st.outcome("real calls");
		match real_write_stream(set, *o) {
			Err(p) => {
				case.panic("stream write", &p);
				stream_ok = false;
			},
			Ok(Err(e)) => {
				stream_ok = false;
				if case.colliding_roots.is_empty() {
					case.diff("stream:write-refused", &format!("write_all refused a set of the domain ({o:?}): {e}"), "");
				} else {
					st.outcome("collision: write refused (accepted)");
				}
			},
			Ok(Ok(t)) => texts.push(t),
		}
	}
	if let Some(first) = texts.first() {
		let shown = format!("\n---- write_all ----\n{}", String::from_utf8_lossy(first));
		for (i, t) in texts.iter().enumerate().skip(1) {
			if t != first {
				stream_ok = false;
				let extra = format!("{shown}\n---- write_all, other insertion order ({:?}) ----\n{}", ords[i], String::from_utf8_lossy(t));
				if case.colliding_roots.is_empty() {
					case.diff("stream:bytes-depend-on-insertion-order", "write_all writes different bytes for two insertion orders of the same content", &extra);
				} else {
					case.diff(KEY_COLLISION, "stream: which of the classes sharing a file name survives depends on the insertion order", &extra);
				}
			}
		}
		st.outcome("real calls");
		stream_ok &= case.judge_read("stream", &real_read_stream(first), &shown);
		match std::str::from_utf8(first).map_err(|e| e.to_string()).and_then(ref_read) {
			Ok(entries) => stream_ok &= case.judge_text("stream-text", &entries, &shown),
			Err(e) => {
				stream_ok = false;
				case.diff("stream-text:not-enigma", &format!("the reference reader cannot read what write_all wrote: {e}"), &shown);
			},
		}
		if !exp.classes.is_empty() {
			st.distinct.add(&first[..]);
		}
	}
	if stream_ok {
		st.outcome("stream: round trip, text and order independence hold");
	}

	// ---- directory ----
	let mut listings: Vec<BTreeMap<String, Vec<u8>>> = Vec::new();
	let mut dir_ok = true;
	for (i, o) in ords.iter().enumerate() {
		let d = scratch.join(format!("o{i}"));
		fresh_dir(&d);
		st.outcome("real calls");
		match real_write_dir(set, *o, &d) {
			Err(p) => {
				case.panic("directory write", &p);
				dir_ok = false;
			},
			Ok(Err(e)) => {
				dir_ok = false;
				if case.colliding_roots.is_empty() {
					case.diff("dir:write-refused", &format!("enigma_dir::write refused a set of the domain ({o:?}): {e}"), "");
				} else {
					st.outcome("collision: write refused (accepted)");
				}
			},
			Ok(Ok(())) => listings.push(list_files(&d)),
		}
	}
	if let Some(first) = listings.first() {
		let show = |l: &BTreeMap<String, Vec<u8>>| -> String { l.iter().map(|(p, b)| format!("== {p}\n{}", String::from_utf8_lossy(b))).collect::<Vec<_>>().join("") };
		let shown = format!("\n---- enigma_dir::write ----\n{}", show(first));
		for (i, l) in listings.iter().enumerate().skip(1) {
			if l != first {
				dir_ok = false;
				let extra = format!("{shown}\n---- enigma_dir::write, other insertion order ({:?}) ----\n{}", ords[i], show(l));
				if case.colliding_roots.is_empty() {
					case.diff("dir:files-depend-on-insertion-order", "enigma_dir::write writes different files for two insertion orders of the same content", &extra);
				} else {
					case.diff(KEY_COLLISION, "directory: which of the classes sharing a file name survives depends on the insertion order", &extra);
				}
			}
		}
		// the real reader on the directory the real writer made
		st.outcome("real calls");
		dir_ok &= case.judge_read("dir", &real_read_dir(&scratch.join("o0")), &shown);
		// the same files created in the opposite order (tmpfs lists by creation): same content
		if first.len() >= 2 {
			let c = scratch.join("copy");
			fresh_dir(&c);
			for (p, b) in first.iter().rev() {
				let t = c.join(p);
				if let Some(parent) = t.parent() {
					std::fs::create_dir_all(parent).unwrap_or_else(|e| vcore::machinery_fail(&format!("copy: {e}")));
				}
				std::fs::write(&t, b).unwrap_or_else(|e| vcore::machinery_fail(&format!("copy: {e}")));
			}
			st.outcome("real calls");
			dir_ok &= case.judge_read("dir-listing-order", &real_read_dir(&c), &shown);
			let _ = std::fs::remove_dir_all(&c);
		}
		// independent reading of every file: one top-level class per file, every class once
		let mut entries: Vec<RefClass> = Vec::new();
		let mut readable = true;
		for (p, b) in first {
			match std::str::from_utf8(b).map_err(|e| e.to_string()).and_then(ref_read) {
				Ok(es) => {
					let tops = es.iter().filter(|e| e.depth == 0).count();
					if tops != 1 {
						dir_ok = false;
						case.diff("dir-text:file-without-exactly-one-top-level-class", &format!("file {p:?} states {tops} top-level classes"), &shown);
					}
					entries.extend(es);
				},
				Err(e) => {
					readable = false;
					dir_ok = false;
					case.diff("dir-text:not-enigma", &format!("the reference reader cannot read file {p:?}: {e}"), &shown);
				},
			}
		}
		if readable {
			dir_ok &= case.judge_text("dir-text", &entries, &shown);
		}
		if first.len() >= 2 {
			st.outcome("directory cases with >= 2 files");
		}
		if first.keys().any(|p| p.contains('/')) {
			st.outcome("directory cases with a package directory");
		}
		if first.keys().any(|p| p.matches('/').count() >= 3) {
			st.outcome("directory cases with a package directory of depth 3");
		}
		st.outcome_n("files written and read back", first.len() as u64);
		if dir_ok && first.len() != n_roots {
			// implied by the checks above; kept as a cross-check of the harness itself
			vcore::machinery_fail(&format!("harness: {} files for {n_roots} top-level classes passed the text checks ({label} #{idx})", first.len()));
		}
	}
	for i in 0..ords.len() {
		let _ = std::fs::remove_dir_all(scratch.join(format!("o{i}")));
	}
	if dir_ok {
		st.outcome("directory: round trip, text, one file per top-level class and order independence hold");
	}
	if stream_ok && dir_ok {
		let tag = if max_depth >= 2 { "deep" } else if n_orphans > 0 { "orphan" } else if param_docs > 0 { "param-doc" } else if n_roots >= 2 { "multi-file" } else { "plain" };
		st.sample(tag, || json!({"kind": "mapping set that round-trips both ways", "universe": label, "index": idx, "classes": exp.classes.keys().collect::<Vec<_>>(), "write_all": texts.first().map(|t| String::from_utf8_lossy(t).to_string()), "files": listings.first().map(|l| l.keys().cloned().collect::<Vec<_>>())}));
	}
}

// ---------------------------------------------------------------------------------------------
// universes

fn o(v: &[Option<&str>]) -> Vec<Row> {
	gen::tails(&[v])
}

fn d(v: &[Option<&str>]) -> Vec<Option<String>> {
	gen::docs(v)
}

fn all_comments() -> Vec<Option<&'static str>> {
	let mut v = vec![None];
	v.extend(COMMENTS.iter().map(|c| Some(*c)));
	v
}

fn class(key: &str, targets: &[Option<&str>], docs: &[Option<&str>], fields: Vec<FieldU>, methods: Vec<MethodU>) -> ClassU {
	ClassU { key: key.into(), rows: o(targets), docs: d(docs), fields, methods, optional: true }
}

fn field(name: &str, desc: &str, targets: &[Option<&str>], docs: &[Option<&str>]) -> FieldU {
	FieldU { name: name.into(), desc: desc.into(), rows: o(targets), docs: d(docs) }
}

fn method(name: &str, desc: &str, targets: &[Option<&str>], docs: &[Option<&str>], params: Vec<ParamU>) -> MethodU {
	MethodU { name: name.into(), desc: desc.into(), rows: o(targets), docs: d(docs), params }
}

fn param(index: usize, rows: &[(Option<&str>, Option<&str>)], docs: &[Option<&str>]) -> ParamU {
	ParamU { index, rows: rows.iter().map(|(a, b)| vec![a.map(|s| s.to_owned()), b.map(|s| s.to_owned())]).collect(), docs: d(docs) }
}

struct Slots<'a> {
	class: &'a [Option<&'a str>],
	field: &'a [Option<&'a str>],
	method: &'a [Option<&'a str>],
	param: &'a [Option<&'a str>],
}

/// a class with two fields of one name, a method with two parameters and a constructor with one
fn member_class(key: &str, targets: &[Option<&str>], s: &Slots, rich: bool) -> ClassU {
	let side: &[Option<&str>] = if rich { &[None, Some("x")] } else { &[None] };
	class(key, targets, s.class, vec![
		field("f", "I", &[None, Some("g")], s.field),
		field("f", "J", &[Some("g")], &[None]),
	], vec![
		method("m", "(II)V", &[None, Some("n")], s.method, vec![
			param(0, &[(None, Some("p0"))], s.param),
			param(1, &[(None, Some("p1"))], side),
		]),
		method("<init>", "(I)V", &[None], &[None], vec![param(1, &[(None, Some("q"))], side)]),
	])
}

fn universes(tier: vcore::Tier) -> Vec<Uni> {
	let mut out: Vec<(String, Universe)> = Vec::new();
	let mut add = |label: &str, classes: Vec<ClassU>| out.push((label.to_owned(), Universe { ns: NS.iter().map(|s| s.to_string()).collect(), classes }));
	let full = all_comments();
	let full = &full[..];
	let small: &[Option<&str>] = &[None, Some("a b")];
	let none: &[Option<&str>] = &[None];
	let nl: &[Option<&str>] = &[None, Some("l1\n\nl3")];

	// nesting up to depth 3, every class optional (so every kind of gap), targets that follow the
	// nesting through renamed and through unnamed outer classes, and targets that do not
	add("nest", vec![
		class("A", &[None, Some("X")], none, vec![], vec![]),
		class("A$B", &[None, Some("X$Y"), Some("A$Y"), Some("Flat")], nl, vec![], vec![]),
		class("A$B$C", &[None, Some("X$Y$Z"), Some("A$Y$Z"), Some("A$B$Z"), Some("X$B$Z")], none, vec![], vec![]),
		class("A$B$C$D", &[None, Some("X$Y$Z$W"), Some("A$B$C$W"), Some("A$B$Z$W")], none, vec![], vec![]),
		class("A$E", &[None, Some("X$F"), Some("A$F")], none, vec![], vec![]),
	]);
	// packages at depth 0..3 on both sides, a nested class and an orphan inside packages, non-ASCII
	add("packages", vec![
		class("A0", &[None, Some("X0")], none, vec![], vec![]),
		class("p/A1", &[None, Some("q/X1"), Some("X1")], none, vec![], vec![]),
		class("p/q/A2", &[None, Some("r/s/t/X2"), Some("p/q/X2")], none, vec![], vec![]),
		class("p/q/r/A3", &[None, Some("p/q/r/X3"), Some("u/X3")], none, vec![], vec![]),
		class("p/q/A2$B", &[None, Some("r/s/t/X2$Y"), Some("p/q/X2$Y"), Some("p/q/A2$Y")], none, vec![], vec![]),
		class("p/O$I", &[None, Some("q/O$J")], none, vec![], vec![]),
		class("É", &[None, Some("ü/Ñ")], none, vec![], vec![]),
	]);
	// the comment alphabet in every kind of slot, one slot at a time
	add("members/class-comments", vec![member_class("p/A", &[None, Some("q/X")], &Slots { class: full, field: none, method: small, param: none }, false)]);
	add("members/field-comments", vec![member_class("p/A", &[None, Some("q/X")], &Slots { class: small, field: full, method: none, param: small }, false)]);
	add("members/method-comments", vec![member_class("p/A", &[None, Some("q/X")], &Slots { class: none, field: small, method: full, param: small }, false)]);
	add("members/param-comments", vec![member_class("p/A", &[None, Some("q/X")], &Slots { class: none, field: none, method: small, param: full }, false)]);
	// members and comments of nested classes (deeper indentation)
	add("inner-members", vec![
		class("A", &[None, Some("X")], none, vec![], vec![]),
		class("A$B", &[None, Some("X$Y"), Some("A$Y")], nl, vec![field("f", "I", &[Some("g")], nl)], vec![method("m", "(I)V", &[Some("n")], none, vec![param(0, &[(None, Some("p"))], full)])]),
		class("A$B$C", &[None, Some("X$Y$Z")], nl, vec![field("h", "[LA$B;", &[Some("k")], nl)], vec![]),
	]);
	// inner classes whose outer class is absent from the set
	add("orphans", vec![
		class("P$In", &[None, Some("P$Jn"), Some("X$Jn"), Some("Flat")], small, vec![field("f", "I", &[None, Some("g")], none)], vec![method("m", "(I)V", &[Some("n")], none, vec![param(0, &[(None, Some("p"))], small)])]),
		class("P$In$K", &[None, Some("P$Jn$L"), Some("X$Jn$L"), Some("P$In$L")], none, vec![], vec![]),
		class("Q$R$S", &[None, Some("Q$R$T")], none, vec![], vec![]),
		class("p/P$I2", &[None, Some("q/X$J2")], none, vec![], vec![]),
		class("B", &[None, Some("Y")], none, vec![], vec![]),
	]);
	// orphans whose simple names meet each other or a top-level class
	add("orphans-simple-name-clash", vec![
		class("A", &[None, Some("X")], none, vec![], vec![]),
		class("P$A", &[None, Some("P$B")], none, vec![], vec![]),
		class("p/Q$A", &[None, Some("p/Q$C")], none, vec![], vec![]),
	]);
	// top-level classes whose files would get the same name
	add("file-name-collisions", vec![
		class("A", &[None, Some("X"), Some("B")], none, vec![], vec![]),
		class("B", &[None, Some("X"), Some("A")], none, vec![field("f", "I", &[Some("g")], none)], vec![]),
		class("p/C", &[None, Some("X"), Some("p/D")], none, vec![], vec![]),
		class("p/D", &[None, Some("p/C")], none, vec![], vec![]),
		class("A$I", &[None], none, vec![], vec![]),
	]);
	// constructors
	add("constructors", vec![
		class("A", &[None, Some("X")], none, vec![], vec![
			method("<init>", "()V", &[None, Some("<init>"), Some("make")], small, vec![]),
			method("<init>", "(I)V", &[None, Some("<init>")], none, vec![param(1, &[(None, Some("p"))], small)]),
			method("<clinit>", "()V", &[None], small, vec![]),
			method("m", "()V", &[None, Some("n")], none, vec![]),
		]),
		class("A$B", &[None, Some("X$Y")], none, vec![], vec![method("<init>", "(LA;)V", &[None, Some("<init>")], none, vec![param(1, &[(None, Some("outer"))], none)])]),
	]);
	// what the format cannot state: explored for "no panic"
	let odd: Vec<Option<&str>> = std::iter::once(None).chain(ODD_COMMENTS.iter().map(|c| Some(*c))).collect();
	add("outside-domain", vec![
		class("A", &[None, Some("X"), Some("X$Y")], &odd, vec![field("f", "I", &[Some("g")], small)], vec![
			method("m", "(II)V", &[None, Some("n")], none, vec![
				param(0, &[(None, Some("p")), (None, None), (Some("s"), Some("p")), (Some("s"), None)], small),
				param(1, &[(None, Some("q")), (None, None)], &odd),
			]),
		]),
	]);

	if tier == vcore::Tier::Thorough {
		let ml: &[Option<&str>] = &[None, Some(" lead"), Some("l1\n\nl3"), Some("#x")];
		// the one-slot universes again with comments in the other slots as well
		add("members-rich/class-comments", vec![member_class("p/A", &[None, Some("q/X")], &Slots { class: full, field: small, method: small, param: small }, true)]);
		add("members-rich/field-comments", vec![member_class("p/A", &[None, Some("q/X")], &Slots { class: small, field: full, method: small, param: small }, true)]);
		add("members-rich/method-comments", vec![member_class("p/A", &[None, Some("q/X")], &Slots { class: small, field: small, method: full, param: small }, true)]);
		add("members-rich/param-comments", vec![member_class("p/A", &[None, Some("q/X")], &Slots { class: small, field: small, method: small, param: full }, true)]);
		// two slots with the whole alphabet at once
		add("members/field+param-comments", vec![member_class("p/A", &[Some("q/X")], &Slots { class: none, field: full, method: none, param: full }, true)]);
		add("members/class+method-comments", vec![member_class("p/A", &[Some("q/X")], &Slots { class: full, field: none, method: full, param: none }, true)]);
		add("outside-domain-rich", vec![
			class("A", &[None, Some("X"), Some("X$Y")], &odd, vec![field("f", "I", &[None, Some("g")], &odd)], vec![
				method("m", "(II)V", &[None, Some("n")], &odd, vec![
					param(0, &[(None, Some("p")), (None, None), (Some("s"), Some("p")), (Some("s"), None)], small),
					param(1, &[(None, Some("q")), (None, None)], &odd),
				]),
			]),
		]);
		// two classes with members at once, nested and not, every slot with a few comments
		add("two-member-classes", vec![
			class("p/A", &[None, Some("q/X")], ml, vec![field("f", "I", &[None, Some("g")], small)], vec![method("m", "(I)V", &[None, Some("n")], small, vec![param(0, &[(None, Some("p"))], ml)])]),
			class("p/A$B", &[None, Some("q/X$Y"), Some("p/A$Y")], nl, vec![field("f", "I", &[None, Some("g")], small)], vec![method("m", "(I)V", &[None, Some("n")], none, vec![param(0, &[(None, Some("p"))], ml)])]),
			class("C", &[None, Some("r/Z")], none, vec![], vec![]),
		]);
		// wider trees: two branches below one root, orphans in the middle
		add("nest-wide", vec![
			class("p/A", &[None, Some("q/X")], none, vec![], vec![]),
			class("p/A$B", &[None, Some("q/X$Y"), Some("p/A$Y")], none, vec![], vec![]),
			class("p/A$B$C", &[None, Some("q/X$Y$Z"), Some("p/A$Y$Z"), Some("p/A$B$Z")], small, vec![], vec![]),
			class("p/A$B$D", &[None, Some("q/X$Y$V"), Some("p/A$B$V")], none, vec![], vec![]),
			class("p/A$E", &[None, Some("q/X$F")], none, vec![], vec![]),
			class("p/A$E$G", &[None, Some("q/X$F$H"), Some("p/A$E$H")], none, vec![], vec![]),
			class("p/A$E$G$I", &[None, Some("q/X$F$H$J"), Some("p/A$E$G$J")], nl, vec![], vec![]),
			class("K", &[None, Some("q/L")], none, vec![], vec![]),
		]);
	}
	out.into_iter().map(|(label, u)| Uni { label, space: Space::new(&u) }).collect()
}

// ---------------------------------------------------------------------------------------------

fn thread_scratch(base: &Path) -> PathBuf {
	match rayon::current_thread_index() {
		Some(i) => base.join(format!("t{i}")),
		None => base.join("main"),
	}
}

fn main() {
	let ctx: &'static Ctx = Box::leak(Box::new(Ctx::new("C12", "exploration")));
	self_check();
	let base = scratch_base();
	if let Some(path) = ctx.replay.clone() {
		replay(ctx, &path, &base);
	}
	let unis = universes(ctx.tier);
	let mut total = Stats::new();
	let mut per_universe: Vec<Value> = Vec::new();
	for u in &unis {
		let n = u.space.len();
		let st = (0..n).into_par_iter().fold(Stats::new, |mut st, idx| {
			let set = u.space.nth(idx);
			let scratch = thread_scratch(&base);
			vcore::watched(|| format!("universe={}\nindex={}\n", u.label, idx), || run_case(ctx, &u.label, idx, &set, &scratch, &mut st));
			st
		}).reduce(Stats::new, Stats::merge);
		per_universe.push(json!({"universe": u.label, "sets": n, "in_domain": st.get("in-domain"), "outside_domain": st.get("outside-domain"), "classes": u.space.keys}));
		total = total.merge(st);
	}
	let _ = std::fs::remove_dir_all(&base);

	let in_domain = total.get("in-domain");
	ctx.floor("universes, each enumerated completely", 10, unis.len() as u64);
	ctx.floor("sets of the domain", 10_000, in_domain);
	ctx.floor("sets with nesting depth >= 2", 200, total.get("sets with nesting depth >= 2"));
	ctx.floor("sets with nesting depth >= 3", 20, total.get("sets with nesting depth >= 3"));
	ctx.floor("sets with an orphan inner class", 50, total.get("sets with an orphan inner class"));
	ctx.floor("sets with a class without target name", 100, total.get("sets with a class without target name"));
	ctx.floor("sets with a comment with a blank line", 100, total.get("sets with a comment with a blank line"));
	ctx.floor("sets with a comment line with leading space", 100, total.get("sets with a comment line with leading space"));
	ctx.floor("sets with a # in a comment", 100, total.get("sets with a # in a comment"));
	ctx.floor("sets with a parameter comment", 100, total.get("sets with a parameter comment"));
	ctx.floor("sets with two top-level classes of equal file name", 1, total.get("sets with two top-level classes of equal file name"));
	ctx.floor("directory cases with >= 2 files", 100, total.get("directory cases with >= 2 files"));
	ctx.floor("directory cases with a package directory", 100, total.get("directory cases with a package directory"));
	ctx.floor("directory cases with a package directory of depth 3", 10, total.get("directory cases with a package directory of depth 3"));
	ctx.floor("sets outside the domain explored for no panic", 100, total.get("outside-domain"));
	ctx.floor("sets on which every stream check held", 5_000, total.get("stream: round trip, text and order independence hold"));
	ctx.floor("sets on which every directory check held", 5_000, total.get("directory: round trip, text, one file per top-level class and order independence hold"));

	let coverage = json!({
		"evaluations": total.evaluations,
		"real_calls": total.get("real calls"),
		"distinct_nontrivial": total.distinct.len(),
		"rule": "one evaluation = one mapping set of a universe (every universe enumerated completely), built as a real quill Mappings in each insertion order and run through write_all→read_into and enigma_dir::write→enigma_dir::read on tmpfs, compared with the set itself and with an independent reference reading of the written text; distinct_nontrivial = distinct write_all texts of non-empty sets of the domain; real_calls = calls of write_all / read_into / enigma_dir::write / enigma_dir::read",
		"exhaustive": true,
		"samples": total.samples,
		"outcomes": total.outcomes,
		"bounds": {
			"namespaces": NS,
			"universes": per_universe,
			"insertion_orders": orders(ctx.tier).iter().map(|o| format!("{o:?}")).collect::<Vec<_>>(),
			"comment_alphabet": COMMENTS,
			"nesting_depth_max": 3,
			"package_depth": [0, 1, 2, 3],
			"outside_domain_no_panic_only": [EX_NEST, EX_NEST_OPEN, EX_ROOT_NESTED_TARGET, EX_CTOR, EX_PARAM_SRC, EX_PARAM_UNNAMED, EX_COMMENT_WS],
			"outside_domain_comments": ODD_COMMENTS,
			"constructors": "<init> named <init> is compared as <init> without name",
			"file_name_collisions": "two top-level classes whose target names (source name when unnamed) are equal: refusing to write is accepted, losing a class silently is not",
			"sorted": "checked as: identical bytes / identical files for every insertion order; no particular sort key is demanded",
		},
	});
	ctx.finish(coverage, &[
		"names containing white space, '#' or '$' other than as the inner-class separator are outside the alphabet",
		"the directory is fresh and exists before enigma_dir::write is called; stale files of earlier writes are not explored",
		"the file system is case sensitive (tmpfs); class names differing only in case are not generated",
		"the reference reader in this file is the independent reading of the Enigma text (self-checked against a hand-written sample at start)",
		"insertion orders explored per level: sorted, reversed, rotated (all levels use the same order)",
	]);
}

fn replay(ctx: &'static Ctx, path: &Path, base: &Path) -> ! {
	let body = vcore::replay_body(path);
	let get = |name: &str| -> String {
		body.lines().find_map(|l| l.strip_prefix(name)).unwrap_or_else(|| vcore::machinery_fail(&format!("replay file has no {name} line"))).trim().to_owned()
	};
	let label = get("universe=");
	let idx: u64 = get("index=").parse().unwrap_or_else(|_| vcore::machinery_fail("bad index"));
	let u = [vcore::Tier::Quick, vcore::Tier::Thorough].into_iter().flat_map(universes).find(|u| u.label == label).unwrap_or_else(|| vcore::machinery_fail("unknown universe"));
	if idx >= u.space.len() {
		vcore::machinery_fail("index outside the universe");
	}
	let set = u.space.nth(idx);
	let scratch = thread_scratch(base);
	let mut st = Stats::new();
	run_case(ctx, &u.label, idx, &set, &scratch, &mut st);
	// determinism of the real code on this case: two more observations must agree byte for byte
	let a = real_write_stream(&set, Order::Sorted);
	let b = real_write_stream(&set, Order::Sorted);
	if a != b {
		vcore::machinery_fail("replay is not deterministic");
	}
	println!("{}", tiny::print_with(&set, &tiny::escape));
	if let Ok(Ok(t)) = &a {
		println!("---- write_all ----\n{}", String::from_utf8_lossy(t));
	}
	let _ = std::fs::remove_dir_all(base);
	ctx.finish(json!({"evaluations": 1, "distinct_nontrivial": 1, "rule": "replay of one case", "samples": ["replay"], "outcomes": st.outcomes}), &[]);
}
