//! C12, second extension pass: the environment answers differently.
//!
//! * `stream_env_case`: `read_into`, `write_all` and `write_one` take any `Read` / `Write`. A mapping text is the same
//!   text through whichever legal reader it arrives (requests served short: chunk sizes, `BufReader` capacities, one
//!   boundary at every byte offset — so also inside every multi-byte character —, periodic boundaries, `Interrupted`)
//!   and whichever legal writer it leaves through (partial accepts, `Interrupted`, `BufWriter`s, a slice of exactly the
//!   size); a writer that fails after any prefix must make the call return an error. The scripted readers and writers
//!   are those of `c20/io.rs` (self-tested at start).
//! * `dir_env_case`: `enigma_dir::write` / `read` meet a file system: a target directory that does not exist yet, a
//!   device without space behind the file to be created (a symbolic link to /dev/full), a directory where the file
//!   should be, a file where a package directory should be, files of other kinds next to the mapping files.
//!   An error is always accepted; success must be followed by reading back the set.
//! * `beyond_case`: chains nested deeper than the reader's bound: refusal or round trip, no panic.
//! * `refusal_case`: the reader on text that is not the writer's (see `more::refusal_texts`): no panic.

use super::*;

fn read_through(kind: io::ReaderKind, text: &[u8]) -> (Guarded<ReadOut>, io::ReadTrace) {
	io::with_reader(kind, text, |mut r| {
		vcore::guard(|| {
			let mut m: Mappings<2, ()> = Mappings::from_namespaces(NS).unwrap_or_else(|e| vcore::machinery_fail(&format!("{e}")));
			match quill::enigma_file::read_into(&mut r, &mut m) {
				Err(e) => ReadOut::Refused(format!("{e:#}")),
				Ok(()) => match mapmodel::from_quill(&m) {
					Ok(s) => ReadOut::Set(s),
					Err(k) => ReadOut::KeyBroken(k.0),
				},
			}
		})
	})
}

fn reader_alphabet(len: usize, text: &[u8]) -> Vec<io::ReaderKind> {
	use io::ReaderKind as K;
	let mut v = vec![K::Slice, K::CursorVec];
	v.extend([1, 2, 3, 5, 8, 13].map(K::Chunk));
	v.extend([1, 2, 3, 4, 7, 8, 16, 64].map(K::Buf));
	v.extend([1, 4, 16].map(K::BufOverChunk3));
	v.extend([1, 4].map(K::Interrupted));
	for period in [2usize, 3, 4, 5, 7, 8, 16, 61] {
		for phase in 0..period.min(4) {
			v.push(K::Periodic { period, phase });
		}
	}
	// one boundary: at every byte offset of a small text; of a larger one at a grid, around every multiple of 4 KiB,
	// and inside the first 40 multi-byte characters after each of these multiples
	if len <= SMALL_TEXT {
		v.extend((1..len).map(K::SplitAt));
	} else {
		let mut at: BTreeSet<usize> = (1..len).step_by(len / 257 + 1).collect();
		for base in (4096..len).step_by(4096) {
			at.extend(base.saturating_sub(4)..(base + 5).min(len));
			at.extend((base..len).filter(|i| text[*i] & 0xC0 == 0x80).take(40));
		}
		v.extend(at.into_iter().map(K::SplitAt));
	}
	v
}

const SMALL_TEXT: usize = 3000;

fn writer_alphabet(len: usize) -> Vec<io::WriterKind> {
	use io::WriterKind as K;
	let mut v = vec![K::CursorVec, K::ExactSlice];
	v.extend([1, 2, 3, 7].map(K::Chunk));
	v.extend([1, 5].map(K::Interrupted));
	v.extend([1, 3, 8, 64].map(K::Buf));
	let step = if len <= SMALL_TEXT { 1 } else { len / 101 + 1 };
	v.extend((1..len).step_by(step).map(K::SplitAt));
	v
}

type Written = Guarded<Result<(), String>>;

/// the real writer `f` through a writer of `kind`: its result, the bytes that arrived
fn write_through(kind: io::WriterKind, announced: usize, f: &dyn Fn(&mut dyn std::io::Write) -> anyhow::Result<()>) -> (Written, Vec<u8>, io::WriteTrace) {
	let mut res: Option<Written> = None;
	let (outer, bytes, trace) = io::with_writer(kind, announced, |w| {
		res = Some(vcore::guard(|| f(w).map_err(|e| format!("{e:#}"))));
		Ok(())
	});
	let mut res = res.unwrap_or_else(|| vcore::machinery_fail("writer closure not called"));
	// (a BufWriter's last flush happens after the call; its error belongs to the call's environment, not to the result)
	if let (Ok(Ok(())), Err(e)) = (&res, &outer) {
		res = Ok(Err(format!("{e}")));
	}
	(res, bytes, trace)
}

#[derive(Default, Clone, Copy)]
pub(crate) struct EnvTotals {
	pub short_serves: u64,
	pub interrupts: u64,
	pub short_accepts: u64,
}

impl EnvTotals {
	pub(crate) fn add(&mut self, o: &EnvTotals) {
		self.short_serves += o.short_serves;
		self.interrupts += o.interrupts;
		self.short_accepts += o.short_accepts;
	}
}

/// one set through the whole I/O alphabet
pub(crate) fn stream_env_case(ctx: &Ctx, space: &str, idx: u64, label: &str, set: &MSet, st: &mut Stats, tot: &mut EnvTotals) {
	st.eval();
	let head = || format!("space={space}\ncase={idx}\n({label})\n");
	let q = &build(set, Ins::SORTED);
	let reference = match vcore::guard(|| {
		let mut v = Vec::new();
		quill::enigma_file::write_all(q, &mut v).map(|_| v).map_err(|e| format!("{e:#}"))
	}) {
		Ok(Ok(v)) => v,
		other => {
			ctx.diff("stream-env:reference-write-failed", &format!("write_all into a Vec failed on a set of the domain: {other:?}"), head);
			return;
		},
	};
	st.outcome("real calls");
	let expected = normalise(set);
	let len = reference.len();
	if len > 8192 {
		st.outcome("stream-env: texts larger than 8 KiB");
		if (8192..len).step_by(8192).any(|i| reference[i] & 0xC0 == 0x80) {
			st.outcome("stream-env: texts with a multi-byte character across a multiple of 8 KiB");
		}
	}
	if len > 65536 {
		st.outcome("stream-env: texts larger than 64 KiB");
	}

	// ---- readers ----
	for kind in reader_alphabet(len, &reference) {
		let fam = kind.family();
		let rp = || format!("{}reader={kind:?}\n---- text ----\n{}", head(), String::from_utf8_lossy(&reference[..len.min(4000)]));
		let (res, trace) = read_through(kind, &reference);
		st.outcome("real calls");
		st.outcome("stream-env: reads");
		tot.short_serves += trace.short_serves;
		tot.interrupts += trace.interrupts;
		if let io::ReaderKind::SplitAt(p) = kind {
			if reference[p] & 0xC0 == 0x80 {
				st.outcome("stream-env: reads with the one boundary inside a multi-byte character");
			}
		}
		match res {
			Err(p) => ctx.diff(&format!("stream-env:read:{fam}-reader:panic"), &format!("read_into panicked at {} through {kind:?}: {}", p.site, p.msg), rp),
			Ok(ReadOut::Set(s)) if s == expected => st.outcome("stream-env: read gives the set"),
			Ok(ReadOut::Set(s)) => {
				let d = mapmodel::first_difference(&expected, &s).map(|(_, w)| w).unwrap_or_default();
				ctx.diff(&format!("stream-env:read:{fam}-reader:differs"), &format!("through {kind:?} read_into gives another set than the one written: {d}"), rp);
			},
			Ok(ReadOut::Refused(e)) => ctx.diff(&format!("stream-env:read:{fam}-reader:refused"), &format!("through {kind:?} read_into refuses the text write_all wrote: {e}"), rp),
			Ok(ReadOut::KeyBroken(k)) => ctx.diff(&format!("stream-env:read:{fam}-reader:key-invariant"), &k, rp),
		}
	}

	// ---- writers ----
	let roots: Vec<String> = expected.classes.keys().filter(|k| tree_root(&expected, k) == k.as_str()).map(|k| file_name_of(&expected, k)).collect();
	let mut jobs: Vec<(String, Vec<u8>, Box<dyn Fn(&mut dyn std::io::Write) -> anyhow::Result<()> + '_>, bool)> = Vec::new();
	jobs.push(("write_all".to_owned(), reference.clone(), Box::new(move |mut w| quill::enigma_file::write_all(q, &mut w)), true));
	for name in &roots {
		let bytes = match vcore::guard(|| {
			let mut v = Vec::new();
			quill::enigma_file::write_one(q, name, &mut v).map(|_| v).map_err(|e| format!("{e:#}"))
		}) {
			Ok(Ok(v)) => v,
			_ => continue, // reported by the main sweep
		};
		st.outcome("real calls");
		jobs.push((format!("write_one({name:?})"), bytes, Box::new(move |mut w| quill::enigma_file::write_one(q, name, &mut w)), false));
	}
	for (what, want, f, full) in &jobs {
		let wlen = want.len();
		let rp = |extra: String| format!("{}call={what}\n{extra}\n---- text into a Vec ----\n{}", head(), String::from_utf8_lossy(&want[..wlen.min(4000)]));
		let kinds = if *full { writer_alphabet(wlen) } else { vec![io::WriterKind::Chunk(1), io::WriterKind::Interrupted(3), io::WriterKind::Buf(5), io::WriterKind::ExactSlice] };
		for kind in kinds {
			let fam = kind.family();
			let (res, bytes, trace) = write_through(kind, wlen, f.as_ref());
			st.outcome("real calls");
			st.outcome("stream-env: writes");
			tot.short_accepts += trace.short_accepts;
			tot.interrupts += trace.interrupts;
			match res {
				Err(p) => ctx.diff(&format!("stream-env:write:{fam}-writer:panic"), &format!("{what} panicked at {} through {kind:?}: {}", p.site, p.msg), || rp(format!("writer={kind:?}"))),
				Ok(Err(e)) => ctx.diff(&format!("stream-env:write:{fam}-writer:refused"), &format!("{what} fails through {kind:?}, a writer that accepts everything in the end: {e}"), || rp(format!("writer={kind:?}"))),
				Ok(Ok(())) if bytes == *want => st.outcome("stream-env: write delivers the same bytes"),
				Ok(Ok(())) => {
					let at = bytes.iter().zip(want.iter()).position(|(a, b)| a != b).unwrap_or(bytes.len().min(wlen));
					ctx.diff(&format!("stream-env:write:{fam}-writer:bytes-lost"), &format!("{what} reports success through {kind:?}, but {} of {wlen} bytes arrived (first difference at byte {at})", bytes.len()), || rp(format!("writer={kind:?}")));
				},
			}
		}
		// a writer that fails after `limit` bytes: the call must report an error
		let limits: Vec<usize> = if *full && wlen <= SMALL_TEXT { (0..wlen).collect() } else { (0..wlen).step_by(wlen / 61 + 1).chain([wlen.saturating_sub(1)]).collect() };
		for limit in limits {
			let mut res: Option<Written> = None;
			let (_, arrived) = io::with_failing_writer(limit, |w| {
				res = Some(vcore::guard(|| f(w).map_err(|e| format!("{e:#}"))));
				Ok(())
			});
			st.outcome("real calls");
			match res {
				Some(Err(p)) => ctx.diff("stream-env:write:failing-writer:panic", &format!("{what} panicked at {} when its writer failed after {limit} bytes: {}", p.site, p.msg), || rp(format!("writer=fails after {limit} bytes"))),
				Some(Ok(Err(_))) => st.outcome("stream-env: failing writer: error reported"),
				Some(Ok(Ok(()))) => ctx.diff("stream-env:write:failing-writer:error-swallowed", &format!("{what} reports success although its writer failed after {limit} of {wlen} bytes ({arrived} arrived)"), || rp(format!("writer=fails after {limit} bytes"))),
				None => vcore::machinery_fail("writer closure not called"),
			}
		}
		// a slice one byte too small
		let mut res: Option<Written> = None;
		let _ = io::with_short_slice(wlen, 1, |w| {
			res = Some(vcore::guard(|| f(w).map_err(|e| format!("{e:#}"))));
			Ok(())
		});
		st.outcome("real calls");
		match res {
			Some(Err(p)) => ctx.diff("stream-env:write:short-slice:panic", &format!("{what} panicked at {} into a slice one byte too small: {}", p.site, p.msg), || rp("writer=slice one byte too small".into())),
			Some(Ok(Err(_))) => st.outcome("stream-env: slice one byte too small: error reported"),
			Some(Ok(Ok(()))) => ctx.diff("stream-env:write:short-slice:error-swallowed", &format!("{what} reports success into a slice one byte smaller than its text"), || rp("writer=slice one byte too small".into())),
			None => vcore::machinery_fail("writer closure not called"),
		}
	}
	st.sample("stream-env", || json!({"kind": "set through the I/O alphabet", "set": label, "text_bytes": len, "readers": reader_alphabet(len, &reference).len(), "writers": writer_alphabet(len).len()}));
}

// ---------------------------------------------------------------------------------------------

pub(crate) fn dev_full_usable() -> bool {
	use std::io::Write;
	match std::fs::OpenOptions::new().write(true).open("/dev/full") {
		Ok(mut f) => f.write_all(b"x").is_err(),
		Err(_) => false,
	}
}

/// one set against a file system that is not an empty, existing directory
pub(crate) fn dir_env_case(ctx: &Ctx, space: &str, idx: u64, label: &str, set: &MSet, scratch: &Path, st: &mut Stats) {
	st.eval();
	let head = || format!("space={space}\ncase={idx}\n({label})\nthe set (Tiny v2 rendering, for reading only):\n{}", tiny::print_with(set, &tiny::escape));
	let expected = normalise(set);
	let dev_full = dev_full_usable();
	let base = scratch.join("env");
	fresh_dir(&base);
	let plain = base.join("plain");
	fresh_dir(&plain);
	st.outcome("real calls");
	let files: Vec<String> = match real_write_dir(set, Ins::SORTED, &plain) {
		Ok(Ok(())) => list_files(&plain).into_keys().collect(),
		_ => {
			let _ = std::fs::remove_dir_all(&base);
			return; // reported by the main sweep
		},
	};
	// after a successful write into `dir`, reading must give the set
	let judge_back = |site: &str, dir: &Path, st: &mut Stats| {
		st.outcome("real calls");
		match real_read_dir(dir) {
			Err(p) => ctx.diff(&format!("panic@{}", p.file()), &format!("{site}: enigma_dir::read panicked at {}: {}", p.site, p.msg), head),
			Ok(ReadOut::Set(s)) if s == expected => st.outcome(&format!("{site}: written and read back")),
			Ok(ReadOut::Set(s)) => {
				let d = mapmodel::first_difference(&expected, &s).map(|(_, w)| w).unwrap_or_default();
				ctx.diff(&format!("{site}:silently-wrong"), &format!("{site}: enigma_dir::write reported success, reading gives another set: {d}"), head);
			},
			Ok(ReadOut::Refused(e)) => ctx.diff(&format!("{site}:silently-wrong"), &format!("{site}: enigma_dir::write reported success, reading fails: {e}"), head),
			Ok(ReadOut::KeyBroken(k)) => ctx.diff(&format!("{site}:key-invariant"), &k, head),
		}
	};
	let write_then = |site: &str, dir: &Path, st: &mut Stats, must_fail: Option<&str>| {
		st.outcome("real calls");
		st.outcome(&format!("{site}: cases"));
		match real_write_dir(set, Ins::SORTED, dir) {
			Err(p) => ctx.diff(&format!("panic@{}", p.file()), &format!("{site}: enigma_dir::write panicked at {}: {}", p.site, p.msg), head),
			Ok(Err(_)) => st.outcome(&format!("{site}: write refused (accepted)")),
			Ok(Ok(())) => match must_fail {
				Some(why) => ctx.diff(&format!("{site}:error-swallowed"), &format!("{site}: enigma_dir::write reported success although {why}"), head),
				None => judge_back(site, dir, st),
			},
		}
	};

	// the target directory (and its parent) do not exist yet
	if !files.is_empty() {
		write_then("dir-env:fresh-path", &base.join("not").join("yet").join("there"), st, None);
	}
	for f in &files {
		let prepare = |name: &str| -> PathBuf {
			let d = base.join(name);
			fresh_dir(&d);
			if let Some(parent) = d.join(f).parent() {
				std::fs::create_dir_all(parent).unwrap_or_else(|e| vcore::machinery_fail(&format!("dir-env: {e}")));
			}
			d
		};
		// nothing can be stored behind the file: the write cannot have succeeded
		if dev_full {
			let d = prepare("full");
			std::os::unix::fs::symlink("/dev/full", d.join(f)).unwrap_or_else(|e| vcore::machinery_fail(&format!("dir-env: symlink: {e}")));
			write_then("dir-env:no-space-behind-file", &d, st, Some(&format!("the file {f:?} is a symbolic link to /dev/full, which stores nothing")));
			let _ = std::fs::remove_file(d.join(f));
		}
		// a directory is where the file should be
		let d = prepare("dir");
		std::fs::create_dir_all(d.join(f)).unwrap_or_else(|e| vcore::machinery_fail(&format!("dir-env: {e}")));
		write_then("dir-env:directory-in-the-way", &d, st, None);
	}
	// a file is where a package directory should be
	let firsts: BTreeSet<&str> = files.iter().filter_map(|f| f.split_once('/').map(|(p, _)| p)).collect();
	for p in firsts {
		let d = base.join("file");
		fresh_dir(&d);
		std::fs::write(d.join(p), b"not a directory").unwrap_or_else(|e| vcore::machinery_fail(&format!("dir-env: {e}")));
		write_then("dir-env:file-in-the-way", &d, st, None);
	}
	// files of other kinds next to the mapping files: what reading does with them is not stated; no panic
	if !files.is_empty() {
		let sub = files.iter().filter_map(|f| f.rsplit_once('/').map(|(p, _)| p.to_owned())).next().unwrap_or_default();
		let put = |rel: String, bytes: &[u8]| std::fs::write(plain.join(rel), bytes).unwrap_or_else(|e| vcore::machinery_fail(&format!("dir-env: {e}")));
		put("README.md".into(), b"CLASS not/a/Mapping\n");
		put("x.mapping.bak".into(), b"\tgarbage\n");
		put(".mapping".into(), b"");
		put(if sub.is_empty() { "notes.txt".into() } else { format!("{sub}/notes.txt") }, "caf\u{e9}\n".as_bytes());
		std::fs::create_dir_all(plain.join("empty.mapping")).unwrap_or_else(|e| vcore::machinery_fail(&format!("dir-env: {e}")));
		st.outcome("real calls");
		match real_read_dir(&plain) {
			Err(p) => ctx.diff(&format!("panic@{}", p.file()), &format!("dir-env:strangers: enigma_dir::read panicked at {}: {}", p.site, p.msg), head),
			Ok(ReadOut::Set(s)) if s == expected => st.outcome("dir-env:strangers: read gives the set"),
			Ok(ReadOut::Set(_)) => st.outcome("dir-env:strangers: read gives another set (not stated)"),
			Ok(_) => st.outcome("dir-env:strangers: read refused (not stated)"),
		}
	}
	// a path that does not exist
	st.outcome("real calls");
	if let Err(p) = real_read_dir(&base.join("nowhere")) {
		ctx.diff(&format!("panic@{}", p.file()), &format!("dir-env: enigma_dir::read of a path that does not exist panicked at {}: {}", p.site, p.msg), head);
	}
	let _ = std::fs::remove_dir_all(&base);
}

// ---------------------------------------------------------------------------------------------

/// a chain deeper than the reader reads: every outcome but a panic and a silently different set is accepted
pub(crate) fn beyond_case(ctx: &Ctx, space: &str, idx: u64, label: &str, set: &MSet, scratch: &Path, st: &mut Stats) {
	st.eval();
	let head = || format!("space={space}\ncase={idx}\n({label})\n");
	let expected = normalise(set);
	let judge = |site: &str, r: Guarded<ReadOut>, st: &mut Stats| match r {
		Err(p) => ctx.diff(&format!("panic@{}", p.file()), &format!("{site}: panic at {}: {}", p.site, p.msg), head),
		Ok(ReadOut::Set(s)) if s == expected => st.outcome("beyond-bound: round trip holds"),
		Ok(ReadOut::Set(s)) => ctx.diff(&format!("{site}:silently-wrong"), &format!("{site}: a chain deeper than the reader's bound comes back as another set without an error ({} of {} classes)", s.classes.len(), expected.classes.len()), head),
		Ok(ReadOut::Refused(_)) => st.outcome("beyond-bound: read refused (accepted)"),
		Ok(ReadOut::KeyBroken(k)) => ctx.diff(&format!("{site}:key-invariant"), &k, head),
	};
	st.outcome("real calls");
	match real_write_stream(set, Ins::SORTED) {
		Err(p) => ctx.diff(&format!("panic@{}", p.file()), &format!("beyond-bound stream write: panic at {}: {}", p.site, p.msg), head),
		Ok(Err(_)) => st.outcome("beyond-bound: write refused (accepted)"),
		Ok(Ok(text)) => {
			st.outcome("real calls");
			judge("beyond-bound:stream", real_read_stream(&text), st);
		},
	}
	let d = scratch.join("beyond");
	fresh_dir(&d);
	st.outcome("real calls");
	match real_write_dir(set, Ins::both(Order::Reversed), &d) {
		Err(p) => ctx.diff(&format!("panic@{}", p.file()), &format!("beyond-bound directory write: panic at {}: {}", p.site, p.msg), head),
		Ok(Err(_)) => st.outcome("beyond-bound: write refused (accepted)"),
		Ok(Ok(())) => {
			st.outcome("real calls");
			judge("beyond-bound:dir", real_read_dir(&d), st);
		},
	}
	let _ = std::fs::remove_dir_all(&d);
}

/// the reader on the texts around one slot text
pub(crate) fn refusal_case(ctx: &Ctx, space: &str, idx: u64, label: &str, slot: &str, st: &mut Stats) {
	st.eval();
	for (n, (class, text)) in more::refusal_texts(slot).into_iter().chain(more::tolerated_texts(slot)).enumerate() {
		st.outcome("real calls");
		match real_read_stream(&text) {
			Err(p) => ctx.diff(&format!("panic@{}", p.file()), &format!("read_into panicked at {} on a text it should refuse ({class}): {}", p.site, p.msg), || {
				format!("space={space}\ncase={idx}\n({label}; text {n}, {class})\n---- text ----\n{}", String::from_utf8_lossy(&text))
			}),
			Ok(ReadOut::Refused(_)) => st.outcome(&format!("refusals: {class}: refused")),
			Ok(_) => st.outcome(&format!("refusals: {class}: read")),
		}
	}
}

// ---------------------------------------------------------------------------------------------

/// Names with an unpaired surrogate (legal in class files, not expressible in UTF-8 text): built directly as quill
/// objects, one slot at a time. Outside what the format can express: no panic, nothing else.
pub(crate) const SURROGATE_SLOTS: [&str; 9] = [
	"top-level source name", "top-level target name", "inner source name", "inner target name", "field name", "field target name",
	"method target name", "parameter name", "package of the target name",
];

pub(crate) const KEY_SURROGATE: &str = "unpaired-surrogate-in-name:writer-panics-instead-of-refusing";

pub(crate) fn surrogate_case(ctx: &Ctx, space: &str, idx: u64, scratch: &Path, st: &mut Stats) {
	use java_string::JavaString;
	use duke::tree::class::ObjClassName;
	use duke::tree::field::{FieldDescriptor, FieldName, FieldNameAndDesc};
	use duke::tree::method::{MethodDescriptor, MethodName, MethodNameAndDesc};
	use quill::tree::mappings::{ClassMapping, ClassNowodeMapping, FieldMapping, FieldNowodeMapping, MethodMapping, MethodNowodeMapping, ParameterKey, ParameterMapping, ParameterNowodeMapping};
	use quill::tree::names::Names;
	use quill::tree::NodeInfo;
	st.eval();
	st.outcome("surrogates: cases");
	let slot = SURROGATE_SLOTS[idx as usize / 2];
	let head = || format!("space={space}\ncase={idx}\n(unpaired surrogate U+D800 / U+DFFF in the {slot})\n");
	// `text` with `?` replaced by the unpaired surrogate (high at even, low at odd cases) when this is the slot
	let name = |text: &str, this: &str| -> JavaString {
		let sur: &[u8] = if idx % 2 == 0 { &[0xED, 0xA0, 0x80] } else { &[0xED, 0xBF, 0xBF] };
		let mut bytes = Vec::new();
		for b in text.bytes() {
			if b == b'?' {
				if this == slot {
					bytes.extend_from_slice(sur);
				}
			} else {
				bytes.push(b);
			}
		}
		JavaString::from_semi_utf8(bytes).unwrap_or_else(|_| vcore::machinery_fail("surrogates: not semi-UTF-8"))
	};
	let fail = |e: anyhow::Error| -> ! { vcore::machinery_fail(&format!("surrogates: quill refuses the name: {e:#}")) };
	let built = vcore::guard(|| -> anyhow::Result<Mappings<2, ()>> {
		let mut q: Mappings<2, ()> = Mappings::from_namespaces(NS)?;
		let mut target = name("q?", "package of the target name");
		target.push('/');
		target.push_java_str(&name("X?", "top-level target name"));
		let top_src: ObjClassName = name("p/A?", "top-level source name").try_into()?;
		let mut top = ClassNowodeMapping::new(ClassMapping { names: Names::try_from([Some(top_src.clone()), Some(target.try_into()?)])? });
		let f_name: FieldName = name("f?", "field name").try_into()?;
		let f_desc: FieldDescriptor = JavaString::from("I").try_into()?;
		let f = FieldNowodeMapping::new(FieldMapping { desc: f_desc.clone(), names: Names::try_from([Some(f_name.clone()), Some(name("g?", "field target name").try_into()?)])? });
		top.fields.insert(FieldNameAndDesc { name: f_name, desc: f_desc }, f);
		let m_name: MethodName = JavaString::from("m").try_into()?;
		let m_desc: MethodDescriptor = JavaString::from("(I)V").try_into()?;
		let mut m = MethodNowodeMapping::new(MethodMapping { desc: m_desc.clone(), names: Names::try_from([Some(m_name.clone()), Some(name("n?", "method target name").try_into()?)])? });
		m.parameters.insert(ParameterKey { index: 0 }, ParameterNowodeMapping::new(ParameterMapping { index: 0, names: [None, Some(name("a?", "parameter name").try_into()?)].try_into()? }));
		top.methods.insert(MethodNameAndDesc { name: m_name, desc: m_desc }, m);
		q.classes.insert(top_src, top);
		let inner_src: ObjClassName = name("p/A$B?", "inner source name").try_into()?;
		let inner = ClassNowodeMapping::new(ClassMapping { names: Names::try_from([Some(inner_src.clone()), Some(name("q/X$Y?", "inner target name").try_into()?)])? });
		q.classes.insert(inner_src, inner);
		Ok(q)
	});
	// a name that cannot be formatted makes `write!` on an `io::Write` panic (the formatting fails, the stream did not)
	let writer_panic = |site: &str, p: &vcore::Panic, st: &mut Stats| {
		if p.msg.contains("formatting trait implementation returned an error") {
			st.outcome(&format!("surrogates: {slot}: {site} panics"));
			ctx.diff(KEY_SURROGATE, &format!("surrogates: {site} panicked at {} on mappings with an unpaired surrogate in the {slot}: {}", p.site, p.msg), head);
		} else {
			ctx.diff(&format!("panic@{}", p.file()), &format!("surrogates: {site} panicked at {}: {}", p.site, p.msg), head);
		}
	};
	let q = match built {
		Ok(Ok(q)) => q,
		Ok(Err(e)) => fail(e),
		Err(p) => {
			ctx.diff(&format!("panic@{}", p.file()), &format!("surrogates: building the mappings panicked at {}: {}", p.site, p.msg), head);
			return;
		},
	};
	st.outcome("real calls");
	match vcore::guard(|| {
		let mut v = Vec::new();
		quill::enigma_file::write_all(&q, &mut v).map(|_| v).map_err(|e| format!("{e:#}"))
	}) {
		Err(p) => writer_panic("write_all", &p, st),
		Ok(Err(_)) => st.outcome("surrogates: write refused"),
		Ok(Ok(text)) => {
			st.outcome("surrogates: written");
			st.outcome("real calls");
			if let Err(p) = real_read_stream(&text) {
				ctx.diff(&format!("panic@{}", p.file()), &format!("surrogates: read_into panicked at {} on what write_all wrote: {}", p.site, p.msg), head);
			}
		},
	}
	for n in ["q/X", "p/A", "q/X$Y"] {
		st.outcome("real calls");
		if let Err(p) = vcore::guard(|| {
			let mut v = Vec::new();
			let _ = quill::enigma_file::write_one(&q, n, &mut v);
		}) {
			writer_panic("write_one", &p, st);
		}
	}
	let d = scratch.join("sur");
	fresh_dir(&d);
	st.outcome("real calls");
	match vcore::guard(|| quill::enigma_dir::write(&q, &d).map_err(|e| format!("{e:#}"))) {
		Err(p) => writer_panic("enigma_dir::write", &p, st),
		Ok(Err(_)) => st.outcome("surrogates: write refused"),
		Ok(Ok(())) => {
			st.outcome("surrogates: written");
			st.outcome("real calls");
			if let Err(p) = real_read_dir(&d) {
				ctx.diff(&format!("panic@{}", p.file()), &format!("surrogates: enigma_dir::read panicked at {}: {}", p.site, p.msg), head);
			}
		},
	}
	let _ = std::fs::remove_dir_all(&d);
}
