//! C12, second extension pass: listed sets that no small product reaches and hand-written texts for the reader's
//! refusal paths.
//!
//! * `long_text_sets`: every text slot of the format (package, class, nested class, field, method, parameter names on
//!   both sides, descriptors, comment lines) filled with `k` ASCII letters and one character of 1, 2, 3 or 4 UTF-8
//!   bytes (among them characters that are white space for Unicode but plain text for the format) at the first,
//!   second or last position, for every `k` up to 140 — in an accepting situation (the set is of the domain and must
//!   round-trip), and in two refusing ones (two top-level classes with the same long target name: the writer may
//!   refuse, quoting the names; a parameter without name: the writer refuses, quoting class, method and parameter).
//! * `refusal_texts`: texts the reader has to refuse (or may accept), built around the same slot texts: unknown keywords
//!   at every level, wrong numbers of columns, indices that are no numbers, indentation without parent, duplicates,
//!   invalid names and descriptors, text that is no UTF-8. Outside the writer's output, so: no panic, no hang.
//! * `name_length_sets`, `deep_package_sets`: file names of exactly NAME_MAX bytes and beyond, packages 16..100 deep.
//! * `beyond_bound_sets`: chains nested deeper than the reader's bound.

use super::*;

/// what a text slot holds besides ASCII letters: 1, 2, 2, 3, 3, 4 UTF-8 bytes; NO-BREAK SPACE and EM SPACE are
/// white space for Unicode and plain text for the format (its separators are SP HT LF VT FF CR)
pub(crate) const SLOT_CHARS: [char; 6] = ['x', '\u{e9}', '\u{a0}', '\u{20ac}', '\u{2003}', '\u{1f600}'];
pub(crate) const SLOT_K_MAX: usize = 140;

#[derive(Clone, Copy, Debug, PartialEq, Eq)]
pub(crate) enum Pos {
	First,
	Second,
	Last,
}

pub(crate) const POSITIONS: [Pos; 3] = [Pos::First, Pos::Second, Pos::Last];

/// `k` copies of `fill` with `ch` at the first, second or last position (`k + 1` characters)
pub(crate) fn slot_text(fill: char, k: usize, ch: char, pos: Pos) -> String {
	let at = match pos {
		Pos::First => 0,
		Pos::Second => 1.min(k),
		Pos::Last => k,
	};
	let mut s = String::new();
	for i in 0..=k {
		s.push(if i == at { ch } else { fill });
	}
	s
}

fn names(key: &str, target: Option<String>) -> Row {
	vec![Some(key.to_owned()), target]
}

/// `variant` 0: a set of the domain; 1: plus a second top-level class with the same target name (a file-name
/// collision); 2: plus a parameter without name (outside the domain: the writer refuses)
pub(crate) fn long_text_set(k: usize, ch: char, pos: Pos, variant: usize) -> MSet {
	let t = |fill: char| slot_text(fill, k, ch, pos);
	let other = match pos {
		Pos::First => Pos::Last,
		_ => Pos::First,
	};
	let mut set = MSet::new(&NS);
	let cls_s = format!("{}/{}", t('q'), t('a'));
	let cls_t = format!("{}/{}", t('r'), t('b'));
	let mut top = MClass { names: names(&cls_s, Some(cls_t.clone())), doc: Some(format!("{}\n{}", t('h'), slot_text('i', k, ch, other))), ..Default::default() };
	top.fields.insert((t('f'), format!("L{cls_s};")), MField { names: names(&t('f'), Some(t('g'))), doc: Some(t('j')) });
	let mut m = MMethod { names: names(&t('m'), Some(t('n'))), doc: Some(format!("{}\n\n{}", slot_text('k', k, ch, other), t('l'))), params: BTreeMap::new() };
	m.params.insert(0, MParam { names: vec![None, Some(t('p'))], doc: Some(t('o')) });
	if variant == 2 {
		m.params.insert(1, MParam { names: vec![None, None], doc: None });
	}
	top.methods.insert((t('m'), format!("(L{cls_s};I)V")), m);
	set.classes.insert(cls_s.clone(), top);
	let inner_s = format!("{cls_s}${}", t('c'));
	let inner_t = format!("{cls_t}${}", t('d'));
	set.classes.insert(inner_s.clone(), MClass { names: names(&inner_s, Some(inner_t)), doc: Some(t('u')), ..Default::default() });
	let inner2_s = format!("{inner_s}${}", t('e'));
	let mut inner2 = MClass { names: names(&inner2_s, None), ..Default::default() };
	inner2.fields.insert((t('v'), "I".into()), MField { names: names(&t('v'), None), doc: None });
	set.classes.insert(inner2_s, inner2);
	// a class of the default package, without target name: its file is named by its source name
	let plain = t('s');
	set.classes.insert(plain.clone(), MClass { names: names(&plain, None), ..Default::default() });
	if variant == 1 {
		let mut twin = format!("{}/{}", t('q'), t('w'));
		while set.classes.contains_key(&twin) {
			twin.push('2');
		}
		set.classes.insert(twin.clone(), MClass { names: names(&twin, Some(cls_t)), ..Default::default() });
	}
	set
}

pub(crate) fn long_text_sets(variant: usize) -> Vec<(String, MSet)> {
	let mut out = Vec::new();
	for k in 0..=SLOT_K_MAX {
		for ch in SLOT_CHARS {
			for pos in POSITIONS {
				if k == 0 && pos != Pos::First {
					continue; // one character: the three positions are the same text
				}
				out.push((format!("slots k={k} ch=U+{:04X} pos={pos:?} variant={variant}", ch as u32), long_text_set(k, ch, pos, variant)));
			}
		}
	}
	out
}

/// the slot texts of the refusal space, in a fixed order
pub(crate) fn refusal_slots() -> Vec<(String, String)> {
	let mut out = Vec::new();
	for k in 0..=SLOT_K_MAX {
		for ch in SLOT_CHARS {
			for pos in POSITIONS {
				if k == 0 && pos != Pos::First {
					continue;
				}
				out.push((format!("k={k} ch=U+{:04X} pos={pos:?}", ch as u32), slot_text('a', k, ch, pos)));
			}
		}
	}
	out
}

/// Texts around the slot text `t` that are not what the writer writes: (class of malformation, bytes).
/// What the reader does with them is not stated; it must not panic or hang.
pub(crate) fn refusal_texts(t: &str) -> Vec<(&'static str, Vec<u8>)> {
	let mut out: Vec<(&'static str, Vec<u8>)> = Vec::new();
	let mut add = |class: &'static str, text: String| out.push((class, text.into_bytes()));
	// keywords that do not exist, at every level
	add("unknown keyword", format!("{t} x\n"));
	add("unknown keyword", format!("{t}\n"));
	add("unknown keyword", format!("CLASS A\n\t{t} x y\n"));
	add("unknown keyword", format!("CLASS A\n\tFIELD f I\n\t\t{t}\n"));
	add("unknown keyword", format!("CLASS A\n\tMETHOD m (I)V\n\t\t{t} 0 x\n"));
	add("unknown keyword", format!("CLASS A\n\tMETHOD m (I)V\n\t\tARG 0 p\n\t\t\t{t} y\n"));
	add("unknown keyword", format!("CLASS A\n\tCLASS B\n\t\tCLASS C\n\t\t\t{t}\n"));
	// numbers of columns no entry has
	add("number of columns", "CLASS\n".to_owned());
	add("number of columns", format!("CLASS {t} b c d\n"));
	add("number of columns", format!("CLASS A\n\tCLASS {t} b c d e\n"));
	add("number of columns", format!("CLASS A\n\tFIELD {t}\n"));
	add("number of columns", format!("CLASS A\n\tFIELD {t} b I x y\n"));
	add("number of columns", format!("CLASS A\n\tMETHOD {t}\n"));
	add("number of columns", format!("CLASS A\n\tMETHOD {t} b ()V x y\n"));
	add("number of columns", format!("CLASS A\n\tMETHOD m (I)V\n\t\tARG {t}\n"));
	add("number of columns", format!("CLASS A\n\tMETHOD m (I)V\n\t\tARG 0 {t} x\n"));
	// parameter indices that are no index
	add("parameter index", format!("CLASS A\n\tMETHOD m (I)V\n\t\tARG {t} p\n"));
	add("parameter index", format!("CLASS A\n\tMETHOD m (I)V\n\t\tARG -1 {t}\n"));
	add("parameter index", format!("CLASS A\n\tMETHOD m (I)V\n\t\tARG 99999999999999999999999999 {t}\n"));
	add("parameter index", format!("CLASS A\n\tMETHOD m (I)V\n\t\tARG +0x1 {t}\n"));
	// indentation without an entry one level up
	add("indentation", format!("\tCLASS {t}\n"));
	add("indentation", format!("CLASS A\n\t\t\tFIELD {t} I\n"));
	add("indentation", format!("CLASS A\n\tMETHOD m ()V\n\t\t\t\tCOMMENT {t}\n"));
	add("indentation", format!("CLASS A\n\tFIELD f I\n\t\t\tARG 0 {t}\n"));
	// entries stated twice
	add("stated twice", format!("CLASS {t}\nCLASS {t}\n"));
	add("stated twice", format!("CLASS {t} x\nCLASS {t} y\n"));
	add("stated twice", format!("CLASS A\n\tCLASS {t}\n\tCLASS {t} z\n"));
	add("stated twice", format!("CLASS A\n\tFIELD {t} I\n\tFIELD {t} x I\n"));
	add("stated twice", format!("CLASS A\n\tMETHOD {t} ()V\n\tMETHOD {t} ()V\n"));
	add("stated twice", format!("CLASS A\n\tMETHOD m (I)V\n\t\tARG 0 {t}\n\t\tARG 0 {t}\n"));
	// names and descriptors that are none
	add("invalid name", format!("CLASS {t}//x\n"));
	add("invalid name", format!("CLASS {t};\n"));
	add("invalid name", format!("CLASS A {t}.x\n"));
	add("invalid name", format!("CLASS [{t}\n"));
	add("invalid name", format!("CLASS A\n\tCLASS /{t}\n"));
	add("invalid name", format!("CLASS A\n\tFIELD {t}; I\n"));
	add("invalid name", format!("CLASS A\n\tFIELD f {t}/ I\n"));
	add("invalid name", format!("CLASS A\n\tMETHOD <{t}> ()V\n"));
	add("invalid name", format!("CLASS A\n\tMETHOD m (I)V\n\t\tARG 0 {t}[\n"));
	add("invalid descriptor", format!("CLASS A\n\tFIELD f {t}\n"));
	add("invalid descriptor", format!("CLASS A\n\tFIELD f L{t}\n"));
	add("invalid descriptor", format!("CLASS A\n\tMETHOD m {t}\n"));
	add("invalid descriptor", format!("CLASS A\n\tMETHOD m ({t})V\n"));
	add("invalid descriptor", format!("CLASS A\n\tMETHOD m (L{t};\n"));
	// entries below entries that hold no such entries
	add("misplaced entry", format!("FIELD {t} I\n"));
	add("misplaced entry", format!("COMMENT {t}\n"));
	add("misplaced entry", format!("ARG 0 {t}\n"));
	add("misplaced entry", format!("CLASS A\n\tARG 0 {t}\n"));
	add("misplaced entry", format!("CLASS A\n\tFIELD f I\n\t\tCLASS {t}\n"));
	add("misplaced entry", format!("CLASS A\n\tMETHOD m ()V\n\t\tFIELD {t} I\n"));
	// text that is no UTF-8: the slot cut inside its last character (or a lead byte without its continuation), a lone
	// continuation byte in a comment, an overlong form
	let mut cut = format!("CLASS A {t}").into_bytes();
	if t.chars().last().is_some_and(|c| c.len_utf8() > 1) {
		cut.pop();
	} else {
		cut.push(0xC3);
	}
	cut.push(b'\n');
	out.push(("not UTF-8", cut));
	let mut cont = format!("CLASS A\n\tCOMMENT {t}").into_bytes();
	cont.extend_from_slice(&[0x80, b' ', b'x', b'\n']);
	out.push(("not UTF-8", cont));
	let mut lone = format!("CLASS A\n\tCOMMENT {t}").into_bytes();
	lone.extend_from_slice(&[0xC0, 0x80, b'\n']);
	out.push(("not UTF-8", lone));
	// nothing at all, remarks and blank lines only
	out.push(("nothing to read", Vec::new()));
	out.push(("nothing to read", format!("# {t}\n\n \n\t\n#\n").into_bytes()));
	out
}

pub(crate) const REFUSAL_CLASSES: [&str; 11] = [
	"unknown keyword", "number of columns", "parameter index", "indentation", "stated twice", "invalid name", "invalid descriptor",
	"misplaced entry", "not UTF-8", "nothing to read", "remark and modifier columns",
];

/// Texts the writer does not write but the format knows (remarks, modifier columns, several blanks between columns
/// are not among them: an empty column is a column): accepted or refused, no panic.
pub(crate) fn tolerated_texts(t: &str) -> Vec<(&'static str, Vec<u8>)> {
	let c = "remark and modifier columns";
	vec![
		(c, format!("CLASS {t} ACC:PUBLIC\n\tFIELD f g I ACC:PRIVATE # {t}\n\tMETHOD m (I)V ACC:{t}\n").into_bytes()),
		(c, format!("CLASS A {t} ACC:PUBLIC # {t}\n\t# {t}\n\tCOMMENT # {t}\n").into_bytes()),
		(c, format!("CLASS A\r\n\tFIELD {t} I\r\n\t\tCOMMENT {t}\r\n").into_bytes()),
		(c, format!("CLASS A\n\tFIELD {t} I").into_bytes()),
	]
}

// ---------------------------------------------------------------------------------------------

/// the largest number of bytes a file name may have on the file systems the directory format is written to
pub(crate) const NAME_MAX: usize = 255;
const MAPPING_SUFFIX: usize = ".mapping".len();

/// Top-level classes whose file name has `bytes` bytes (with the `.mapping` suffix): unnamed (the file is named by the
/// source name) and named (by the target name), ASCII and three-byte characters; a nested class in each.
pub(crate) fn name_length_set(bytes: usize) -> MSet {
	let stem = bytes - MAPPING_SUFFIX;
	let ascii = |fill: char, n: usize| -> String { std::iter::repeat(fill).take(n).collect() };
	// `n` bytes: three-byte characters and ASCII for the rest
	let wide = |fill: char, n: usize| -> String {
		let mut s: String = std::iter::repeat('\u{20ac}').take(n / 3).collect();
		s.extend(std::iter::repeat(fill).take(n % 3));
		s
	};
	let mut set = MSet::new(&NS);
	let mut put = |key: String, target: Option<String>| {
		set.classes.insert(key.clone(), MClass { names: names(&key, target), ..Default::default() });
	};
	let a = ascii('a', stem);
	put(format!("p/{a}"), None);
	put(format!("p/{a}$I"), None);
	let b = wide('b', stem);
	put(b.clone(), None);
	put(format!("{b}$I"), Some(format!("{b}$J")));
	let c = ascii('c', stem);
	put("q/Short".to_owned(), Some(format!("r/{c}")));
	put("q/Short$I".to_owned(), Some(format!("r/{c}$J")));
	let d = wide('d', stem);
	put("Other".to_owned(), Some(d));
	set
}

pub(crate) fn name_length_sets() -> Vec<(String, MSet)> {
	[64, 128, 200, NAME_MAX - 2, NAME_MAX - 1, NAME_MAX, NAME_MAX + 1, NAME_MAX + 2, 300, 1000]
		.into_iter()
		.map(|n| (format!("file names of {n} bytes"), name_length_set(n)))
		.collect()
}

/// the longest path component (in bytes, the last one with its `.mapping` suffix) among the files of a set's top-level classes
pub(crate) fn longest_file_name_component(set: &MSet) -> usize {
	set.classes.keys()
		.filter(|k| tree_root(set, k) == k.as_str())
		.map(|k| {
			let f = file_name_of(set, k);
			let mut parts: Vec<usize> = f.split('/').map(|p| p.len()).collect();
			if let Some(last) = parts.last_mut() {
				*last += MAPPING_SUFFIX;
			}
			parts.into_iter().max().unwrap_or(0)
		})
		.max()
		.unwrap_or(0)
}

/// classes in packages `depth` deep on the source side and `depth + 1` deep on the target side, a nested class, an
/// unnamed class in the same package, and a class named like the first package
pub(crate) fn deep_package_set(depth: usize) -> MSet {
	let pkg = |letters: &str, n: usize| -> String { letters.chars().cycle().take(n).map(|c| format!("{c}/")).collect() };
	let src = pkg("abc", depth);
	let dst = pkg("xyz", depth + 1);
	let mut set = MSet::new(&NS);
	let mut put = |key: String, target: Option<String>| {
		set.classes.insert(key.clone(), MClass { names: names(&key, target), ..Default::default() });
	};
	put(format!("{src}K"), Some(format!("{dst}L")));
	put(format!("{src}K$I"), Some(format!("{dst}L$J")));
	put(format!("{src}M"), None);
	put("a".to_owned(), Some("x/y".to_owned()));
	put("x".to_owned(), None);
	set
}

pub(crate) fn deep_package_sets(tier: vcore::Tier) -> Vec<(String, MSet)> {
	let depths: Vec<usize> = tier.pick(vec![16, 32, 64, 100], (11..=40).chain([63, 64, 65, 100, 127, 128, 200]).collect());
	depths.into_iter().map(|d| (format!("packages {d} deep"), deep_package_set(d))).collect()
}

/// chains nested deeper than the reader reads
pub(crate) fn beyond_bound_sets(tier: vcore::Tier) -> Vec<(String, MSet)> {
	let mut out = Vec::new();
	let depths: Vec<usize> = tier.pick(vec![257, 258, 300, 1000], vec![257, 258, 259, 300, 511, 512, 513, 1000, 2000]);
	for d in depths {
		for pattern in [0, 1] {
			out.push((format!("chain depth={d} pattern={pattern}"), chain_set(d, pattern, d % 2 == 1)));
		}
	}
	out
}

/// Sets for the I/O environment space: every kind of entry, names and comments outside ASCII (so that a boundary at
/// every byte offset also falls inside every multi-byte character), several files, an orphan, deeper indentation; and
/// texts larger than the buffers readers commonly use (8 KiB), with multi-byte characters all over.
pub(crate) fn environment_sets(tier: vcore::Tier) -> Vec<(String, MSet)> {
	let mut out = Vec::new();
	let mut mixed = MSet::new(&NS);
	let mut a = MClass { names: names("p/A", Some("q/X".into())), doc: Some("\u{e9}t\u{e9}\n\n # c \u{20ac}".into()), ..Default::default() };
	a.fields.insert(("f".into(), "I".into()), MField { names: names("f", Some("g\u{fc}".into())), doc: Some(" lead".into()) });
	a.fields.insert(("\u{3b1}".into(), "Lp/A;".into()), MField { names: names("\u{3b1}", None), doc: None });
	let mut m = MMethod { names: names("m", Some("n".into())), doc: Some("".into()), params: BTreeMap::new() };
	m.params.insert(0, MParam { names: vec![None, Some("p\u{20ac}".into())], doc: Some("\u{1f600}\n".into()) });
	m.params.insert(10, MParam { names: vec![None, Some("q".into())], doc: None });
	a.methods.insert(("m".into(), "(ILp/A;)V".into()), m);
	mixed.classes.insert("p/A".into(), a);
	mixed.classes.insert("p/A$B".into(), MClass { names: names("p/A$B", Some("q/X$Y".into())), doc: Some("in".into()), ..Default::default() });
	let mut c = MClass { names: names("p/A$B$C", None), ..Default::default() };
	c.fields.insert(("h".into(), "[I".into()), MField { names: names("h", None), doc: Some("#h".into()) });
	mixed.classes.insert("p/A$B$C".into(), c);
	mixed.classes.insert("\u{c9}".into(), MClass { names: names("\u{c9}", Some("\u{fc}/\u{d1}".into())), ..Default::default() });
	let mut orphan = MClass { names: names("P$I", None), ..Default::default() };
	let mut init = MMethod { names: names("<init>", None), doc: None, params: BTreeMap::new() };
	init.params.insert(1, MParam { names: vec![None, Some("q".into())], doc: None });
	orphan.methods.insert(("<init>".into(), "(I)V".into()), init);
	mixed.classes.insert("P$I".into(), orphan);
	mixed.classes.insert("Z".into(), MClass { names: names("Z", None), ..Default::default() });
	out.push(("every kind of entry, text outside ASCII, four files".to_owned(), mixed));
	out.push(("chain of 9 with members".to_owned(), chain_set(9, 1, true)));
	out.push(("slot texts of 20 with a four-byte character".to_owned(), long_text_set(20, '\u{1f600}', Pos::Second, 0)));
	// larger than 8 KiB (thorough: than 64 KiB): a comment of many lines of multi-byte characters of varying length
	let lines = tier.pick(300, 2500);
	let mut big = MSet::new(&NS);
	let mut doc = String::new();
	for i in 0..lines {
		if i > 0 {
			doc.push('\n');
		}
		let ch = ['\u{20ac}', '\u{1f600}', '\u{e9}'][i % 3];
		doc.extend(std::iter::repeat(ch).take(5 + i % 7));
		if i % 5 == 0 {
			doc.push('a');
		}
	}
	let mut bc = MClass { names: names("big/B", Some("big/C".into())), doc: Some(doc.clone()), ..Default::default() };
	bc.fields.insert(("f".into(), "I".into()), MField { names: names("f", Some("g".into())), doc: Some(doc) });
	big.classes.insert("big/B".into(), bc);
	big.classes.insert("big/B$I".into(), MClass { names: names("big/B$I", None), doc: Some("after".into()), ..Default::default() });
	big.classes.insert("A".into(), MClass { names: names("A", None), ..Default::default() });
	out.push((format!("two comments of {lines} lines of multi-byte characters"), big));
	out.push(("chain of 128 with members (indentation beyond 8 KiB of text)".to_owned(), chain_set(128, 3, true)));
	for (d, set) in &out {
		if let Err(e) = set.check() {
			vcore::machinery_fail(&format!("environment set {d:?} is malformed: {e}"));
		}
		if !exclusions(set).is_empty() {
			vcore::machinery_fail(&format!("environment set {d:?} is outside the statement's domain"));
		}
	}
	out
}
