//! C13 — client/server jar merge is a faithful, annotated union.
//!
//! Jars are assembled in memory (zip crate) from classes written by the harness' own assembler, merged by the
//! REAL `dukebox::merge::merge(client, server)`, written to memory by `ParsedJar::to_mem`, reopened with `zip`
//! and every class is read by the independent strict parser. The oracle (c13/oracle.rs) derives everything it
//! expects from the two input jars.
//!
//! The jars are handed to `merge` as `UnnamedMemJar` (zip archive in memory, what the binary does) and — in the
//! entry and content spaces — also as `ParsedJar` holding the same entries; each result is judged on its own.
//!
//! Enumerated spaces (each complete):
//!  1. member order: ALL pairs (client list, server list) of duplicate-free sequences over a k-symbol alphabet,
//!     length ≤ k, for fields, methods, interfaces and all three at once — one class, one merge per pair;
//!  1b. role words: EVERY word over {B(oth), C(lient only), S(erver only)} up to length n — the client list is the B and
//!     C positions, the server list the B and S positions, i.e. every pair of compatible orders with up to n members in
//!     total — and every such word with two shared positions transposed on the server (incompatible orders);
//!  1c. odd keys: the role words of 1b over members whose keys collide when a key is built carelessly — (name, descriptor) pairs
//!     with equal concatenations ("aL"+"La;" / "a"+"LLa;"), names equal after a lossy conversion (two lone surrogates), the encoded
//!     NUL, a supplementary character, composed / decomposed spellings, interfaces `La`, `LLa`, `a`, `p/W$`, `p/W$$`;
//!  1d. marks already there (a jar that went through a merge before, or annotated by hand): a one-sided class with every
//!     combination of @Environment(CLIENT|SERVER) sequences in its visible and invisible list, interface marks, a marked field and
//!     a marked method; role words in which every member carries {no, visible/invisible CLIENT/SERVER} mark (shared members the
//!     same on both sides); role words of interfaces with every assignment of {no, CLIENT, SERVER} interface mark already in the
//!     class, stored in three forms, on both or one of the sides, with and without a mark for an interface of neither side;
//!     a class of both sides carrying @Environment itself;
//!  2. entries: EVERY subset of an entry menu (one-sided / identical / differing classes, equal / differing /
//!     one-sided resources, directories, manifests, signature files per side, a bundled server library, …), of a menu of
//!     large entries and of a menu of boundary entries (empty files, one-sided directory, look-alikes of signature files,
//!     default-package classes), the jars listing their entries in the same and in opposite orders;
//!  2b. entry names: the product directories × stems × endings around the three name rules (signature file, bundled
//!     server library, manifest), each name on the client only, the server only, equal and differing on both sides;
//!  2d. entry names with one character of 1, 2, 3 or 4 UTF-8 bytes after every prefix length (0..=16) of "META-INF/MOJANGCSX",
//!     "net/minecraft/abcd", "com/google/abcdefg" and before every tail of ".class", ".SF", ".RSA": every byte offset at which a
//!     name rule could cut (9, 14, 3/4/6 from the end) falls on a boundary, inside a character, and beyond a short name;
//!  2e. environment: the large menu (every subset) and the extended menu (sparse and full subsets) read from zip archives behind
//!     `Read + Seek` sources that serve 1 / 3 / 64 / 32768 bytes per call at most and answer every 3rd call with `Interrupted`
//!     (thorough: 1, 2, 3, 5, 64, 1000, 32768 × never / every 2nd / every 3rd);
//!  2f. counts at their limit: the annotation list that receives the mark (class, field, method; visible or invisible; the class
//!     list holding the interface marks) already holds 65534 (the mark must still be written) or 65535 entries (refusal is right;
//!     a class that is not well-formed or lacks the mark is not);
//!  2c. class sets: EVERY assignment of {absent, client only, server only, identical, differing} to n class names;
//!  3. differing classes with content: every single difference aspect applied to rich base classes, in both
//!     directions and combined with one-sided members on both sides; the rich classes also on one side only.
//!
//! Clauses of the statement → where decided (oracle.rs) → over which spaces
//!  E1 "every entry of either jar exactly once"            judge_run: entry:missing / entry:duplicated (names and central
//!                                                         directory records) / entry:invented / entry:kind-changed;
//!                                                         content of resources: resource:* — spaces 2, 2b, 2c, 3
//!  E2 "minus signature files"                             presence(): META-INF/<file>.SF|.RSA must be absent, every look-alike
//!                                                         (other directory, nested, other case → either way; .SF/.RSA outside
//!                                                         META-INF/, .SF.txt, XSF, META-INFX/ → must stay) — spaces 2, 2b
//!  E3 "minus bundled server libraries"                    presence(): server-only classes of well-known library packages must be
//!                                                         absent; the same name on the client or on both sides, resources,
//!                                                         default package, net/minecraft/ must stay — spaces 2, 2b, 2c
//!  C1 "class on one side only is marked with that side"   judge_one_sided_class (mark, and nothing else changed) — spaces 1d, 2, 2b,
//!                                                         2c, 2d, 2e, 2f, 3 (rich classes: annotations, module, record, …)
//!  C2 "identical class passed through byte-identical"     judge_run identical-class:not-byte-identical — spaces 1 (diagonal), 2, 2b,
//!                                                         2c; 1b holds masses of DIFFERENT classes of equal length (the test that
//!                                                         selects this path must compare the bytes)
//!  C3 "differing class: every field, method, interface    check_list :missing / :duplicated / :invented — spaces 1, 1b, 2, 2b, 2c, 3
//!      of either side exactly once"
//!  C4 "one-sided members and interfaces marked with       check_members / judge_marks / take_interface_marks: :one-sided-not-marked,
//!      their side, shared members unmarked"                :marked-with-wrong-side, :marked-twice, :shared-marked, side-mark-for-absent-
//!                                                         interface, class:shared-marked — spaces 1, 1b, 2, 2b, 2c, 3
//!  C5 "relative order within each side preserved          check_list order:* (only when compatible(c, s)) — spaces 1 (k ≤ 4 / 5),
//!      whenever the two orders are compatible"             1b (n ≤ 9 / 11 members in total), 3
//!  P  marks the INPUT already carries are subtracted (as multisets) from the marks of the merged jar before C1 / C4 are judged:
//!     what the merge adds must name the thing's own side, at most once, and the thing must carry a mark of its side in the end;
//!     marks that were there may stay or go (the statement is silent) — spaces 1d
//!  Q  quantifier: disjoint / identical / overlapping class sets → 2c (floors per relation); interleavings, prefixes, suffixes,
//!     permutations → 1, 1b (floors per relation and kind); resources equal or different → 2; META-INF content → 2, 2b

#[path = "c13/oracle.rs"]
mod oracle;

use std::os::fd::AsRawFd;
use std::sync::atomic::{AtomicI32, Ordering};
use cfmodel::asm::{assemble, Encoding};
use cfmodel::gen::*;
use cfmodel::model::*;
use oracle::{build_jar, judge, Driver, Entries, Item};
use rayon::prelude::*;
use vcore::{json, Ctx, Stats};

// ---------------------------------------------------------------------------------------------
// stderr: merge() prints a warning per differing resource; keep the run's stderr readable

static SAVED_STDERR: AtomicI32 = AtomicI32::new(-1);

fn scratch_dir() -> std::path::PathBuf {
	std::path::PathBuf::from(format!("/dev/shm/verif-c13-{}", std::process::id()))
}

fn capture_stderr() -> bool {
	let dir = scratch_dir();
	if std::fs::create_dir_all(&dir).is_err() {
		return false;
	}
	let Ok(f) = std::fs::File::create(dir.join("stderr.txt")) else { return false };
	// SAFETY: plain fd duplication; the file stays open through the duplicated descriptor
	unsafe {
		let saved = libc::dup(2);
		if saved < 0 {
			return false;
		}
		if libc::dup2(f.as_raw_fd(), 2) < 0 {
			libc::close(saved);
			return false;
		}
		SAVED_STDERR.store(saved, Ordering::SeqCst);
	}
	true
}

/// restores stderr; returns (number of merge warnings, other lines)
fn release_stderr() -> (u64, Vec<String>) {
	let saved = SAVED_STDERR.swap(-1, Ordering::SeqCst);
	if saved < 0 {
		return (0, Vec::new());
	}
	// SAFETY: `saved` is the descriptor duplicated in capture_stderr
	unsafe {
		libc::dup2(saved, 2);
		libc::close(saved);
	}
	let text = std::fs::read_to_string(scratch_dir().join("stderr.txt")).unwrap_or_default();
	let _ = std::fs::remove_dir_all(scratch_dir());
	let mut warnings = 0;
	let mut other = Vec::new();
	for l in text.lines() {
		if l.starts_with("warn: merging ") {
			warnings += 1;
		} else {
			other.push(l.to_owned());
		}
	}
	(warnings, other)
}

/// machinery failure that is still visible while stderr is captured
pub fn fail(msg: &str) -> ! {
	let (_, other) = release_stderr();
	for l in other.iter().take(20) {
		eprintln!("{l}");
	}
	vcore::machinery_fail(msg)
}

// ---------------------------------------------------------------------------------------------
// assembling

fn class_bytes(label: &str, m: &SClass, enc: &Encoding) -> Vec<u8> {
	let bytes = assemble(m, enc).unwrap_or_else(|e| fail(&format!("{label}: assembler: {e:?}")));
	// oracle self-check before the code under test is consulted
	match cfmodel::parse(&bytes) {
		Ok(p) if &p.class == m => {},
		Ok(p) => fail(&format!("{label}: assembler and reference parser disagree: {:?}", cfmodel::sdiff::diff(m, &p.class).0.first())),
		Err(e) => fail(&format!("{label}: the reference parser rejects an assembled class: {e}")),
	}
	bytes
}

fn jar(label: &str, e: &Entries) -> Vec<u8> {
	build_jar(e).unwrap_or_else(|err| fail(&format!("{label}: cannot build jar: {err}")))
}

fn ann(name: &str) -> SAnnotation {
	SAnnotation { type_name: js(name), pairs: vec![(js("v"), SElementValue::Const(b'I', SConst::Int(1)))] }
}

// ---------------------------------------------------------------------------------------------
// space 1: member order

#[derive(Clone, Copy, PartialEq, Debug)]
enum Kind {
	Fields,
	Methods,
	Interfaces,
	All,
}

impl Kind {
	fn name(self) -> &'static str {
		match self {
			Kind::Fields => "fields",
			Kind::Methods => "methods",
			Kind::Interfaces => "interfaces",
			Kind::All => "all-three",
		}
	}
}

/// symbols 0 and 1 share a name (members are keyed by name AND descriptor)
fn field_sym(i: usize) -> SField {
	match i {
		0 => SField { access: 0x0019, name: js("a"), desc: js("I"), constant_value: Some(SConst::Int(7)), ..Default::default() },
		1 => SField { access: 0x0002, name: js("a"), desc: js("J"), ..Default::default() },
		2 => SField { access: 0x0001, name: js("b"), desc: js("I"), annotations: SAnnotations { invisible: vec![ann("Lp/Inv;")], ..Default::default() }, ..Default::default() },
		3 => SField { access: 0x0004, name: js("c"), desc: js("Ljava/util/List;"), signature: Some(js("Ljava/util/List<Ljava/lang/String;>;")), annotations: SAnnotations { visible: vec![ann("Lp/Vis;")], ..Default::default() }, ..Default::default() },
		_ => SField { access: 0x0008, name: js("d"), desc: js("[I"), deprecated: true, ..Default::default() },
	}
}

fn method_sym(i: usize) -> SMethod {
	match i {
		0 => method_with("m", "()V", vec![RETURN]),
		1 => method_with("m", "(I)V", vec![SInsn::Load(LvKind::I, 0), SInsn::Simple(0x57), RETURN]),
		2 => SMethod { access: 0x0401, name: js("n"), desc: js("()I"), annotations: SAnnotations { invisible: vec![ann("Lp/Inv;")], ..Default::default() }, ..Default::default() },
		3 => {
			let mut m = method_with("<init>", "()V", vec![SInsn::Load(LvKind::A, 0), SInsn::Invoke(op::INVOKESPECIAL, mref("java/lang/Object", "<init>", "()V"), false), RETURN]);
			m.access = 0x0001;
			m
		},
		_ => SMethod { access: 0x0101, name: js("o"), desc: js("(J)V"), exceptions: Some(vec![js("java/io/IOException")]), annotations: SAnnotations { visible: vec![ann("Lp/Vis;")], ..Default::default() }, ..Default::default() },
	}
}

fn itf_sym(i: usize) -> JS {
	js(["net/minecraft/I0", "net/minecraft/I1", "java/lang/Runnable", "p/I3", "I4"][i])
}

fn order_class(kind: Kind, list: &[usize]) -> SClass {
	let mut c = skeleton("net/minecraft/M");
	c.access = 0x0421;
	c.source_file = Some(js("M.java"));
	c.annotations.invisible = vec![ann("Lp/ClassInv;")];
	let fixed = [2usize, 0];
	let pick = |varies: bool| if varies { list } else { &fixed[..] };
	c.fields = pick(matches!(kind, Kind::Fields | Kind::All)).iter().map(|i| field_sym(*i)).collect();
	c.methods = pick(matches!(kind, Kind::Methods | Kind::All)).iter().map(|i| method_sym(*i)).collect();
	c.interfaces = pick(matches!(kind, Kind::Interfaces | Kind::All)).iter().map(|i| itf_sym(*i)).collect();
	c
}

const ORDER_ENTRY: &str = "net/minecraft/M.class";

fn seq_text(s: &[usize]) -> String {
	if s.is_empty() { "-".to_owned() } else { s.iter().map(|x| x.to_string()).collect::<Vec<_>>().join(".") }
}

fn seq_parse(t: &str) -> Option<Vec<usize>> {
	if t == "-" { Some(Vec::new()) } else { t.split('.').map(|x| x.parse().ok().filter(|v| *v < 5)).collect() }
}

fn order_jar(kind: Kind, s: &[usize]) -> Vec<u8> {
	let label = format!("order/{}/{}", kind.name(), seq_text(s));
	jar(&label, &vec![(ORDER_ENTRY.to_owned(), Item::File(class_bytes(&label, &order_class(kind, s), &Encoding::default())))])
}

/// what the watchdog writes if a case hangs: the label is enough to rebuild the case (see `case_by_label`)
fn watch_text(label: &str) -> String {
	format!("label={label}\n(the label identifies the case: `./check C13 --replay <this file>` rebuilds the two jars from it)")
}

const BOTH: [Driver; 2] = [Driver::Zip, Driver::Parsed];

const KINDS: [Kind; 4] = [Kind::Fields, Kind::Methods, Kind::Interfaces, Kind::All];

fn order_space(ctx: &Ctx, k: usize) -> Vec<(Kind, Stats)> {
	let seqs = vcore::enumerate::injective_sequences(k, k);
	let mut out = Vec::new();
	for kind in KINDS {
		let jars: Vec<Vec<u8>> = seqs.iter().map(|s| order_jar(kind, s)).collect();
		let n = seqs.len();
		let st = (0..n * n).into_par_iter().fold(Stats::new, |mut st, idx| {
			let (i, j) = (idx / n, idx % n);
			let label = format!("order/{}/c={}/s={}", kind.name(), seq_text(&seqs[i]), seq_text(&seqs[j]));
			vcore::watched(|| watch_text(&label), || judge(ctx, &mut st, &label, &jars[i], &jars[j], &[Driver::Zip]));
			st
		}).reduce(Stats::new, Stats::merge);
		out.push((kind, st));
	}
	out
}

// ---------------------------------------------------------------------------------------------
// space 2: entries

struct MenuItem {
	what: &'static str,
	name: &'static str,
	client: Option<Item>,
	server: Option<Item>,
}

fn simple_class(name: &str, fields: &[usize], methods: &[usize], itfs: &[usize]) -> Vec<u8> {
	let mut c = skeleton(name);
	c.source_file = Some(js("X.java"));
	c.fields = fields.iter().map(|i| field_sym(*i)).collect();
	c.methods = methods.iter().map(|i| method_sym(*i)).collect();
	c.interfaces = itfs.iter().map(|i| itf_sym(*i)).collect();
	class_bytes(name, &c, &Encoding::default())
}

fn menu(extended: bool) -> Vec<MenuItem> {
	let f = |b: &[u8]| Some(Item::File(b.to_vec()));
	let same = simple_class("net/minecraft/Same", &[0, 2], &[3, 0], &[0]);
	let lib = simple_class("com/google/common/base/Lib", &[0], &[3], &[]);
	let mut v = vec![
		MenuItem { what: "class only in the client", name: "net/minecraft/client/OnlyC.class", client: f(&simple_class("net/minecraft/client/OnlyC", &[0, 1], &[3, 0, 1], &[0, 2])), server: None },
		MenuItem { what: "class only in the server", name: "net/minecraft/server/OnlyS.class", client: None, server: f(&simple_class("net/minecraft/server/OnlyS", &[2], &[3, 4], &[1])) },
		MenuItem { what: "class identical on both sides", name: "net/minecraft/Same.class", client: f(&same), server: f(&same) },
		// client-only members first / server-only members last: orders compatible
		MenuItem { what: "class differing between the sides", name: "net/minecraft/Diff.class", client: f(&simple_class("net/minecraft/Diff", &[1, 0], &[1, 3, 0], &[2, 0])), server: f(&simple_class("net/minecraft/Diff", &[0, 2], &[3, 0, 4], &[0, 1])) },
		MenuItem { what: "resource equal on both sides", name: "assets/equal.txt", client: f(b"equal\n"), server: f(b"equal\n") },
		MenuItem { what: "resource differing between the sides", name: "assets/differ.txt", client: f(b"client version\n"), server: f(b"server version, longer\n") },
		MenuItem { what: "directory entry on both sides", name: "net/minecraft/", client: Some(Item::Dir), server: Some(Item::Dir) },
		MenuItem { what: "manifest in the client", name: "META-INF/MANIFEST.MF", client: f(b"Manifest-Version: 1.0\r\nCreated-By: client\r\n\r\n"), server: None },
		MenuItem { what: "manifest in the server", name: "META-INF/MANIFEST.MF", client: None, server: f(b"Manifest-Version: 1.0\r\nMain-Class: net.minecraft.server.Main\r\n\r\n") },
		MenuItem { what: "signature file (.SF) in the client", name: "META-INF/MOJANGCS.SF", client: f(b"Signature-Version: 1.0\r\nclient\r\n"), server: None },
		MenuItem { what: "signature block (.RSA) in the client", name: "META-INF/MOJANGCS.RSA", client: f(&[0x30, 0x82, 0x01, 0x00, 0xca]), server: None },
		MenuItem { what: "signature file (.SF) in the server", name: "META-INF/MOJANGCS.SF", client: None, server: f(b"Signature-Version: 1.0\r\nserver\r\n") },
		MenuItem { what: "signature block (.RSA) in the server", name: "META-INF/MOJANGCS.RSA", client: None, server: f(&[0x30, 0x82, 0x02, 0x00, 0xfe]) },
		MenuItem { what: "bundled library class in the server", name: "com/google/common/base/Lib.class", client: None, server: f(&lib) },
	];
	if extended {
		let both_lib = simple_class("org/apache/Both", &[2], &[3], &[]);
		v.extend([
			MenuItem { what: "client-only class outside net/minecraft", name: "com/mojang/blaze3d/Blaze.class", client: f(&simple_class("com/mojang/blaze3d/Blaze", &[1], &[3], &[])), server: None },
			MenuItem { what: "server-only class in the default package", name: "a.class", client: None, server: f(&simple_class("a", &[2], &[0], &[])) },
			MenuItem { what: "resource only in the client", name: "assets/client.txt", client: f(b"c"), server: None },
			MenuItem { what: "resource only in the server", name: "data/server.json", client: None, server: f(b"{}") },
			MenuItem { what: "directory only in the server", name: "data/", client: None, server: Some(Item::Dir) },
			MenuItem { what: "library class identical on both sides", name: "org/apache/Both.class", client: f(&both_lib), server: f(&both_lib) },
		]);
	}
	v
}

/// deterministic incompressible bytes (xorshift64*): content for large jar entries, not a source of cases
fn noise(n: usize, seed: u64) -> Vec<u8> {
	let mut x = 0x9e37_79b9_7f4a_7c15u64 ^ seed.wrapping_mul(0xbf58_476d_1ce4_e5b9);
	(0..n).map(|_| {
		x ^= x >> 12;
		x ^= x << 25;
		x ^= x >> 27;
		(x.wrapping_mul(0x2545_f491_4f6c_dd1d) >> 56) as u8
	}).collect()
}

/// entries larger than any buffer a jar reader might fill in one go (incompressible, so large when deflated too)
fn large_menu() -> Vec<MenuItem> {
	let f = |b: &[u8]| Some(Item::File(b.to_vec()));
	let big = |name: &str, fields: &[usize], seed: u64| {
		let mut c = skeleton(name);
		c.fields = fields.iter().map(|i| field_sym(*i)).collect();
		c.unknown.push(SUnknown { name: js("Noise"), bytes: noise(90_000, seed) });
		class_bytes(name, &c, &Encoding::default())
	};
	let same = big("net/minecraft/BigSame", &[0, 1], 11);
	vec![
		MenuItem { what: "filler so that positions shift", name: "assets/filler.txt", client: f(b"x"), server: f(b"x") },
		MenuItem { what: "large resource equal on both sides", name: "assets/big-equal.bin", client: f(&noise(200_000, 1)), server: f(&noise(200_000, 1)) },
		MenuItem { what: "large resource only in the client", name: "assets/big-client.bin", client: f(&noise(70_000, 2)), server: None },
		MenuItem { what: "large resource only in the server", name: "data/big-server.bin", client: None, server: f(&noise(40_000, 3)) },
		MenuItem { what: "large class identical on both sides", name: "net/minecraft/BigSame.class", client: f(&same), server: f(&same) },
		MenuItem { what: "large class only in the server", name: "net/minecraft/server/BigS.class", client: None, server: f(&big("net/minecraft/server/BigS", &[2], 12)) },
		MenuItem { what: "large class differing between the sides", name: "net/minecraft/BigDiff.class", client: f(&big("net/minecraft/BigDiff", &[1, 0], 13)), server: f(&big("net/minecraft/BigDiff", &[0, 2], 13)) },
	]
}

/// order of the entries inside the two jars
#[derive(Clone, Copy, PartialEq, Debug)]
enum EntryOrder {
	AsListed,
	BothReversed,
	/// the two jars list their common entries in opposite orders
	ClientReversed,
}

impl EntryOrder {
	fn suffix(self) -> &'static str {
		match self {
			EntryOrder::AsListed => "",
			EntryOrder::BothReversed => "/reversed",
			EntryOrder::ClientReversed => "/client-reversed",
		}
	}
}

fn subset_jars(menu: &[MenuItem], mask: u32, order: EntryOrder) -> (Entries, Entries) {
	let mut c = Vec::new();
	let mut s = Vec::new();
	for (i, m) in menu.iter().enumerate() {
		if mask & (1 << i) != 0 {
			if let Some(x) = &m.client {
				c.push((m.name.to_owned(), x.clone()));
			}
			if let Some(x) = &m.server {
				s.push((m.name.to_owned(), x.clone()));
			}
		}
	}
	if order != EntryOrder::AsListed {
		c.reverse();
	}
	if order == EntryOrder::BothReversed {
		s.reverse();
	}
	(c, s)
}

fn entry_case(menu: &[MenuItem], label: &str, mask: u32, order: EntryOrder) -> (Vec<u8>, Vec<u8>) {
	let (c, s) = subset_jars(menu, mask, order);
	(jar(label, &c), jar(label, &s))
}

fn entry_space(ctx: &Ctx, menu: &[MenuItem], tag: &str, masks: &[u32], order: EntryOrder, drivers: &[Driver]) -> Stats {
	masks.par_iter().fold(Stats::new, |mut st, mask| {
		let label = format!("{tag}/subset{mask:#x}{}", order.suffix());
		let (cj, sj) = entry_case(menu, &label, *mask, order);
		if order == EntryOrder::ClientReversed {
			st.outcome("entries:jars-list-their-entries-in-opposite-orders");
		}
		vcore::watched(|| watch_text(&label), || judge(ctx, &mut st, &label, &cj, &sj, drivers));
		st
	}).reduce(Stats::new, Stats::merge)
}

/// quick tier: every subset of the extended items × every base subset at distance ≤ 1 from "nothing" or "everything"
fn extended_masks(n_base: usize, n_all: usize, full: bool) -> Vec<u32> {
	if full {
		return (0..1u32 << n_all).collect();
	}
	let all_base = (1u32 << n_base) - 1;
	let mut base = vec![0, all_base];
	for i in 0..n_base {
		base.push(1 << i);
		base.push(all_base & !(1 << i));
	}
	base.sort();
	base.dedup();
	let mut out = Vec::new();
	for ext in 0..1u32 << (n_all - n_base) {
		for b in &base {
			out.push(b | (ext << n_base));
		}
	}
	out
}

// ---------------------------------------------------------------------------------------------
// space 3: differing classes with content

/// every single-aspect variant of `base` (name of the aspect, the changed class)
fn aspects(base: &SClass) -> Vec<(&'static str, SClass)> {
	let mut v: Vec<(&'static str, SClass)> = Vec::new();
	let mut add = |name: &'static str, f: &dyn Fn(&mut SClass)| {
		let mut c = base.clone();
		f(&mut c);
		normalize(&mut c);
		if &c != base {
			v.push((name, c));
		}
	};
	let unk = || SUnknown { name: js("x.Other"), bytes: vec![1, 2, 3] };
	add("class-version", &|c| c.version = (c.version.0 - 1, 0));
	add("class-access", &|c| c.access ^= 0x0010);
	add("super-class", &|c| if c.super_class.is_some() { c.super_class = Some(js("p/OtherSuper")) });
	add("class-deprecated", &|c| c.deprecated = !c.deprecated);
	add("class-synthetic", &|c| c.synthetic = !c.synthetic);
	add("source-file", &|c| c.source_file = Some(js("Other.java")));
	add("source-file-absent", &|c| c.source_file = None);
	add("class-signature", &|c| c.signature = Some(js("Ljava/lang/Object;")));
	add("enclosing-method", &|c| c.enclosing_method = Some((js("p/Elsewhere"), None)));
	add("source-debug-extension", &|c| c.source_debug_extension = Some(js("SMAP other")));
	add("inner-class-added", &|c| c.inner_classes.get_or_insert_with(Vec::new).push(SInnerClass { inner: js("p/Sink$Extra"), outer: Some(js("p/Sink")), name: Some(js("Extra")), flags: 0x0008 }));
	add("inner-class-flags", &|c| if let Some(i) = c.inner_classes.as_mut().and_then(|l| l.first_mut()) { i.flags ^= 0x0010 });
	add("inner-classes-absent", &|c| c.inner_classes = None);
	add("nest-host", &|c| c.nest_host = Some(js("p/OtherHost")));
	add("nest-members", &|c| c.nest_members.get_or_insert_with(Vec::new).push(js("p/Sink$More")));
	add("permitted-subclasses", &|c| c.permitted_subclasses.get_or_insert_with(Vec::new).push(js("p/SubMore")));
	add("record-component", &|c| c.record.get_or_insert_with(Vec::new).push(SRecordComponent { name: js("more"), desc: js("J"), ..Default::default() }));
	add("class-visible-annotation", &|c| c.annotations.visible.push(ann("Lp/MoreVis;")));
	add("class-invisible-annotation", &|c| c.annotations.invisible.push(ann("Lp/MoreInv;")));
	add("class-type-annotations", &|c| { c.annotations.visible_type.pop(); c.annotations.invisible_type = class_type_annotations().into_iter().take(2).collect(); });
	add("class-unknown-attribute", &|c| c.unknown.push(unk()));
	add("module", &|c| if let Some(m) = &mut c.module { m.version = Some(js("9.9")); m.uses.push(js("p/SvcMore")); });
	add("module-packages", &|c| if c.module.is_some() { c.module_packages.get_or_insert_with(Vec::new).push(js("p/more")) });
	add("module-main-class", &|c| if c.module.is_some() { c.module_main_class = Some(js("p/OtherMain")) });
	// a shared method (the last one) differing in one fact
	add("method-code", &|c| if let Some(code) = c.methods.last_mut().and_then(|m| m.code.as_mut()) { code.insns.insert(0, SInsn::Simple(op::NOP)); code.max_stack = 3; });
	add("method-access", &|c| if let Some(m) = c.methods.last_mut() { m.access ^= 0x0010 });
	add("method-deprecated", &|c| if let Some(m) = c.methods.last_mut() { m.deprecated = !m.deprecated });
	add("method-synthetic", &|c| if let Some(m) = c.methods.last_mut() { m.synthetic = !m.synthetic });
	add("method-signature", &|c| if let Some(m) = c.methods.last_mut() { m.signature = Some(js("()V")) });
	add("method-exceptions", &|c| if let Some(m) = c.methods.last_mut() { m.exceptions = Some(vec![js("p/ExMore")]) });
	add("method-annotation", &|c| if let Some(m) = c.methods.last_mut() { m.annotations.invisible.push(ann("Lp/MoreInv;")) });
	add("method-parameters", &|c| if let Some(m) = c.methods.last_mut() { m.parameters = Some(vec![(Some(js("p0")), 0x0010)]) });
	add("method-unknown-attribute", &|c| if let Some(m) = c.methods.last_mut() { m.unknown.push(unk()) });
	// a shared field (the last one)
	add("field-constant", &|c| if let Some(f) = c.fields.last_mut() { f.constant_value = Some(SConst::Long(99)) });
	add("field-access", &|c| if let Some(f) = c.fields.last_mut() { f.access ^= 0x0010 });
	add("field-deprecated", &|c| if let Some(f) = c.fields.last_mut() { f.deprecated = !f.deprecated });
	add("field-synthetic", &|c| if let Some(f) = c.fields.last_mut() { f.synthetic = !f.synthetic });
	add("field-signature", &|c| if let Some(f) = c.fields.last_mut() { f.signature = Some(js("TX;")) });
	add("field-annotation", &|c| if let Some(f) = c.fields.last_mut() { f.annotations.visible.push(ann("Lp/MoreVis;")) });
	add("field-unknown-attribute", &|c| if let Some(f) = c.fields.last_mut() { f.unknown.push(unk()) });
	v
}

/// one-sided members and an interface appended to a class
fn with_one_sided(c: &SClass, tag: &str) -> SClass {
	let mut c = c.clone();
	c.fields.push(SField { access: 0x0001, name: js(&format!("only_{tag}")), desc: js("I"), ..Default::default() });
	c.methods.push(method_with(&format!("only_{tag}"), "()V", vec![RETURN]));
	c.interfaces.push(js(&format!("p/Only{tag}")));
	c
}

fn content_cases(thorough: bool) -> Vec<(String, Vec<u8>, Vec<u8>)> {
	let mut bases: Vec<(String, SClass)> = Vec::new();
	for v in 0..(if thorough { 6 } else { 3 }) {
		bases.push((format!("sink{v}"), kitchen_sink(v)));
	}
	for v in 0..(if thorough { 6 } else { 3 }) {
		let mut c = kitchen_sink(v);
		c.record = None;
		c.permitted_subclasses = None;
		bases.push((format!("sink{v}-no-record-no-permitted"), c));
	}
	bases.push(("module-closed".into(), module_class(false, 1)));
	if thorough {
		bases.push(("module-open".into(), module_class(true, 2)));
		bases.push(("plain".into(), order_class(Kind::All, &[0, 1, 2])));
	}
	let encodings = basic_encodings();
	let mut out = Vec::new();
	let mut one_sided = Vec::new();
	let entry = "net/minecraft/Sink.class";
	for (bname, base) in &bases {
		let mut base = base.clone();
		normalize(&mut base);
		let b0 = class_bytes(bname, &base, &Encoding::default());
		let mut push = |label: String, c: &[u8], s: &[u8]| {
			let cj = jar(&label, &vec![(entry.to_owned(), Item::File(c.to_vec()))]);
			let sj = jar(&label, &vec![(entry.to_owned(), Item::File(s.to_vec()))]);
			out.push((label, cj, sj));
		};
		// the same class in another encoding: different bytes, nothing differs in what is stated
		for (i, e) in encodings.iter().enumerate().skip(1) {
			if let Ok(b) = assemble(&base, e) {
				push(format!("content/{bname}/same-class-other-encoding{i}"), &b0, &b);
				push(format!("content/{bname}/same-class-other-encoding{i}/swapped"), &b, &b0);
			}
		}
		// one-sided members only
		let bc = class_bytes(bname, &with_one_sided(&base, "C"), &Encoding::default());
		let bs = class_bytes(bname, &with_one_sided(&base, "S"), &Encoding::default());
		push(format!("content/{bname}/one-sided-members-only"), &bc, &bs);
		push(format!("content/{bname}/client-members-only"), &bc, &b0);
		push(format!("content/{bname}/server-members-only"), &b0, &bs);
		// the rich class on one side only (next to an unrelated entry, and next to the other variant under another name)
		{
			let other = ("assets/other.txt".to_owned(), Item::File(b"o".to_vec()));
			let elsewhere = ("net/minecraft/Elsewhere.class".to_owned(), Item::File(bs.clone()));
			let with = vec![other.clone(), (entry.to_owned(), Item::File(b0.clone()))];
			let without = vec![elsewhere, other];
			let label = format!("content/{bname}/class-only-in-client");
			let (cj, sj) = (jar(&label, &with), jar(&label, &without));
			one_sided.push((label, cj, sj));
			let label = format!("content/{bname}/class-only-in-server");
			let (cj, sj) = (jar(&label, &without), jar(&label, &with));
			one_sided.push((label, cj, sj));
		}
		for (aname, variant) in aspects(&base) {
			let label = format!("content/{bname}/{aname}");
			let v0 = class_bytes(&label, &variant, &Encoding::default());
			push(format!("{label}/server-changed"), &b0, &v0);
			push(format!("{label}/client-changed"), &v0, &b0);
			let vs = class_bytes(&label, &with_one_sided(&variant, "S"), &Encoding::default());
			let vc = class_bytes(&label, &with_one_sided(&variant, "C"), &Encoding::default());
			push(format!("{label}/server-changed+one-sided-members"), &bc, &vs);
			push(format!("{label}/client-changed+one-sided-members"), &vc, &bs);
		}
	}
	out.extend(one_sided);
	out
}

fn content_space(ctx: &Ctx, thorough: bool) -> Stats {
	content_cases(thorough).into_par_iter().fold(Stats::new, |mut st, (label, cj, sj)| {
		vcore::watched(|| watch_text(&label), || judge(ctx, &mut st, &label, &cj, &sj, &BOTH));
		st
	}).reduce(Stats::new, Stats::merge)
}

// ---------------------------------------------------------------------------------------------
// space 4: member order by role words (deep bound on "exactly once", marks and order preservation)

/// roles of the positions of a merged list: on both sides, on the client only, on the server only
const ROLES: [u8; 3] = [b'B', b'C', b'S'];

const WORD_ENTRY: &str = "net/minecraft/W.class";

/// symbol of position `p`; positions 2q and 2q+1 share a name (keys are name AND descriptor), and all plain symbols have
/// encodings of the same length, so that classes with different member sets and equal byte length occur in masses
fn wfield(p: usize) -> SField {
	let mut f = SField { access: 0x0001, name: js(&format!("w{}", p / 2)), desc: js(["I", "J"][p % 2]), ..Default::default() };
	if p % 5 == 4 {
		f.annotations.invisible = vec![ann("Lp/Inv;")];
	}
	f
}

fn wmethod(p: usize) -> SMethod {
	let mut m = SMethod { access: 0x0401, name: js(&format!("w{}", p / 2)), desc: js(["(I)V", "(J)V"][p % 2]), ..Default::default() };
	if p % 5 == 4 {
		m.annotations.invisible = vec![ann("Lp/Inv;")];
	}
	m
}

fn witf(p: usize) -> JS {
	js(&format!("p/W{p}"))
}

/// the members a role word stands for
#[derive(Clone, Copy)]
struct Syms {
	/// first segment of the case labels
	tag: &'static str,
	field: fn(usize) -> SField,
	method: fn(usize) -> SMethod,
	itf: fn(usize) -> JS,
}

const PLAIN: Syms = Syms { tag: "word", field: wfield, method: wmethod, itf: witf };

fn word_class(sym: &Syms, kind: Kind, list: &[usize]) -> SClass {
	let mut c = skeleton("net/minecraft/W");
	c.access = 0x0421;
	c.annotations.invisible = vec![ann("Lp/ClassInv;")];
	c.annotations.visible = vec![ann("Lp/ClassVis;")];
	let fixed = [1usize, 0];
	let pick = |varies: bool| if varies { list } else { &fixed[..] };
	c.fields = pick(matches!(kind, Kind::Fields | Kind::All)).iter().map(|p| (sym.field)(*p)).collect();
	c.methods = pick(matches!(kind, Kind::Methods | Kind::All)).iter().map(|p| (sym.method)(*p)).collect();
	c.interfaces = pick(matches!(kind, Kind::Interfaces | Kind::All)).iter().map(|p| (sym.itf)(*p)).collect();
	c
}

/// (jar, length of the class file in it)
fn word_jar(sym: &Syms, kind: Kind, list: &[usize]) -> (Vec<u8>, usize) {
	let label = format!("{}/{}/list={}", sym.tag, kind.name(), seq_text(list));
	let b = class_bytes(&label, &word_class(sym, kind, list), &Encoding::default());
	let n = b.len();
	(jar(&label, &vec![(WORD_ENTRY.to_owned(), Item::File(b))]), n)
}

/// client list = positions that are B or C, server list = positions that are B or S, both ascending; with `swap = (i, j)` the
/// i-th and the j-th shared position change places in the server list (the two orders are incompatible then)
fn word_lists(w: &[u8], swap: Option<(usize, usize)>) -> Option<(Vec<usize>, Vec<usize>)> {
	let c: Vec<usize> = (0..w.len()).filter(|p| w[*p] != b'S').collect();
	let mut s: Vec<usize> = (0..w.len()).filter(|p| w[*p] != b'C').collect();
	if let Some((i, j)) = swap {
		let b: Vec<usize> = (0..w.len()).filter(|p| w[*p] == b'B').collect();
		let (x, y) = (*b.get(i)?, *b.get(j)?);
		let (ix, iy) = (s.iter().position(|v| *v == x)?, s.iter().position(|v| *v == y)?);
		s.swap(ix, iy);
	}
	Some((c, s))
}

fn word_text(w: &[u8]) -> String {
	if w.is_empty() { "-".to_owned() } else { String::from_utf8_lossy(w).into_owned() }
}

fn word_label(sym: &Syms, kind: Kind, w: &[u8], swap: Option<(usize, usize)>) -> String {
	match swap {
		None => format!("{}/{}/{}", sym.tag, kind.name(), word_text(w)),
		Some((i, j)) => format!("{}/{}/{}/swap={i}.{j}", sym.tag, kind.name(), word_text(w)),
	}
}

fn mask_of(list: &[usize]) -> Option<usize> {
	list.windows(2).all(|p| p[0] < p[1]).then(|| list.iter().fold(0usize, |m, p| m | 1 << p))
}

/// number of (word, swap) cases for words of length <= n: sum over l of C(l,2) * 3^(l-2)
fn swap_case_count(n: usize) -> u64 {
	(2..=n as u64).map(|l| l * (l - 1) / 2 * 3u64.pow(l as u32 - 2)).sum()
}

struct WordBounds {
	/// words of every length up to this, for fields, methods and interfaces on their own
	single: usize,
	/// the same for all three lists at once
	all: usize,
	/// words up to this length with every transposition of two shared positions in the server list
	swapped: usize,
}

fn word_space(ctx: &Ctx, sym: &Syms, b: &WordBounds) -> Vec<(Kind, Stats)> {
	let mut out = Vec::new();
	for kind in KINDS {
		let n = if kind == Kind::All { b.all } else { b.single };
		let n_swap = if kind == Kind::All { b.swapped.min(b.all) } else { b.swapped };
		// every ascending list is a subset of the positions: one jar per subset
		let by_mask: Vec<(Vec<u8>, usize)> = (0..1usize << n).into_par_iter().map(|m| word_jar(sym, kind, &(0..n).filter(|p| m & (1 << p) != 0).collect::<Vec<_>>())).collect();
		let mut cases: Vec<(Vec<u8>, Option<(usize, usize)>)> = Vec::new();
		for idx in 0..vcore::enumerate::strings_count(3, n) {
			let w: Vec<u8> = vcore::enumerate::string_nth(&ROLES, n, idx);
			if w.len() <= n_swap {
				let shared = w.iter().filter(|r| **r == b'B').count();
				for i in 0..shared {
					for j in i + 1..shared {
						cases.push((w.clone(), Some((i, j))));
					}
				}
			}
			cases.push((w, None));
		}
		let st = cases.par_iter().fold(Stats::new, |mut st, (w, swap)| {
			let label = word_label(sym, kind, w, *swap);
			let (c, s) = word_lists(w, *swap).unwrap_or_else(|| fail(&format!("{label}: swap outside the word")));
			let cj = &by_mask[mask_of(&c).unwrap_or_else(|| fail(&format!("{label}: client list not ascending")))];
			let own;
			let sj = match mask_of(&s) {
				Some(m) => &by_mask[m],
				None => {
					own = word_jar(sym, kind, &s);
					&own
				},
			};
			st.outcome(if swap.is_some() { "word:with-two-shared-positions-swapped-on-the-server" } else { "word:plain" });
			if swap.is_none() && w.len() == n {
				st.outcome("word:of-full-length");
			}
			let set = |l: &[usize]| l.iter().fold(0usize, |m, p| m | 1 << p);
			if set(&c) != set(&s) && cj.1 == sj.1 {
				st.outcome("word:sides-with-different-member-sets-and-equal-class-file-length");
			}
			vcore::watched(|| watch_text(&label), || judge(ctx, &mut st, &label, &cj.0, &sj.0, &[Driver::Zip]));
			st
		}).reduce(Stats::new, Stats::merge);
		let expected = vcore::enumerate::strings_count(3, n) + swap_case_count(n_swap);
		if st.evaluations != expected {
			fail(&format!("role-word space ({}) incomplete: {} of {expected}", kind.name(), st.evaluations));
		}
		out.push((kind, st));
	}
	out
}

// ---------------------------------------------------------------------------------------------
// space 4b: role words over odd-but-legal member keys

fn js16(units: &[u16]) -> JS {
	JS(units.to_vec())
}

/// names that collide when a key is built carelessly: (name, descriptor) pairs whose concatenations are equal ("aL"+"La;" and
/// "a"+"LLa;"), names that are equal after a lossy conversion (two different lone surrogates), the encoded NUL, a
/// supplementary character, class names beginning with the tag letter `L`
fn odd_name(p: usize) -> (JS, &'static str) {
	match p {
		0 => (js("aL"), "La;"),
		1 => (js("a"), "LLa;"),
		2 => (js16(&[0xd800]), "I"),
		3 => (js16(&[0xd801]), "I"),
		4 => (js16(&[0]), "I"),
		5 => (js("a"), "La;"),
		6 => (js("aL"), "LLa;"),
		7 => (js16(&[0xd800, 0xdc00]), "I"),
		8 => (js16(&[0xdc00]), "I"),
		9 => (js("\u{e9}"), "I"),
		10 => (js("e\u{301}"), "I"),
		_ => (js(&format!("a${p}")), "I"),
	}
}

fn odd_field(p: usize) -> SField {
	let (name, desc) = odd_name(p);
	SField { access: 0x0001, name, desc: js(desc), ..Default::default() }
}

fn odd_method(p: usize) -> SMethod {
	let (name, desc) = odd_name(p);
	SMethod { access: 0x0401, name, desc: js(&format!("({desc})V")), ..Default::default() }
}

fn odd_itf(p: usize) -> JS {
	match p {
		0 => js("La"),
		1 => js("LLa"),
		2 => js16(&[b'p' as u16, b'/' as u16, 0xd800]),
		3 => js16(&[b'p' as u16, b'/' as u16, 0xd801]),
		4 => js("p/W$"),
		5 => js("p/W"),
		6 => js("a"),
		7 => js16(&[b'p' as u16, b'/' as u16, 0xd800, 0xdc00]),
		8 => js("p/W$$"),
		9 => js("p/\u{e9}"),
		10 => js("p/e\u{301}"),
		_ => js(&format!("p/W${p}")),
	}
}

const ODD: Syms = Syms { tag: "oddword", field: odd_field, method: odd_method, itf: odd_itf };

// ---------------------------------------------------------------------------------------------
// space 7: side marks that are already there (a jar that is itself the output of a merge, or annotated by hand)

fn env_value(side: u8) -> SElementValue {
	SElementValue::Enum { type_name: js(oracle::ENV_TYPE), const_name: js(if side == b'C' { "CLIENT" } else { "SERVER" }) }
}

fn env_mark(side: u8) -> SAnnotation {
	SAnnotation { type_name: js(oracle::ENVIRONMENT), pairs: vec![(js("value"), env_value(side))] }
}

fn itf_mark(side: u8, itf: &JS) -> SAnnotation {
	let mut d = vec![b'L' as u16];
	d.extend(&itf.0);
	d.push(b';' as u16);
	SAnnotation { type_name: js(oracle::ENV_ITF), pairs: vec![(js("value"), env_value(side)), (js("itf"), SElementValue::Class(JS(d)))] }
}

fn itf_container(marks: Vec<SAnnotation>) -> SAnnotation {
	SAnnotation { type_name: js(oracle::ENV_ITFS), pairs: vec![(js("value"), SElementValue::Array(marks.into_iter().map(SElementValue::Annotation).collect()))] }
}

/// marks a class / member may carry already: none, visible CLIENT, visible SERVER, invisible CLIENT, invisible SERVER
const PREMARKS: usize = 5;

fn premark(a: &mut SAnnotations, opt: usize) {
	match opt {
		1 => a.visible.push(env_mark(b'C')),
		2 => a.visible.push(env_mark(b'S')),
		3 => a.invisible.push(env_mark(b'C')),
		4 => a.invisible.push(env_mark(b'S')),
		_ => {},
	}
}

fn digits(d: &[usize]) -> String {
	if d.is_empty() { "-".to_owned() } else { d.iter().map(|x| x.to_string()).collect() }
}

fn digits_parse(t: &str, below: usize) -> Option<Vec<usize>> {
	if t == "-" { Some(Vec::new()) } else { t.chars().map(|c| c.to_digit(10).map(|x| x as usize).filter(|x| *x < below)).collect() }
}

/// marks in one annotation list of a one-sided class
const LIST_MARKS: [&str; 5] = ["", "C", "S", "CS", "SC"];
/// [which side has the class, marks in its visible list, marks in its invisible list, interface marks, marks of a field, marks of a method]
const ONE_SIDED_DIMS: [usize; 6] = [2, 5, 5, 3, PREMARKS, PREMARKS];
const PREMARK_ENTRY: &str = "net/minecraft/P.class";

fn premarked_one_sided_case(d: &[usize]) -> (Entries, Entries) {
	let mut c = skeleton("net/minecraft/P");
	c.interfaces = vec![witf(0)];
	c.annotations.visible.push(ann("Lp/ClassVis;"));
	c.annotations.visible.extend(LIST_MARKS[d[1]].bytes().map(env_mark));
	c.annotations.visible.push(ann("Lp/ClassVis2;"));
	c.annotations.invisible.extend(LIST_MARKS[d[2]].bytes().map(env_mark));
	c.annotations.invisible.push(ann("Lp/ClassInv;"));
	match d[3] {
		1 => c.annotations.invisible.push(itf_container(vec![itf_mark(b'C', &witf(0)), itf_mark(b'S', &js("p/Gone"))])),
		2 => c.annotations.visible.push(itf_mark(b'S', &witf(0))),
		_ => {},
	}
	let mut f = wfield(1);
	premark(&mut f.annotations, d[4]);
	c.fields = vec![wfield(0), f, wfield(4)];
	let mut m = wmethod(1);
	premark(&mut m.annotations, d[5]);
	c.methods = vec![m, wmethod(0)];
	let label = format!("premarked/one-sided/{}", digits(d));
	let class = (PREMARK_ENTRY.to_owned(), Item::File(class_bytes(&label, &c, &Encoding::default())));
	let other = ("assets/other.txt".to_owned(), Item::File(b"o".to_vec()));
	let with = vec![other.clone(), class];
	let without = vec![other];
	if d[0] == 0 { (with, without) } else { (without, with) }
}

/// a class with the members of `list`, the member of position p carrying the mark `pm[p]` already
fn premarked_member_class(kind: Kind, list: &[usize], pm: &[usize]) -> SClass {
	let mut c = word_class(&PLAIN, kind, list);
	if kind == Kind::Fields {
		for (f, p) in c.fields.iter_mut().zip(list) {
			premark(&mut f.annotations, pm[*p]);
		}
	} else {
		for (m, p) in c.methods.iter_mut().zip(list) {
			premark(&mut m.annotations, pm[*p]);
		}
	}
	c
}

fn one_class_jars(label: &str, c: &SClass, s: &SClass) -> (Entries, Entries) {
	let e = |x: &SClass| vec![(WORD_ENTRY.to_owned(), Item::File(class_bytes(label, x, &Encoding::default())))];
	(e(c), e(s))
}

fn premarked_member_case(kind: Kind, w: &[u8], pm: &[usize]) -> Option<(Entries, Entries)> {
	if pm.len() != w.len() || !matches!(kind, Kind::Fields | Kind::Methods) {
		return None;
	}
	let (c, s) = word_lists(w, None)?;
	let label = format!("premarked/{}/{}/{}", kind.name(), word_text(w), digits(pm));
	Some(one_class_jars(&label, &premarked_member_class(kind, &c, pm), &premarked_member_class(kind, &s, pm)))
}

/// how the interface marks that are already there are stored: one container in the invisible list, one in the visible list,
/// every mark as an annotation of its own
const ITF_FORMS: usize = 3;
/// which side's class carries them: both, the client's, the server's
const CARRIERS: usize = 3;

fn premarked_itf_class(list: &[usize], pm: &[usize], form: usize, stale: bool, carries: bool) -> SClass {
	let mut c = word_class(&PLAIN, Kind::Interfaces, list);
	if carries {
		let mut marks: Vec<SAnnotation> = pm.iter().enumerate().filter(|(_, m)| **m != 0).map(|(p, m)| itf_mark(if *m == 1 { b'C' } else { b'S' }, &witf(p))).collect();
		if stale {
			marks.push(itf_mark(b'C', &js("p/Gone")));
		}
		if !marks.is_empty() {
			match form {
				0 => c.annotations.invisible.push(itf_container(marks)),
				1 => c.annotations.visible.push(itf_container(marks)),
				_ => c.annotations.invisible.extend(marks),
			}
		}
	}
	c
}

/// `opt` = [form, carriers, stale mark too]
fn premarked_itf_case(w: &[u8], pm: &[usize], opt: &[usize]) -> Option<(Entries, Entries)> {
	let [form, carriers, stale] = opt else { return None };
	if pm.len() != w.len() || *form >= ITF_FORMS || *carriers >= CARRIERS || *stale > 1 {
		return None;
	}
	let (c, s) = word_lists(w, None)?;
	let label = format!("premarked/interfaces/{}/{}/{}", word_text(w), digits(pm), digits(opt));
	Some(one_class_jars(&label, &premarked_itf_class(&c, pm, *form, *stale == 1, *carriers != 2), &premarked_itf_class(&s, pm, *form, *stale == 1, *carriers != 1)))
}

/// a class of both sides that carries an @Environment itself; `opt` = [mark, carriers]
fn premarked_class_case(w: &[u8], opt: &[usize]) -> Option<(Entries, Entries)> {
	let [mark, carriers] = opt else { return None };
	if *mark >= PREMARKS || *carriers >= CARRIERS {
		return None;
	}
	let (c, s) = word_lists(w, None)?;
	let label = format!("premarked/class/{}/{}", word_text(w), digits(opt));
	let class = |list: &[usize], carries: bool| {
		let mut x = word_class(&PLAIN, Kind::All, list);
		if carries {
			premark(&mut x.annotations, *mark);
		}
		x
	};
	Some(one_class_jars(&label, &class(&c, *carriers != 2), &class(&s, *carriers != 1)))
}

fn all_words(n: usize) -> Vec<Vec<u8>> {
	(0..vcore::enumerate::strings_count(3, n)).map(|i| vcore::enumerate::string_nth(&ROLES, n, i)).collect()
}

/// every case of the space as (label, client entries, server entries)
fn premarked_cases(n_members: usize, n_itfs: usize) -> Vec<(String, Entries, Entries)> {
	let mut out = Vec::new();
	let mut push = |label: String, case: Option<(Entries, Entries)>| {
		let (c, s) = case.unwrap_or_else(|| fail(&format!("{label}: no such case")));
		out.push((label, c, s));
	};
	for idx in 0..vcore::enumerate::Product::size(&ONE_SIDED_DIMS) {
		let d = vcore::enumerate::product_nth(&ONE_SIDED_DIMS, idx);
		push(format!("premarked/one-sided/{}", digits(&d)), Some(premarked_one_sided_case(&d)));
	}
	for kind in [Kind::Fields, Kind::Methods] {
		for w in all_words(n_members) {
			let dims = vec![PREMARKS; w.len()];
			for idx in 0..vcore::enumerate::Product::size(&dims) {
				let pm = vcore::enumerate::product_nth(&dims, idx);
				push(format!("premarked/{}/{}/{}", kind.name(), word_text(&w), digits(&pm)), premarked_member_case(kind, &w, &pm));
			}
		}
	}
	for w in all_words(n_itfs) {
		let dims = vec![3; w.len()];
		for idx in 0..vcore::enumerate::Product::size(&dims) {
			let pm = vcore::enumerate::product_nth(&dims, idx);
			for stale in 0..2 {
				if stale == 0 && pm.iter().all(|m| *m == 0) {
					// nothing is there already: one case
					let opt = [0, 0, 0];
					push(format!("premarked/interfaces/{}/{}/{}", word_text(&w), digits(&pm), digits(&opt)), premarked_itf_case(&w, &pm, &opt));
					continue;
				}
				for form in 0..ITF_FORMS {
					for carriers in 0..CARRIERS {
						let opt = [form, carriers, stale];
						push(format!("premarked/interfaces/{}/{}/{}", word_text(&w), digits(&pm), digits(&opt)), premarked_itf_case(&w, &pm, &opt));
					}
				}
			}
		}
	}
	for w in all_words(2) {
		for mark in 1..PREMARKS {
			for carriers in 0..CARRIERS {
				let opt = [mark, carriers];
				push(format!("premarked/class/{}/{}", word_text(&w), digits(&opt)), premarked_class_case(&w, &opt));
			}
		}
	}
	out
}

fn premarked_by_label(parts: &[&str]) -> Option<(Entries, Entries)> {
	let word = |w: &str| -> Option<Vec<u8>> {
		let w: Vec<u8> = if w == "-" { Vec::new() } else { w.bytes().collect() };
		(w.len() <= 8 && w.iter().all(|r| ROLES.contains(r))).then_some(w)
	};
	match parts {
		["one-sided", d] => {
			let d = digits_parse(d, 10)?;
			(d.len() == ONE_SIDED_DIMS.len() && d.iter().zip(ONE_SIDED_DIMS).all(|(x, n)| *x < n)).then(|| premarked_one_sided_case(&d))
		},
		[kind @ ("fields" | "methods"), w, pm] => premarked_member_case(KINDS.into_iter().find(|k| k.name() == *kind)?, &word(w)?, &digits_parse(pm, PREMARKS)?),
		["interfaces", w, pm, opt] => premarked_itf_case(&word(w)?, &digits_parse(pm, 3)?, &digits_parse(opt, 10)?),
		["class", w, opt] => premarked_class_case(&word(w)?, &digits_parse(opt, 10)?),
		_ => None,
	}
}

fn premarked_space(ctx: &Ctx, n_members: usize, n_itfs: usize) -> Stats {
	premarked_cases(n_members, n_itfs).into_par_iter().fold(Stats::new, |mut st, (label, c, s)| {
		let (cj, sj) = (jar(&label, &c), jar(&label, &s));
		st.outcome(&format!("premarked-space:{}", label.split('/').nth(1).unwrap_or("?")));
		vcore::watched(|| watch_text(&label), || judge(ctx, &mut st, &label, &cj, &sj, &BOTH));
		st
	}).reduce(Stats::new, Stats::merge)
}

// ---------------------------------------------------------------------------------------------
// space 8: counts at the limit of their 16-bit field before the merge adds a mark

const LIMIT_COUNTS: [usize; 2] = [65534, 65535];

fn many_annotations(a: &mut SAnnotations, list: &str, n: usize) {
	let filler = SAnnotation { type_name: js("Lp/A;"), pairs: Vec::new() };
	if list == "visible" {
		a.visible = vec![filler; n];
	} else {
		a.invisible = vec![filler; n];
	}
}

/// `what` ∈ one-sided | field | method | interfaces; `side` = the side that has the class / the extra member / the extra
/// interface; `list` = the annotation list that is (nearly) full
fn limits_case(what: &str, side: &str, list: &str, n: usize) -> Option<(Entries, Entries)> {
	if !["client", "server"].contains(&side) || !["visible", "invisible"].contains(&list) || !LIMIT_COUNTS.contains(&n) {
		return None;
	}
	let label = format!("limits/{what}/{side}/{list}/{n}");
	let mut base = word_class(&PLAIN, Kind::All, &[0, 1]);
	let mut rich = base.clone();
	match what {
		"one-sided" => many_annotations(&mut rich.annotations, list, n),
		"field" => {
			let mut f = wfield(2);
			many_annotations(&mut f.annotations, list, n);
			rich.fields.insert(1, f);
		},
		"method" => {
			let mut m = wmethod(2);
			many_annotations(&mut m.annotations, list, n);
			rich.methods.insert(1, m);
		},
		"interfaces" => {
			many_annotations(&mut base.annotations, list, n);
			many_annotations(&mut rich.annotations, list, n);
			rich.interfaces.insert(1, witf(2));
		},
		_ => return None,
	}
	let entry = |c: &SClass| (WORD_ENTRY.to_owned(), Item::File(class_bytes(&label, c, &Encoding::default())));
	let other = ("assets/other.txt".to_owned(), Item::File(b"o".to_vec()));
	let with = vec![other.clone(), entry(&rich)];
	let without = if what == "one-sided" { vec![other] } else { vec![other, entry(&base)] };
	Some(if side == "client" { (with, without) } else { (without, with) })
}

fn limits_space(ctx: &Ctx) -> Stats {
	let mut cases = Vec::new();
	for what in ["one-sided", "field", "method", "interfaces"] {
		for side in ["client", "server"] {
			for list in ["visible", "invisible"] {
				for n in LIMIT_COUNTS {
					cases.push((what, side, list, n));
				}
			}
		}
	}
	cases.into_par_iter().fold(Stats::new, |mut st, (what, side, list, n)| {
		let label = format!("limits/{what}/{side}/{list}/{n}");
		let (c, s) = limits_case(what, side, list, n).unwrap_or_else(|| fail(&format!("{label}: no such case")));
		let (cj, sj) = (jar(&label, &c), jar(&label, &s));
		st.outcome(&format!("limits:{n}-annotations-in-the-list-before-the-merge"));
		vcore::watched(|| watch_text(&label), || judge(ctx, &mut st, &label, &cj, &sj, &BOTH));
		st
	}).reduce(Stats::new, Stats::merge)
}

/// `Read + Seek` sources that serve the jar in pieces: (bytes per call at most, every n-th call is `Interrupted`; 0 = never)
fn chunked_drivers(thorough: bool) -> Vec<Driver> {
	let chunks: &[usize] = if thorough { &[1, 2, 3, 5, 64, 1000, 32768] } else { &[1, 3, 64, 32768] };
	let interrupts: &[usize] = if thorough { &[0, 2, 3] } else { &[0, 3] };
	let mut v = Vec::new();
	for c in chunks {
		for i in interrupts {
			v.push(Driver::Chunked { chunk: *c, interrupt: *i });
		}
	}
	v
}

// ---------------------------------------------------------------------------------------------
// space 5: entry names around the rules "signature file", "bundled server library", "manifest"

const NAME_DIRS: [&str; 13] = ["", "META-INF/", "META-INF/sub/", "META-INF/versions/9/", "meta-inf/", "XMETA-INF/", "META-INFX/", "assets/META-INF/", "net/minecraft/", "net/minecraftx/", "com/google/", "assets/keys/", "net/"];
const NAME_STEMS: [&str; 4] = ["MOJANGCS", "MANIFEST", "a", "SIG-A"];
const NAME_EXTS: [&str; 19] = [".SF", ".RSA", ".sf", ".rsa", ".Rsa", ".SF.txt", ".RSA.bak", "SF", "RSA", ".DSA", ".EC", ".MF", ".mf", ".MF.bak", ".txt", ".class", ".class.bak", "", "/"];
const NAME_PRESENCES: [&str; 4] = ["client", "server", "both-equal", "both-differing"];

fn name_case(name: &str, presence: &str) -> Option<(Entries, Entries)> {
	let (c, s): (Option<Item>, Option<Item>) = if name.ends_with('/') {
		match presence {
			"client" => (Some(Item::Dir), None),
			"server" => (None, Some(Item::Dir)),
			"both-equal" => (Some(Item::Dir), Some(Item::Dir)),
			_ => return None,
		}
	} else if let Some(internal) = name.strip_suffix(".class") {
		let a = simple_class(internal, &[1, 0], &[3, 0], &[0]);
		let b = simple_class(internal, &[0, 2], &[3, 4], &[0, 1]);
		match presence {
			"client" => (Some(Item::File(a)), None),
			"server" => (None, Some(Item::File(b))),
			"both-equal" => (Some(Item::File(a.clone())), Some(Item::File(a))),
			"both-differing" => (Some(Item::File(a)), Some(Item::File(b))),
			_ => return None,
		}
	} else {
		let a = format!("client content of {name}\n").into_bytes();
		let b = format!("the server's content of {name}\r\n").into_bytes();
		match presence {
			"client" => (Some(Item::File(a)), None),
			"server" => (None, Some(Item::File(b))),
			"both-equal" => (Some(Item::File(a.clone())), Some(Item::File(a))),
			"both-differing" => (Some(Item::File(a)), Some(Item::File(b))),
			_ => return None,
		}
	};
	// neighbours, in a different order on the two sides
	let same = Item::File(simple_class("net/minecraft/Same", &[0, 2], &[3, 0], &[0]));
	let text = Item::File(b"equal\n".to_vec());
	let mut cj: Entries = vec![("net/minecraft/Same.class".to_owned(), same.clone())];
	cj.extend(c.map(|i| (name.to_owned(), i)));
	cj.push(("assets/equal.txt".to_owned(), text.clone()));
	let mut sj: Entries = vec![("assets/equal.txt".to_owned(), text)];
	sj.extend(s.map(|i| (name.to_owned(), i)));
	sj.push(("net/minecraft/Same.class".to_owned(), same));
	Some((cj, sj))
}

fn all_names() -> Vec<String> {
	let mut v = Vec::new();
	for d in NAME_DIRS {
		for s in NAME_STEMS {
			for e in NAME_EXTS {
				v.push(format!("{d}{s}{e}"));
			}
		}
	}
	v
}

fn names_space(ctx: &Ctx) -> Stats {
	let mut cases = Vec::new();
	for n in all_names() {
		for p in NAME_PRESENCES {
			if name_case(&n, p).is_some() {
				cases.push((n.clone(), p));
			}
		}
	}
	cases.par_iter().fold(Stats::new, |mut st, (name, p)| {
		let label = format!("names/{p}/{name}");
		let (c, s) = name_case(name, p).unwrap_or_else(|| fail(&format!("{label}: no such case")));
		let (cj, sj) = (jar(&label, &c), jar(&label, &s));
		let (pres, why) = oracle::presence(name, *p != "server", *p != "client");
		st.outcome(&format!("names:{pres:?}:{why}"));
		if pres == oracle::Presence::Required {
			let u = name.to_ascii_uppercase();
			if u.ends_with(".SF") || u.ends_with(".RSA") || u.contains(".SF.") || u.contains(".RSA.") || u.ends_with("SF") || u.ends_with("RSA") {
				st.outcome("names:look-alike-of-a-signature-file-that-has-to-stay");
			}
			if u.contains("MANIFEST.MF") && !oracle::is_manifest_name(name) {
				st.outcome("names:look-alike-of-the-manifest-that-has-to-stay-as-it-is");
			}
		}
		vcore::watched(|| watch_text(&label), || judge(ctx, &mut st, &label, &cj, &sj, &BOTH));
		st
	}).reduce(Stats::new, Stats::merge)
}

/// entry names with one character of 1, 2, 3 or 4 UTF-8 bytes after every prefix length of three rule-relevant prefixes and
/// before every tail of the three rule-relevant endings: a name rule that cuts the name at a byte offset (9 = "META-INF/",
/// 14 = "net/minecraft/", 3, 4 or 6 from the end) meets a character boundary, the middle of a character and a name shorter
/// than the cut
fn multibyte_names() -> Vec<String> {
	let mut set = std::collections::BTreeSet::new();
	let mut tails: Vec<&str> = Vec::new();
	for e in [".class", ".SF", ".RSA"] {
		for q in 0..=e.len() {
			tails.push(&e[e.len() - q..]);
		}
	}
	for base in ["META-INF/MOJANGCSX", "net/minecraft/abcd", "com/google/abcdefg"] {
		for p in 0..=16 {
			for ch in ["x", "\u{e9}", "\u{20ac}", "\u{1f600}"] {
				for t in &tails {
					set.insert(format!("{}{ch}{t}", &base[..p]));
				}
			}
		}
	}
	set.into_iter().collect()
}

fn multibyte_names_space(ctx: &Ctx, presences: &[&'static str]) -> Stats {
	let mut cases = Vec::new();
	for n in multibyte_names() {
		for p in presences {
			cases.push((n.clone(), *p));
		}
	}
	cases.par_iter().fold(Stats::new, |mut st, (name, p)| {
		let label = format!("names-multibyte/{p}/{name}");
		let (c, s) = name_case(name, p).unwrap_or_else(|| fail(&format!("{label}: no such case")));
		let (cj, sj) = (jar(&label, &c), jar(&label, &s));
		let (pres, why) = oracle::presence(name, *p != "server", *p != "client");
		st.outcome(&format!("names:{pres:?}:{why}"));
		if !name.is_ascii() {
			st.outcome("names:with-a-multi-byte-character");
			for (cut, what) in [(9, "byte 9"), (14, "byte 14")] {
				if name.len() > cut && !name.is_char_boundary(cut) {
					st.outcome(&format!("names:{what}-inside-a-character"));
				}
			}
			for back in [3, 4, 6] {
				if name.len() > back && !name.is_char_boundary(name.len() - back) {
					st.outcome(&format!("names:{back}-bytes-from-the-end-inside-a-character"));
				}
			}
		}
		if name.len() < 6 {
			st.outcome("names:shorter-than-six-bytes");
		}
		vcore::watched(|| watch_text(&label), || judge(ctx, &mut st, &label, &cj, &sj, &BOTH));
		st
	}).reduce(Stats::new, Stats::merge)
}

/// boundary contents and kinds: empty files, one byte, one-sided directories, look-alikes, default-package classes
fn boundary_menu() -> Vec<MenuItem> {
	let f = |b: &[u8]| Some(Item::File(b.to_vec()));
	vec![
		MenuItem { what: "empty resource only in the client", name: "assets/empty-c.txt", client: f(b""), server: None },
		MenuItem { what: "empty resource only in the server", name: "data/empty-s.txt", client: None, server: f(b"") },
		MenuItem { what: "empty resource on both sides", name: "assets/empty-both.txt", client: f(b""), server: f(b"") },
		MenuItem { what: "resource empty in the client, not in the server", name: "assets/empty-vs-full.txt", client: f(b""), server: f(b"full") },
		MenuItem { what: "resource empty in the server, not in the client", name: "assets/full-vs-empty.txt", client: f(b"full"), server: f(b"") },
		MenuItem { what: "one-byte resource equal on both sides", name: "assets/one.bin", client: f(&[0]), server: f(&[0]) },
		MenuItem { what: "directory only in the client", name: "assets/", client: Some(Item::Dir), server: None },
		MenuItem { what: ".RSA file outside META-INF differing between the sides", name: "assets/keys/realms.RSA", client: f(&[0x30, 0x82, 1]), server: f(&[0x30, 0x82, 2]) },
		MenuItem { what: ".SF file outside META-INF only in the server", name: "data/x.SF", client: None, server: f(b"Signature-Version: 1.0\r\n") },
		MenuItem { what: "default-package class differing between the sides", name: "b.class", client: f(&simple_class("b", &[1, 0], &[0], &[2])), server: f(&simple_class("b", &[0], &[0, 4], &[2, 1])) },
		MenuItem { what: "default-package class only in the client", name: "c.class", client: f(&simple_class("c", &[3], &[3], &[])), server: None },
		// shared members in opposite orders: incompatible
		MenuItem { what: "second differing class (incompatible orders)", name: "net/minecraft/Diff2.class", client: f(&simple_class("net/minecraft/Diff2", &[0, 2, 3], &[3, 0], &[0, 1])), server: f(&simple_class("net/minecraft/Diff2", &[2, 0, 4], &[0, 3, 1], &[1, 0, 2])) },
	]
}

// ---------------------------------------------------------------------------------------------
// space 6: class sets — every assignment of {absent, client only, server only, identical, differing} to n class names

const CLASS_STATES: [&str; 5] = ["absent", "client", "server", "identical", "differing"];

fn classset_name(i: usize) -> String {
	// one name outside net/minecraft/ (a both-sided or client-only class there is an ordinary class of the game)
	if i == 3 { "com/mojang/K3".to_owned() } else { format!("net/minecraft/K{i}") }
}

/// (client bytes, server bytes) of the differing variant of class i; the lists depend on i, so that an entry taken from the wrong
/// index shows
fn classset_variants(i: usize) -> (Vec<u8>, Vec<u8>) {
	let n = classset_name(i);
	let r = |l: &[usize]| l.iter().map(|x| (x + i) % 5).collect::<Vec<_>>();
	(simple_class(&n, &r(&[0, 1]), &r(&[0, 2, 1]), &r(&[0])), simple_class(&n, &r(&[1, 2]), &r(&[3, 0, 1]), &r(&[0, 3])))
}

fn classset_case(variants: &[(Vec<u8>, Vec<u8>)], states: &[usize]) -> (Entries, Entries) {
	let mut c: Entries = Vec::new();
	let mut s: Entries = Vec::new();
	for (i, st) in states.iter().enumerate() {
		let name = format!("{}.class", classset_name(i));
		let (a, b) = &variants[i];
		match CLASS_STATES[*st] {
			"client" => c.push((name, Item::File(a.clone()))),
			"server" => s.push((name, Item::File(b.clone()))),
			"identical" => {
				c.push((name.clone(), Item::File(b.clone())));
				s.push((name, Item::File(b.clone())));
			},
			"differing" => {
				c.push((name.clone(), Item::File(a.clone())));
				s.push((name, Item::File(b.clone())));
			},
			_ => {},
		}
	}
	// the server lists its entries the other way round: the indices of a name differ between the jars
	s.reverse();
	(c, s)
}

fn classset_space(ctx: &Ctx, n: usize) -> Stats {
	let variants: Vec<(Vec<u8>, Vec<u8>)> = (0..n).map(classset_variants).collect();
	let dims = vec![CLASS_STATES.len(); n];
	(0..vcore::enumerate::Product::size(&dims)).into_par_iter().fold(Stats::new, |mut st, idx| {
		let states = vcore::enumerate::product_nth(&dims, idx);
		let label = format!("classsets/{}", states.iter().map(|x| x.to_string()).collect::<String>());
		let (c, s) = classset_case(&variants, &states);
		let (cj, sj) = (jar(&label, &c), jar(&label, &s));
		let present = |side: &Entries| side.iter().map(|(n, _)| n.clone()).collect::<std::collections::BTreeSet<_>>();
		let (pc, ps) = (present(&c), present(&s));
		st.outcome(if pc.is_empty() && ps.is_empty() { "classsets:both-empty" } else if pc.is_disjoint(&ps) { "classsets:disjoint" } else if pc == ps { "classsets:same-names" } else { "classsets:overlapping" });
		vcore::watched(|| watch_text(&label), || judge(ctx, &mut st, &label, &cj, &sj, &BOTH));
		st
	}).reduce(Stats::new, Stats::merge)
}

// ---------------------------------------------------------------------------------------------

/// rebuilds the two jars of a case from its label
fn case_by_label(label: &str) -> Option<(Vec<u8>, Vec<u8>)> {
	let parts: Vec<&str> = label.split('/').collect();
	match parts.as_slice() {
		["order", kind, c, s] => {
			let kind = KINDS.into_iter().find(|k| k.name() == *kind)?;
			Some((order_jar(kind, &seq_parse(c.strip_prefix("c=")?)?), order_jar(kind, &seq_parse(s.strip_prefix("s=")?)?)))
		},
		[tag @ ("entries" | "entries-extended" | "entries-large" | "entries-boundary"), subset, rest @ ..] => {
			let mask = u32::from_str_radix(subset.strip_prefix("subset0x")?, 16).ok()?;
			let m = match *tag {
				"entries-large" => large_menu(),
				"entries-boundary" => boundary_menu(),
				_ => menu(*tag == "entries-extended"),
			};
			if mask >> m.len() != 0 {
				return None;
			}
			let order = match rest {
				[] => EntryOrder::AsListed,
				["reversed"] => EntryOrder::BothReversed,
				["client-reversed"] => EntryOrder::ClientReversed,
				_ => return None,
			};
			Some(entry_case(&m, label, mask, order))
		},
		[tag @ ("word" | "oddword"), kind, w] | [tag @ ("word" | "oddword"), kind, w, _] => {
			let sym = if *tag == "word" { &PLAIN } else { &ODD };
			let kind = KINDS.into_iter().find(|k| k.name() == *kind)?;
			let word: Vec<u8> = if *w == "-" { Vec::new() } else { w.bytes().collect() };
			if word.len() > 12 || word.iter().any(|r| !ROLES.contains(r)) {
				return None;
			}
			let swap = match parts.get(3) {
				None => None,
				Some(t) => {
					let (i, j) = t.strip_prefix("swap=")?.split_once('.')?;
					Some((i.parse().ok()?, j.parse().ok()?))
				},
			};
			let (c, s) = word_lists(&word, swap)?;
			Some((word_jar(sym, kind, &c).0, word_jar(sym, kind, &s).0))
		},
		["limits", what, side, list, n] => {
			let (c, s) = limits_case(what, side, list, n.parse().ok()?)?;
			Some((jar(label, &c), jar(label, &s)))
		},
		["premarked", rest @ ..] => {
			let (c, s) = premarked_by_label(rest)?;
			Some((jar(label, &c), jar(label, &s)))
		},
		["names" | "names-multibyte", presence, name @ ..] => {
			let (c, s) = name_case(&name.join("/"), presence)?;
			Some((jar(label, &c), jar(label, &s)))
		},
		["classsets", digits] => {
			let states: Vec<usize> = digits.chars().map(|d| d.to_digit(10).map(|x| x as usize).filter(|x| *x < CLASS_STATES.len())).collect::<Option<_>>()?;
			let variants: Vec<(Vec<u8>, Vec<u8>)> = (0..states.len()).map(classset_variants).collect();
			let (c, s) = classset_case(&variants, &states);
			Some((jar(label, &c), jar(label, &s)))
		},
		["content", ..] => content_cases(true).into_iter().chain(content_cases(false)).find(|(l, _, _)| l == label).map(|(_, c, s)| (c, s)),
		_ => None,
	}
}

fn replay(ctx: &'static Ctx, path: &std::path::Path) -> ! {
	let body = vcore::replay_body(path);
	let label = body.lines().next().and_then(|l| l.strip_prefix("label=")).unwrap_or("replay").to_owned();
	let (client, server) = if body.lines().any(|l| l == "client jar (hex):") {
		let block = |head: &str| -> Vec<u8> {
			let hex: String = body.lines().skip_while(|l| *l != head).skip(1).take(1).collect();
			vcore::unhex(&hex).unwrap_or_else(|| vcore::machinery_fail(&format!("replay: bad hex after {head:?}")))
		};
		(block("client jar (hex):"), block("server jar (hex):"))
	} else {
		case_by_label(&label).unwrap_or_else(|| vcore::machinery_fail(&format!("replay: neither jars nor a known label ({label:?})")))
	};
	// every way the tiers hand jars to the merge
	let mut drivers = BOTH.to_vec();
	drivers.extend(chunked_drivers(true));
	let mut st = Stats::new();
	judge(ctx, &mut st, &label, &client, &server, &drivers);
	let mut st2 = Stats::new();
	judge(ctx, &mut st2, &label, &client, &server, &drivers);
	if st.outcomes != st2.outcomes {
		vcore::machinery_fail("replay: two runs of the same case differ");
	}
	ctx.finish(json!({"evaluations": st.evaluations + st2.evaluations, "distinct_nontrivial": 2, "rule": "replay of one pair of jars, twice", "samples": [label], "outcomes": st.outcomes}), &[]);
}

fn sum_prefix(st: &Stats, prefix: &str) -> u64 {
	st.outcomes.iter().filter(|(k, _)| k.starts_with(prefix)).map(|(_, v)| *v).sum()
}

fn main() {
	// the zip writer inside ParsedJar::to_mem allocates a deflate state (hundreds of KiB) per entry: keep such
	// blocks on the heap instead of mmap/munmap-ing them a million times from 16 threads
	// SAFETY: mallopt only tunes the allocator
	unsafe {
		libc::mallopt(libc::M_MMAP_THRESHOLD, 1 << 25);
		libc::mallopt(libc::M_TRIM_THRESHOLD, 1 << 30);
	}
	let ctx: &'static Ctx = Box::leak(Box::new(Ctx::new("C13", "exploration")));
	if let Some(path) = ctx.replay.clone() {
		replay(ctx, &path);
	}
	let quick = ctx.quick();
	let mut spaces = serde_json::Map::new();
	let mut total = Stats::new();
	let t0 = std::time::Instant::now();
	let mut run = |name: &str, st: Stats| -> Stats {
		if std::env::var_os("C13_TIMES").is_some() {
			eprintln!("C13: {name} done at {:.1}s", t0.elapsed().as_secs_f64());
		}
		spaces.insert(name.to_owned(), json!({"evaluations": st.evaluations, "outcomes": st.outcomes, "distinct_nontrivial": st.distinct.len()}));
		total = std::mem::take(&mut total).merge(st.clone());
		st
	};

	// 1. member orders
	let k = ctx.tier.pick(4, 5);
	let n_seqs = vcore::enumerate::injective_sequences(k, k).len() as u64;
	let mut order_by_kind = Vec::new();
	let mut order = Stats::new();
	for (kind, st) in order_space(ctx, k) {
		order_by_kind.push((kind, run(&format!("member-order/{}", kind.name()), st.clone())));
		order = order.merge(st);
	}

	// 1b. member orders by role words
	let wb = WordBounds { single: ctx.tier.pick(9, 11), all: ctx.tier.pick(7, 9), swapped: ctx.tier.pick(7, 9) };
	let mut word_by_kind = Vec::new();
	let mut words = Stats::new();
	for (kind, st) in word_space(ctx, &PLAIN, &wb) {
		word_by_kind.push((kind, run(&format!("role-words/{}", kind.name()), st.clone())));
		words = words.merge(st);
	}

	// 1c. role words over odd-but-legal member keys
	let ob = WordBounds { single: ctx.tier.pick(6, 8), all: ctx.tier.pick(5, 6), swapped: ctx.tier.pick(5, 6) };
	let mut odd_by_kind = Vec::new();
	for (kind, st) in word_space(ctx, &ODD, &ob) {
		odd_by_kind.push((kind, run(&format!("odd-keys/{}", kind.name()), st)));
	}

	// 1d. side marks that are already there
	let (pm_members, pm_itfs) = (ctx.tier.pick(3, 4), ctx.tier.pick(3, 4));
	let premarked = run("marks-already-there", premarked_space(ctx, pm_members, pm_itfs));

	// 2. entries (merge() warns on stderr for every differing resource)
	let base_menu = menu(false);
	let full_menu = menu(true);
	let captured = capture_stderr();
	let lap = |what: &str| {
		if std::env::var_os("C13_TIMES").is_some() {
			println!("C13: {what} at {:.1}s", t0.elapsed().as_secs_f64());
		}
	};
	let all_base: Vec<u32> = (0..1u32 << base_menu.len()).collect();
	let mut entries = entry_space(ctx, &base_menu, "entries", &all_base, EntryOrder::AsListed, &BOTH);
	entries = entries.merge(entry_space(ctx, &base_menu, "entries", &all_base, EntryOrder::BothReversed, if quick { &BOTH[..1] } else { &BOTH }));
	if !quick {
		// (quick: the boundary menu and the class sets list the entries of the two jars in opposite orders)
		entries = entries.merge(entry_space(ctx, &base_menu, "entries", &all_base, EntryOrder::ClientReversed, &BOTH[..1]));
	}
	lap("base menu");
	let ext_masks = extended_masks(base_menu.len(), full_menu.len(), !quick);
	entries = entries.merge(entry_space(ctx, &full_menu, "entries-extended", &ext_masks, EntryOrder::AsListed, if quick { &BOTH } else { &BOTH[..1] }));
	lap("extended menu");
	let big_menu = large_menu();
	let all_big: Vec<u32> = (0..1u32 << big_menu.len()).collect();
	entries = entries.merge(entry_space(ctx, &big_menu, "entries-large", &all_big, EntryOrder::AsListed, &BOTH));
	lap("large menu");
	// the same jars behind sources that serve them in pieces
	let chunked = chunked_drivers(!quick);
	let mut pieces = entry_space(ctx, &big_menu, "entries-large", &all_big, EntryOrder::AsListed, &chunked);
	pieces = pieces.merge(entry_space(ctx, &full_menu, "entries-extended", &extended_masks(base_menu.len(), full_menu.len(), false).into_iter().filter(|m| m >> base_menu.len() == 0 || m >> base_menu.len() == (1 << (full_menu.len() - base_menu.len())) - 1).collect::<Vec<_>>(), EntryOrder::ClientReversed, &chunked));
	lap("chunked sources");
	let limits = limits_space(ctx);
	lap("limits");
	let edge_menu = boundary_menu();
	let all_edge: Vec<u32> = (0..1u32 << edge_menu.len()).collect();
	let mut boundary = entry_space(ctx, &edge_menu, "entries-boundary", &all_edge, EntryOrder::AsListed, &BOTH);
	boundary = boundary.merge(entry_space(ctx, &edge_menu, "entries-boundary", &all_edge, EntryOrder::ClientReversed, &BOTH));
	lap("boundary menu");
	let names = names_space(ctx);
	lap("names");
	let mb_presences: &[&'static str] = if quick { &["client", "server", "both-differing"] } else { &NAME_PRESENCES };
	let mb_names = multibyte_names_space(ctx, mb_presences);
	lap("multi-byte names");
	let n_class_names = ctx.tier.pick(5, 6);
	let classsets = classset_space(ctx, n_class_names);
	lap("class sets");
	let (warnings, other_stderr) = if captured { release_stderr() } else { (0, Vec::new()) };
	for l in other_stderr.iter().take(20) {
		eprintln!("{l}");
	}
	let entries = run("entries", entries);
	let pieces = run("entries-behind-chunked-sources", pieces);
	let limits = run("counts-at-their-limit", limits);
	let boundary = run("entries-boundary", boundary);
	let names = run("entry-names", names);
	let mb_names = run("entry-names-multibyte", mb_names);
	let classsets = run("class-sets", classsets);

	// 3. content of differing classes
	let content = run("differing-class-content", content_space(ctx, !quick));

	// vacuity floors
	if order.evaluations != 4 * n_seqs * n_seqs {
		fail(&format!("member-order space incomplete: {} of {}", order.evaluations, 4 * n_seqs * n_seqs));
	}
	for (kind, st) in &order_by_kind {
		let lists: &[&str] = match kind {
			Kind::Fields => &["field"],
			Kind::Methods => &["method"],
			Kind::Interfaces => &["interface"],
			Kind::All => &["field", "method", "interface"],
		};
		for l in lists {
			for rel in ["disjoint", "prefix", "suffix", "interleaving", "subsequence", "incompatible-permutation", "incompatible-other", "one-side-empty"] {
				ctx.floor(&format!("member-order sweep {}: pairs of {l} lists related as {rel}", kind.name()), 1, st.get(&format!("relation:{l}:{rel}")));
			}
			// identical lists make identical classes: those pairs take the byte-identical pass-through
			ctx.floor(&format!("member-order sweep {}: pairs of identical {l} lists (class passed through byte-identical)", kind.name()), n_seqs, st.get("class:identical-passed-through-byte-identical"));
			ctx.floor(&format!("member-order sweep {}: compatible {l} orders found preserved on both sides", kind.name()), 100, st.get(&format!("order:{l}:both-orders-preserved")));
			ctx.floor(&format!("member-order sweep {}: incompatible {l} orders (any order accepted)", kind.name()), 100, st.get(&format!("order:{l}:incompatible-any-order-accepted")));
		}
	}
	for kind in ["field", "method", "interface"] {
		ctx.floor(&format!("{kind}s marked client-only"), 100, total.get(&format!("mark:{kind}:client-only-marked")));
		ctx.floor(&format!("{kind}s marked server-only"), 100, total.get(&format!("mark:{kind}:server-only-marked")));
		ctx.floor(&format!("shared {kind}s found unmarked"), 100, total.get(&format!("mark:{kind}:shared-unmarked")));
	}
	ctx.floor("compatible, non-trivially related orders found preserved on both sides", 100, order.get("order:both-orders-preserved-nontrivially"));
	for (kind, st) in &word_by_kind {
		let lists: &[&str] = match kind {
			Kind::Fields => &["field"],
			Kind::Methods => &["method"],
			Kind::Interfaces => &["interface"],
			Kind::All => &["field", "method", "interface"],
		};
		let n = if *kind == Kind::All { wb.all } else { wb.single };
		ctx.floor(&format!("role words {}: words of the full length {n}", kind.name()), 3u64.pow(n as u32), st.get("word:of-full-length"));
		ctx.floor(&format!("role words {}: cases with two shared positions swapped on the server", kind.name()), swap_case_count(wb.swapped.min(n)), st.get("word:with-two-shared-positions-swapped-on-the-server"));
		ctx.floor(&format!("role words {}: sides with different member sets and class files of equal length", kind.name()), 100, st.get("word:sides-with-different-member-sets-and-equal-class-file-length"));
		for l in lists {
			for rel in ["disjoint", "prefix", "suffix", "interleaving", "subsequence", "incompatible-permutation", "incompatible-other", "one-side-empty"] {
				ctx.floor(&format!("role words {}: pairs of {l} lists related as {rel}", kind.name()), 1, st.get(&format!("relation:{l}:{rel}")));
			}
			// every plain word is a compatible pair; the all-B words are identical classes (not merged member by member)
			let plain = vcore::enumerate::strings_count(3, n) - (n as u64 + 1);
			ctx.floor(&format!("role words {}: compatible {l} orders found preserved on both sides", kind.name()), plain, st.get(&format!("order:{l}:both-orders-preserved")));
			ctx.floor(&format!("role words {}: incompatible {l} orders (any order accepted)", kind.name()), swap_case_count(wb.swapped.min(n)), st.get(&format!("order:{l}:incompatible-any-order-accepted")));
			ctx.floor(&format!("role words {}: {l}s marked client-only", kind.name()), 1000, st.get(&format!("mark:{l}:client-only-marked")));
			ctx.floor(&format!("role words {}: {l}s marked server-only", kind.name()), 1000, st.get(&format!("mark:{l}:server-only-marked")));
		}
	}
	for (kind, st) in &odd_by_kind {
		let lists: &[&str] = match kind {
			Kind::Fields => &["field"],
			Kind::Methods => &["method"],
			Kind::Interfaces => &["interface"],
			Kind::All => &["field", "method", "interface"],
		};
		let n = if *kind == Kind::All { ob.all } else { ob.single };
		ctx.floor(&format!("odd keys {}: words of the full length {n}", kind.name()), 3u64.pow(n as u32), st.get("word:of-full-length"));
		ctx.floor(&format!("odd keys {}: classes merged member by member", kind.name()), vcore::enumerate::strings_count(3, n) - (n as u64 + 1), st.get("class:differing:merged"));
		for l in lists {
			ctx.floor(&format!("odd keys {}: {l}s marked client-only", kind.name()), 300, st.get(&format!("mark:{l}:client-only-marked")));
			ctx.floor(&format!("odd keys {}: {l}s marked server-only", kind.name()), 300, st.get(&format!("mark:{l}:server-only-marked")));
			ctx.floor(&format!("odd keys {}: compatible {l} orders found preserved on both sides", kind.name()), vcore::enumerate::strings_count(3, n) - (n as u64 + 1), st.get(&format!("order:{l}:both-orders-preserved")));
		}
	}
	ctx.floor("marks already there: cases", 20000, premarked.get("case:held") + premarked.get("case:differences"));
	ctx.floor("marks already there: one-sided classes", 2 * vcore::enumerate::Product::size(&ONE_SIDED_DIMS), premarked.get("class:one-sided:client") + premarked.get("class:one-sided:server"));
	for kind in ["class", "field", "method", "interface"] {
		ctx.floor(&format!("marks already there: one-sided {kind} that carried a mark of the other side and is marked with its own"), 1000, sum_prefix(&premarked, &format!("premarked:{kind}:with-the-other-side:")));
		ctx.floor(&format!("marks already there: one-sided {kind} that carried a mark of its own side"), 1000, sum_prefix(&premarked, &format!("premarked:{kind}:with-its-own-side:")));
		ctx.floor(&format!("marks already there: shared {kind} that carried a mark and got none"), 100, premarked.get(&format!("premarked:{kind}:shared:nothing-added")));
	}
	ctx.floor("marks already there: members of one-sided classes that carried a mark", 1000, premarked.get("premarked:member-of-one-sided-class"));
	ctx.floor("marks already there: classes with interface marks in the input", 10000, premarked.get("premarked:class-with-interface-marks-in-the-input"));
	ctx.floor("marks already there: identical classes carrying marks passed through", 100, premarked.get("class:identical-passed-through-byte-identical"));
	ctx.floor("multi-byte entry names: cases", 8000, mb_names.get("case:held") + mb_names.get("case:differences"));
	ctx.floor("multi-byte entry names: names with a multi-byte character", 5000, mb_names.get("names:with-a-multi-byte-character"));
	for what in ["byte 9", "byte 14"] {
		ctx.floor(&format!("multi-byte entry names: {what} inside a character"), 500, mb_names.get(&format!("names:{what}-inside-a-character")));
	}
	for back in [3, 4, 6] {
		ctx.floor(&format!("multi-byte entry names: {back} bytes from the end inside a character"), 1000, mb_names.get(&format!("names:{back}-bytes-from-the-end-inside-a-character")));
	}
	ctx.floor("multi-byte entry names: names shorter than six bytes", 300, mb_names.get("names:shorter-than-six-bytes"));
	ctx.floor("multi-byte entry names: signature files dropped", 100, mb_names.get("entry:dropped:signature-file"));
	ctx.floor("multi-byte entry names: one-sided classes marked", 100, mb_names.get("mark:class:client-only-marked").min(mb_names.get("mark:class:server-only-marked")));
	ctx.floor("multi-byte entry names: bundled server library classes dropped", 10, mb_names.get("entry:dropped:bundled-server-library"));
	ctx.floor("chunked sources: merges", (chunked.len() * (all_big.len() + 50)) as u64, pieces.get("driver:zip-jar-behind-a-chunked-source"));
	ctx.floor("chunked sources: entries passed through or merged", 5000, pieces.get("entry:present-once"));
	ctx.floor("chunked sources: classes merged member by member", 500, pieces.get("class:differing:merged"));
	for n in LIMIT_COUNTS {
		ctx.floor(&format!("counts at their limit: cases with {n} annotations in the list"), 16, limits.get(&format!("limits:{n}-annotations-in-the-list-before-the-merge")));
	}
	ctx.floor("counts at their limit: lists of 65534 that received their mark", 16, limits.get("mark:class:client-only-marked") + limits.get("mark:class:server-only-marked") + limits.get("mark:field:client-only-marked") + limits.get("mark:field:server-only-marked") + limits.get("mark:method:client-only-marked") + limits.get("mark:method:server-only-marked") + limits.get("mark:interface:client-only-marked") + limits.get("mark:interface:server-only-marked"));
	ctx.floor("counts at their limit: jars with a full list recognised as such", 16, limits.get("domain:a-count-is-at-its-limit"));
	ctx.floor("entry names: cases", 3000, names.get("case:held") + names.get("case:differences"));
	ctx.floor("entry names: signature files dropped", 16, names.get("entry:dropped:signature-file"));
	ctx.floor("entry names: look-alikes of signature files (.SF/.RSA outside META-INF/, .SF.txt, XSF, ...) kept", 400, names.get("names:look-alike-of-a-signature-file-that-has-to-stay"));
	ctx.floor("entry names: look-alikes of the manifest passed through", 50, names.get("names:look-alike-of-the-manifest-that-has-to-stay-as-it-is"));
	ctx.floor("entry names: manifests", 4, names.get("manifest:other-content") + names.get("manifest:client-content") + names.get("manifest:server-content"));
	ctx.floor("entry names: bundled server library classes dropped", 4, names.get("entry:dropped:bundled-server-library"));
	ctx.floor("entry names: one-sided directories", 50, names.get("entry:directory"));
	ctx.floor("entry names: classes merged member by member", 50, names.get("class:differing:merged"));
	ctx.floor("boundary entries: subsets explored", 2 << edge_menu.len(), boundary.get("case:held") + boundary.get("case:differences"));
	ctx.floor("boundary entries: one-sided or equal resources passed through (empty ones among them)", 1000, boundary.get("resource:one-sided-passed-through") + boundary.get("resource:equal-passed-through"));
	ctx.floor("boundary entries: jars listing their entries in opposite orders", 1 << edge_menu.len(), boundary.get("entries:jars-list-their-entries-in-opposite-orders"));
	if !quick {
		ctx.floor("entries: jars listing their entries in opposite orders", 1 << base_menu.len(), entries.get("entries:jars-list-their-entries-in-opposite-orders"));
	}
	ctx.floor("class sets: assignments explored", 5u64.pow(n_class_names as u32), classsets.get("case:held") + classsets.get("case:differences"));
	for rel in ["both-empty", "disjoint", "same-names", "overlapping"] {
		ctx.floor(&format!("class sets: jars with {rel} class sets"), 1, classsets.get(&format!("classsets:{rel}")));
	}
	ctx.floor("class sets: one-sided classes marked", 1000, classsets.get("mark:class:client-only-marked").min(classsets.get("mark:class:server-only-marked")));
	ctx.floor("class sets: identical classes passed through", 1000, classsets.get("class:identical-passed-through-byte-identical"));
	ctx.floor("class sets: differing classes merged", 1000, classsets.get("class:differing:merged"));
	ctx.floor("rich classes present on one side only, unchanged beyond their mark", 20, content.get("content:one-sided-class:unchanged"));
	ctx.floor("one-sided classes marked (client)", 1, total.get("mark:class:client-only-marked"));
	ctx.floor("one-sided classes marked (server)", 1, total.get("mark:class:server-only-marked"));
	ctx.floor("identical classes passed through byte-identical", 1, total.get("class:identical-passed-through-byte-identical"));
	ctx.floor("differing classes merged and judged", 1000, total.get("class:differing:merged"));
	ctx.floor("signature files dropped", 1, total.get("entry:dropped:signature-file"));
	ctx.floor("bundled server library classes dropped", 1, total.get("entry:dropped:bundled-server-library"));
	ctx.floor("differing resources merged", 1, sum_prefix(&total, "resource:differing:"));
	ctx.floor("manifest entries seen", 1, sum_prefix(&total, "manifest:"));
	ctx.floor("directory entries seen", 1, total.get("entry:directory"));
	ctx.floor("entry subsets explored", 1 << base_menu.len(), entries.get("case:held") + entries.get("case:differences"));
	ctx.floor("merges with ParsedJar inputs", 1000, total.get("driver:parsed-jar-input"));
	ctx.floor("differing-class content cases", 100, content.get("case:held") + content.get("case:differences"));
	ctx.floor("content cases where the rest of the class came from a side", 50, sum_prefix(&content, "content:class-level:from-"));

	let coverage = json!({
		"evaluations": total.evaluations,
		"distinct_nontrivial": total.distinct.len(),
		"rule": "one evaluation = one execution of the real dukebox::merge::merge + ParsedJar::to_mem on a pair of in-memory jars, result reopened with zip and parsed by the independent strict parser; distinct_nontrivial = distinct (client jar, server jar) pairs in which a class was merged, marked or passed through, a resource differed or an entry was dropped",
		"exhaustive": true,
		"samples": total.samples,
		"outcomes": total.outcomes,
		"spaces": spaces,
		"bounds": {
			"member_order_alphabet_k": k,
			"member_order_sequences": n_seqs,
			"member_order_pairs_per_kind": n_seqs * n_seqs,
			"member_order_kinds": ["fields", "methods", "interfaces", "all-three"],
			"entry_menu": base_menu.iter().map(|m| format!("{}: {}", m.what, m.name)).collect::<Vec<_>>(),
			"entry_menu_subsets": format!("all 2^{} subsets, in menu order and in reversed entry order{}", base_menu.len(), if quick { "" } else { " and with only the client's entries reversed" }),
			"entry_menu_extended": full_menu.iter().skip(base_menu.len()).map(|m| format!("{}: {}", m.what, m.name)).collect::<Vec<_>>(),
			"entry_menu_extended_subsets": if quick { format!("every subset of the {} extended items x every base subset with at most one item present or at most one item absent ({} cases)", full_menu.len() - base_menu.len(), ext_masks.len()) } else { format!("all 2^{} subsets of base + extended menu", full_menu.len()) },
			"content_bases": if quick { "kitchen_sink(0..3), the same without Record/PermittedSubclasses, module_class(false,1)" } else { "kitchen_sink(0..6), the same without Record/PermittedSubclasses, module_class(false,1), module_class(true,2), plain" },
			"content_cases": content.get("case:held") + content.get("case:differences"),
			"role_words": format!("every word over {{B(oth), C(lient only), S(erver only)}} up to length {} for fields, methods and interfaces each, up to length {} for all three lists at once (client list = the B and C positions, server list = the B and S positions: every pair of compatible orders with that many members in total); words up to length {} also with every transposition of two shared positions in the server list (incompatible orders)", wb.single, wb.all, wb.swapped),
			"role_word_cases": words.evaluations,
			"entry_names": format!("{} directories x {} stems x {} endings = {} names, each on the client only, the server only, equal on both sides and differing between the sides ({} cases), next to two ordinary entries listed in opposite orders; both jar implementations", NAME_DIRS.len(), NAME_STEMS.len(), NAME_EXTS.len(), all_names().len(), names.get("case:held") + names.get("case:differences")),
			"entry_name_directories": NAME_DIRS,
			"entry_name_stems": NAME_STEMS,
			"entry_name_endings": NAME_EXTS,
			"boundary_menu": edge_menu.iter().map(|m| format!("{}: {}", m.what, m.name)).collect::<Vec<_>>(),
			"boundary_menu_subsets": format!("all 2^{} subsets, entries as listed and with the client's entries reversed; both jar implementations", edge_menu.len()),
			"class_sets": format!("every assignment of {{absent, client only, server only, identical, differing}} to {n_class_names} class names ({} pairs of jars), the server listing its entries in reverse; both jar implementations", 5u64.pow(n_class_names as u32)),
			"odd_keys": format!("role words up to length {} (fields, methods, interfaces each) / {} (all three), swaps up to {}, over members {:?} and interfaces {:?}", ob.single, ob.all, ob.swapped, (0..ob.single).map(|p| { let (n, d) = odd_name(p); format!("{} {d}", n.to_string_lossy()) }).collect::<Vec<_>>(), (0..ob.single).map(|p| odd_itf(p).to_string_lossy()).collect::<Vec<_>>()),
			"marks_already_there": format!("one-sided class: {:?} = side x marks in the visible list {:?} x marks in the invisible list x interface marks (none, container, lone) x mark of a field x mark of a method (none, visible C/S, invisible C/S); members: every role word up to length {pm_members} x every assignment of the 5 marks to its positions, fields and methods; interfaces: every role word up to length {pm_itfs} x every assignment of (none, CLIENT, SERVER) x 3 forms x 3 carriers x stale mark; class of both sides: 4 marks x 3 carriers x words up to length 2; {} cases, both jar implementations", ONE_SIDED_DIMS, LIST_MARKS, premarked.get("case:held") + premarked.get("case:differences")),
			"multibyte_entry_names": format!("{} names x presences {:?}, both jar implementations", multibyte_names().len(), mb_presences),
			"chunked_sources": chunked.iter().map(|d| format!("{d:?}")).collect::<Vec<_>>(),
			"counts_at_their_limit": "one-sided class / one-sided field / one-sided method / class needing interface marks x client, server x visible, invisible list x 65534, 65535 annotations already in the list",
			"jar_implementations": "member-order and role-word spaces: UnnamedMemJar (zip archive in memory); content space, entry menus (base, large, boundary), entry names and class sets: UnnamedMemJar and ParsedJar inputs, each judged separately",
		},
		"side_marks": {
			"class_field_method": format!("annotation {} with value = enum {} CLIENT|SERVER", oracle::ENVIRONMENT, oracle::ENV_TYPE),
			"interface": format!("class annotation {} {{ value = [ {} {{ value = enum {} CLIENT|SERVER, itf = class }} ] }}", oracle::ENV_ITFS, oracle::ENV_ITF, oracle::ENV_TYPE),
			"placement_observed": total.outcomes.iter().filter(|(k, _)| k.starts_with("mark-placement:")).map(|(k, v)| (k.clone(), *v)).collect::<std::collections::BTreeMap<_, _>>(),
			"bundled_server_library_rule_in_merge_rs": "a server-only entry whose name ends in .class, contains '/' and does not start with net/minecraft/ is skipped",
		},
		"merge_warnings_on_stderr_suppressed": warnings,
	});
	ctx.finish(coverage, &[
		"cfmodel's strict parser is the independent reading of class files; every assembled input class is checked with parse(assemble(m)) == m first",
		"the merged jar is observed after ParsedJar::to_mem (duke's writer) and the zip crate; facts duke's reader/writer lose on their own are cancelled by comparing the rest of a class with write_class(read_class(side))",
		"where the statement is silent (manifest content, which side of a differing resource, order of incompatible member lists, .DSA/.EC/SIG- files, .SF/.RSA names in another case or in a sub-directory of META-INF/, server-only classes below META-INF/ or of unclear origin, classes differing in more than member lists being refused) every behaviour but a panic or a fact from neither side is accepted",
		"zip entry names are compared as written; jar entry order is not judged",
		"side marks the input already carries: only what the merge adds is judged (own side, at most once, present in the end); whether an old mark of the other side is kept next to the new one (the unchanged tree keeps it, giving a class two @Environment annotations) or replaced is not decided by the statement",
	]);
}
