//! The C13 oracle. Everything it expects is derived from the two input jars alone (read back with
//! the `zip` crate and the independent class-file parser), so a replay file only needs the two jars.
//!
//! What is judged strictly (merge-level facts of the statement): the entry set, the kind and content of
//! passed-through entries, byte identity of identical classes, the side mark of one-sided classes,
//! and for a class that differs between the sides: every field / method / interface of either side
//! exactly once, one-sided ones marked with their side, shared ones unmarked, both sides' relative
//! orders whenever they are compatible. Everything else of a class ("the rest") is compared with
//! `duke::write_class(duke::read_class(side))`, so that what duke's reader or writer loses on its own
//! cancels out, and must come from one of the two sides fact by fact.

use std::cell::RefCell;
use std::collections::{BTreeMap, BTreeSet, HashMap};
use std::io::{Cursor, Read, Write};
use std::rc::Rc;
use cfmodel::model::*;
use vcore::{Ctx, Stats};

/// `net.fabricmc.api.Environment(EnvType value)`: the side mark on classes, fields and methods
pub const ENVIRONMENT: &str = "Lnet/fabricmc/api/Environment;";
/// `net.fabricmc.api.EnvType { CLIENT, SERVER }`
pub const ENV_TYPE: &str = "Lnet/fabricmc/api/EnvType;";
/// `net.fabricmc.api.EnvironmentInterface(EnvType value, Class itf)`: the side mark of an interface
pub const ENV_ITF: &str = "Lnet/fabricmc/api/EnvironmentInterface;";
/// `net.fabricmc.api.EnvironmentInterfaces(EnvironmentInterface[] value)`: its container
pub const ENV_ITFS: &str = "Lnet/fabricmc/api/EnvironmentInterfaces;";

#[derive(Clone, Copy, PartialEq, Eq, Debug, PartialOrd, Ord)]
pub enum Side {
	Client,
	Server,
}

impl Side {
	pub fn name(self) -> &'static str {
		match self {
			Side::Client => "client",
			Side::Server => "server",
		}
	}
}

// ---------------------------------------------------------------------------------------------
// jars in memory

#[derive(Clone, PartialEq, Eq, Debug)]
pub enum Item {
	Dir,
	File(Vec<u8>),
}

pub type Entries = Vec<(String, Item)>;

pub fn build_jar(entries: &Entries) -> Result<Vec<u8>, String> {
	let mut w = zip::ZipWriter::new(Cursor::new(Vec::new()));
	let stored = zip::write::SimpleFileOptions::default().compression_method(zip::CompressionMethod::Stored).last_modified_time(zip::DateTime::default());
	let deflated = stored.compression_method(zip::CompressionMethod::Deflated);
	for (i, (name, item)) in entries.iter().enumerate() {
		// entries at odd positions are deflated, at even positions stored: as subsets shift the positions, every menu
		// item is read back through both decompression paths of the jar reader
		let opts = if i % 2 == 1 { deflated } else { stored };
		match item {
			Item::Dir => w.add_directory(name.as_str(), stored).map_err(|e| format!("{name}: {e}"))?,
			Item::File(data) => {
				w.start_file(name.as_str(), opts).map_err(|e| format!("{name}: {e}"))?;
				w.write_all(data).map_err(|e| format!("{name}: {e}"))?;
			},
		}
	}
	Ok(w.finish().map_err(|e| e.to_string())?.into_inner())
}

/// number of central directory records according to the end-of-central-directory record (read
/// directly from the bytes: the `zip` reader collapses records with equal names)
fn central_directory_records(bytes: &[u8]) -> Option<usize> {
	if bytes.len() < 22 {
		return None;
	}
	let mut i = bytes.len() - 22;
	loop {
		if bytes[i..i + 4] == [0x50, 0x4b, 0x05, 0x06] {
			return Some(u16::from_le_bytes([bytes[i + 10], bytes[i + 11]]) as usize);
		}
		if i == 0 {
			return None;
		}
		i -= 1;
	}
}

/// entries in archive order; `Err` if the archive cannot be read
pub fn read_jar(bytes: &[u8]) -> Result<(Entries, usize), String> {
	let mut a = zip::ZipArchive::new(Cursor::new(bytes)).map_err(|e| e.to_string())?;
	let mut out = Vec::new();
	for i in 0..a.len() {
		let mut f = a.by_index(i).map_err(|e| e.to_string())?;
		let name = f.name().to_owned();
		if f.is_dir() {
			out.push((name, Item::Dir));
		} else {
			let mut d = Vec::new();
			f.read_to_end(&mut d).map_err(|e| e.to_string())?;
			out.push((name, Item::File(d)));
		}
	}
	let records = central_directory_records(bytes).unwrap_or(out.len());
	Ok((out, records))
}

// ---------------------------------------------------------------------------------------------
// the code under test

pub enum Outcome {
	Merged(Vec<u8>),
	Refused(String),
	Panicked(vcore::Panic),
}

/// how the two jars are handed to `merge` (two implementations of dukebox's `Jar` trait)
#[derive(Clone, Copy, PartialEq, Eq, Debug)]
pub enum Driver {
	/// `UnnamedMemJar`: a zip archive in memory, opened with `zip::ZipArchive` (storage/zip_impls.rs) — what the binary does
	Zip,
	/// `ParsedJar<ClassRepr, Vec<u8>>` holding the same entries (storage/parsed.rs)
	Parsed,
	/// the same zip archives behind a `Read + Seek` source that serves at most `chunk` bytes per call and answers every
	/// `interrupt`-th call (0 = never) with `ErrorKind::Interrupted`: storage/zip_impls.rs over a source other than a `Cursor`
	Chunked { chunk: usize, interrupt: usize },
}

impl Driver {
	pub fn name(self) -> &'static str {
		match self {
			Driver::Zip => "zip-jar-input",
			Driver::Parsed => "parsed-jar-input",
			Driver::Chunked { .. } => "zip-jar-behind-a-chunked-source",
		}
	}
}

/// a `Read + Seek` source over a slice that serves at most `chunk` bytes per call; every `interrupt`-th call fails with
/// `Interrupted` and moves nothing (what a signal does to a read from a file)
pub struct ChunkedSource<'a> {
	data: &'a [u8],
	pos: u64,
	chunk: usize,
	interrupt: usize,
	calls: usize,
}

impl Read for ChunkedSource<'_> {
	fn read(&mut self, buf: &mut [u8]) -> std::io::Result<usize> {
		self.calls += 1;
		if self.interrupt != 0 && self.calls % self.interrupt == 0 {
			return Err(std::io::Error::new(std::io::ErrorKind::Interrupted, "interrupted"));
		}
		let start = (self.pos as usize).min(self.data.len());
		let n = buf.len().min(self.chunk).min(self.data.len() - start);
		buf[..n].copy_from_slice(&self.data[start..start + n]);
		self.pos += n as u64;
		Ok(n)
	}
}

impl std::io::Seek for ChunkedSource<'_> {
	fn seek(&mut self, to: std::io::SeekFrom) -> std::io::Result<u64> {
		let target: i128 = match to {
			std::io::SeekFrom::Start(n) => n as i128,
			std::io::SeekFrom::End(d) => self.data.len() as i128 + d as i128,
			std::io::SeekFrom::Current(d) => self.pos as i128 + d as i128,
		};
		if target < 0 {
			return Err(std::io::Error::new(std::io::ErrorKind::InvalidInput, "seek before the start"));
		}
		self.pos = target as u64;
		Ok(self.pos)
	}
}

struct ChunkedJar<'d> {
	data: &'d [u8],
	chunk: usize,
	interrupt: usize,
}

impl dukebox::storage::Jar for ChunkedJar<'_> {
	type Opened<'a> = zip::ZipArchive<ChunkedSource<'a>> where Self: 'a;

	fn open(&self) -> anyhow::Result<Self::Opened<'_>> {
		Ok(zip::ZipArchive::new(ChunkedSource { data: self.data, pos: 0, chunk: self.chunk.max(1), interrupt: self.interrupt, calls: 0 })?)
	}

	fn put_to_file<'a>(&'a self, _suggested: &'a std::path::Path) -> anyhow::Result<&'a std::path::Path> {
		anyhow::bail!("a jar of the harness is not stored anywhere")
	}
}

fn parsed_jar(entries: &Entries) -> dukebox::storage::ParsedJar<dukebox::storage::ClassRepr, Vec<u8>> {
	use dukebox::storage::{BasicFileAttributes, ClassRepr, JarEntryEnum, ParsedJar, ParsedJarEntry};
	let mut p = ParsedJar { entries: indexmap::IndexMap::new() };
	for (name, item) in entries {
		let content = match item {
			Item::Dir => JarEntryEnum::Dir,
			Item::File(d) if name.ends_with(".class") => JarEntryEnum::Class(ClassRepr::Vec { data: d.clone() }),
			Item::File(d) => JarEntryEnum::Other(d.clone()),
		};
		p.entries.insert(name.clone(), ParsedJarEntry { attr: BasicFileAttributes::default(), content });
	}
	p
}

/// REAL `dukebox::merge::merge(client, server)`, result written to memory by `ParsedJar::to_mem`
pub fn run_merge(driver: Driver, client: &[u8], server: &[u8], cin: &Entries, sin: &Entries) -> Outcome {
	use dukebox::storage::UnnamedMemJar;
	let r = vcore::guard(|| -> anyhow::Result<Vec<u8>> {
		let merged = match driver {
			Driver::Zip => dukebox::merge::merge(UnnamedMemJar { data: client.to_vec() }, UnnamedMemJar { data: server.to_vec() })?,
			Driver::Parsed => dukebox::merge::merge(parsed_jar(cin), parsed_jar(sin))?,
			Driver::Chunked { chunk, interrupt } => dukebox::merge::merge(ChunkedJar { data: client, chunk, interrupt }, ChunkedJar { data: server, chunk, interrupt })?,
		};
		Ok(merged.to_mem()?.data)
	});
	match r {
		Err(p) => Outcome::Panicked(p),
		Ok(Err(e)) => Outcome::Refused(format!("{e:#}")),
		Ok(Ok(d)) => Outcome::Merged(d),
	}
}

// ---------------------------------------------------------------------------------------------
// a class of one side: what it states, and what is left of it after duke's reader and writer

pub struct SideClass {
	/// `duke::write_class(duke::read_class(bytes))` read by the reference parser; `Err` = duke refuses the class or writes
	/// something that is not well-formed (such classes are outside what C13 can judge)
	pub laundered: Result<SClass, String>,
}

thread_local! {
	static LAUNDER_CACHE: RefCell<HashMap<Vec<u8>, Rc<SideClass>>> = RefCell::new(HashMap::new());
}

fn launder(bytes: &[u8]) -> Result<SClass, String> {
	cfmodel::parse(bytes).map_err(|e| format!("the reference parser rejects the input class: {e}"))?;
	let written = vcore::guard(|| -> anyhow::Result<Vec<u8>> {
		let tree = duke::read_class(&mut Cursor::new(bytes))?;
		let mut out = Vec::new();
		duke::write_class(&mut out, &tree)?;
		Ok(out)
	});
	let written = match written {
		Err(p) => return Err(format!("duke panics on the class: {} {}", p.site, p.msg)),
		Ok(Err(e)) => return Err(format!("duke refuses the class: {e:#}")),
		Ok(Ok(w)) => w,
	};
	cfmodel::parse(&written).map(|p| p.class).map_err(|e| format!("duke's writer output is rejected by the reference parser: {e}"))
}

pub fn side_class(bytes: &[u8]) -> Rc<SideClass> {
	LAUNDER_CACHE.with(|c| {
		if let Some(s) = c.borrow().get(bytes) {
			return s.clone();
		}
		let s = Rc::new(SideClass { laundered: launder(bytes) });
		let mut c = c.borrow_mut();
		if c.len() > 4096 {
			c.clear();
		}
		c.insert(bytes.to_vec(), s.clone());
		s
	})
}

// ---------------------------------------------------------------------------------------------
// side marks

fn is(j: &JS, s: &str) -> bool {
	j.0.iter().copied().eq(s.encode_utf16())
}

fn side_of_value(v: &SElementValue) -> Result<Side, String> {
	match v {
		SElementValue::Enum { type_name, const_name } if is(type_name, ENV_TYPE) && is(const_name, "CLIENT") => Ok(Side::Client),
		SElementValue::Enum { type_name, const_name } if is(type_name, ENV_TYPE) && is(const_name, "SERVER") => Ok(Side::Server),
		other => Err(format!("{other:?}")),
	}
}

fn side_of(an: &SAnnotation) -> Result<Side, String> {
	match an.pairs.as_slice() {
		[(n, v)] if is(n, "value") => side_of_value(v),
		_ => Err(format!("{an:?}")),
	}
}

/// removes every `@Environment` from the lists; returns (side or malformed text, "visible"/"invisible")
fn take_marks(a: &mut SAnnotations) -> Vec<(Result<Side, String>, &'static str)> {
	let mut out = Vec::new();
	for (list, place) in [(&mut a.visible, "visible"), (&mut a.invisible, "invisible")] {
		list.retain(|an| {
			if is(&an.type_name, ENVIRONMENT) {
				out.push((side_of(an), place));
				false
			} else {
				true
			}
		});
	}
	out
}

fn interface_mark(an: &SAnnotation) -> Result<(Side, JS), String> {
	let mut side = None;
	let mut itf = None;
	for (n, v) in &an.pairs {
		if is(n, "value") && side.is_none() {
			side = Some(side_of_value(v)?);
		} else if is(n, "itf") && itf.is_none() {
			match v {
				SElementValue::Class(d) => itf = Some(d.clone()),
				other => return Err(format!("{other:?}")),
			}
		} else {
			return Err(format!("{an:?}"));
		}
	}
	match (side, itf) {
		(Some(s), Some(i)) => Ok((s, i)),
		_ => Err(format!("{an:?}")),
	}
}

/// removes `@EnvironmentInterfaces` / `@EnvironmentInterface` from the class annotations
fn take_interface_marks(a: &mut SAnnotations) -> Vec<(Result<(Side, JS), String>, &'static str)> {
	let mut out = Vec::new();
	for (list, place) in [(&mut a.visible, "visible"), (&mut a.invisible, "invisible")] {
		list.retain(|an| {
			if is(&an.type_name, ENV_ITF) {
				out.push((interface_mark(an), place));
				false
			} else if is(&an.type_name, ENV_ITFS) {
				match an.pairs.as_slice() {
					[(n, SElementValue::Array(items))] if is(n, "value") => {
						for it in items {
							match it {
								SElementValue::Annotation(x) if is(&x.type_name, ENV_ITF) => out.push((interface_mark(x), place)),
								other => out.push((Err(format!("{other:?}")), place)),
							}
						}
					},
					_ => out.push((Err(format!("{an:?}")), place)),
				}
				false
			} else {
				true
			}
		});
	}
	out
}

// ---------------------------------------------------------------------------------------------
// reporting

pub struct Rep<'a> {
	pub ctx: &'a Ctx,
	pub label: &'a str,
	pub client: &'a [u8],
	pub server: &'a [u8],
	seen: BTreeSet<String>,
}

pub fn replay_text(label: &str, client: &[u8], server: &[u8]) -> String {
	let mut s = format!("label={label}\nclient jar (hex):\n{}\nserver jar (hex):\n{}\nlisting (informational):\n", vcore::hex(client), vcore::hex(server));
	for (side, jar) in [("client", client), ("server", server)] {
		if let Ok((entries, _)) = read_jar(jar) {
			for (name, item) in entries {
				match item {
					Item::Dir => s.push_str(&format!("  {side}: {name} (directory)\n")),
					Item::File(d) => {
						s.push_str(&format!("  {side}: {name} ({} bytes)\n", d.len()));
						if name.ends_with(".class") {
							if let Ok(p) = cfmodel::parse(&d) {
								let c = p.class;
								s.push_str(&format!("      interfaces {:?}\n      fields {:?}\n      methods {:?}\n", c.interfaces, c.fields.iter().map(|f| (&f.name, &f.desc)).collect::<Vec<_>>(), c.methods.iter().map(|m| (&m.name, &m.desc)).collect::<Vec<_>>()));
							}
						}
					},
				}
			}
		}
	}
	s
}

impl<'a> Rep<'a> {
	pub fn new(ctx: &'a Ctx, label: &'a str, client: &'a [u8], server: &'a [u8]) -> Rep<'a> {
		Rep { ctx, label, client, server, seen: BTreeSet::new() }
	}
	/// one report per key and case
	pub fn diff(&mut self, key: &str, what: String) {
		if self.seen.insert(key.to_owned()) {
			let (l, c, s) = (self.label, self.client, self.server);
			self.ctx.diff(key, &what, || replay_text(l, c, s));
		}
	}
	pub fn any(&self) -> bool {
		!self.seen.is_empty()
	}
}

// ---------------------------------------------------------------------------------------------
// members

#[derive(Clone, PartialEq, Debug)]
enum Member {
	F(SField),
	M(SMethod),
}

impl Member {
	fn key(&self) -> (JS, JS) {
		match self {
			Member::F(f) => (f.name.clone(), f.desc.clone()),
			Member::M(m) => (m.name.clone(), m.desc.clone()),
		}
	}
	fn ann(&mut self) -> &mut SAnnotations {
		match self {
			Member::F(f) => &mut f.annotations,
			Member::M(m) => &mut m.annotations,
		}
	}
	/// a class holding only this member, for the itemising comparator
	fn wrap(&self) -> SClass {
		let mut c = SClass::default();
		match self {
			Member::F(f) => c.fields.push(f.clone()),
			Member::M(m) => c.methods.push(m.clone()),
		}
		c
	}
}

fn strip_kind(key: &str) -> &str {
	key.rsplit_once(':').map(|(k, _)| k).unwrap_or(key)
}

/// facts (comparator keys without the kind suffix) in which `r` differs from every candidate
fn facts_from_no_side(cands: &[&SClass], r: &SClass) -> Vec<(String, String)> {
	let mut common: Option<BTreeMap<String, String>> = None;
	for c in cands {
		let d = cfmodel::sdiff::diff(c, r);
		let m: BTreeMap<String, String> = d.0.into_iter().map(|(k, t)| (strip_kind(&k).to_owned(), t)).collect();
		common = Some(match common {
			None => m,
			Some(prev) => prev.into_iter().filter(|(k, _)| m.contains_key(k)).collect(),
		});
	}
	common.unwrap_or_default().into_iter().collect()
}

pub fn relation<K: PartialEq>(c: &[K], s: &[K]) -> &'static str {
	if c == s {
		return if c.is_empty() { "both-empty" } else { "identical" };
	}
	if c.is_empty() || s.is_empty() {
		return "one-side-empty";
	}
	let cc: Vec<&K> = c.iter().filter(|x| s.contains(x)).collect();
	let sc: Vec<&K> = s.iter().filter(|x| c.contains(x)).collect();
	if cc.is_empty() {
		return "disjoint";
	}
	if cc != sc {
		return if cc.len() == c.len() && sc.len() == s.len() { "incompatible-permutation" } else { "incompatible-other" };
	}
	if c.starts_with(s) || s.starts_with(c) {
		return "prefix";
	}
	if c.ends_with(s) || s.ends_with(c) {
		return "suffix";
	}
	if cc.len() == c.len() || sc.len() == s.len() {
		return "subsequence";
	}
	"interleaving"
}

pub fn compatible<K: PartialEq>(c: &[K], s: &[K]) -> bool {
	let cc: Vec<&K> = c.iter().filter(|x| s.contains(x)).collect();
	let sc: Vec<&K> = s.iter().filter(|x| c.contains(x)).collect();
	cc == sc
}

/// exactly-once and order of one list kind; returns true if exactly-once held
fn check_list<K: PartialEq + Clone + std::fmt::Debug>(rep: &mut Rep, st: &mut Stats, class: &str, kind: &str, c: &[K], s: &[K], r: &[K]) -> bool {
	let mut ok = true;
	let mut union: Vec<&K> = c.iter().collect();
	for x in s {
		if !c.contains(x) {
			union.push(x);
		}
	}
	for x in &union {
		let n = r.iter().filter(|y| y == x).count();
		if n == 0 {
			ok = false;
			rep.diff(&format!("{kind}:missing"), format!("{class}: {kind} {x:?} of {} is absent from the merged class; client {c:?}, server {s:?}, merged {r:?}", if c.contains(x) { if s.contains(x) { "both sides" } else { "the client" } } else { "the server" }));
		} else if n > 1 {
			ok = false;
			rep.diff(&format!("{kind}:duplicated"), format!("{class}: {kind} {x:?} occurs {n} times in the merged class; client {c:?}, server {s:?}, merged {r:?}"));
		}
	}
	for x in r {
		if !union.contains(&x) {
			ok = false;
			rep.diff(&format!("{kind}:invented"), format!("{class}: {kind} {x:?} of the merged class exists on neither side; client {c:?}, server {s:?}, merged {r:?}"));
		}
	}
	let rel = relation(c, s);
	st.outcome(&format!("relation:{kind}:{rel}"));
	if !ok {
		return false;
	}
	if !compatible(c, s) {
		st.outcome(&format!("order:{kind}:incompatible-any-order-accepted"));
		return true;
	}
	let mut all_kept = true;
	for (side, own, other) in [(Side::Client, c, s), (Side::Server, s, c)] {
		let projected: Vec<&K> = r.iter().filter(|x| own.contains(x)).collect();
		if projected.iter().copied().eq(own.iter()) {
			continue;
		}
		all_kept = false;
		let pos = |x: &K| r.iter().position(|y| y == x).unwrap_or(usize::MAX);
		let mut kinds = BTreeSet::new();
		let mut example = BTreeMap::new();
		for (i, u) in own.iter().enumerate() {
			for v in &own[i + 1..] {
				if pos(u) > pos(v) {
					let k = match (other.contains(u), other.contains(v)) {
						(false, true) => format!("{}-only-member-placed-after-later-shared-member", side.name()),
						(true, false) => format!("{}-only-member-placed-before-earlier-shared-member", side.name()),
						(false, false) => format!("{}-only-members-swapped", side.name()),
						(true, true) => "shared-members-swapped".to_owned(),
					};
					example.entry(k.clone()).or_insert_with(|| format!("{u:?} precedes {v:?} in the {} list but follows it in the merged list", side.name()));
					kinds.insert(k);
				}
			}
		}
		for k in kinds {
			rep.diff(&format!("order:{k}"), format!("{class}: the two {kind} orders are compatible, yet the {} order is not preserved: {}; client {c:?}, server {s:?}, merged {r:?}", side.name(), example[&k]));
		}
	}
	if all_kept {
		st.outcome(&format!("order:{kind}:both-orders-preserved"));
		if rel != "identical" && rel != "both-empty" && rel != "one-side-empty" {
			st.outcome("order:both-orders-preserved-nontrivially");
		}
	} else {
		st.outcome(&format!("order:{kind}:not-preserved"));
	}
	true
}

fn check_members(rep: &mut Rep, st: &mut Stats, class: &str, kind: &str, c: &[Member], s: &[Member], r: &[Member]) {
	let keys = |l: &[Member]| l.iter().map(|m| m.key()).collect::<Vec<_>>();
	let (ck, sk, rk) = (keys(c), keys(s), keys(r));
	let dup = |l: &[(JS, JS)]| l.iter().enumerate().any(|(i, x)| l[..i].contains(x));
	if dup(&ck) || dup(&sk) {
		st.outcome("skipped:duplicate-members-in-input");
		return;
	}
	check_list(rep, st, class, kind, &ck, &sk, &rk);
	for m in r {
		let k = m.key();
		let cm = c.iter().find(|x| x.key() == k);
		let sm = s.iter().find(|x| x.key() == k);
		let expected = match (cm, sm) {
			(Some(_), None) => Some(Side::Client),
			(None, Some(_)) => Some(Side::Server),
			(Some(_), Some(_)) => None,
			(None, None) => continue, // invented: reported above
		};
		let mut stripped = m.clone();
		let marks = take_marks(stripped.ann());
		// the same member of the input, without the side marks it already carried there, and those marks
		let sides: Vec<(Member, Vec<Mark>)> = [cm, sm].into_iter().flatten().map(|x| {
			let mut x = x.clone();
			let pre = sides_only(&take_marks(x.ann()));
			(x, pre)
		}).collect();
		let ins: Vec<Vec<Mark>> = sides.iter().map(|x| x.1.clone()).collect();
		marks_verdict(class, kind, &format!("{k:?}"), expected, &marks, &ins).apply(rep, st);
		// content: fact by fact from one of the sides
		let cands: Vec<SClass> = sides.iter().map(|x| x.0.wrap()).collect();
		let rw = stripped.wrap();
		if cands.iter().any(|x| x == &rw) {
			st.outcome(&format!("content:{kind}:from-a-side"));
		} else {
			let refs: Vec<&SClass> = cands.iter().collect();
			let facts = facts_from_no_side(&refs, &rw);
			if facts.is_empty() {
				st.outcome(&format!("content:{kind}:mixed-from-both-sides"));
			}
			for (fact, detail) in facts {
				rep.diff(&format!("merged:{fact}"), format!("{class}: {kind} {k:?} of the merged class states something neither side states: {detail}"));
			}
		}
	}
}

/// a side mark as found: the side it names, or the text of an annotation that names none
type Mark = Result<Side, String>;

/// multiset difference `a - b`
fn minus<T: PartialEq + Clone>(a: &[T], b: &[T]) -> Vec<T> {
	let mut rest: Vec<&T> = b.iter().collect();
	let mut out = Vec::new();
	for x in a {
		match rest.iter().position(|y| *y == x) {
			Some(i) => {
				rest.swap_remove(i);
			},
			None => out.push(x.clone()),
		}
	}
	out
}

fn sides_only(m: &[(Mark, &'static str)]) -> Vec<Mark> {
	m.iter().map(|x| x.0.clone()).collect()
}

/// what the judgement of the side marks of one class / member / interface found
#[derive(Default)]
struct Verdict {
	diffs: Vec<(String, String)>,
	outcomes: Vec<String>,
}

impl Verdict {
	fn apply(self, rep: &mut Rep, st: &mut Stats) {
		for o in self.outcomes {
			st.outcome(&o);
		}
		for (k, t) in self.diffs {
			rep.diff(&k, t);
		}
	}
}

/// The side marks of one class, member or interface of the merged jar (`out`) against the marks the same thing already
/// carried in the input (`ins`: one list per side on which it exists). What the merge ADDED is `out` minus the input's marks
/// (as multisets): a one-sided thing must carry a mark of its side in the end, nothing added may name the other side or no
/// side, and at most one mark is added; a shared thing gets nothing added with respect to one of its two sides. Marks that
/// were in the input may stay or go (the statement speaks about what the merge marks, not about marks it finds).
fn marks_verdict(class: &str, kind: &str, what: &str, expected: Option<Side>, out: &[(Mark, &'static str)], ins: &[Vec<Mark>]) -> Verdict {
	let mut v = Verdict::default();
	let outv = sides_only(out);
	match expected {
		Some(side) => {
			let empty = Vec::new();
			let in0 = ins.first().unwrap_or(&empty);
			let added = minus(&outv, in0);
			let mut malformed = false;
			for m in &added {
				if let Err(e) = m {
					malformed = true;
					v.diffs.push((format!("{kind}:side-mark-malformed"), format!("{class}: {kind} {what}: an @Environment annotation that does not name a side: {e}")));
				}
			}
			let added_sides: Vec<Side> = added.iter().filter_map(|m| m.as_ref().ok().copied()).collect();
			let own_out = outv.iter().filter(|m| **m == Ok(side)).count();
			if added_sides.iter().any(|s| *s != side) {
				v.diffs.push((format!("{kind}:marked-with-wrong-side"), format!("{class}: {kind} {what} exists on the {} only and is marked {:?} (marks it already had in the input: {in0:?})", side.name(), added_sides)));
			} else if own_out == 0 {
				if !malformed {
					v.diffs.push((format!("{kind}:one-sided-not-marked"), format!("{class}: {kind} {what} exists on the {} only and carries no mark of that side (marks in the input: {in0:?}, in the merged jar: {outv:?})", side.name())));
				}
			} else if added_sides.len() > 1 {
				v.diffs.push((format!("{kind}:marked-twice"), format!("{class}: {kind} {what} got {} side marks", added_sides.len())));
			} else {
				v.outcomes.push(format!("mark:{kind}:{}-only-marked", side.name()));
				if let Some((_, place)) = out.iter().rev().find(|m| m.0 == Ok(side)) {
					v.outcomes.push(format!("mark-placement:{kind}:{place}"));
				}
				if !in0.is_empty() {
					let other = in0.iter().filter(|m| matches!(m, Ok(s) if *s != side)).count();
					let other_out = outv.iter().filter(|m| matches!(m, Ok(s) if *s != side)).count();
					if other > 0 {
						v.outcomes.push(format!("premarked:{kind}:with-the-other-side:{}", if other_out == other { "old-mark-kept-and-own-side-added" } else { "old-mark-replaced" }));
					}
					if in0.iter().any(|m| *m == Ok(side)) {
						v.outcomes.push(format!("premarked:{kind}:with-its-own-side:{}", if added_sides.is_empty() { "left-as-it-was" } else { "marked-again" }));
					}
				}
			}
		},
		None => {
			let fits = ins.is_empty() && outv.is_empty() || ins.iter().any(|i| minus(&outv, i).is_empty());
			if !fits {
				let empty = Vec::new();
				let added = minus(&outv, ins.first().unwrap_or(&empty));
				v.diffs.push((format!("{kind}:shared-marked"), format!("{class}: {kind} {what} exists on both sides and got a side mark {added:?} (marks in the input: {ins:?})")));
			} else {
				v.outcomes.push(format!("mark:{kind}:shared-unmarked"));
				if ins.iter().any(|i| !i.is_empty()) {
					v.outcomes.push(format!("premarked:{kind}:shared:nothing-added"));
				}
			}
		},
	}
	v
}

fn members(c: &SClass) -> (Vec<Member>, Vec<Member>) {
	(c.fields.iter().cloned().map(Member::F).collect(), c.methods.iter().cloned().map(Member::M).collect())
}

fn class_level(c: &SClass) -> SClass {
	let mut c = c.clone();
	c.fields.clear();
	c.methods.clear();
	c.interfaces.clear();
	c
}

fn inner_union_ok(c: &SClass, s: &SClass, r: &SClass) -> bool {
	let e = Vec::new();
	let ci = c.inner_classes.as_ref().unwrap_or(&e);
	let si = s.inner_classes.as_ref().unwrap_or(&e);
	let ri = r.inner_classes.as_ref().unwrap_or(&e);
	let names: BTreeSet<&JS> = ci.iter().chain(si).map(|x| &x.inner).collect();
	ri.iter().all(|x| ci.contains(x) || si.contains(x)) && names.iter().all(|n| ri.iter().filter(|x| &&x.inner == n).count() == 1) && ri.len() == names.len()
}

/// facts other than the member and interface lists in which the two sides of a class differ
/// (comparator keys, kind stripped); empty = the sides differ only in the lists the statement speaks about
fn other_differences(c: &SClass, s: &SClass) -> Vec<String> {
	let mut out: Vec<String> = cfmodel::sdiff::diff(&class_level(c), &class_level(s)).0.into_iter().map(|(k, _)| strip_kind(&k).to_owned()).collect();
	let (cf, cm) = members(c);
	let (sf, sm) = members(s);
	for (cl, sl) in [(&cf, &sf), (&cm, &sm)] {
		for x in cl.iter() {
			if let Some(y) = sl.iter().find(|y| y.key() == x.key()) {
				if x != y {
					out.extend(cfmodel::sdiff::diff(&x.wrap(), &y.wrap()).0.into_iter().map(|(k, _)| strip_kind(&k).to_owned()));
				}
			}
		}
	}
	out.sort();
	out.dedup();
	out
}

/// a class present on both sides with different bytes
fn judge_differing_class(rep: &mut Rep, st: &mut Stats, name: &str, c: &SClass, s: &SClass, r: &SClass) {
	let (cf, cm) = members(c);
	let (sf, sm) = members(s);
	let (rf, rm) = members(r);
	check_members(rep, st, name, "field", &cf, &sf, &rf);
	check_members(rep, st, name, "method", &cm, &sm, &rm);

	// interfaces: the marks live in class annotations; those the sides already carried are taken out of all three classes
	type ItfMark = Result<(Side, JS), String>;
	let mut rl = class_level(r);
	let mut cl = class_level(c);
	let mut sl = class_level(s);
	let marks = take_interface_marks(&mut rl.annotations);
	let pre_c: Vec<ItfMark> = take_interface_marks(&mut cl.annotations).into_iter().map(|m| m.0).collect();
	let pre_s: Vec<ItfMark> = take_interface_marks(&mut sl.annotations).into_iter().map(|m| m.0).collect();
	let dup = |l: &[JS]| l.iter().enumerate().any(|(i, x)| l[..i].contains(x));
	if dup(&c.interfaces) || dup(&s.interfaces) {
		st.outcome("skipped:duplicate-interfaces-in-input");
	} else {
		check_list(rep, st, name, "interface", &c.interfaces, &s.interfaces, &r.interfaces);
		let desc = |i: &JS| {
			let mut d = vec![b'L' as u16];
			d.extend(&i.0);
			d.push(b';' as u16);
			JS(d)
		};
		// the class-level annotations of the merged class come from one of the sides: judge against the marks of that side
		let against = |pre: &[ItfMark]| -> Verdict {
			let mut v = Verdict::default();
			let outv: Vec<ItfMark> = marks.iter().map(|m| m.0.clone()).collect();
			let added = minus(&outv, pre);
			for m in &added {
				if let Err(e) = m {
					v.diffs.push(("interface:side-mark-malformed".to_owned(), format!("{name}: an interface side mark that does not name a side and an interface: {e}")));
				}
			}
			for i in &r.interfaces {
				let expected = match (c.interfaces.contains(i), s.interfaces.contains(i)) {
					(true, false) => Some(Side::Client),
					(false, true) => Some(Side::Server),
					(true, true) => None,
					(false, false) => continue,
				};
				let d = desc(i);
				let mine: Vec<(Mark, &'static str)> = marks.iter().filter_map(|(m, p)| m.as_ref().ok().filter(|x| x.1 == d).map(|x| (Ok(x.0), *p))).collect();
				let had: Vec<Mark> = pre.iter().filter_map(|m| m.as_ref().ok().filter(|x| x.1 == d).map(|x| Ok(x.0))).collect();
				let one = marks_verdict(name, "interface", &format!("{i:?}"), expected, &mine, &[had]);
				v.diffs.extend(one.diffs);
				v.outcomes.extend(one.outcomes);
			}
			for m in &added {
				if let Ok((_, d)) = m {
					if !r.interfaces.iter().any(|i| desc(i) == *d) {
						v.diffs.push(("interface:side-mark-for-absent-interface".to_owned(), format!("{name}: a side mark names {d:?}, which the merged class does not implement ({:?})", r.interfaces)));
					}
				}
			}
			v
		};
		let mut v = against(&pre_c);
		if !v.diffs.is_empty() && pre_s != pre_c {
			let w = against(&pre_s);
			if w.diffs.is_empty() {
				v = w;
			}
		}
		if !pre_c.is_empty() || !pre_s.is_empty() {
			st.outcome("premarked:class-with-interface-marks-in-the-input");
		}
		v.apply(rep, st);
	}

	// a class of both sides gets no side mark itself
	let class_marks = take_marks(&mut rl.annotations);
	let pre_class = [sides_only(&take_marks(&mut cl.annotations)), sides_only(&take_marks(&mut sl.annotations))];
	if !pre_class.iter().any(|p| minus(&sides_only(&class_marks), p).is_empty()) {
		rep.diff("class:shared-marked", format!("{name}: the class exists on both sides and got a side mark {:?} (marks in the input: {pre_class:?})", minus(&sides_only(&class_marks), &pre_class[0])));
	} else if pre_class.iter().any(|p| !p.is_empty()) {
		st.outcome("premarked:class:shared:nothing-added");
	}

	// the rest of the class: fact by fact from one of the sides
	if inner_union_ok(c, s, r) {
		rl.inner_classes = cl.inner_classes.clone();
	}
	if rl == cl {
		st.outcome("content:class-level:from-client");
	} else if rl == sl {
		st.outcome("content:class-level:from-server");
	} else {
		let facts = facts_from_no_side(&[&cl, &sl], &rl);
		if facts.is_empty() {
			st.outcome("content:class-level:mixed-from-both-sides");
		}
		for (fact, detail) in facts {
			rep.diff(&format!("merged:{fact}"), format!("{name}: the merged class states something neither side states: {detail}"));
		}
	}
}

/// a class present on one side only
fn judge_one_sided_class(rep: &mut Rep, st: &mut Stats, name: &str, side: Side, l: &SClass, r: &SClass) {
	let mut rs = r.clone();
	let mut ls = l.clone();
	let marks = take_marks(&mut rs.annotations);
	let pre = sides_only(&take_marks(&mut ls.annotations));
	marks_verdict(name, "class", name, Some(side), &marks, &[pre]).apply(rep, st);
	// members of a one-sided class may (redundantly) get the same side mark; marks they carried in the input are theirs
	fn strip<M>(rep: &mut Rep, st: &mut Stats, name: &str, side: Side, out: &mut [M], inp: &mut [M], key: impl Fn(&M) -> (JS, JS), ann: impl Fn(&mut M) -> &mut SAnnotations) {
		let mut pre: Vec<((JS, JS), Vec<Mark>)> = Vec::new();
		for m in inp.iter_mut() {
			let k = key(m);
			pre.push((k, sides_only(&take_marks(ann(m)))));
		}
		for m in out.iter_mut() {
			let k = key(m);
			let got = sides_only(&take_marks(ann(m)));
			let had = pre.iter().position(|p| p.0 == k).map(|i| pre.swap_remove(i).1).unwrap_or_default();
			if !had.is_empty() {
				st.outcome("premarked:member-of-one-sided-class");
			}
			for m in minus(&got, &had) {
				if m != Ok(side) {
					rep.diff("class:member-of-one-sided-class-marked-with-other-side", format!("{name}: member {k:?} of a {}-only class got the mark {m:?} (marks in the input: {had:?})", side.name()));
				}
			}
		}
	}
	strip(rep, st, name, side, &mut rs.fields, &mut ls.fields, |f| (f.name.clone(), f.desc.clone()), |f| &mut f.annotations);
	strip(rep, st, name, side, &mut rs.methods, &mut ls.methods, |m| (m.name.clone(), m.desc.clone()), |m| &mut m.annotations);
	if rs == ls {
		st.outcome("content:one-sided-class:unchanged");
	} else {
		for (k, detail) in cfmodel::sdiff::diff(&ls, &rs).0 {
			rep.diff(&format!("one-sided:{k}"), format!("{name}: a {}-only class is changed beyond its side mark: {detail}", side.name()));
		}
	}
}

// ---------------------------------------------------------------------------------------------
// entry names

/// a signature file in the sense of the statement: `META-INF/<file>.SF` / `META-INF/<file>.RSA`, directly in `META-INF/`
/// (JAR specification, "Signed JAR File": the signature file and the signature block file lie in the META-INF directory)
pub fn is_signature_file(name: &str) -> bool {
	match name.strip_prefix("META-INF/") {
		Some(rest) => !rest.contains('/') && (rest.ends_with(".SF") || rest.ends_with(".RSA")),
		None => false,
	}
}

/// signature-related names the statement does not clearly speak about: other algorithms (`*.DSA`, `*.EC`, `SIG-*`), the same
/// names in another case (`JarFile` and `jarsigner` match them case-insensitively) or in a sub-directory of `META-INF/`
fn is_other_signature_file(name: &str) -> bool {
	let u = name.to_ascii_uppercase();
	u.starts_with("META-INF/") && ([".SF", ".RSA", ".DSA", ".EC"].iter().any(|e| u.ends_with(e)) || u.starts_with("META-INF/SIG-"))
}

/// the manifest proper, or a name `java.util.jar.JarFile` would take for it (it matches the name case-insensitively)
pub fn is_manifest_name(name: &str) -> bool {
	name.eq_ignore_ascii_case("META-INF/MANIFEST.MF")
}

const LIBRARY_PREFIXES: &[&str] = &["com/google/", "org/apache/", "io/netty/", "it/unimi/", "joptsimple/", "javax/", "org/slf4j/", "com/fasterxml/"];

#[derive(PartialEq, Clone, Copy, Debug)]
pub enum Presence {
	Required,
	Forbidden,
	Either,
}

pub fn presence(name: &str, in_client: bool, in_server: bool) -> (Presence, &'static str) {
	if is_signature_file(name) {
		return (Presence::Forbidden, "signature-file");
	}
	if is_other_signature_file(name) {
		return (Presence::Either, "other-signature-related-file");
	}
	// "bundled server libraries": merge.rs skips server-only `.class` entries that are in a package other than
	// net/minecraft/. The statement names no packages, so only well-known third-party packages are demanded
	// to be absent; anything else that could pass for library content may stay or go.
	if name.to_ascii_uppercase().starts_with("META-INF/") {
		// classes below META-INF/ are the per-release variants of a multi-release jar (META-INF/versions/N/...): whether
		// those of the server are "bundled library" content cannot be told from the statement
		if in_server && !in_client && name.ends_with(".class") {
			return (Presence::Either, "server-only-class-below-META-INF");
		}
	} else if name.contains('/') && !name.starts_with("net/minecraft/") {
		let well_known = LIBRARY_PREFIXES.iter().any(|p| name.starts_with(p));
		if in_server && !in_client {
			if name.ends_with(".class") {
				return if well_known { (Presence::Forbidden, "bundled-server-library") } else { (Presence::Either, "server-only-class-of-unclear-origin") };
			}
			if well_known {
				return (Presence::Either, "server-only-library-resource");
			}
		}
		if in_server && in_client && well_known && name.ends_with(".class") {
			return (Presence::Either, "library-class-on-both-sides");
		}
	}
	(Presence::Required, "ordinary")
}

// ---------------------------------------------------------------------------------------------
// the judge

/// the largest count a 16-bit count field holds
const LIMIT: usize = 65535;

fn full(a: &SAnnotations) -> bool {
	a.visible.len() >= LIMIT || a.invisible.len() >= LIMIT
}

/// pretty_assertions colours its panic message
fn strip_ansi(s: &str) -> String {
	let mut out = String::new();
	let mut it = s.chars();
	while let Some(c) = it.next() {
		if c == '\u{1b}' {
			for d in it.by_ref() {
				if d.is_ascii_alphabetic() {
					break;
				}
			}
		} else if !c.is_control() || c == '\n' {
			out.push(c);
		}
	}
	out.chars().take(400).collect()
}

pub fn judge(ctx: &Ctx, st: &mut Stats, label: &str, client: &[u8], server: &[u8], drivers: &[Driver]) {
	let mut rep = Rep::new(ctx, label, client, server);
	let (cin, _) = read_jar(client).unwrap_or_else(|e| crate::fail(&format!("{label}: input client jar unreadable: {e}")));
	let (sin, _) = read_jar(server).unwrap_or_else(|e| crate::fail(&format!("{label}: input server jar unreadable: {e}")));
	let cmap: BTreeMap<&str, &Item> = cin.iter().map(|(n, i)| (n.as_str(), i)).collect();
	let smap: BTreeMap<&str, &Item> = sin.iter().map(|(n, i)| (n.as_str(), i)).collect();
	if cmap.len() != cin.len() || smap.len() != sin.len() {
		crate::fail(&format!("{label}: an input jar has two entries of the same name"));
	}

	// the domain: may the merge refuse this pair of jars?
	let mut undecidable: Vec<String> = Vec::new(); // classes duke cannot read or write well-formed
	let mut other_facts: Vec<String> = Vec::new(); // both-sides classes differing in more than the lists
	for (name, item) in &cin {
		let (Item::File(cb), true) = (item, name.ends_with(".class")) else { continue };
		match smap.get(name.as_str()) {
			Some(Item::File(sb)) if sb != cb => {
				let (cs, ss) = (side_class(cb), side_class(sb));
				match (&cs.laundered, &ss.laundered) {
					(Ok(c), Ok(s)) => other_facts.extend(other_differences(c, s)),
					(Err(e), _) | (_, Err(e)) => undecidable.push(format!("{name}: {e}")),
				}
			},
			Some(Item::File(_)) => {},
			_ => {
				if let Err(e) = &side_class(cb).laundered {
					undecidable.push(format!("{name}: {e}"));
				}
			},
		}
	}
	for (name, item) in &sin {
		if let (Item::File(sb), true, None) = (item, name.ends_with(".class"), cmap.get(name.as_str())) {
			if presence(name, false, true).0 != Presence::Forbidden {
				if let Err(e) = &side_class(sb).laundered {
					undecidable.push(format!("{name}: {e}"));
				}
			}
		}
	}
	// a count that is at the limit of its 16-bit field before the merge adds to it: refusing is the only right answer then
	let mut at_limit: Vec<String> = Vec::new();
	for (name, item) in cin.iter().chain(sin.iter()) {
		let (Item::File(b), true) = (item, name.ends_with(".class")) else { continue };
		if b.len() < 4 * LIMIT {
			continue;
		}
		let other = if cmap.get(name.as_str()).is_some_and(|i| std::ptr::eq(*i, item)) { smap.get(name.as_str()) } else { cmap.get(name.as_str()) };
		let Ok(mine) = &side_class(b).laundered else { continue };
		match other {
			None => {
				if full(&mine.annotations) {
					at_limit.push(format!("{name}: the one-sided class has {LIMIT} annotations in a list already"));
				}
			},
			Some(Item::File(ob)) if ob != b => {
				let Ok(theirs) = &side_class(ob).laundered else { continue };
				if mine.interfaces != theirs.interfaces && full(&mine.annotations) {
					at_limit.push(format!("{name}: the class has {LIMIT} annotations in a list already and its interfaces need marks"));
				}
				let lone_full = mine.fields.iter().any(|f| full(&f.annotations) && !theirs.fields.iter().any(|g| (&g.name, &g.desc) == (&f.name, &f.desc)))
					|| mine.methods.iter().any(|m| full(&m.annotations) && !theirs.methods.iter().any(|g| (&g.name, &g.desc) == (&m.name, &m.desc)));
				if lone_full {
					at_limit.push(format!("{name}: a one-sided member has {LIMIT} annotations in a list already"));
				}
			},
			_ => {},
		}
	}
	other_facts.sort();
	other_facts.dedup();
	if !undecidable.is_empty() {
		st.outcome("domain:contains-class-duke-cannot-round-trip");
	}
	if !at_limit.is_empty() {
		st.outcome("domain:a-count-is-at-its-limit");
	}

	for d in drivers {
		judge_run(&mut rep, st, *d, &cin, &sin, &other_facts, &undecidable, &at_limit);
	}
	st.outcome(if rep.any() { "case:differences" } else { "case:held" });
}

/// one execution of the merge on the two jars and the judgement of its result
#[allow(clippy::too_many_arguments)]
fn judge_run(rep: &mut Rep, st: &mut Stats, driver: Driver, cin: &Entries, sin: &Entries, other_facts: &[String], undecidable: &[String], at_limit: &[String]) {
	let (label, client, server) = (rep.label, rep.client, rep.server);
	let cmap: BTreeMap<&str, &Item> = cin.iter().map(|(n, i)| (n.as_str(), i)).collect();
	let smap: BTreeMap<&str, &Item> = sin.iter().map(|(n, i)| (n.as_str(), i)).collect();
	st.eval();
	st.outcome(&format!("driver:{}", driver.name()));
	let merged = match run_merge(driver, client, server, cin, sin) {
		Outcome::Panicked(p) => {
			st.outcome("panic");
			let class = if p.msg.contains("assertion failed") && !other_facts.is_empty() {
				":sides-equal-assertion"
			} else if p.msg.contains("unreachable") {
				":unreachable"
			} else {
				""
			};
			for f in other_facts {
				st.outcome(&format!("panic:sides-differ-in:{f}"));
			}
			let msg = strip_ansi(&p.msg);
			rep.diff(&format!("panic@{}{class}", p.file()), format!("merge panicked at {} (sides of a class differ, beyond member lists, in {other_facts:?}): {msg}", p.site));
			return;
		},
		Outcome::Refused(e) => {
			if !at_limit.is_empty() {
				st.outcome("refused:a-count-is-at-its-limit");
			} else if !other_facts.is_empty() || !undecidable.is_empty() {
				st.outcome("refused:outside-the-statement");
				for f in other_facts {
					st.outcome(&format!("refused:sides-differ-in:{f}"));
				}
			} else {
				st.outcome("refused");
				rep.diff("merge:refused", format!("merge refuses two jars whose common classes differ in nothing but member and interface lists: {}", e.chars().take(400).collect::<String>()));
			}
			return;
		},
		Outcome::Merged(d) => d,
	};
	let (res, records) = match read_jar(&merged) {
		Ok(r) => r,
		Err(e) => {
			st.outcome("result-unreadable");
			rep.diff("result:not-a-readable-jar", format!("the merged jar cannot be read back: {e}"));
			return;
		},
	};
	if records != res.len() {
		rep.diff("entry:duplicated", format!("the merged jar has {records} central directory records but only {} distinct names", res.len()));
	}
	let mut nontrivial = false;

	let mut names: Vec<&str> = cin.iter().map(|(n, _)| n.as_str()).collect();
	for (n, _) in sin {
		if !cmap.contains_key(n.as_str()) {
			names.push(n);
		}
	}
	for name in &names {
		let (ci, si) = (cmap.get(name).copied(), smap.get(name).copied());
		let (pres, why) = presence(name, ci.is_some(), si.is_some());
		let found: Vec<&Item> = res.iter().filter(|(n, _)| n == name).map(|(_, i)| i).collect();
		match (pres, found.len()) {
			(Presence::Forbidden, 0) => {
				st.outcome(&format!("entry:dropped:{why}"));
				nontrivial = true;
				continue;
			},
			(Presence::Forbidden, _) => {
				rep.diff(&format!("entry:{why}-kept"), format!("{name} ({why}) is present in the merged jar"));
				continue;
			},
			(Presence::Either, 0) => {
				st.outcome(&format!("entry:either:{why}:absent"));
				continue;
			},
			(Presence::Either, 1) => st.outcome(&format!("entry:either:{why}:present")),
			(Presence::Required, 0) => {
				rep.diff("entry:missing", format!("{name} (client: {}, server: {}) is absent from the merged jar", ci.is_some(), si.is_some()));
				continue;
			},
			(Presence::Required, 1) => st.outcome("entry:present-once"),
			(_, n) => {
				rep.diff("entry:duplicated", format!("{name} occurs {n} times in the merged jar"));
				continue;
			},
		}
		let r = found[0];
		let kind_of = |i: &Item| matches!(i, Item::Dir);
		if [ci, si].into_iter().flatten().any(|i| kind_of(i) != kind_of(r)) {
			rep.diff("entry:kind-changed", format!("{name}: directory/file kind differs between input and merged jar"));
			continue;
		}
		let Item::File(rb) = r else {
			st.outcome("entry:directory");
			continue;
		};
		fn file(i: Option<&Item>) -> Option<&Vec<u8>> {
			match i {
				Some(Item::File(b)) => Some(b),
				_ => None,
			}
		}
		let (cb, sb) = (file(ci), file(si));
		if is_manifest_name(name) {
			// the statement asks for the entry, not for a particular content
			let which = if *name == "META-INF/MANIFEST.MF" { "manifest" } else { "manifest-name-in-other-case" };
			st.outcome(&format!("{which}:{}", if Some(rb) == cb { "client-content" } else if Some(rb) == sb { "server-content" } else { "other-content" }));
			continue;
		}
		if !name.ends_with(".class") {
			match (cb, sb) {
				(Some(c), Some(s)) if c == s => {
					if rb == c { st.outcome("resource:equal-passed-through") } else { rep.diff("resource:content-changed", format!("{name}: equal on both sides, different in the merged jar")) }
				},
				(Some(c), Some(s)) => {
					nontrivial = true;
					if rb == c { st.outcome("resource:differing:client-taken") } else if rb == s { st.outcome("resource:differing:server-taken") } else { rep.diff("resource:content-from-neither-side", format!("{name}: differs between the sides; the merged content is neither")) }
				},
				(Some(x), None) | (None, Some(x)) => {
					if rb == x { st.outcome("resource:one-sided-passed-through") } else { rep.diff("resource:content-changed", format!("{name}: one-sided resource changed")) }
				},
				(None, None) => {},
			}
			continue;
		}
		// classes
		match (cb, sb) {
			(Some(c), Some(s)) if c == s => {
				nontrivial = true;
				if rb == c {
					st.outcome("class:identical-passed-through-byte-identical");
				} else {
					rep.diff("identical-class:not-byte-identical", format!("{name}: identical on both sides ({} bytes) but {} different bytes in the merged jar", c.len(), rb.len()));
				}
			},
			(Some(c), Some(s)) => {
				nontrivial = true;
				let (cs, ss) = (side_class(c), side_class(s));
				let (Ok(cl), Ok(sl)) = (&cs.laundered, &ss.laundered) else {
					st.outcome("class:differing:not-judged-duke-cannot-round-trip-a-side");
					continue;
				};
				match cfmodel::parse(rb) {
					Err(e) => rep.diff("merged-class:not-well-formed", format!("{name}: the merged class is rejected by the strict parser: {e}")),
					Ok(p) => {
						st.outcome("class:differing:merged");
						judge_differing_class(rep, st, name, cl, sl, &p.class);
					},
				}
			},
			(Some(x), None) | (None, Some(x)) => {
				nontrivial = true;
				let side = if cb.is_some() { Side::Client } else { Side::Server };
				let xs = side_class(x);
				let Ok(l) = &xs.laundered else {
					st.outcome("class:one-sided:not-judged-duke-cannot-round-trip-it");
					continue;
				};
				match cfmodel::parse(rb) {
					Err(e) => rep.diff("merged-class:not-well-formed", format!("{name}: the marked class is rejected by the strict parser: {e}")),
					Ok(p) => {
						st.outcome(&format!("class:one-sided:{}", side.name()));
						judge_one_sided_class(rep, st, name, side, l, &p.class);
					},
				}
			},
			(None, None) => {},
		}
	}
	// entries of the merged jar that come from neither side
	for (n, item) in &res {
		if !cmap.contains_key(n.as_str()) && !smap.contains_key(n.as_str()) {
			let parent_dir = matches!(item, Item::Dir) && res.iter().any(|(m, _)| m != n && m.starts_with(n.as_str()));
			if parent_dir {
				st.outcome("entry:added-parent-directory");
			} else {
				rep.diff("entry:invented", format!("{n} is in the merged jar but in neither input"));
			}
		}
	}
	if nontrivial && driver == Driver::Zip {
		st.distinct.add(&(client, server));
	}
	let lists = |b: &Vec<u8>| cfmodel::parse(b).ok().map(|p| vcore::json!({
		"interfaces": p.class.interfaces.iter().map(|i| i.to_string_lossy()).collect::<Vec<_>>(),
		"fields": p.class.fields.iter().map(|f| format!("{} {}", f.name.to_string_lossy(), f.desc.to_string_lossy())).collect::<Vec<_>>(),
		"methods": p.class.methods.iter().map(|m| format!("{}{}", m.name.to_string_lossy(), m.desc.to_string_lossy())).collect::<Vec<_>>(),
	}));
	let differing: Vec<(&str, &Vec<u8>, &Vec<u8>)> = cin.iter().filter_map(|(n, i)| match (i, smap.get(n.as_str())) {
		(Item::File(c), Some(Item::File(s))) if n.ends_with(".class") && c != s => Some((n.as_str(), c, s)),
		_ => None,
	}).collect();
	let tag = format!("{}/{}/{}", label.split('/').take(2).collect::<Vec<_>>().join("/").split("/subset").next().unwrap_or(label), driver.name(), if differing.is_empty() { "no-differing-class" } else { "differing-class" });
	st.sample(&tag, || vcore::json!({
		"differing_classes": differing.iter().map(|(n, c, s)| vcore::json!({
			"name": n,
			"client": lists(c),
			"server": lists(s),
			"merged": res.iter().find(|(m, _)| m == n).and_then(|(_, i)| match i { Item::File(b) => lists(b), Item::Dir => None }),
		})).collect::<Vec<_>>(),
		"label": label,
		"driver": driver.name(),
		"client_entries": cin.iter().map(|(n, _)| n.clone()).collect::<Vec<_>>(),
		"server_entries": sin.iter().map(|(n, _)| n.clone()).collect::<Vec<_>>(),
		"merged_entries": res.iter().map(|(n, _)| n.clone()).collect::<Vec<_>>(),
		"client_jar_hex_prefix": vcore::hex(&client[..client.len().min(64)]),
		"merged_jar_bytes": merged.len(),
	}));
}
