//! C14 — nesting renames classes identically in jars and in mappings.
//!
//! Bounded exhaustive exploration of the REAL `dukenest::{nest_jar, apply_nests_to_mappings,
//! undo_nests_to_mappings, remap_nests}` and `Nests::read`: every nests table of a small explicit
//! space (see `c14/space.rs`) is run against a fixed jar of four classes that refer to each other and
//! to two absent classes at many positions, and against mapping sets over the same classes — in four
//! name universes (plain, multi-byte, two odd-but-legal ones).
//!
//! Oracles, written from the statement (and JVMS 4.7.6/4.7.7 for what the attributes say):
//!  (a) `nest_jar` renames exactly the listed classes that are present and satisfy the rule of their
//!      kind to `Enclosing$Inner`, transitively; every reference in every class is rewritten (each
//!      result class is written by duke, read by the independent strict parser and compared with a
//!      reference renaming of the input description); nested classes carry an InnerClasses entry (and
//!      EnclosingMethod for anonymous/local); missing enclosing classes exist in the result;
//!  (b) `apply_nests_to_mappings` renames every listed class the same way in the source namespace and
//!      rewrites member descriptors; `undo_nests_to_mappings` restores source names and descriptors;
//!  (c) for tables all of whose entries apply, jar class names = mapping source names (real vs real);
//!  (d) `remap_nests` keeps every nest, with class, enclosing class, enclosing method and inner name
//!      in the target namespace.
//! Where the statement is silent both outcomes are accepted (see `jar::alternatives`); panics never.
//!
//! Spaces (each complete within its bounds; `spaces` and `bounds` in the evidence carry the measured counts):
//!  S1  tables of 0..3 (thorough: 4) entries over the base universe: nested class (6) x enclosing class (5) x kind
//!      (`space::KINDS_FULL`, 37 kinds: type x enclosing method none/declared/overload/other name/declared by the nested
//!      class only x inner name derived/custom/tail of an already-nested name/number/0/00/leading zero/two digits/
//!      i32::MAX/local prefix of one and two digits/one name for all classes), canonical and reversed line order;
//!      jar + mappings + agreement; every table goes through the text form (`Nests::read`) where it can say it;
//!  S1b variant jars (classes that already carry EnclosingMethod / InnerClasses; further reference positions);
//!  S1c further NAME UNIVERSES (`space::universes`), same roles, other names: `multibyte` (2/3/4-byte characters first /
//!      last in simple names, in packages, next to `__`, behind the digit prefix of local names; a deep package),
//!      `odd-a` (`p/A$B` nested as `B` in `p/A`: the name stays, the attributes are still due; `(` in a name; `LF` in the
//!      default package), `odd-b` (`p/A` and `r/A`: one simple name in two packages, each with a method only it
//!      declares; classes in the default package, in the jar and missing; package `Lp`; a name ending in `$`):
//!      tables of 1 (all kinds; base + 4 variant jars), tables of 2 (6 kinds), styled mappings, zip path (multibyte);
//!      their jars also hold resources whose names have a multi-byte character at every distance 1..8 from the end;
//!  S1d CHAINS of 2..4 (thorough: 5) entries = depth 3..5 (6) over every injective class sequence, in EVERY order of
//!      the lines; two/three nests that share one inner name in different enclosing classes; every bit of the
//!      InnerClasses flag mask; the spellings of the TEXT FORM (flags decimal / 0x / 0b / 0x upper case per line, LF /
//!      CRLF, last line terminated or not: LF forms must read to the table written, CRLF and upper-case hex to the
//!      same table or a refusal);
//!  S2  styled mappings: target names plain / calamus / pre-nested / pre-nested under another prefix / IDENTITY (the
//!      row renames nothing, its methods may still be renamed) / DEFAULT PACKAGE (`Bt`, `C_22`), x enclosing-method row
//!      renamed / absent / same name: remap_nests, apply, undo;
//!  S3  information only: rows without target name, remap = false, cyclic tables (child process).

#[path = "c14/space.rs"]
mod space;
#[path = "c14/jar.rs"]
mod jar;

use std::collections::{BTreeMap, BTreeSet};
use dukenest::nest::Nests;
use mapmodel::{MClass, MField, MMethod, MParam, MSet};
use quill::tree::mappings::Mappings;
use rayon::prelude::*;
use vcore::{json, Ctx, Stats, Tier};
use jar::{Alt, Fixture, Map, Out};
use space::*;

struct Src;
struct Dst;
type Maps = Mappings<2, (Src, Dst)>;

// ---------------------------------------------------------------------------------------------
// stderr: the code under test prints a line per created class / per signature; keep the sweep quiet

struct Quiet(i32);
impl Quiet {
	fn on() -> Quiet {
		unsafe {
			let saved = libc::dup(2);
			let null = libc::open(c"/dev/null".as_ptr(), libc::O_WRONLY);
			if saved >= 0 && null >= 0 {
				libc::dup2(null, 2);
				libc::close(null);
			}
			Quiet(saved)
		}
	}
	fn off(&self) {
		unsafe {
			if self.0 >= 0 {
				libc::dup2(self.0, 2);
			}
		}
	}
}
static QUIET_FD: std::sync::atomic::AtomicI32 = std::sync::atomic::AtomicI32::new(-1);
fn fatal(msg: &str) -> ! {
	let fd = QUIET_FD.load(std::sync::atomic::Ordering::SeqCst);
	if fd >= 0 {
		unsafe { libc::dup2(fd, 2) };
	}
	vcore::machinery_fail(msg)
}

// ---------------------------------------------------------------------------------------------
// mapping sets over the universe

#[derive(Clone, Copy, Debug, PartialEq, Eq, Hash)]
enum Style {
	/// `q/Bt`
	Plain,
	/// `q/C_12`
	Calamus,
	/// `<target of the enclosing class>__Bt` (or `__<number>` for a numeric inner name)
	PreNested,
	/// `q/Zz__Bt`: a nested-looking name whose prefix is not the enclosing class's target name
	PreNestedOther,
	/// the source name: a row that renames nothing
	Identity,
	/// `Bt`: a target name in the default package
	NoPkg,
	/// `C_12`: a calamus-style target name in the default package
	CalamusNoPkg,
}
static STYLES: [Style; 7] = [Style::Plain, Style::Calamus, Style::PreNested, Style::PreNestedOther, Style::Identity, Style::NoPkg, Style::CalamusNoPkg];
/// the styles of the first sessions (the two-entry styled sweep of the quick tier stays on these)
const STYLES_OLD: usize = 4;

/// target names of the six classes for one choice of styles (class F has no row: its name stays)
fn targets(u: &Uni, t: &[Entry], styles: &[Style; 6]) -> [String; 6] {
	fn one(u: &Uni, t: &[Entry], styles: &[Style; 6], i: usize, depth: usize) -> String {
		if i == 5 {
			return u.cls[5].to_owned();
		}
		let s = LETTER[i];
		match styles[i] {
			Style::Plain => format!("q/{s}t"),
			Style::Calamus => format!("q/C_1{}", i + 1),
			Style::PreNestedOther => format!("q/Zz__{s}t"),
			Style::Identity => u.cls[i].to_owned(),
			Style::NoPkg => format!("{s}t"),
			Style::CalamusNoPkg => format!("C_2{}", i + 1),
			Style::PreNested => match t.iter().find(|e| e.class == u.cls[i]) {
				Some(e) if depth < 8 => {
					let leaf = if e.inner.chars().all(|c| c.is_ascii_digit()) { e.inner.clone() } else { format!("{s}t") };
					format!("{}__{leaf}", one(u, t, styles, u.idx_of(&e.encl), depth + 1))
				},
				_ => format!("q/{s}t"),
			},
		}
	}
	std::array::from_fn(|i| one(u, t, styles, i, 0))
}

#[derive(Clone, Copy, Debug, PartialEq, Eq, Hash)]
enum MethodRow {
	/// the enclosing method has a row with another target name
	Renamed,
	/// no row for it
	NoRow,
	/// a row whose target name equals the source name
	SameName,
}

fn row2(a: &str, b: Option<&str>) -> Vec<Option<String>> {
	vec![Some(a.to_owned()), b.map(|s| s.to_owned())]
}

/// rows for A..E (F is not mapped), each with two fields and two methods whose descriptors mention other classes
fn mapping_set(u: &Uni, tg: &[String; 6], no_target: Option<usize>, method_row: MethodRow) -> MSet {
	let cls = &u.cls;
	let (m_present, m_absent) = ((u.m_present.0.as_str(), u.m_present.1.as_str()), (u.m_absent.0.as_str(), u.m_absent.1.as_str()));
	let mut set = MSet::new(&["calamus", "named"]);
	for i in 0..5 {
		let s = LETTER[i];
		let mut c = MClass { names: row2(cls[i], if no_target == Some(i) { None } else { Some(&tg[i]) }), doc: if i == 1 { Some("comment on B, mentions p/B and p/A$B".into()) } else { None }, ..Default::default() };
		c.fields.insert(("f".into(), format!("L{};", cls[1])), MField { names: row2("f", Some(&format!("f{s}T"))), doc: None });
		c.fields.insert(("g".into(), format!("[[L{};", cls[(i + 4) % 6])), MField { names: row2("g", Some("gT")), doc: Some("field comment".into()) });
		let mut params = BTreeMap::new();
		params.insert(1usize, MParam { names: row2("a", Some("arg")), doc: None });
		match method_row {
			MethodRow::Renamed => {
				c.methods.insert((m_present.0.into(), m_present.1.into()), MMethod { names: row2(m_present.0, Some(&format!("m{s}T"))), doc: Some("method comment".into()), params });
				c.methods.insert((m_absent.0.into(), m_absent.1.into()), MMethod { names: row2(m_absent.0, Some("mAbsT")), doc: None, params: BTreeMap::new() });
			},
			MethodRow::SameName => {
				c.methods.insert((m_present.0.into(), m_present.1.into()), MMethod { names: row2(m_present.0, Some(m_present.0)), doc: None, params });
			},
			MethodRow::NoRow => {},
		}
		c.methods.insert(("k".into(), format!("(L{};L{};)L{};", cls[3], cls[5], cls[0])), MMethod { names: row2("k", Some("kT")), doc: None, params: BTreeMap::new() });
		if method_row != MethodRow::NoRow {
			// the method only this class declares: a row in the class that declares it, in no other
			let only = only_method(i);
			c.methods.insert(only.clone(), MMethod { names: row2(&only.0, Some(&format!("{}T", only.0))), doc: None, params: BTreeMap::new() });
		}
		set.classes.insert(cls[i].to_owned(), c);
	}
	set
}

/// the mapping set with plain target names of a universe, as model and as the real type
fn plain_mappings(u: &Uni) -> (MSet, Maps) {
	let plain = mapping_set(u, &targets(u, &[], &[Style::Plain; 6]), None, MethodRow::Renamed);
	(plain.clone(), to_quill(&plain))
}

fn to_quill(set: &MSet) -> Maps {
	mapmodel::to_quill::<2, (Src, Dst)>(set).unwrap_or_else(|e| fatal(&format!("cannot build the real mapping set: {e:#}\n{}", mapmodel::tiny::print(set))))
}

/// the renaming of the source namespace: EVERY listed class, `Enclosing$Inner`, transitively
fn listed_names(t: &[Entry]) -> Map {
	let all = vec![true; t.len()];
	t.iter().map(|e| (e.class.clone(), jar::nested_name(t, &all, &e.class))).collect()
}

fn depth_of(name: &str) -> usize {
	name.matches('$').count()
}

/// Judges the source side of `after` = apply(set, t) (`what` = "apply"), or of undo(apply(..)) against the
/// original (`names` empty, `what` = "undo").
fn check_source_side(set: &MSet, names: &Map, after: &MSet, what: &str) -> Vec<(String, String)> {
	let mut d = Vec::new();
	if after.ns != set.ns || after.doc != set.doc {
		d.push((format!("{what}:header-changed"), format!("namespaces/comment {:?}/{:?} became {:?}/{:?}", set.ns, set.doc, after.ns, after.doc)));
	}
	let expected_keys: BTreeSet<String> = set.classes.keys().map(|k| jar::map_name(k, names)).collect();
	for k in after.classes.keys() {
		if !expected_keys.contains(k) {
			d.push((format!("{what}:unexpected-source-name"), format!("the result has a class {k:?}; expected source names {expected_keys:?}")));
		}
	}
	for (k, c) in &set.classes {
		let nk = jar::map_name(k, names);
		let Some(a) = after.classes.get(&nk) else {
			let key = if what == "undo" {
				"undo:source-name-not-restored".to_owned()
			} else if after.classes.contains_key(k) {
				"apply:listed-class-not-renamed".to_owned()
			} else {
				format!("apply:wrong-source-name{}", if depth_of(&nk) > 1 { ":chain" } else { "" })
			};
			d.push((key, format!("class {k:?} should have the source name {nk:?}; source names of the result: {:?}", after.classes.keys().collect::<Vec<_>>())));
			continue;
		};
		if a.doc != c.doc {
			d.push((format!("{what}:comment-changed"), format!("class {nk:?}: comment {:?} became {:?}", c.doc, a.doc)));
		}
		let want_f: BTreeMap<(String, String), &MField> = c.fields.iter().map(|((n, de), f)| ((n.clone(), jar::map_desc(de, names)), f)).collect();
		let want_m: BTreeMap<(String, String), &MMethod> = c.methods.iter().map(|((n, de), m)| ((n.clone(), jar::map_desc(de, names)), m)).collect();
		if want_f.keys().collect::<Vec<_>>() != a.fields.keys().collect::<Vec<_>>() {
			d.push((format!("{what}:field-descriptor{}", if what == "undo" { "-not-restored" } else { "-not-rewritten" }), format!("class {nk:?}: fields {:?}, expected {:?}", a.fields.keys().collect::<Vec<_>>(), want_f.keys().collect::<Vec<_>>())));
		} else if want_f.values().zip(a.fields.values()).any(|(w, g)| *w != g) {
			d.push((format!("{what}:field-row-changed"), format!("class {nk:?}: names or comments of fields changed: {:?}", a.fields)));
		}
		if want_m.keys().collect::<Vec<_>>() != a.methods.keys().collect::<Vec<_>>() {
			d.push((format!("{what}:method-descriptor{}", if what == "undo" { "-not-restored" } else { "-not-rewritten" }), format!("class {nk:?}: methods {:?}, expected {:?}", a.methods.keys().collect::<Vec<_>>(), want_m.keys().collect::<Vec<_>>())));
		} else if want_m.values().zip(a.methods.values()).any(|(w, g)| *w != g) {
			d.push((format!("{what}:method-row-changed"), format!("class {nk:?}: names, comments or parameters of methods changed: {:?}", a.methods)));
		}
	}
	d
}

// ---------------------------------------------------------------------------------------------
// remap_nests: the reference

struct RemapWant {
	class: String,
	encl: Vec<String>,
	method: Option<(String, String)>,
	inner: Vec<String>,
	shape: &'static str,
}

fn simple_of(name: &str) -> &str {
	name.rsplit_once('/').map_or(name, |(_, s)| s)
}

fn remap_want(set: &MSet, e: &Entry) -> RemapWant {
	let tmap: Map = set.classes.iter().filter_map(|(k, c)| c.names[1].clone().map(|t| (k.clone(), t))).collect();
	let tg = |c: &str| tmap.get(c).cloned().unwrap_or_else(|| c.to_owned());
	let class = tg(&e.class);
	let method = e.method.as_ref().map(|(n, de)| {
		let name = set.classes.get(&e.encl).and_then(|c| c.methods.get(&(n.clone(), de.clone()))).and_then(|m| m.names[1].clone()).unwrap_or_else(|| n.clone());
		(name, jar::map_desc(de, &tmap))
	});
	let digits = e.inner.chars().take_while(|c| c.is_ascii_digit()).count();
	let (prefix, rest) = e.inner.split_at(digits);
	let src_simple = simple_of(&e.class);
	let tgt_simple = simple_of(&class);
	// "derived": the class is named after its inner name — the simple name is the inner name, or ends with it behind
	// a nesting separator (an already-nested `A__D` / `A$D` with inner name `D`). "custom": the class name does not
	// end with it at all. A bare suffix without separator (`p/Xyz`, `yz`) is neither clearly: both readings accepted.
	let derived = !rest.is_empty() && (rest == src_simple || src_simple.ends_with(&format!("__{rest}")) || src_simple.ends_with(&format!("${rest}")));
	let custom = !rest.is_empty() && !e.class.ends_with(rest);
	let unclear = !rest.is_empty() && !derived && !custom;
	if let Some((pre, leaf)) = class.rsplit_once("__") {
		// the mappings already use nested names: the nesting is read off the target name; where the table says
		// something else (custom inner name, another enclosing class) the statement does not choose
		let mut encl = vec![pre.to_owned(), tg(&e.encl)];
		encl.dedup();
		let mut inner = vec![leaf.to_owned()];
		if custom || unclear {
			inner.push(e.inner.clone());
		}
		return RemapWant { class, encl, method, inner, shape: "pre-nested" };
	}
	let derived_name = format!("{prefix}{tgt_simple}");
	let (inner, shape) = if rest.is_empty() {
		// a number: kept, except that a calamus-style `C_<number>` target carries its own number
		match tgt_simple.strip_prefix("C_") {
			Some(n) if !n.is_empty() && n.chars().all(|c| c.is_ascii_digit()) => (vec![n.to_owned()], "number-calamus"),
			_ => (vec![e.inner.clone()], "number"),
		}
	} else if custom {
		(vec![e.inner.clone()], "custom")
	} else if unclear {
		(vec![e.inner.clone(), derived_name], "suffix-without-separator")
	} else if rest != src_simple {
		(vec![derived_name], if prefix.is_empty() { "derived-from-already-nested-name" } else { "derived-local-from-already-nested-name" })
	} else {
		(vec![derived_name], if prefix.is_empty() { "derived" } else { "derived-local" })
	};
	RemapWant { class, encl: vec![tg(&e.encl)], method, inner, shape }
}

/// Returns whether the real result matched the reference in everything.
fn check_remap_nests(ctx: &Ctx, st: &mut Stats, set: &MSet, t: &[Entry], replay: &dyn Fn() -> String) -> bool {
	st.eval();
	let q = to_quill(set);
	let nests: Nests<Src> = to_real(t);
	let out = match vcore::guard(|| dukenest::remap_nests(&nests, &q)) {
		Err(p) => {
			st.outcome("remap_nests:panic");
			ctx.diff(&format!("remap_nests:panic@{}", p.file()), &format!("remap_nests panicked at {}: {}", p.site, p.msg), replay);
			return false;
		},
		Ok(Err(e)) => {
			st.outcome("remap_nests:err");
			ctx.diff("remap_nests:refused", &format!("remap_nests failed on a table and mappings of the stated space: {e:#}"), replay);
			return false;
		},
		Ok(Ok(n)) => from_real(&n),
	};
	let wants: Vec<RemapWant> = t.iter().map(|e| remap_want(set, e)).collect();
	if wants.iter().map(|w| &w.class).collect::<BTreeSet<_>>().len() != wants.len() {
		st.outcome("remap_nests:two-nests-with-one-target-name (outside the space)");
		return false;
	}
	st.outcome("remap_nests:ok");
	let mut clean = true;
	if out.len() != t.len() {
		clean = false;
		ctx.diff("remap_nests:nest-count", &format!("{} nests in, {} out: {:?}", t.len(), out.len(), out.iter().map(|o| &o.0).collect::<Vec<_>>()), replay);
	}
	for (e, w) in t.iter().zip(&wants) {
		let Some((key, got)) = out.iter().find(|(k, _)| k == &w.class) else {
			clean = false;
			ctx.diff("remap_nests:nest-lost", &format!("no nest for {:?} (source {:?}) in the result: {:?}", w.class, e.class, out.iter().map(|o| &o.0).collect::<Vec<_>>()), replay);
			continue;
		};
		let mut bad = |k: &str, what: String| {
			clean = false;
			ctx.diff(k, &format!("nest of {:?} (target {key:?}): {what}", e.class), replay);
		};
		if got.class != w.class {
			bad("remap_nests:class-name", format!("class name {:?}, expected {:?}", got.class, w.class));
		}
		if got.ty != e.ty {
			bad("remap_nests:type-changed", format!("type {:?}, was {:?}", got.ty, e.ty));
		}
		if got.flags != e.flags {
			bad("remap_nests:access-changed", format!("access {:#x}, was {:#x}", got.flags, e.flags));
		}
		if !w.encl.contains(&got.encl) {
			bad("remap_nests:enclosing-class", format!("enclosing class {:?}, expected {:?}", got.encl, w.encl));
		}
		if got.method != w.method {
			bad("remap_nests:enclosing-method", format!("enclosing method {:?}, expected {:?}", got.method, w.method));
		}
		if !w.inner.contains(&got.inner) {
			bad(&format!("remap_nests:inner-name:{}", w.shape), format!("inner name {:?} (was {:?}), expected {:?}", got.inner, e.inner, w.inner));
		}
		if clean {
			st.outcome(&format!("remap_nests:inner-name-shape:{}", w.shape));
			if let (Some(a), Some(b)) = (&e.method, &got.method) {
				if a.0 != b.0 {
					st.outcome("remap_nests:enclosing-method-renamed");
				}
				if a.1 != b.1 {
					st.outcome("remap_nests:enclosing-method-descriptor-translated");
				}
			}
			if got.encl != e.encl {
				st.outcome("remap_nests:enclosing-class-translated");
			}
		}
	}
	if clean && !t.is_empty() {
		st.distinct.add(&("remap", &out));
		st.sample("remap_nests", || json!({"kind": "remap_nests", "table": table_text(t), "mappings": mapmodel::tiny::print(set), "result": out.iter().map(|(k, e)| format!("{k}: encl={} method={:?} inner={}", e.encl, e.method, e.inner)).collect::<Vec<_>>()}));
	}
	clean
}

// ---------------------------------------------------------------------------------------------
// mappings: apply and undo

/// Returns the source names of the nested mappings when the run was clean.
fn check_mappings(ctx: &Ctx, st: &mut Stats, set: &MSet, prebuilt: Option<&Maps>, t: &[Entry], replay: &dyn Fn() -> String) -> Option<BTreeSet<String>> {
	let names = listed_names(t);
	// two classes (with or without a row) that would get the same name: outside the space
	let involved: BTreeSet<&String> = set.classes.keys().chain(names.keys()).collect();
	let in_space = involved.iter().map(|k| jar::map_name(k, &names)).collect::<BTreeSet<_>>().len() == involved.len();
	st.eval();
	let q = prebuilt.cloned().unwrap_or_else(|| to_quill(set));
	let nests: Nests<Src> = to_real(t);
	let applied = match vcore::guard(|| dukenest::apply_nests_to_mappings(q, &nests)) {
		Err(p) => {
			st.outcome("apply:panic");
			ctx.diff(&format!("apply:panic@{}", p.file()), &format!("apply_nests_to_mappings panicked at {}: {}", p.site, p.msg), replay);
			return None;
		},
		Ok(Err(e)) => {
			if in_space {
				st.outcome("apply:err");
				ctx.diff("apply:refused", &format!("apply_nests_to_mappings failed inside the stated space: {e:#}"), replay);
			} else {
				st.outcome("apply:err-on-colliding-names (outside the space)");
			}
			return None;
		},
		Ok(Ok(m)) => m,
	};
	if !in_space {
		st.outcome("apply:ok-on-colliding-names (outside the space)");
		return None;
	}
	let after = match mapmodel::from_quill(&applied) {
		Ok(m) => m,
		Err(k) => {
			ctx.diff("apply:key-invariant", &format!("the result stores an entry under a key that is not its source name/descriptor: {}", k.0), replay);
			return None;
		},
	};
	let diffs = check_source_side(set, &names, &after, "apply");
	let clean = diffs.is_empty();
	for (k, what) in diffs {
		ctx.diff(&k, &what, &|| format!("{}real result:\n{}", replay(), mapmodel::tiny::print(&after)));
	}
	let n_renamed = set.classes.keys().filter(|k| names.contains_key(*k)).count();
	if clean {
		st.outcome(if n_renamed > 0 { "apply:ok-renamed" } else { "apply:ok-nothing-listed" });
		if names.values().any(|n| depth_of(n) >= 2) {
			st.outcome("apply:chain-depth>=3");
		}
		// what happened to the target names (the statement does not say): information
		let t_same = set.classes.iter().all(|(k, c)| after.classes.get(&jar::map_name(k, &names)).is_some_and(|a| a.names[1] == c.names[1]));
		st.outcome(if t_same { "info:apply:target-names-unchanged" } else { "info:apply:target-names-nested-too" });
	}
	// undo ∘ apply restores source names and descriptors
	st.eval();
	match vcore::guard(|| dukenest::undo_nests_to_mappings(applied, &nests)) {
		Err(p) => {
			st.outcome("undo:panic");
			ctx.diff(&format!("undo:panic@{}", p.file()), &format!("undo_nests_to_mappings panicked at {}: {}", p.site, p.msg), replay);
		},
		Ok(Err(e)) => {
			st.outcome("undo:err");
			ctx.diff("undo:refused", &format!("undo_nests_to_mappings failed on the result of apply: {e:#}"), replay);
		},
		Ok(Ok(u)) => match mapmodel::from_quill(&u) {
			Err(k) => ctx.diff("undo:key-invariant", &k.0, replay),
			Ok(back) => {
				let diffs = check_source_side(set, &Map::new(), &back, "undo");
				if diffs.is_empty() {
					st.outcome(if n_renamed > 0 { "undo:restored-after-renaming" } else { "undo:restored-trivially" });
					let t_same = set.classes.iter().all(|(k, c)| back.classes.get(k).is_some_and(|a| a.names[1] == c.names[1]));
					st.outcome(if t_same { "info:undo:target-names-as-before" } else { "info:undo:target-names-differ-from-before" });
				}
				for (k, what) in diffs {
					ctx.diff(&k, &what, &|| format!("{}apply gave:\n{}undo of that gave:\n{}", replay(), mapmodel::tiny::print(&after), mapmodel::tiny::print(&back)));
				}
			},
		},
	}
	clean.then(|| after.classes.keys().cloned().collect())
}

// ---------------------------------------------------------------------------------------------
// the jar

fn run_nest_jar(fx: &Fixture, nests: Nests<Src>, remap: bool) -> Result<Result<Out, String>, vcore::Panic> {
	vcore::guard(|| dukenest::nest_jar(remap, &fx.jar, nests).map(|j| jar::read_out(fx.uni, &j)).map_err(|e| format!("{e:#}")))
}

/// the table as the real type: through the text form whenever the text form can say it
fn real_table(ctx: &Ctx, st: &mut Stats, t: &[Entry], replay: &dyn Fn() -> String) -> Option<Nests<Src>> {
	if !text_expressible(t) {
		st.outcome("table:built-in-memory (kind differs from what the text form derives)");
		return Some(to_real(t));
	}
	let text = render_text(t);
	st.eval();
	match vcore::guard(|| Nests::<Src>::read(&text.clone().into_bytes())) {
		Err(p) => {
			ctx.diff(&format!("read:panic@{}", p.file()), &format!("Nests::read panicked at {}: {}", p.site, p.msg), replay);
			None
		},
		Ok(Err(e)) => {
			ctx.diff("read:refused-valid-table", &format!("Nests::read refuses {text:?}: {e:#}"), replay);
			None
		},
		Ok(Ok(n)) => {
			let got: Vec<Entry> = from_real(&n).into_iter().map(|(_, e)| e).collect();
			if got != t {
				let field = got.iter().zip(t).find(|(a, b)| a != b).map(|(a, b)| if a.ty != b.ty { "type" } else if a.method != b.method { "method" } else if a.flags != b.flags { "access" } else { "names" }).unwrap_or("count");
				ctx.diff(&format!("read:{field}-wrong"), &format!("Nests::read of {text:?} gives {got:?}"), replay);
				return None;
			}
			st.outcome("table:read-from-text");
			Some(n)
		},
	}
}

struct JarVerdict {
	/// class names of the real result, when it matched an allowed outcome
	names: Option<BTreeSet<String>>,
	all_apply: bool,
	renamed: usize,
}

fn check_jar(ctx: &Ctx, st: &mut Stats, fx: &Fixture, t: &[Entry], replay: &dyn Fn() -> String) -> JarVerdict {
	let mut verdict = JarVerdict { names: None, all_apply: false, renamed: 0 };
	let Some(nests) = real_table(ctx, st, t, replay) else { return verdict };
	st.eval();
	let alts = jar::alternatives(fx, t);
	let in_space = !alts.iter().any(|a| a.has_collision(fx));
	let out = match run_nest_jar(fx, nests, true) {
		Err(p) => {
			st.outcome("nest_jar:panic");
			ctx.diff(&format!("nest_jar:panic@{}", p.file()), &format!("nest_jar panicked at {}: {}", p.site, p.msg), replay);
			return verdict;
		},
		Ok(Err(e)) => {
			if in_space {
				st.outcome("nest_jar:err");
				ctx.diff("nest_jar:refused", &format!("nest_jar failed inside the stated space: {e}"), replay);
			} else {
				st.outcome("nest_jar:err-on-colliding-names (outside the space)");
			}
			return verdict;
		},
		Ok(Ok(o)) => o,
	};
	if !in_space {
		st.outcome("nest_jar:ok-on-colliding-names (outside the space)");
		return verdict;
	}
	if alts.is_empty() {
		fatal("the reference lists no allowed outcome");
	}
	let mut best: Option<(usize, jar::Cmp)> = None;
	for (i, a) in alts.iter().enumerate() {
		let c = jar::compare(fx, t, a, &out);
		if best.as_ref().is_none_or(|b| c.diffs.len() < b.1.diffs.len()) {
			let done = c.diffs.is_empty();
			best = Some((i, c));
			if done {
				break;
			}
		}
	}
	let (ai, jar::Cmp { diffs, notes }) = best.unwrap_or_else(|| fatal("no alternative"));
	let alt: &Alt = &alts[ai];
	if diffs.is_empty() {
		for n in notes {
			st.outcome(n);
		}
	}
	if !diffs.is_empty() {
		st.outcome("nest_jar:differs");
		let shown = || format!("{}real result: {:?}\n", replay(), out.classes.iter().map(|c| (c.entry.clone(), c.class.this_class.to_string_lossy(), c.class.inner_classes.clone(), c.class.enclosing_method.clone())).collect::<Vec<_>>());
		for (k, what) in &diffs {
			ctx.diff(k, what, &shown);
		}
	}
	// counters: measured on the real result, through the outcome it matched
	let name_level_ok = !diffs.iter().any(|(k, _)| k.starts_with("nest_jar:") && !k.contains("entry-name") && !k.contains("inner-classes") && !k.contains("enclosing-method"));
	if name_level_ok {
		if alts.len() > 1 {
			st.outcome("nest_jar:statement-silent-case (several outcomes allowed)");
			st.outcome(&format!("info:silent-case:outcome-taken:{}", if alt.created.is_empty() { "nothing-created" } else if alt.applied.iter().zip(t).any(|(a, e)| *a && !fx.present(&e.class)) { "created-class-nested-too" } else { "created" }));
		}
		for (e, a) in t.iter().zip(&alt.applied) {
			if fx.present(&e.class) {
				if let Some(m) = &e.method {
					let which = if *m == fx.uni.m_other_name { Some("declared-nowhere-with-the-descriptor-of-a-declared-one") } else if m.0.starts_with("only") { Some("declared-by-the-nested-class-only") } else { None };
					if let Some(which) = which {
						st.outcome(&format!("nest_jar:method-{which}:{}:{}", e.ty.name(), if *a { "applied" } else { "rejected" }));
					}
				}
				if e.ty == Ty::Anon && e.inner.len() > 1 && e.inner.chars().all(|c| c.is_ascii_digit()) {
					st.outcome(&format!("nest_jar:anonymous-number-of-several-digits:{}:{}", if e.inner.len() > 2 { if e.inner.starts_with('0') { "zeros" } else { "i32-max" } } else if e.inner == "00" { "zeros" } else { "two-digits" }, if *a { "applied" } else { "rejected" }));
				}
			}
			if *a {
				st.outcome(&format!("nest_jar:applied:{}", e.ty.name()));
				verdict.renamed += 1;
				if alt.new_name(&e.class) == e.class {
					st.outcome("nest_jar:applied-to-a-class-that-already-has-the-nested-name");
				}
				if e.class != e.encl && simple_of(&e.class) == simple_of(&e.encl) {
					st.outcome("nest_jar:applied:enclosing-class-with-the-simple-name-of-the-nested-class");
				}
				if t.iter().zip(&alt.applied).any(|(o, oa)| *oa && o.class != e.class && o.inner == e.inner) {
					st.outcome("nest_jar:applied:inner-name-shared-with-another-applied-nest");
				}
			} else if !fx.present(&e.class) {
				st.outcome("nest_jar:skipped:class-not-in-jar");
			} else if let Some(why) = jar::rule_violation(fx, e) {
				st.outcome(&format!("nest_jar:rejected:{why}"));
				if e.class != e.encl && simple_of(&e.class) == simple_of(&e.encl) && e.method.as_ref().is_some_and(|m| m.0.starts_with("only")) {
					st.outcome("nest_jar:rejected:local-whose-method-only-the-namesake-of-the-enclosing-class-declares");
				}
			}
		}
		let deepest = alt.names.values().map(|n| depth_of(n)).max().unwrap_or(0);
		if deepest >= 2 {
			st.outcome("nest_jar:chain-depth>=3");
		}
		if deepest >= 3 {
			st.outcome("nest_jar:chain-depth>=4");
		}
		if deepest >= 4 {
			st.outcome("nest_jar:chain-depth>=5");
		}
		if deepest >= 5 {
			st.outcome("nest_jar:chain-depth>=6");
		}
		if !alt.created.is_empty() {
			st.outcome("nest_jar:created-enclosing-class");
		}
		if verdict.renamed > 0 {
			st.outcome("nest_jar:ok-renamed");
			st.distinct.add(&("jar", t, out.classes.iter().map(|c| c.class.this_class.clone()).collect::<Vec<_>>()));
		} else {
			st.outcome("nest_jar:ok-nothing-renamed");
		}
		if deepest >= 2 {
			st.sample("chain", || json!({"kind": "nest_jar", "table": table_text(t), "result_classes": out.classes.iter().map(|c| c.class.this_class.to_string_lossy()).collect::<Vec<_>>()}));
		}
		verdict.names = Some(out.classes.iter().map(|c| c.class.this_class.to_string_lossy()).collect());
		verdict.all_apply = alts.len() == 1 && !t.is_empty() && alt.applied.iter().all(|a| *a);
	}
	verdict
}

/// One table: jar, mappings (plain target names), agreement.
fn check_table(ctx: &Ctx, st: &mut Stats, fx: &Fixture, plain: &(MSet, Maps), t: &[Entry], with_mappings: bool) {
	let replay = || format!("mode=table\nuniverse={}\norder={}\n{}{}", fx.uni.id, fx.order.map(|i| i.to_string()).join(","), fx.variant.map_or(String::new(), |v| format!("variant={v}\n")), table_text(t));
	let jv = check_jar(ctx, st, fx, t, &replay);
	if !with_mappings {
		return;
	}
	let ms = check_mappings(ctx, st, &plain.0, Some(&plain.1), t, &replay);
	// (c) agreement, real against real, for tables all of whose entries apply to the jar
	if let (true, Some(j), Some(m)) = (jv.all_apply, &jv.names, &ms) {
		let mut j = j.clone();
		let mut m = m.clone();
		j.remove(fx.uni.cls[5]); // a created class the mappings have no row for
		if !j.contains(fx.uni.cls[4]) {
			m.remove(fx.uni.cls[4]); // a row for a class that is neither in the jar nor created
		}
		if j == m {
			st.outcome("agree:tables");
			if jv.renamed >= 3 {
				st.outcome("agree:tables-with>=3-renamed-classes");
				st.sample("agree", || json!({"kind": "agreement", "table": table_text(t), "class_names_in_jar_and_mappings": j}));
			}
		} else {
			ctx.diff("agreement:jar-and-mappings-disagree", &format!("all entries apply, yet the nested jar has the classes {j:?} and the nested mappings the source names {m:?}"), &replay);
		}
	}
}

/// One table against styled mappings: remap_nests, and apply/undo on them.
fn check_styled(ctx: &Ctx, st: &mut Stats, u: &Uni, t: &[Entry], styles: &[Style; 6], mr: MethodRow, with_apply: bool) {
	let tg = targets(u, t, styles);
	if tg.iter().collect::<BTreeSet<_>>().len() != tg.len() {
		st.outcome("styled:two-classes-with-one-target-name (skipped)");
		return;
	}
	let set = mapping_set(u, &tg, None, mr);
	let replay = || format!("mode=styled\nuniverse={}\nstyles={}\nmethodrow={mr:?}\n{}mappings:\n{}", u.id, styles.iter().map(|s| format!("{s:?}")).collect::<Vec<_>>().join(","), table_text(t), mapmodel::tiny::print(&set));
	if check_remap_nests(ctx, st, &set, t, &replay) {
		for e in t {
			let i = u.idx_of(&e.class);
			if i < 5 {
				st.outcome(&format!("remap_nests:clean:target-style-of-the-nested-class:{:?}", styles[i]));
			}
		}
	}
	if with_apply {
		check_mappings(ctx, st, &set, None, t, &replay);
	}
}

// ---------------------------------------------------------------------------------------------
// sweeps

#[derive(Clone, Copy, PartialEq, Eq)]
enum Orders {
	Canonical,
	Both,
	/// only the reversed order (the canonical order of these tables is part of another sweep)
	ReversedOnly,
}

fn sweep_tables(ctx: &'static Ctx, fx: &Fixture, plain: &(MSet, Maps), space: &TableSpace, orders: Orders, stats_prefix: &str) -> Stats {
	sweep_tables_on(ctx, fx, plain, space, orders, stats_prefix, true)
}

/// `with_mappings = false`: the jar side only (variant jars; the mappings side does not see the jar)
fn sweep_tables_on(ctx: &'static Ctx, fx: &Fixture, plain: &(MSet, Maps), space: &TableSpace, orders: Orders, stats_prefix: &str, with_mappings: bool) -> Stats {
	let n = space.count();
	let chunk = 64u64;
	let mut st = (0..n.div_ceil(chunk)).into_par_iter().fold(Stats::new, |mut st, c| {
		let lo = c * chunk;
		let hi = (lo + chunk).min(n);
		vcore::watched(|| format!("tables size={} menu={} jar={:?} index {lo}..{hi}", space.size, space.menu.len(), fx.variant), || {
			for idx in lo..hi {
				let t = space.nth(idx);
				if has_cycle(&t) {
					st.outcome("space:cyclic-table-skipped");
					continue;
				}
				if orders != Orders::ReversedOnly {
					st.outcome("space:tables");
					check_table(ctx, &mut st, fx, plain, &t, with_mappings);
				}
				if orders != Orders::Canonical && t.len() >= 2 {
					let mut r = t.clone();
					r.reverse();
					st.outcome("space:tables-in-reverse-order");
					check_table(ctx, &mut st, fx, plain, &r, false);
				}
			}
		});
		st
	}).reduce(Stats::new, Stats::merge);
	st.outcome_n(&format!("{stats_prefix}:index-space"), n);
	st
}

/// A list of tables, each through `check_table`.
fn sweep_list(ctx: &'static Ctx, fx: &Fixture, plain: &(MSet, Maps), tables: &[Vec<Entry>], with_mappings: bool, label: &str) -> Stats {
	let chunk = 64usize;
	let mut st = (0..tables.len().div_ceil(chunk)).into_par_iter().fold(Stats::new, |mut st, c| {
		let lo = c * chunk;
		let hi = (lo + chunk).min(tables.len());
		vcore::watched(|| format!("{label}: tables {lo}..{hi} jar={:?}/{}", fx.variant, fx.uni.id), || {
			for t in &tables[lo..hi] {
				if has_cycle(t) {
					st.outcome("space:cyclic-table-skipped");
					continue;
				}
				st.outcome("space:tables");
				check_table(ctx, &mut st, fx, plain, t, with_mappings);
			}
		});
		st
	}).reduce(Stats::new, Stats::merge);
	st.outcome_n(&format!("{label}:index-space"), tables.len() as u64);
	st
}

/// The spelling choices of the text form: every table is written with every radix assignment of the access flags,
/// with `\n` and `\r\n` line ends, with and without a terminator on the last line. With `\n` the table read must
/// be the table written; the statement says nothing about `\r\n`: the same table or a refusal are accepted, another
/// table is a silently wrong answer.
fn sweep_text_forms(ctx: &'static Ctx, tables: &[Vec<Entry>]) -> Stats {
	let chunk = 256usize;
	(0..tables.len().div_ceil(chunk)).into_par_iter().fold(Stats::new, |mut st, c| {
		let lo = c * chunk;
		let hi = (lo + chunk).min(tables.len());
		vcore::watched(|| format!("text forms: tables {lo}..{hi}"), || {
			for t in &tables[lo..hi] {
				if t.is_empty() || !text_expressible(t) {
					continue;
				}
				for shift in 0..4 {
					for (eol, eol_name) in [("\n", "lf"), ("\r\n", "crlf")] {
						for final_eol in [true, false] {
							let text = render_text_as(t, shift, eol, final_eol);
							let strict = eol_name == "lf" && !(0..t.len()).any(|i| (i + shift) % 4 == 3);
							let replay = || format!("mode=text\ntext={}\n{}", vcore::hex(text.as_bytes()), table_text(t));
							st.eval();
							st.outcome("space:text-forms");
							match vcore::guard(|| Nests::<Src>::read(&text.clone().into_bytes())) {
								Err(p) => ctx.diff(&format!("read:panic@{}", p.file()), &format!("Nests::read panicked at {}: {} on {text:?}", p.site, p.msg), replay),
								Ok(Err(e)) => {
									if strict {
										ctx.diff("read:refused-valid-table", &format!("Nests::read refuses {text:?}: {e:#}"), replay);
									} else {
										st.outcome("text:crlf-or-upper-case-hex-refused");
									}
								},
								Ok(Ok(n)) => {
									let got: Vec<Entry> = from_real(&n).into_iter().map(|(_, e)| e).collect();
									if got == *t {
										st.outcome(&format!("text:{eol_name}:{}:same-table", if final_eol { "terminated" } else { "last-line-unterminated" }));
										if !strict && eol_name == "lf" {
											st.outcome("text:upper-case-hex-digits:same-table");
										}
									} else {
										let field = got.iter().zip(t).find(|(a, b)| a != b).map(|(a, b)| if a.ty != b.ty { "type" } else if a.method != b.method { "method" } else if a.flags != b.flags { "access" } else { "names" }).unwrap_or("count");
										ctx.diff(&format!("read:{field}-wrong"), &format!("Nests::read of {text:?} gives {got:?}"), replay);
									}
								},
							}
						}
					}
				}
			}
		});
		st
	}).reduce(Stats::new, Stats::merge)
}

fn style_vectors(u: &Uni, t: &[Entry], nested_styles: &[Style], encl_styles: &[Style]) -> Vec<[Style; 6]> {
	// nested classes take every style of `nested_styles`; classes that only enclose take `encl_styles`; the others stay plain
	let nested: Vec<usize> = t.iter().map(|e| u.idx_of(&e.class)).collect();
	let mut encl: Vec<usize> = t.iter().map(|e| u.idx_of(&e.encl)).filter(|i| !nested.contains(i) && *i != 5).collect();
	encl.sort();
	encl.dedup();
	let mut dims: Vec<usize> = nested.iter().map(|i| if *i == 5 { 1 } else { nested_styles.len() }).collect();
	dims.extend(encl.iter().map(|_| encl_styles.len()));
	vcore::enumerate::Product::new(&dims).map(|v| {
		let mut s = [Style::Plain; 6];
		for (k, i) in nested.iter().enumerate() {
			s[*i] = nested_styles[v[k]];
		}
		for (k, i) in encl.iter().enumerate() {
			s[*i] = encl_styles[v[nested.len() + k]];
		}
		s
	}).collect()
}

fn sweep_styled(ctx: &'static Ctx, space: &TableSpace, nested_styles: &'static [Style], encl_styles: &'static [Style], method_rows: &'static [MethodRow]) -> Stats {
	let n = space.count();
	let chunk = 64u64;
	(0..n.div_ceil(chunk)).into_par_iter().fold(Stats::new, |mut st, c| {
		let lo = c * chunk;
		let hi = (lo + chunk).min(n);
		vcore::watched(|| format!("styled tables size={} menu={} index {lo}..{hi}", space.size, space.menu.len()), || {
			for idx in lo..hi {
				let t = space.nth(idx);
				if has_cycle(&t) {
					continue;
				}
				for styles in style_vectors(space.uni, &t, nested_styles, encl_styles) {
					for (k, mr) in method_rows.iter().enumerate() {
						st.outcome("space:styled-cases");
						check_styled(ctx, &mut st, space.uni, &t, &styles, *mr, k == 0);
					}
				}
			}
		});
		st
	}).reduce(Stats::new, Stats::merge)
}

/// Rows without target name are outside the stated space: explored for information only.
fn sweep_missing_targets(fx: &Fixture, space: &TableSpace) -> (Stats, BTreeSet<String>) {
	let _ = fx;
	let u = space.uni;
	let idx_of = |c: &str| u.idx_of(c);
	let mut st = Stats::new();
	let mut sites = BTreeSet::new();
	for idx in 0..space.count() {
		let t = space.nth(idx);
		let tg = targets(u, &t, &[Style::Plain; 6]);
		let e = &t[0];
		for (which, class) in [("nested-class-row", &e.class), ("enclosing-class-row", &e.encl), ("unrelated-row", &u.cls[if idx_of(&e.class) == 0 || idx_of(&e.encl) == 0 { if idx_of(&e.class) == 1 || idx_of(&e.encl) == 1 { 2 } else { 1 } } else { 0 }].to_owned())] {
			let i = idx_of(class);
			if i >= 5 {
				continue;
			}
			let set = mapping_set(u, &tg, Some(i), MethodRow::Renamed);
			let nests: Nests<Src> = to_real(&t);
			st.eval();
			let r = vcore::guard(|| dukenest::apply_nests_to_mappings(to_quill(&set), &nests).map(|_| ()).map_err(|e| format!("{e:#}")));
			match r {
				Err(p) => {
					st.outcome(&format!("info:no-target-name:{which}:apply:panic"));
					sites.insert(format!("apply_nests_to_mappings: {} ({})", p.site, p.msg));
				},
				Ok(Err(_)) => st.outcome(&format!("info:no-target-name:{which}:apply:err")),
				Ok(Ok(())) => st.outcome(&format!("info:no-target-name:{which}:apply:ok")),
			}
			st.eval();
			match vcore::guard(|| dukenest::undo_nests_to_mappings(to_quill(&set), &nests).map(|_| ()).map_err(|e| format!("{e:#}"))) {
				Err(p) => {
					st.outcome(&format!("info:no-target-name:{which}:undo:panic"));
					sites.insert(format!("undo_nests_to_mappings: {} ({})", p.site, p.msg));
				},
				Ok(Err(_)) => st.outcome(&format!("info:no-target-name:{which}:undo:err")),
				Ok(Ok(())) => st.outcome(&format!("info:no-target-name:{which}:undo:ok")),
			}
			st.eval();
			match vcore::guard(|| dukenest::remap_nests(&nests, &to_quill(&set)).map(|_| ()).map_err(|e| format!("{e:#}"))) {
				Err(p) => {
					st.outcome(&format!("info:no-target-name:{which}:remap_nests:panic"));
					sites.insert(format!("remap_nests: {} ({})", p.site, p.msg));
				},
				Ok(Err(_)) => st.outcome(&format!("info:no-target-name:{which}:remap_nests:err")),
				Ok(Ok(())) => st.outcome(&format!("info:no-target-name:{which}:remap_nests:ok")),
			}
		}
	}
	(st, sites)
}

/// The same tables through a real zip archive (in and out), compared with the in-memory result; and
/// `remap = false` (not used by the application, not in the statement) for absence of panics.
fn sweep_zip_and_noremap(ctx: &Ctx, fx: &Fixture, spaces: &[&TableSpace]) -> Stats {
	let zip = dukebox::storage::UnnamedMemJar { data: fx.zip_bytes() };
	let mut st = Stats::new();
	for space in spaces {
		for idx in 0..space.count() {
			let t = space.nth(idx);
			if has_cycle(&t) {
				continue;
			}
			let replay = || format!("mode=zip\nuniverse={}\n{}", fx.uni.id, table_text(&t));
			st.eval();
			let mem = run_nest_jar(fx, to_real(&t), true);
			st.eval();
			let via_zip = vcore::guard(|| -> Result<Out, String> {
				let j = dukenest::nest_jar(true, &zip, to_real::<Src>(&t)).map_err(|e| format!("{e:#}"))?;
				let data = j.to_mem().map_err(|e| format!("writing the jar: {e:#}"))?.data;
				jar::read_out_zip(fx.uni, &data)
			});
			match (mem, via_zip) {
				(Ok(Ok(a)), Ok(Ok(b))) => {
					// a class stored under a name that does not end in `.class` is no class for a reader of the archive
					let mut a2 = a.clone();
					let stray: Vec<jar::OutClass> = a2.classes.iter().filter(|c| !c.entry.ends_with(".class")).cloned().collect();
					a2.classes.retain(|c| c.entry.ends_with(".class"));
					let b_others: Vec<_> = b.others.iter().filter(|(n, _)| !stray.iter().any(|s| &s.entry == n) && !n.ends_with('/')).cloned().collect();
					let a_others: Vec<_> = a2.others.iter().filter(|(n, _)| !n.ends_with('/')).cloned().collect();
					if a2.classes == b.classes && a_others == b_others && a2.broken.is_empty() && b.broken.is_empty() {
						st.outcome("zip:same-result-as-in-memory");
					} else {
						ctx.diff("zip:result-differs-from-in-memory", &format!("through a zip archive: {:?} / {:?}; in memory: {:?} / {:?}", b.classes.iter().map(|c| &c.entry).collect::<Vec<_>>(), b_others.iter().map(|o| &o.0).collect::<Vec<_>>(), a2.classes.iter().map(|c| &c.entry).collect::<Vec<_>>(), a_others.iter().map(|o| &o.0).collect::<Vec<_>>()), &replay);
					}
					if !stray.is_empty() {
						st.outcome("zip:created-class-not-readable-as-class-from-the-archive");
					}
				},
				(Ok(Err(_)), Ok(Err(_))) => st.outcome("zip:both-refuse"),
				(Err(p), _) | (_, Err(p)) => ctx.diff(&format!("nest_jar:panic@{}", p.file()), &format!("nest_jar (zip comparison) panicked at {}: {}", p.site, p.msg), &replay),
				(a, b) => ctx.diff("zip:one-path-refuses", &format!("in memory: {:?}; through zip: {:?}", a.map(|r| r.map(|_| "ok")), b.map(|r| r.map(|_| "ok"))), &replay),
			}
			st.eval();
			match run_nest_jar(fx, to_real(&t), false) {
				Err(p) => ctx.diff(&format!("nest_jar:panic@{}", p.file()), &format!("nest_jar(remap = false) panicked at {}: {}", p.site, p.msg), &|| format!("mode=noremap\nuniverse={}\n{}", fx.uni.id, table_text(&t))),
				Ok(Err(_)) => st.outcome("info:remap=false:err"),
				Ok(Ok(o)) => {
					let renamed = o.classes.iter().any(|c| c.origin.as_ref().is_some_and(|n| *n != c.class.this_class.to_string_lossy()));
					st.outcome(if renamed { "info:remap=false:renames" } else { "info:remap=false:attributes-only" });
				},
			}
		}
	}
	st
}

// ---------------------------------------------------------------------------------------------

/// Child process of the cycle probe: a table whose enclosing-class relation is a cycle (information only;
/// a cycle is not a chain, so it is outside the stated space). Exits 0 if the call returns.
fn cycle_child(which: &str) -> ! {
	let fx = Fixture::new();
	let t = vec![entry(base(), 1, 2, KINDS_FULL[0]), entry(base(), 2, 1, KINDS_FULL[0])];
	match which {
		"jar" => {
			let _ = dukenest::nest_jar(true, &fx.jar, to_real::<Src>(&t));
		},
		_ => {
			let set = mapping_set(base(), &targets(base(), &[], &[Style::Plain; 6]), None, MethodRow::Renamed);
			let _ = dukenest::apply_nests_to_mappings(to_quill(&set), &to_real::<Src>(&t));
		},
	}
	std::process::exit(0);
}

fn cycle_probe(st: &mut Stats) -> Vec<String> {
	let mut notes = Vec::new();
	let Ok(exe) = std::env::current_exe() else { return notes };
	for which in ["jar", "apply"] {
		let status = std::process::Command::new(&exe).env("C14_CYCLE_CHILD", which).stdin(std::process::Stdio::null()).stdout(std::process::Stdio::null()).stderr(std::process::Stdio::null()).status();
		let what = match status {
			Ok(s) if s.success() => "returns".to_owned(),
			Ok(s) => {
				use std::os::unix::process::ExitStatusExt;
				match s.signal() {
					Some(sig) => format!("process killed by signal {sig} (stack overflow)"),
					None => format!("exit code {:?}", s.code()),
				}
			},
			Err(e) => format!("probe could not run: {e}"),
		};
		st.outcome(&format!("info:cyclic-table:{which}:{}", if what.starts_with("process killed") { "killed-by-signal" } else if what == "returns" { "returns" } else { "other" }));
		notes.push(format!("outside the stated space (cyclic table: p/B in p/C_12 and p/C_12 in p/B), information only: {} -> {what}", if which == "jar" { "nest_jar" } else { "apply_nests_to_mappings" }));
	}
	notes
}

/// The created-enclosing-class defect with a few lines against the public API.
fn repro() -> ! {
	use dukebox::storage::{BasicFileAttributes, ClassRepr, JarEntryEnum, ParsedJar, ParsedJarEntry};
	let class_b = cfmodel::asm::assemble(&cfmodel::gen::skeleton("p/B"), &Default::default()).unwrap();
	let mut jar: ParsedJar<ClassRepr, Vec<u8>> = ParsedJar { entries: indexmap::IndexMap::new() };
	jar.entries.insert("p/B.class".to_owned(), ParsedJarEntry { attr: BasicFileAttributes::default(), content: JarEntryEnum::Class(ClassRepr::Vec { data: class_b }) });
	let nests = Nests::<Src>::read(&b"p/B\tp/E\t\t\tB\t8\n".to_vec()).unwrap();
	let nested = dukenest::nest_jar(true, &jar, nests).unwrap();
	println!("entries of the nested jar: {:?}", nested.entries.keys().collect::<Vec<_>>());
	let zip = nested.to_mem().unwrap();
	let mut z = zip::ZipArchive::new(std::io::Cursor::new(zip.data)).unwrap();
	println!("entries of the written archive: {:?}", (0..z.len()).map(|i| z.by_index(i).unwrap().name().to_owned()).collect::<Vec<_>>());
	std::process::exit(0);
}

/// the jars and plain mapping sets of the universes other than the base one
fn further_universes() -> &'static Vec<(Fixture, (MSet, Maps))> {
	static KEEP: std::sync::OnceLock<Vec<(Fixture, (MSet, Maps))>> = std::sync::OnceLock::new();
	KEEP.get_or_init(|| universes()[1..].iter().map(|u| (Fixture::build_in(u, None, [2, 0, 3, 1]), plain_mappings(u))).collect())
}

fn main() {
	if let Ok(which) = std::env::var("C14_CYCLE_CHILD") {
		cycle_child(&which);
	}
	if std::env::var_os("C14_REPRO").is_some() {
		repro();
	}
	let ctx: &'static Ctx = Box::leak(Box::new(Ctx::new("C14", "exploration")));
	let quiet = Quiet::on();
	QUIET_FD.store(quiet.0, std::sync::atomic::Ordering::SeqCst);
	let fx = Fixture::new();
	let plain = plain_mappings(base());
	if let Some(path) = ctx.replay.clone() {
		replay(ctx, &path, &quiet);
	}
	if std::env::var_os("C14_PROFILE").is_some() {
		quiet.off();
		profile(&fx, &plain);
	}
	let quick = ctx.tier == Tier::Quick;
	let timing = std::env::var_os("C14_TIMING").is_some();
	let mut total = Stats::new();
	let mut spaces = serde_json::Map::new();
	let mut run = |name: &str, st: Stats| {
		if timing {
			quiet.off();
			eprintln!("{name}: {} evaluations, at {:.1}s", st.evaluations, ctx.elapsed_s());
			Quiet::on();
		}
		spaces.insert(name.to_owned(), json!({"evaluations": st.evaluations, "tables": st.get("space:tables") + st.get("space:tables-in-reverse-order") + st.get("space:styled-cases") + st.get("space:text-forms"), "cyclic_tables_skipped": st.get("space:cyclic-table-skipped")}));
		total = std::mem::take(&mut total).merge(st);
	};

	// S1: jar + mappings + agreement
	let s0 = TableSpace::new(0, KINDS_FULL);
	let s1 = TableSpace::new(1, KINDS_FULL);
	let s2 = TableSpace::new(2, KINDS_FULL);
	let s2o = TableSpace::new(2, &KINDS_FULL[..OLD]);
	let s2c = TableSpace::new(2, &KINDS_FULL[..CORE]);
	let s2m = TableSpace::new(2, &KINDS_FULL[..MEDIUM]);
	let s3 = TableSpace::new(3, if quick { KINDS_MINI } else { &KINDS_FULL[..8] });
	let s3r = TableSpace::new(3, KINDS_MINI);
	let s4 = TableSpace::new(4, &KINDS_MINI[..3]);
	run("tables-of-0", sweep_tables(ctx, &fx, &plain, &s0, Orders::Canonical, "s0"));
	run(&format!("tables-of-1 ({} kinds)", KINDS_FULL.len()), sweep_tables(ctx, &fx, &plain, &s1, Orders::Canonical, "s1"));
	// development runs (not tiers; their floors are not all met): C14_SMOKE = tables of <= 1 entry only;
	// C14_DEV=chains = the same plus the chain and shared-inner-name sweeps
	let dev_chains = std::env::var("C14_DEV").is_ok_and(|v| v == "chains");
	let smoke = std::env::var_os("C14_SMOKE").is_some() || dev_chains;
	if smoke {
		ctx.note("C14_SMOKE / C14_DEV: development run over a part of the quick tier (not a tier)".to_string());
	} else if quick {
		run("tables-of-2 (12 kinds, both orders)", sweep_tables(ctx, &fx, &plain, &s2m, Orders::Both, "s2"));
		run("tables-of-3 (4 kinds)", sweep_tables(ctx, &fx, &plain, &s3, Orders::Canonical, "s3"));
	} else {
		run(&format!("tables-of-2 ({} kinds, both orders)", KINDS_FULL.len()), sweep_tables(ctx, &fx, &plain, &s2, Orders::Both, "s2"));
		run("tables-of-3 (8 kinds)", sweep_tables(ctx, &fx, &plain, &s3, Orders::Canonical, "s3"));
		run("tables-of-3 in reverse order (4 kinds)", sweep_tables(ctx, &fx, &plain, &s3r, Orders::ReversedOnly, "s3r"));
		run("tables-of-4 (3 kinds, all applying)", sweep_tables(ctx, &fx, &plain, &s4, Orders::Canonical, "s4"));
	}

	// S1b: the variant jars (classes that already carry nesting attributes; further reference positions): jar side
	let variants: Vec<Fixture> = (0..jar::VARIANTS).map(|v| Fixture::build(Some(v))).collect();
	for vf in &variants {
		let v = vf.variant.unwrap_or(0);
		run(&format!("variant-jar-{v}: tables-of-1 ({} kinds)", KINDS_FULL.len()), sweep_tables_on(ctx, vf, &plain, &s1, Orders::Canonical, "v1", false));
		if smoke {
			continue;
		}
		if quick {
			run(&format!("variant-jar-{v}: tables-of-2 (6 kinds)"), sweep_tables_on(ctx, vf, &plain, &s2c, Orders::Canonical, "v2", false));
		} else {
			run(&format!("variant-jar-{v}: tables-of-2 (12 kinds, both orders)"), sweep_tables_on(ctx, vf, &plain, &s2m, Orders::Both, "v2", false));
		}
	}

	// S1d: chains in every line order; one inner name for several classes; every access flag; the text form's spellings
	if !smoke || dev_chains {
		for n in 2..=ctx.tier.pick(4, 5) {
			let tables = chain_tables(base(), n);
			run(&format!("chains of {n} entries, every line order"), sweep_list(ctx, &fx, &plain, &tables, true, &format!("chain{n}")));
		}
		let sh2 = TableSpace::new(2, KINDS_SHARED);
		run("tables-of-2 with shared inner names (4 kinds, both orders)", sweep_tables(ctx, &fx, &plain, &sh2, Orders::Both, "sh2"));
		if !quick {
			let sh3 = TableSpace::new(3, KINDS_SHARED);
			run("tables-of-3 with shared inner names (4 kinds)", sweep_tables(ctx, &fx, &plain, &sh3, Orders::Canonical, "sh3"));
		}
	}
	{
		// every bit of the InnerClasses flag mask alone, all together, none
		let mut tables = Vec::new();
		for f in (0..16).map(|b| 1u16 << b).filter(|f| f & 0x761f != 0).chain([0x761f, 0]) {
			for kind in &KINDS_MINI[..3] {
				let mut e = entry(base(), 1, 0, *kind);
				e.flags = f;
				tables.push(vec![e]);
			}
		}
		let st = sweep_list(ctx, &fx, &plain, &tables, false, "flags");
		ctx.floor("access flags: tables whose nest was recorded with exactly the flags of the table", tables.len() as u64, st.get("nest_jar:ok-renamed"));
		run("access flags: every bit of the mask (3 kinds)", st);
		let mut texts: Vec<Vec<Entry>> = tables;
		texts.extend((0..s1.count()).map(|i| s1.nth(i)));
		if !smoke {
			texts.extend((0..s2c.count()).map(|i| s2c.nth(i)).filter(|t| !has_cycle(t)));
			texts.extend(chain_tables(base(), 3));
		}
		for (ufx, _) in further_universes() {
			let us1 = TableSpace::of(ufx.uni, 1, KINDS_FULL);
			texts.extend((0..us1.count()).map(|i| us1.nth(i)));
		}
		run("text forms (4 radix assignments x LF/CRLF x last line terminated or not)", sweep_text_forms(ctx, &texts));
	}

	// S1c: the further name universes (multi-byte characters, odd-but-legal names, equal simple names, default package,
	// a class that already has its nested name): jar + mappings + agreement, variant jars, styled mappings
	let further = further_universes();
	for (ufx, uplain) in further {
		let u = ufx.uni;
		let us1 = TableSpace::of(u, 1, KINDS_FULL);
		run(&format!("universe {}: tables-of-1 ({} kinds)", u.id, KINDS_FULL.len()), sweep_tables(ctx, ufx, uplain, &us1, Orders::Canonical, &format!("u1:{}", u.id)));
		for v in 0..jar::VARIANTS {
			let vf = Fixture::build_in(u, Some(v), [1, 3, 0, 2]);
			run(&format!("universe {}: variant-jar-{v}: tables-of-1 ({} kinds)", u.id, KINDS_FULL.len()), sweep_tables_on(ctx, &vf, uplain, &us1, Orders::Canonical, "uv1", false));
		}
		if !smoke {
			let us2 = TableSpace::of(u, 2, KINDS_NAMES);
			let st = sweep_tables(ctx, ufx, uplain, &us2, if quick { Orders::Canonical } else { Orders::Both }, &format!("u2:{}", u.id));
			ctx.floor(&format!("universe {}: two-entry tables where jar and mappings agree", u.id), 100, st.get("agree:tables"));
			ctx.floor(&format!("universe {}: two-entry tables with a chain of depth >= 3", u.id), 1, st.get("nest_jar:chain-depth>=3"));
			for ty in ["inner", "local", "anonymous"] {
				ctx.floor(&format!("universe {}: applied {ty} nests", u.id), 100, st.get(&format!("nest_jar:applied:{ty}")));
			}
			run(&format!("universe {}: tables-of-2 ({} kinds{})", u.id, KINDS_NAMES.len(), if quick { "" } else { ", both orders" }), st);
		}
	}

	// S2: remap_nests and apply/undo over styled target names
	static ENCL_STYLES: [Style; 5] = [Style::Plain, Style::Calamus, Style::PreNestedOther, Style::Identity, Style::NoPkg];
	static ENCL_PLAIN: [Style; 1] = [Style::Plain];
	static ALL_ROWS: [MethodRow; 3] = [MethodRow::Renamed, MethodRow::NoRow, MethodRow::SameName];
	static ONE_ROW: [MethodRow; 1] = [MethodRow::Renamed];
	run(&format!("styled-tables-of-1 ({} kinds, 7 styles)", KINDS_FULL.len()), sweep_styled(ctx, &s1, &STYLES, &ENCL_STYLES, &ALL_ROWS));
	if !smoke {
		run(if quick { "styled-tables-of-2 (6 kinds, 4 styles)" } else { "styled-tables-of-2 (22 kinds, 4 styles)" }, sweep_styled(ctx, if quick { &s2c } else { &s2o }, &STYLES[..STYLES_OLD], &ENCL_PLAIN, &ONE_ROW));
	}
	for (ufx, _) in further {
		let u = ufx.uni;
		let st = sweep_styled(ctx, &TableSpace::of(u, 1, KINDS_FULL), &STYLES, &ENCL_STYLES, &ALL_ROWS);
		for shape in ["number", "number-calamus", "custom", "derived", "derived-local", "pre-nested", "derived-from-already-nested-name"] {
			ctx.floor(&format!("universe {}: remap_nests: inner names of shape {shape}", u.id), 1, st.get(&format!("remap_nests:inner-name-shape:{shape}")));
		}
		ctx.floor(&format!("universe {}: remap_nests: nests with a renamed enclosing method", u.id), 1, st.get("remap_nests:enclosing-method-renamed"));
		ctx.floor(&format!("universe {}: undo(apply(M)) restored after a renaming", u.id), 1000, st.get("undo:restored-after-renaming"));
		run(&format!("universe {}: styled-tables-of-1 ({} kinds, 7 styles)", u.id, KINDS_FULL.len()), st);
	}

	// S3: information only
	let (info, panic_sites) = sweep_missing_targets(&fx, &s1);
	run("rows-without-target-name (information only)", info);
	run("zip-archive-path and remap=false", sweep_zip_and_noremap(ctx, &fx, &[&s0, &s1]));
	{
		let (mfx, _) = &further[0];
		let st = sweep_zip_and_noremap(ctx, mfx, &[&TableSpace::of(mfx.uni, 1, &KINDS_FULL[..CORE])]);
		ctx.floor(&format!("universe {}: zip: tables with the same result through a real archive", mfx.uni.id), 100, st.get("zip:same-result-as-in-memory"));
		run(&format!("universe {}: zip-archive-path and remap=false (6 kinds)", mfx.uni.id), st);
	}
	let mut cyc = Stats::new();
	let cycle_notes = cycle_probe(&mut cyc);
	run("cyclic-table probe (information only)", cyc);
	quiet.off();

	let s = &total;
	for ty in ["inner", "local", "anonymous"] {
		ctx.floor(&format!("nest_jar: applied {ty} nests"), 1, s.get(&format!("nest_jar:applied:{ty}")));
	}
	for why in ["anonymous-without-positive-number", "inner-with-enclosing-method", "local-without-enclosing-method"] {
		ctx.floor(&format!("nest_jar: nests rejected as {why}"), 1, s.get(&format!("nest_jar:rejected:{why}")));
	}
	ctx.floor("nest_jar: nests skipped because their class is not in the jar", 1, s.get("nest_jar:skipped:class-not-in-jar"));
	ctx.floor("nest_jar: tables with a chain of depth >= 3", 1, s.get("nest_jar:chain-depth>=3"));
	ctx.floor("nest_jar: tables with a chain of depth >= 4", 1, s.get("nest_jar:chain-depth>=4"));
	ctx.floor("nest_jar: tables with a created enclosing class", 1, s.get("nest_jar:created-enclosing-class"));
	if !smoke {
		ctx.floor("nest_jar: tables with a chain of depth >= 5", 1, s.get("nest_jar:chain-depth>=5"));
		// (depth >= 6 needs a missing class that is created and nested too: counted in `outcomes`, no floor)
		ctx.floor("nest_jar: applied nests whose inner name another applied nest of the table has too", 100, s.get("nest_jar:applied:inner-name-shared-with-another-applied-nest"));
	}
	ctx.floor("nest_jar: applied nests of a class that already has the nested name (universe odd-a)", 1, s.get("nest_jar:applied-to-a-class-that-already-has-the-nested-name"));
	ctx.floor("nest_jar: applied nests whose enclosing class has the simple name of the nested class (universe odd-b)", 1, s.get("nest_jar:applied:enclosing-class-with-the-simple-name-of-the-nested-class"));
	ctx.floor("nest_jar: rejected local nests whose method only the namesake of the enclosing class declares (universe odd-b)", 1, s.get("nest_jar:rejected:local-whose-method-only-the-namesake-of-the-enclosing-class-declares"));
	for style in STYLES {
		ctx.floor(&format!("remap_nests: clean results with a nested class of target style {style:?}"), 100, s.get(&format!("remap_nests:clean:target-style-of-the-nested-class:{style:?}")));
	}
	for form in ["lf:terminated", "lf:last-line-unterminated"] {
		ctx.floor(&format!("Nests::read: text forms {form} read to the table written"), 1000, s.get(&format!("text:{form}:same-table")));
	}
	ctx.floor("tables read through the text form", 1000, s.get("table:read-from-text"));
	ctx.floor("apply: mapping sets with renamed classes judged clean", 1000, s.get("apply:ok-renamed"));
	ctx.floor("apply: chains of depth >= 3", 1, s.get("apply:chain-depth>=3"));
	ctx.floor("undo(apply(M)) restored after a renaming", 1000, s.get("undo:restored-after-renaming"));
	ctx.floor("agreement: tables where jar and mappings agree", 100, s.get("agree:tables"));
	ctx.floor("agreement: tables where jar and mappings agree on >= 3 renamed classes", 1, s.get("agree:tables-with>=3-renamed-classes"));
	ctx.floor("remap_nests: nests with a renamed enclosing method", 1, s.get("remap_nests:enclosing-method-renamed"));
	for shape in ["number", "number-calamus", "custom", "derived", "derived-local", "pre-nested"] {
		ctx.floor(&format!("remap_nests: inner names of shape {shape}"), 1, s.get(&format!("remap_nests:inner-name-shape:{shape}")));
	}
	ctx.floor("zip: tables with the same result through a real archive", 100, s.get("zip:same-result-as-in-memory"));
	for shape in ["derived-from-already-nested-name", "derived-local-from-already-nested-name"] {
		ctx.floor(&format!("remap_nests: inner names of shape {shape}"), 1, s.get(&format!("remap_nests:inner-name-shape:{shape}")));
	}
	for note in [
		"leftover:enclosing-method-of-another-class-replaced", "leftover:enclosing-method-of-another-method-replaced", "leftover:enclosing-method-equal-to-the-nest's",
		"leftover:enclosing-method-passed-through", "leftover:enclosing-method-passed-through-with-rewritten-reference",
		"leftover:inner-classes-entry-for-the-class-itself-next-to-the-nest's", "leftover:inner-classes-entry-equal-to-the-nest's-next-to-it",
	] {
		ctx.floor(&format!("variant jars: {note}"), 1, s.get(note));
	}
	for (what, n) in [
		("nest_jar:method-declared-by-the-nested-class-only:local:rejected", 1), ("nest_jar:method-declared-by-the-nested-class-only:inner:applied", 1), ("nest_jar:method-declared-by-the-nested-class-only:anonymous:applied", 1),
		("nest_jar:method-declared-nowhere-with-the-descriptor-of-a-declared-one:local:rejected", 1), ("nest_jar:method-declared-nowhere-with-the-descriptor-of-a-declared-one:inner:applied", 1),
		("nest_jar:anonymous-number-of-several-digits:two-digits:applied", 1), ("nest_jar:anonymous-number-of-several-digits:i32-max:applied", 1), ("nest_jar:anonymous-number-of-several-digits:zeros:rejected", 1),
	] {
		ctx.floor(what, n, s.get(what));
	}
	for site in &panic_sites {
		ctx.note(format!("outside the stated space (row without target name), information only: panic in {site}"));
	}
	for n in cycle_notes {
		ctx.note(n);
	}
	ctx.note("tables whose enclosing-class relation has a cycle are not chains and are not explored in-process".to_string());

	let exhaustive_note = if quick { "tables of <= 1 entry: complete over all kinds in every universe; 2 entries: complete over 12 kinds, both orders (further universes: 6 kinds); 3 entries: complete over 4 kinds; chains of <= 4 entries in every line order" } else { "tables of <= 2 entries: complete over all kinds, both orders (further universes: 6 kinds); 3 entries: complete over 8 kinds (reverse order: 4 kinds); 4 entries: complete over the 3 applying kinds (stated cap); chains of <= 5 entries in every line order" };
	let coverage = json!({
		"evaluations": s.evaluations,
		"distinct_nontrivial": s.distinct.len(),
		"rule": "every table of the stated space is given to the real nest_jar (fixed jar of 4 classes + 2 absent ones), apply_nests_to_mappings / undo_nests_to_mappings, remap_nests and, where expressible, Nests::read; evaluations = calls of these functions; distinct_nontrivial = distinct (table, result) pairs in which the real code renamed at least one class or translated at least one nest and the result matched the reference",
		"exhaustive": true,
		"exhaustive_within": exhaustive_note,
		"samples": s.samples,
		"outcomes": s.outcomes,
		"spaces": spaces,
		"bounds": {
			"classes_in_jar": &base().cls[..N_PRESENT],
			"classes_not_in_jar": &base().cls[N_PRESENT..],
			"universes": universes().iter().map(|u| json!({"id": u.id, "classes": u.cls})).collect::<Vec<_>>(),
			"entry": "nested class (6) x enclosing class (the 5 others) x kind",
			"kinds": KINDS_FULL.iter().map(|k| format!("{:?}/{:?}/{:?}", k.ty, k.meth, k.name)).collect::<Vec<_>>(),
			"core_kinds": CORE,
			"medium_kinds": MEDIUM,
			"four_entry_kinds": s4.menu.len(),
			"max_entries": ctx.tier.pick(3, 4),
			"orders": "canonical (by class) and reversed, see `spaces`",
			"two_entry_kinds": if quick { MEDIUM } else { KINDS_FULL.len() },
			"three_entry_kinds": s3.menu.len(),
			"styled_two_entry_kinds": if quick { CORE } else { KINDS_FULL.len() },
			"cycles": "excluded",
			"target_name_styles": STYLES.iter().map(|s| format!("{s:?}")).collect::<Vec<_>>(),
			"reference_positions": "super class, interfaces, field/method descriptors, new/checkcast/instanceof/anewarray/multianewarray, get/putfield/static, the four invokes (incl. array owner), ldc Class/MethodType/MethodHandle, catch type, throws, LocalVariableTable, class/field/method annotations (type, enum type, class value, nested, array), AnnotationDefault, InnerClasses, NestHost/NestMembers, PermittedSubclasses, jar entry name",
		},
	});
	ctx.finish(coverage, &[
		"`enclosing method present` is read as: the table names a method and the enclosing class in the jar declares it (name and descriptor)",
		"the statement does not say whether a missing enclosing class is created for an entry that does not apply, nor whether an entry whose own class is only created applies: every combination is accepted",
		"the simple name in an InnerClasses entry is demanded only where kind and inner name agree (inner: no digit prefix; local: digits + name; anonymous: digits only)",
		"tables in which two classes would get the same name are outside the space (no panic demanded, nothing else)",
		"target names after apply/undo are not specified by the statement and are only counted",
		"Signature attributes, records, modules, invokedynamic and unknown attributes are not in the fixture classes: what dukebox::remap does with them is C07's subject",
		"rows without target name are outside the stated space (information only)",
	]);
}

fn replay(ctx: &'static Ctx, path: &std::path::Path, quiet: &Quiet) -> ! {
	let body = vcore::replay_body(path);
	let t = parse_table_text(&body);
	let line = |key: &str| body.lines().find_map(|l| l.strip_prefix(key));
	let mode = line("mode=").unwrap_or("table").to_owned();
	let uni = universe(line("universe=").unwrap_or("base"));
	let variant: Option<usize> = line("variant=").and_then(|v| v.parse().ok());
	let order: Vec<usize> = line("order=").map(|o| o.split(',').filter_map(|x| x.parse().ok()).collect()).unwrap_or_default();
	let order: [usize; 4] = order.try_into().unwrap_or([2, 0, 3, 1]);
	let fx = &Fixture::build_in(uni, variant, order);
	let plain = &plain_mappings(uni);
	let mut outcomes = Vec::new();
	for _ in 0..2 {
		let mut st = Stats::new();
		match mode.as_str() {
			"styled" => {
				let styles: Vec<Style> = body.lines().find_map(|l| l.strip_prefix("styles=")).unwrap_or("").split(',').map(|s| match s {
					"Calamus" => Style::Calamus,
					"PreNested" => Style::PreNested,
					"PreNestedOther" => Style::PreNestedOther,
					"Identity" => Style::Identity,
					"NoPkg" => Style::NoPkg,
					"CalamusNoPkg" => Style::CalamusNoPkg,
					_ => Style::Plain,
				}).collect();
				let styles: [Style; 6] = std::array::from_fn(|i| styles.get(i).copied().unwrap_or(Style::Plain));
				let mr = match body.lines().find_map(|l| l.strip_prefix("methodrow=")) {
					Some("NoRow") => MethodRow::NoRow,
					Some("SameName") => MethodRow::SameName,
					_ => MethodRow::Renamed,
				};
				check_styled(ctx, &mut st, uni, &t, &styles, mr, true);
			},
			"text" => {
				let text = line("text=").and_then(vcore::unhex).unwrap_or_default();
				let r = vcore::guard(|| Nests::<Src>::read(&text).map(|n| from_real(&n)).map_err(|e| format!("{e:#}")));
				println!("Nests::read of {:?}: {:?}", String::from_utf8_lossy(&text), r.map_err(|p| format!("panic at {}: {}", p.site, p.msg)));
			},
			"zip" | "noremap" => {
				let space = TableSpace::new(0, KINDS_FULL);
				let _ = space;
				let r = run_nest_jar(fx, to_real(&t), mode == "zip");
				println!("in-memory result: {:?}", r.map(|r| r.map(|o| o.classes.iter().map(|c| c.entry.clone()).collect::<Vec<_>>())));
			},
			_ => check_table(ctx, &mut st, fx, plain, &t, true),
		}
		outcomes.push(st.outcomes);
	}
	quiet.off();
	if outcomes[0] != outcomes[1] {
		vcore::machinery_fail("replay is not deterministic");
	}
	println!("outcomes: {:?}", outcomes[0]);
	ctx.finish(json!({"evaluations": 2, "distinct_nontrivial": 2, "rule": "replay of one table, twice", "samples": [table_text(&t)]}), &[]);
}

fn profile(fx: &Fixture, plain: &(MSet, Maps)) -> ! {
	let plain = &plain.0;
	use std::time::Instant;
	let space = TableSpace::new(2, KINDS_FULL);
	let tables: Vec<Vec<Entry>> = (0..space.count()).step_by(97).map(|i| space.nth(i)).filter(|t| !has_cycle(t)).take(2000).collect();
	let q = Quiet::on();
	let t0 = Instant::now();
	for t in &tables {
		let _ = dukenest::nest_jar(true, &fx.jar, to_real::<Src>(t));
	}
	let a = t0.elapsed();
	let t0 = Instant::now();
	let mut outs = Vec::new();
	for t in &tables {
		if let Ok(j) = dukenest::nest_jar(true, &fx.jar, to_real::<Src>(t)) {
			outs.push(jar::read_out(fx.uni, &j));
		} else {
			outs.push(Out::default());
		}
	}
	let b = t0.elapsed();
	let t0 = Instant::now();
	let mut n = 0;
	for (t, o) in tables.iter().zip(&outs) {
		for alt in jar::alternatives(fx, t) {
			n += jar::compare(fx, t, &alt, o).diffs.len();
		}
	}
	let c = t0.elapsed();
	let t0 = Instant::now();
	for _ in &tables {
		let _ = to_quill(plain);
	}
	let d = t0.elapsed();
	let t0 = Instant::now();
	let qq = to_quill(plain);
	for t in &tables {
		let nests: Nests<Src> = to_real(t);
		if let Ok(m) = dukenest::apply_nests_to_mappings(qq.clone(), &nests) {
			let _ = dukenest::undo_nests_to_mappings(m, &nests);
		}
	}
	let e = t0.elapsed();
	let t0 = Instant::now();
	for _ in &tables {
		let _ = mapmodel::from_quill(&qq);
	}
	let f = t0.elapsed();
	q.off();
	let k = tables.len() as f64;
	eprintln!("per table (us): nest_jar {:.0}; nest_jar+read_out {:.0}; compare(all alts) {:.0} [{n} diffs]; to_quill {:.0}; clone+apply+undo {:.0}; from_quill {:.0}", a.as_micros() as f64 / k, b.as_micros() as f64 / k, c.as_micros() as f64 / k, d.as_micros() as f64 / k, e.as_micros() as f64 / k, f.as_micros() as f64 / k);
	std::process::exit(0);
}
