//! The jar side of C14: the fixture classes (cfmodel models that reference each other at many
//! positions), the reference renaming of a class description, the reference for `nest_jar` written
//! from the statement, and the comparison of the real result with it.

use std::cell::RefCell;
use std::collections::{BTreeMap, BTreeSet, HashMap};
use std::sync::Arc;
use cfmodel::asm::{assemble, Encoding};
use cfmodel::gen::{js, method_with, mref, skeleton};
use cfmodel::model::*;
use dukebox::storage::{BasicFileAttributes, ClassRepr, IsClass, JarEntryEnum, ParsedJar, ParsedJarEntry};
use super::space::*;

pub type Map = BTreeMap<String, String>;

// ---------------------------------------------------------------------------------------------
// reference renaming of every class reference of a class description

pub fn map_desc(d: &str, m: &Map) -> String {
	let b: Vec<char> = d.chars().collect();
	let mut out = String::with_capacity(d.len() + 8);
	let mut i = 0;
	while i < b.len() {
		if b[i] == 'L' {
			if let Some(len) = b[i + 1..].iter().position(|c| *c == ';') {
				let name: String = b[i + 1..i + 1 + len].iter().collect();
				out.push('L');
				out.push_str(m.get(&name).map(|s| s.as_str()).unwrap_or(&name));
				out.push(';');
				i += len + 2;
				continue;
			}
		}
		out.push(b[i]);
		i += 1;
	}
	out
}

/// an internal class name, or an array descriptor where an array class is named
pub fn map_name(n: &str, m: &Map) -> String {
	if n.starts_with('[') {
		map_desc(n, m)
	} else {
		m.get(n).cloned().unwrap_or_else(|| n.to_owned())
	}
}

fn jn(s: &JS, m: &Map) -> JS {
	JS::new(&map_name(&s.to_string_lossy(), m))
}
fn jd(s: &JS, m: &Map) -> JS {
	JS::new(&map_desc(&s.to_string_lossy(), m))
}

fn r_member(x: &SMemberRef, m: &Map) -> SMemberRef {
	SMemberRef { owner: jn(&x.owner, m), name: x.name.clone(), desc: jd(&x.desc, m) }
}

fn r_handle(h: &SHandle, m: &Map) -> SHandle {
	SHandle { kind: h.kind, member: r_member(&h.member, m), interface: h.interface }
}

fn r_const(c: &SConst, m: &Map) -> SConst {
	match c {
		SConst::Class(n) => SConst::Class(jn(n, m)),
		SConst::Handle(h) => SConst::Handle(r_handle(h, m)),
		SConst::MethodType(d) => SConst::MethodType(jd(d, m)),
		SConst::Dynamic(d) => SConst::Dynamic(Box::new(r_dynamic(d, m))),
		other => other.clone(),
	}
}

fn r_dynamic(d: &SDynamic, m: &Map) -> SDynamic {
	SDynamic { bootstrap: SBootstrap { handle: r_handle(&d.bootstrap.handle, m), args: d.bootstrap.args.iter().map(|a| r_const(a, m)).collect() }, name: d.name.clone(), desc: jd(&d.desc, m) }
}

fn r_value(v: &SElementValue, m: &Map) -> SElementValue {
	match v {
		SElementValue::Enum { type_name, const_name } => SElementValue::Enum { type_name: jd(type_name, m), const_name: const_name.clone() },
		SElementValue::Class(d) => SElementValue::Class(jd(d, m)),
		SElementValue::Annotation(a) => SElementValue::Annotation(r_annotation(a, m)),
		SElementValue::Array(vs) => SElementValue::Array(vs.iter().map(|v| r_value(v, m)).collect()),
		other => other.clone(),
	}
}

fn r_annotation(a: &SAnnotation, m: &Map) -> SAnnotation {
	SAnnotation { type_name: jd(&a.type_name, m), pairs: a.pairs.iter().map(|(n, v)| (n.clone(), r_value(v, m))).collect() }
}

fn r_type_annotation(a: &STypeAnnotation, m: &Map) -> STypeAnnotation {
	STypeAnnotation { target: a.target.clone(), path: a.path.clone(), annotation: r_annotation(&a.annotation, m) }
}

fn r_annotations(a: &SAnnotations, m: &Map) -> SAnnotations {
	SAnnotations {
		visible: a.visible.iter().map(|x| r_annotation(x, m)).collect(),
		invisible: a.invisible.iter().map(|x| r_annotation(x, m)).collect(),
		visible_type: a.visible_type.iter().map(|x| r_type_annotation(x, m)).collect(),
		invisible_type: a.invisible_type.iter().map(|x| r_type_annotation(x, m)).collect(),
	}
}

fn r_insn(i: &SInsn, m: &Map) -> SInsn {
	match i {
		SInsn::Ldc(c) => SInsn::Ldc(r_const(c, m)),
		SInsn::Field(o, r) => SInsn::Field(*o, r_member(r, m)),
		SInsn::Invoke(o, r, itf) => SInsn::Invoke(*o, r_member(r, m), *itf),
		SInsn::InvokeDynamic(d) => SInsn::InvokeDynamic(r_dynamic(d, m)),
		SInsn::New(n) => SInsn::New(jn(n, m)),
		SInsn::ANewArray(n) => SInsn::ANewArray(jn(n, m)),
		SInsn::CheckCast(n) => SInsn::CheckCast(jn(n, m)),
		SInsn::InstanceOf(n) => SInsn::InstanceOf(jn(n, m)),
		SInsn::MultiANewArray(n, d) => SInsn::MultiANewArray(jn(n, m), *d),
		other => other.clone(),
	}
}

fn r_vtype(v: &SVType, m: &Map) -> SVType {
	match v {
		SVType::Object(n) => SVType::Object(jn(n, m)),
		other => other.clone(),
	}
}

fn r_code(c: &SCode, m: &Map) -> SCode {
	SCode {
		max_stack: c.max_stack,
		max_locals: c.max_locals,
		insns: c.insns.iter().map(|i| r_insn(i, m)).collect(),
		exceptions: c.exceptions.iter().map(|e| SExceptionEntry { start: e.start, end: e.end, handler: e.handler, catch: e.catch.as_ref().map(|n| jn(n, m)) }).collect(),
		line_numbers: c.line_numbers.clone(),
		local_vars: c.local_vars.iter().map(|v| SLocalVar { ty: jd(&v.ty, m), ..v.clone() }).collect(),
		local_var_types: c.local_var_types.clone(),
		frames: c.frames.iter().map(|(at, f)| (*at, match f {
			SFrame::SameLocals1(v) => SFrame::SameLocals1(r_vtype(v, m)),
			SFrame::Append(vs) => SFrame::Append(vs.iter().map(|v| r_vtype(v, m)).collect()),
			SFrame::Full { locals, stack } => SFrame::Full { locals: locals.iter().map(|v| r_vtype(v, m)).collect(), stack: stack.iter().map(|v| r_vtype(v, m)).collect() },
			other => other.clone(),
		})).collect(),
		visible_type: c.visible_type.iter().map(|x| r_type_annotation(x, m)).collect(),
		invisible_type: c.invisible_type.iter().map(|x| r_type_annotation(x, m)).collect(),
		unknown: c.unknown.clone(),
		empty_local_table: c.empty_local_table,
		empty_line_table: c.empty_line_table,
	}
}

/// The class description with every reference to a renamed class rewritten (Signature attributes,
/// which this check does not put into its classes, are left alone).
pub fn rename_class(c: &SClass, m: &Map) -> SClass {
	let mut out = c.clone();
	out.this_class = jn(&c.this_class, m);
	out.super_class = c.super_class.as_ref().map(|n| jn(n, m));
	out.interfaces = c.interfaces.iter().map(|n| jn(n, m)).collect();
	for f in &mut out.fields {
		f.desc = jd(&f.desc, m);
		f.annotations = r_annotations(&f.annotations, m);
	}
	for me in &mut out.methods {
		me.desc = jd(&me.desc, m);
		me.code = me.code.as_ref().map(|c| r_code(c, m));
		me.exceptions = me.exceptions.as_ref().map(|v| v.iter().map(|n| jn(n, m)).collect());
		me.annotations = r_annotations(&me.annotations, m);
		me.annotation_default = me.annotation_default.as_ref().map(|v| r_value(v, m));
	}
	out.inner_classes = c.inner_classes.as_ref().map(|v| v.iter().map(|ic| SInnerClass { inner: jn(&ic.inner, m), outer: ic.outer.as_ref().map(|n| jn(n, m)), name: ic.name.clone(), flags: ic.flags }).collect());
	out.enclosing_method = c.enclosing_method.as_ref().map(|(cl, me)| (jn(cl, m), me.as_ref().map(|(n, d)| (n.clone(), jd(d, m)))));
	out.annotations = r_annotations(&c.annotations, m);
	out.nest_host = c.nest_host.as_ref().map(|n| jn(n, m));
	out.nest_members = c.nest_members.as_ref().map(|v| v.iter().map(|n| jn(n, m)).collect());
	out.permitted_subclasses = c.permitted_subclasses.as_ref().map(|v| v.iter().map(|n| jn(n, m)).collect());
	out
}

// ---------------------------------------------------------------------------------------------
// the fixture jar

fn ann(ty: &str, pairs: Vec<(&str, SElementValue)>) -> SAnnotation {
	SAnnotation { type_name: js(ty), pairs: pairs.into_iter().map(|(n, v)| (js(n), v)).collect() }
}

fn desc_of(u: &Uni, i: usize) -> String {
	format!("L{};", u.cls[i])
}

/// Class `i` of the jar. It refers to every class of the universe as super class / interface, in
/// field and method descriptors, in `new`, `invokespecial` and `getfield` operands, and to two
/// further classes (rotating) at the remaining instruction, constant and annotation positions.
pub fn fixture_class(u: &Uni, i: usize, variant: Option<usize>) -> SClass {
	let n = 6;
	let cls = &u.cls;
	let desc_of = |i: usize| desc_of(u, i);
	let mut c = skeleton(cls[i]);
	c.version = [(55, 0), (61, 0), (52, 0), (61, 0)][i];
	c.super_class = Some(js(if i == 0 { "java/lang/Object" } else { cls[i - 1] }));
	c.interfaces = vec![js(cls[(i + 2) % n]), js(cls[5 - i % 2])];
	c.source_file = Some(js(&format!("{}.java", u.simple(i))));
	// the marker by which the check recognises the class after renaming
	c.fields.push(SField { access: 0x0019, name: js(&format!("id_{}", LETTER[i])), desc: js("I"), constant_value: Some(SConst::Int(i as i32)), ..Default::default() });
	for y in 0..n {
		c.fields.push(SField { access: 0x0002, name: js(&format!("f{}", LETTER[y])), desc: js(&desc_of(y)), ..Default::default() });
	}
	c.fields.push(SField { access: 0x0008, name: js("arr"), desc: js(&format!("[[{}", desc_of((i + 1) % n))), ..Default::default() });
	let a = (i + 1) % n;
	let b = (i + 4) % n;
	c.fields[1].annotations.visible = vec![ann(&desc_of(b), vec![
		("e", SElementValue::Enum { type_name: js(&desc_of(a)), const_name: js("K") }),
		("c", SElementValue::Class(js(&desc_of(b)))),
		("n", SElementValue::Annotation(ann(&desc_of(a), vec![("x", SElementValue::Const(b'I', SConst::Int(1)))]))),
		("l", SElementValue::Array(vec![SElementValue::Class(js(&format!("[{}", desc_of(a)))), SElementValue::Class(js("V"))])),
	])];
	c.annotations.visible = vec![ann(&desc_of((i + 3) % n), vec![("c", SElementValue::Class(js(&desc_of((i + 2) % n))))])];
	c.annotations.invisible = vec![ann(&desc_of(a), vec![])];

	c.methods.push(method_with("<init>", "()V", vec![
		SInsn::Load(LvKind::A, 0),
		SInsn::Invoke(op::INVOKESPECIAL, mref(&c.super_class.as_ref().map(|s| s.to_string_lossy()).unwrap_or_default(), "<init>", "()V"), false),
		SInsn::Simple(op::RETURN),
	]));
	let mut insns = Vec::new();
	// new / invokespecial / getfield on three classes per host (every class of the universe on two hosts)
	for y in [i, (i + 2) % n, (i + 3) % n] {
		let z = (y + 1) % n;
		insns.push(SInsn::New(js(cls[y])));
		insns.push(SInsn::Invoke(op::INVOKESPECIAL, mref(cls[y], "<init>", "()V"), false));
		insns.push(SInsn::Field(op::GETFIELD, mref(cls[y], &format!("f{}", LETTER[z]), &desc_of(z))));
	}
	// every other operand position, for one or two classes per host (all six classes over the four hosts)
	let full: &[usize] = [&[1usize, 4][..], &[2, 5], &[3], &[0]][i];
	for &y in full {
		let z = (y + 2) % n;
		insns.push(SInsn::Invoke(op::INVOKEVIRTUAL, mref(cls[y], &u.m_present.0, &u.m_present.1), false));
		insns.push(SInsn::Invoke(op::INVOKESTATIC, mref(cls[y], "s", &format!("({}[{})V", desc_of(z), desc_of(y))), false));
		insns.push(SInsn::Invoke(op::INVOKEINTERFACE, mref(cls[z], "i", &format!("(){}", desc_of(y))), true));
		insns.push(SInsn::Invoke(op::INVOKEVIRTUAL, mref(&format!("[{}", desc_of(y)), "clone", "()Ljava/lang/Object;"), false));
		insns.push(SInsn::Field(op::PUTSTATIC, mref(cls[y], "arr", &format!("[[{}", desc_of(z)))));
		insns.push(SInsn::CheckCast(js(cls[y])));
		insns.push(SInsn::InstanceOf(js(&format!("[{}", desc_of(y)))));
		insns.push(SInsn::ANewArray(js(cls[y])));
		insns.push(SInsn::MultiANewArray(js(&format!("[[{}", desc_of(y))), 2));
		insns.push(SInsn::Ldc(SConst::Class(js(cls[y]))));
		insns.push(SInsn::Ldc(SConst::MethodType(js(&format!("({}){}", desc_of(y), desc_of(z))))));
		insns.push(SInsn::Ldc(SConst::Handle(SHandle { kind: 6, member: mref(cls[y], "s", &format!("({})V", desc_of(z))), interface: false })));
	}
	insns.push(SInsn::Simple(0x01)); // aconst_null
	insns.push(SInsn::Simple(0xb0)); // areturn
	let len = insns.len() as Idx;
	let mut m = method_with(&u.m_present.0, &u.m_present.1, insns);
	m.access = 0x0001;
	if let Some(code) = &mut m.code {
		code.exceptions = vec![SExceptionEntry { start: 0, end: 3, handler: len - 2, catch: Some(js(cls[a])) }, SExceptionEntry { start: 3, end: 6, handler: len - 2, catch: None }];
		code.line_numbers = vec![(0, 10), (3, 11)];
		code.local_vars = vec![
			SLocalVar { start: 0, end: len, name: js("this"), ty: js(&desc_of(i)), index: 0 },
			SLocalVar { start: 0, end: len, name: js("x"), ty: js(&format!("[{}", desc_of(b))), index: 3 },
		];
		code.local_vars.sort();
	}
	m.exceptions = Some(vec![js(cls[b]), js("java/lang/Exception")]);
	m.annotations.invisible = vec![ann(&desc_of(b), vec![("e", SElementValue::Enum { type_name: js(&desc_of(b)), const_name: js("V") })])];
	m.parameters = Some(vec![(Some(js("p0")), 0x0010), (None, 0)]);
	c.methods.push(m);
	c.methods.push(method_with("n", "()V", vec![SInsn::Simple(op::RETURN)]));
	// a method no other class declares
	let only = only_method(i);
	c.methods.push(method_with(&only.0, &only.1, vec![SInsn::Simple(op::RETURN)]));
	c.methods.push(SMethod { access: 0x0401, name: js("dflt"), desc: js(&format!("(){}", desc_of(a))), annotation_default: Some(SElementValue::Class(js(&desc_of(b)))), ..Default::default() });

	match i {
		0 => {
			// a class that already has an InnerClasses attribute and a nest
			c.inner_classes = Some(vec![
				SInnerClass { inner: js("p/A$Pre"), outer: Some(js("p/A")), name: Some(js("Pre")), flags: 0x0008 },
				SInnerClass { inner: js(cls[3]), outer: None, name: None, flags: 0 },
			]);
			c.nest_members = Some(vec![js(cls[1]), js(cls[4])]);
		},
		1 => c.nest_host = Some(js(cls[0])),
		2 => {},
		_ => c.permitted_subclasses = Some(vec![js(cls[2]), js(cls[5])]),
	}
	if let Some(v) = variant {
		leftovers(u, &mut c, i, v);
		more_positions(u, &mut c, i, v);
	}
	cfmodel::gen::normalize(&mut c);
	c
}

/// number of variant jars (see `leftovers`)
pub const VARIANTS: usize = 4;

/// Variant jars: the classes of the input already carry nesting attributes (left over by an obfuscator or by an
/// earlier, different nesting). Class `i` of variant `v` gets the leftovers of kind `(i + v) % 4`, so over the four
/// variants every class has had every kind:
///  0: EnclosingMethod naming the next jar class and the method it declares;
///  1: EnclosingMethod naming the jar class after that, no method; an InnerClasses entry for the class itself with
///     another outer class, another simple name and other flags than any table gives it;
///  2: EnclosingMethod naming a class that is not in the jar and a method `n()V`; an InnerClasses entry for the class
///     itself without outer class and simple name;
///  3: no EnclosingMethod; an InnerClasses entry for the class itself that says exactly what the table entry
///     "member class of the next jar class, derived inner name" says.
/// Tables that name the same class and method as the leftover EnclosingMethod occur in the table space as well.
pub fn leftovers(u: &Uni, c: &mut SClass, i: usize, v: usize) {
	let cls = &u.cls;
	let next = cls[(i + 1) % N_PRESENT];
	let own = |outer: Option<&str>, name: Option<&str>, flags: u16| SInnerClass { inner: js(cls[i]), outer: outer.map(js), name: name.map(js), flags };
	let ic = c.inner_classes.get_or_insert_with(Vec::new);
	match (i + v) % 4 {
		0 => c.enclosing_method = Some((js(next), Some((js(&u.m_present.0), js(&u.m_present.1))))),
		1 => {
			c.enclosing_method = Some((js(cls[(i + 2) % N_PRESENT]), None));
			ic.push(own(Some(next), Some("Old"), 0x0001));
		},
		2 => {
			c.enclosing_method = Some((js(cls[4]), Some((js("n"), js("()V")))));
			ic.push(own(None, None, 0));
		},
		_ => ic.push(own(Some(next), Some(u.simple(i)), u.flags[i])),
	}
	if c.inner_classes.as_ref().is_some_and(|v| v.is_empty()) {
		c.inner_classes = None;
	}
}

/// Variant jars also refer to classes at the positions the base jar does not have: getstatic/putfield, every kind
/// of method handle, invokedynamic (bootstrap handle, static arguments, descriptor), a dynamic constant, and type
/// annotations on the class, a field, a method and inside code.
pub fn more_positions(u: &Uni, c: &mut SClass, i: usize, v: usize) {
	let n = 6;
	let cls = &u.cls;
	let y = (i + v + 1) % n;
	let z = (y + 3) % n;
	let (dy, dz) = (desc_of(u, y), desc_of(u, z));
	let h = |kind: u8, name: &str, desc: &str, interface: bool| SHandle { kind, member: mref(cls[y], name, desc), interface };
	let boot = SBootstrap {
		handle: h(6, "bsm", &format!("(Ljava/lang/invoke/MethodHandles$Lookup;Ljava/lang/String;Ljava/lang/invoke/MethodType;{dz})Ljava/lang/invoke/CallSite;"), false),
		args: vec![SConst::Class(js(cls[y])), SConst::MethodType(js(&format!("({dy}){dz}"))), SConst::Handle(h(8, "<init>", &format!("({dz})V"), false)), SConst::Str(js(cls[y])), SConst::Class(js(&format!("[{dz}")))],
	};
	let mut insns = vec![
		SInsn::Field(op::GETSTATIC, mref(cls[y], "sf", &dz)),
		SInsn::Field(op::PUTFIELD, mref(cls[z], "pf", &format!("[{dy}"))),
		SInsn::Ldc(SConst::Handle(h(1, "hf", &dz, false))),
		SInsn::Ldc(SConst::Handle(h(2, "hs", &format!("[{dz}"), false))),
		SInsn::Ldc(SConst::Handle(h(3, "hf", &dy, false))),
		SInsn::Ldc(SConst::Handle(h(4, "hs", &dz, false))),
		SInsn::Ldc(SConst::Handle(h(5, "hv", &format!("({dz})V"), false))),
		SInsn::Ldc(SConst::Handle(h(7, "hp", &format!("(){dz}"), false))),
		SInsn::Ldc(SConst::Handle(h(7, "hp", &format!("(){dy}"), true))),
		SInsn::Ldc(SConst::Handle(h(9, "hi", &format!("({dy}{dz})V"), true))),
		SInsn::InvokeDynamic(SDynamic { bootstrap: boot.clone(), name: js("run"), desc: js(&format!("({dy}[{dz}){dz}")) }),
		SInsn::New(js(cls[z])),
	];
	if c.version.0 >= 55 {
		insns.push(SInsn::Ldc(SConst::Dynamic(Box::new(SDynamic { bootstrap: SBootstrap { handle: h(6, "cbsm", &format!("(Ljava/lang/invoke/MethodHandles$Lookup;Ljava/lang/String;Ljava/lang/Class;){dy}"), false), args: vec![SConst::Class(js(cls[z]))] }, name: js("k"), desc: js(&dy) }))));
	}
	insns.push(SInsn::Simple(op::RETURN));
	let len = insns.len() as Idx;
	let tann = |target: STarget, ty: &str, val: &str| STypeAnnotation { target, path: vec![], annotation: ann(ty, vec![("c", SElementValue::Class(js(val)))]) };
	let mut m = method_with("r", "()V", insns);
	if let Some(code) = &mut m.code {
		code.visible_type = vec![tann(STarget::Offset { target_type: 0x44, at: len - 3 }, &dy, &dz)];
		code.invisible_type = vec![tann(STarget::LocalVar { target_type: 0x40, table: vec![(0, len, 1)] }, &dz, &dy)];
	}
	m.annotations.visible_type = vec![tann(STarget::Empty(0x14), &dz, &dy)];
	c.methods.push(m);
	c.annotations.visible_type = vec![tann(STarget::Supertype(0), &dy, &dz)];
	c.annotations.invisible_type = vec![tann(STarget::Supertype(65535), &dz, &format!("[{dy}"))];
	c.fields[2].annotations.invisible_type = vec![tann(STarget::Empty(0x13), &dy, &dz)];
}

pub struct Fixture {
	pub uni: &'static Uni,
	/// `None`: the base jar; `Some(v)`: variant jar `v`
	pub variant: Option<usize>,
	/// the order of the class entries in the jar (indices into the universe)
	pub order: [usize; 4],
	pub models: Vec<SClass>,
	pub jar: ParsedJar<ClassRepr, Vec<u8>>,
	/// class name → declared (name, descriptor) pairs
	pub methods: BTreeMap<String, BTreeSet<(String, String)>>,
	/// the entries of the jar that are not classes: (name, Some(content)) or (name, None) for a directory
	pub others: Vec<(String, Option<Vec<u8>>)>,
}

pub fn duke_round_trip(bytes: &[u8]) -> Result<SClass, String> {
	let tree = duke::read_class(&mut std::io::Cursor::new(bytes)).map_err(|e| format!("duke::read_class: {e:#}"))?;
	let mut out = Vec::new();
	duke::write_class(&mut out, &tree).map_err(|e| format!("duke::write_class: {e:#}"))?;
	cfmodel::parse(&out).map(|p| p.class).map_err(|e| format!("reference parser on duke's output: {e}"))
}

impl Fixture {
	pub fn new() -> Fixture {
		Fixture::build(None)
	}

	/// the base jar (`None`) or one of the `VARIANTS` variant jars
	pub fn build(variant: Option<usize>) -> Fixture {
		Fixture::build_in(base(), variant, [2, 0, 3, 1])
	}

	/// the jar of a universe, with the class entries in the given order (the base order is not the universe order)
	pub fn build_in(uni: &'static Uni, variant: Option<usize>, order: [usize; 4]) -> Fixture {
		let models: Vec<SClass> = (0..N_PRESENT).map(|i| fixture_class(uni, i, variant)).collect();
		let mut bytes = Vec::new();
		let mut methods = BTreeMap::new();
		for m in &models {
			let b = assemble(m, &Encoding::default()).unwrap_or_else(|e| vcore::machinery_fail(&format!("cannot assemble fixture class {:?}: {e:?}", m.this_class)));
			// oracle self-checks: the reference parser reads back the model, and duke's reader and writer
			// lose nothing of it (so that whatever is lost later is lost by the nester)
			match cfmodel::parse(&b) {
				Ok(p) if &p.class == m => {},
				Ok(p) => vcore::machinery_fail(&format!("assembler and reference parser disagree on {:?}: {:?}", m.this_class, cfmodel::sdiff::diff(m, &p.class).0.first())),
				Err(e) => vcore::machinery_fail(&format!("reference parser rejects fixture class {:?}: {e}", m.this_class)),
			}
			match duke_round_trip(&b) {
				Ok(c) if &c == m => {},
				Ok(c) => vcore::machinery_fail(&format!("fixture class {:?} is outside the subset duke reads and writes without loss: {:?}", m.this_class, cfmodel::sdiff::diff(m, &c).0)),
				Err(e) => vcore::machinery_fail(&format!("fixture class {:?}: {e}", m.this_class)),
			}
			methods.insert(m.this_class.to_string_lossy(), m.methods.iter().map(|x| (x.name.to_string_lossy(), x.desc.to_string_lossy())).collect());
			bytes.push(b);
		}
		let mut others = vec![("META-INF/".to_owned(), None), ("META-INF/MANIFEST.MF".to_owned(), Some(b"Manifest-Version: 1.0\r\n\r\n".to_vec())), ("p/".to_owned(), None), ("p/B.txt".to_owned(), Some(b"p/B is mentioned here".to_vec()))];
		if !uni.is_base() {
			// entries that are not classes, with 2-, 3- and 4-byte characters at every distance 1..=8 from the end of the name
			for (k, ch) in ["\u{e9}", "\u{20ac}", "\u{1f600}"].iter().enumerate() {
				for tail in 0..=7usize {
					others.push((format!("r{k}/{ch}{}", &".txtclas"[..tail]), Some(format!("resource {k} {tail}").into_bytes())));
				}
			}
			others.push(("\u{20ac}".to_owned(), Some(Vec::new())));
			others.push(("\u{3c0}/".to_owned(), None));
		}
		let mut jar = ParsedJar { entries: indexmap::IndexMap::new() };
		let put = |jar: &mut ParsedJar<ClassRepr, Vec<u8>>, name: &str, content| {
			jar.entries.insert(name.to_owned(), ParsedJarEntry { attr: BasicFileAttributes::default(), content });
		};
		for (name, data) in &others[..3] {
			put(&mut jar, name, match data { None => JarEntryEnum::Dir, Some(d) => JarEntryEnum::Other(d.clone()) });
		}
		for i in order {
			put(&mut jar, &format!("{}.class", uni.cls[i]), JarEntryEnum::Class(ClassRepr::Vec { data: bytes[i].clone() }));
		}
		for (name, data) in &others[3..] {
			put(&mut jar, name, match data { None => JarEntryEnum::Dir, Some(d) => JarEntryEnum::Other(d.clone()) });
		}
		Fixture { uni, variant, order, models, jar, methods, others }
	}

	pub fn present(&self, class: &str) -> bool {
		self.methods.contains_key(class)
	}

	/// the same jar as a real zip archive (stored entries)
	pub fn zip_bytes(&self) -> Vec<u8> {
		use std::io::Write;
		let mut w = zip::ZipWriter::new(std::io::Cursor::new(Vec::new()));
		let opt = || zip::write::SimpleFileOptions::default().compression_method(zip::CompressionMethod::Stored).last_modified_time(zip::DateTime::default());
		for (name, entry) in &self.jar.entries {
			let r = match &entry.content {
				JarEntryEnum::Dir => w.add_directory(name.trim_end_matches('/'), opt()),
				JarEntryEnum::Class(ClassRepr::Vec { data }) => w.start_file(name.as_str(), opt()).and_then(|_| w.write_all(data).map_err(Into::into)),
				JarEntryEnum::Other(data) => w.start_file(name.as_str(), opt()).and_then(|_| w.write_all(data).map_err(Into::into)),
				_ => Ok(()),
			};
			r.unwrap_or_else(|e| vcore::machinery_fail(&format!("cannot build the zip: {e}")));
		}
		w.finish().unwrap_or_else(|e| vcore::machinery_fail(&format!("cannot build the zip: {e}"))).into_inner()
	}
}

// ---------------------------------------------------------------------------------------------
// reading the result

#[derive(Clone, Debug, PartialEq, Eq)]
pub struct OutClass {
	pub entry: String,
	pub class: Arc<SClass>,
	/// which fixture class this is (by its marker field), `None` for a class that has no marker
	pub origin: Option<String>,
}

#[derive(Clone, Debug, Default, PartialEq, Eq)]
pub struct Out {
	pub classes: Vec<OutClass>,
	pub others: Vec<(String, Option<Vec<u8>>)>,
	/// (entry name, what went wrong) for class entries that could not be written or are not well-formed
	pub broken: Vec<(String, String, String)>,
}

// The oracle's own pure functions are memoised per thread (the same result classes and the same
// renamings recur in neighbouring tables); the code under test runs on every table regardless.
const CACHE_CAP: usize = 4096;
thread_local! {
	static PARSE_CACHE: RefCell<HashMap<Vec<u8>, Result<Arc<SClass>, String>>> = RefCell::new(HashMap::new());
	static RENAME_CACHE: RefCell<HashMap<(&'static str, Option<usize>, usize, Vec<(String, String)>), Arc<SClass>>> = RefCell::new(HashMap::new());
}

fn parse_cached(bytes: &[u8]) -> Result<Arc<SClass>, String> {
	PARSE_CACHE.with(|c| {
		let mut c = c.borrow_mut();
		if let Some(r) = c.get(bytes) {
			return r.clone();
		}
		let r = cfmodel::parse(bytes).map(|p| Arc::new(p.class)).map_err(|e| e.to_string());
		if c.len() >= CACHE_CAP {
			c.clear();
		}
		c.insert(bytes.to_vec(), r.clone());
		r
	})
}

/// `rename_class` of fixture class `i`
pub fn renamed_fixture(fx: &Fixture, i: usize, m: &Map) -> Arc<SClass> {
	RENAME_CACHE.with(|c| {
		let mut c = c.borrow_mut();
		let key = (fx.uni.id, fx.variant, i, m.iter().map(|(a, b)| (a.clone(), b.clone())).collect::<Vec<_>>());
		if let Some(r) = c.get(&key) {
			return r.clone();
		}
		let r = Arc::new(rename_class(&fx.models[i], m));
		if c.len() >= CACHE_CAP {
			c.clear();
		}
		c.insert(key, r.clone());
		r
	})
}

fn origin_of(u: &Uni, c: &SClass) -> Option<String> {
	c.fields.iter().find_map(|f| f.name.to_string_lossy().strip_prefix("id_").and_then(|s| LETTER.iter().position(|l| *l == s)).map(|i| u.cls[i].to_owned()))
}

pub fn read_out(u: &Uni, jar: &ParsedJar<ClassRepr, Vec<u8>>) -> Out {
	let mut out = Out::default();
	for (name, e) in &jar.entries {
		match &e.content {
			JarEntryEnum::Dir => out.others.push((name.clone(), None)),
			JarEntryEnum::Other(d) => out.others.push((name.clone(), Some(d.clone()))),
			JarEntryEnum::Class(repr) => match IsClass::write(&repr) {
				Err(e) => out.broken.push((name.clone(), "nest_jar:output-class-not-writable".into(), format!("{e:#}"))),
				Ok(bytes) => match parse_cached(bytes.as_ref()) {
					Err(e) => out.broken.push((name.clone(), "nest_jar:output-class-malformed".into(), format!("{e} — {}", vcore::hex(bytes.as_ref())))),
					Ok(p) => out.classes.push(OutClass { entry: name.clone(), origin: origin_of(u, &p), class: p }),
				},
			},
		}
	}
	out
}

/// reads a zip archive the same way (every `.class` entry is a class)
pub fn read_out_zip(u: &Uni, data: &[u8]) -> Result<Out, String> {
	use std::io::Read;
	let mut z = zip::ZipArchive::new(std::io::Cursor::new(data)).map_err(|e| format!("zip: {e}"))?;
	let mut out = Out::default();
	for i in 0..z.len() {
		let mut f = z.by_index(i).map_err(|e| format!("zip: {e}"))?;
		let name = f.name().to_owned();
		if f.is_dir() {
			out.others.push((name, None));
			continue;
		}
		let mut bytes = Vec::new();
		f.read_to_end(&mut bytes).map_err(|e| format!("zip: {e}"))?;
		if name.ends_with(".class") {
			match parse_cached(&bytes) {
				Err(e) => out.broken.push((name, "nest_jar:output-class-malformed".into(), e)),
				Ok(p) => out.classes.push(OutClass { entry: name, origin: origin_of(u, &p), class: p }),
			}
		} else {
			out.others.push((name, Some(bytes)));
		}
	}
	Ok(out)
}

// ---------------------------------------------------------------------------------------------
// the reference, written from the statement

pub fn positive_number(s: &str) -> bool {
	!s.is_empty() && s.chars().all(|c| c.is_ascii_digit()) && s.chars().any(|c| c != '0')
}

/// why an entry whose class is in the jar does not apply (`None`: it satisfies the rule of its kind)
pub fn rule_violation(fx: &Fixture, e: &Entry) -> Option<&'static str> {
	let has_method = e.method.as_ref().is_some_and(|m| fx.methods.get(&e.encl).is_some_and(|s| s.contains(m)));
	match e.ty {
		Ty::Anon => (!positive_number(&e.inner)).then_some("anonymous-without-positive-number"),
		Ty::Inner => has_method.then_some("inner-with-enclosing-method"),
		Ty::Local => (!has_method).then_some("local-without-enclosing-method"),
	}
}

/// One reading of the table the statement allows: which entries apply and which missing classes are created.
#[derive(Clone, Debug)]
pub struct Alt {
	pub applied: Vec<bool>,
	pub created: BTreeSet<String>,
	/// old name → new name, for every class that gets another name
	pub names: Map,
}

/// `Enclosing$Inner`, transitively through the entries of `applied`
pub fn nested_name(t: &[Entry], applied: &[bool], class: &str) -> String {
	match t.iter().zip(applied).find(|(e, a)| **a && e.class == class) {
		Some((e, _)) => format!("{}${}", nested_name(t, applied, &e.encl), e.inner),
		None => class.to_owned(),
	}
}

fn subsets<T: Clone>(v: &[T]) -> Vec<Vec<T>> {
	(0..(1u32 << v.len())).map(|m| v.iter().enumerate().filter(|(i, _)| m & (1 << i) != 0).map(|(_, x)| x.clone()).collect()).collect()
}

/// Every outcome the statement allows. The statement fixes which entries of present classes apply;
/// it is silent on (1) whether a missing enclosing class is created for an entry that does not
/// apply and (2) whether an entry whose own class is missing from the jar but created for another
/// entry applies — both outcomes of each are listed.
pub fn alternatives(fx: &Fixture, t: &[Entry]) -> Vec<Alt> {
	let mut optional: Vec<String> = t.iter().filter(|e| !fx.present(&e.encl)).map(|e| e.encl.clone()).collect();
	optional.sort();
	optional.dedup();
	let mut out = Vec::new();
	for created in subsets(&optional) {
		let created: BTreeSet<String> = created.into_iter().collect();
		let uncertain: Vec<usize> = (0..t.len()).filter(|i| !fx.present(&t[*i].class) && created.contains(&t[*i].class) && rule_violation(fx, &t[*i]).is_none()).collect();
		for chosen in subsets(&uncertain) {
			let applied: Vec<bool> = (0..t.len()).map(|i| (fx.present(&t[i].class) && rule_violation(fx, &t[i]).is_none()) || chosen.contains(&i)).collect();
			// an entry that applies has its enclosing class in the result
			if (0..t.len()).any(|i| applied[i] && !fx.present(&t[i].encl) && !created.contains(&t[i].encl)) {
				continue;
			}
			let mut names = Map::new();
			for (i, e) in t.iter().enumerate() {
				if applied[i] {
					names.insert(e.class.clone(), nested_name(t, &applied, &e.class));
				}
			}
			out.push(Alt { applied, created: created.clone(), names });
		}
	}
	out
}

impl Alt {
	pub fn new_name(&self, class: &str) -> String {
		self.names.get(class).cloned().unwrap_or_else(|| class.to_owned())
	}
	/// all class names of the expected result
	pub fn result_names(&self, fx: &Fixture) -> Vec<String> {
		fx.methods.keys().chain(self.created.iter()).map(|c| self.new_name(c)).collect()
	}
	pub fn has_collision(&self, fx: &Fixture) -> bool {
		let v = self.result_names(fx);
		v.iter().collect::<BTreeSet<_>>().len() != v.len()
	}
}

/// the simple name the InnerClasses entry must carry, where the kind and the inner name agree on it
fn demanded_simple_name(e: &Entry) -> Option<Option<String>> {
	let digits = e.inner.chars().take_while(|c| c.is_ascii_digit()).count();
	match e.ty {
		Ty::Anon if digits == e.inner.len() => Some(None),
		Ty::Inner if digits == 0 => Some(Some(e.inner.clone())),
		Ty::Local if digits > 0 && digits < e.inner.len() => Some(Some(e.inner[digits..].to_owned())),
		_ => None,
	}
}

/// What `compare` found: differences (key, detail) and, for the counters, what the case exercised.
#[derive(Default)]
pub struct Cmp {
	pub diffs: Vec<(String, String)>,
	pub notes: Vec<&'static str>,
}

/// Compares the real result with one allowed outcome.
pub fn compare(fx: &Fixture, t: &[Entry], alt: &Alt, out: &Out) -> Cmp {
	let mut cmp = Cmp::default();
	let mut notes: Vec<&'static str> = Vec::new();
	let d = &mut cmp.diffs;
	for (entry, key, what) in &out.broken {
		d.push((key.clone(), format!("entry {entry:?}: {what}")));
	}
	let entry_of = |class: &str| t.iter().zip(&alt.applied).find(|(e, _)| e.class == class);

	// 1. names: every class of the jar is there, under the name the statement gives it
	let mut name_trouble = false;
	for class in fx.methods.keys() {
		let found: Vec<&OutClass> = out.classes.iter().filter(|c| c.origin.as_deref() == Some(class)).collect();
		let expected = alt.new_name(class);
		match found.as_slice() {
			[] => {
				if !out.broken.is_empty() {
					continue;
				}
				name_trouble = true;
				d.push(("nest_jar:class-lost".into(), format!("class {class:?} is not in the result")));
			},
			[one] => {
				let actual = one.class.this_class.to_string_lossy();
				if actual != expected {
					name_trouble = true;
					let (e, applied) = match entry_of(class) {
						Some((e, a)) => (Some(e), *a),
						None => (None, false),
					};
					let key = match (e, applied) {
						(Some(e), true) if &actual == class => format!("nest_jar:applicable-nest-not-renamed:{}", e.ty.name()),
						(Some(e), true) => format!("nest_jar:wrong-nested-name:{}", if expected.matches('$').count() > 1 { "chain" } else { e.ty.name() }),
						(Some(e), false) => format!("nest_jar:renamed-although:{}", rule_violation(fx, e).unwrap_or("not-applicable")),
						(None, _) => "nest_jar:unlisted-class-renamed".into(),
					};
					d.push((key, format!("class {class:?} is named {actual:?} in the result, the statement gives {expected:?}")));
				}
			},
			_ => {
				name_trouble = true;
				d.push(("nest_jar:class-duplicated".into(), format!("class {class:?} occurs {} times in the result", found.len())));
			},
		}
	}
	// 2. created enclosing classes
	let unmarked: Vec<&OutClass> = out.classes.iter().filter(|c| c.origin.is_none()).collect();
	for z in &alt.created {
		let expected = alt.new_name(z);
		if !unmarked.iter().any(|c| c.class.this_class.to_string_lossy() == expected) {
			name_trouble = true;
			let must = t.iter().zip(&alt.applied).any(|(e, a)| *a && &e.encl == z);
			d.push((if must { "nest_jar:enclosing-class-not-created" } else { "nest_jar:optional-enclosing-class-not-created" }.into(), format!("the missing enclosing class {z:?} is expected as {expected:?}; classes without marker in the result: {:?}", unmarked.iter().map(|c| c.class.this_class.to_string_lossy()).collect::<Vec<_>>())));
		}
	}
	for c in &unmarked {
		let n = c.class.this_class.to_string_lossy();
		if !alt.created.iter().any(|z| alt.new_name(z) == n) {
			name_trouble = true;
			d.push(("nest_jar:unexpected-class".into(), format!("the result contains a class {n:?} that is neither a class of the jar nor a missing enclosing class")));
		}
	}
	// 3. jar level: a class entry is named after its class
	for c in &out.classes {
		let n = c.class.this_class.to_string_lossy();
		if c.entry != format!("{n}.class") {
			let key = if c.origin.is_none() { "nest_jar:created-class-entry-name" } else { "nest_jar:entry-name" };
			d.push((key.into(), format!("class {n:?} is stored under the entry name {:?}", c.entry)));
		}
	}
	// 4. everything that is not a class passes through
	if out.others != fx.others {
		d.push(("nest_jar:non-class-entry-changed".into(), format!("expected {:?}, got {:?}", fx.others.iter().map(|o| &o.0).collect::<Vec<_>>(), out.others.iter().map(|o| &o.0).collect::<Vec<_>>())));
	}
	if name_trouble {
		// the expected contents are derived from the names; with wrong names they would only echo the above
		return cmp;
	}

	// 5. contents: attributes of nested classes, then every other fact with all references rewritten
	let nest_entries: Vec<(&Entry, SInnerClass)> = t.iter().zip(&alt.applied).filter(|(_, a)| **a).map(|(e, _)| (e, SInnerClass {
		inner: JS::new(&alt.new_name(&e.class)),
		outer: if e.ty == Ty::Inner { Some(JS::new(&alt.new_name(&e.encl))) } else { None },
		name: demanded_simple_name(e).flatten().map(|s| JS::new(&s)),
		flags: e.flags,
	})).collect();
	for c in &out.classes {
		let old = match &c.origin {
			Some(o) => o.clone(),
			None => match alt.created.iter().find(|z| alt.new_name(z) == c.class.this_class.to_string_lossy()) {
				Some(z) => z.clone(),
				None => continue,
			},
		};
		let nest = entry_of(&old).filter(|(_, a)| **a).map(|(e, _)| e);
		let actual: &SClass = &c.class;
		// what the class of the input said, with every reference rewritten (a created class said nothing)
		let mi = fx.models.iter().position(|m| m.this_class.to_string_lossy() == old);
		let expected: Option<Arc<SClass>> = mi.map(|mi| renamed_fixture(fx, mi, &alt.names));
		let input_inner: Vec<SInnerClass> = expected.as_ref().and_then(|e| e.inner_classes.clone()).unwrap_or_default();
		let input_em = expected.as_ref().and_then(|e| e.enclosing_method.clone());
		// the InnerClasses entries of the result that are not entries of the input (as a multiset)
		let mut rest: Vec<SInnerClass> = actual.inner_classes.clone().unwrap_or_default();
		let mut input_gone: Vec<SInnerClass> = Vec::new();
		for w in &input_inner {
			match rest.iter().position(|x| x == w) {
				Some(p) => {
					rest.remove(p);
				},
				None => input_gone.push(w.clone()),
			}
		}
		match nest {
			Some(e) => {
				let ty = e.ty.name();
				let new = alt.new_name(&e.class);
				let want_outer = if e.ty == Ty::Inner { Some(JS::new(&alt.new_name(&e.encl))) } else { None };
				let want_name = demanded_simple_name(e);
				let says_the_nest = |ic: &SInnerClass| ic.inner.to_string_lossy() == new && ic.outer == want_outer && ic.flags == e.flags && want_name.as_ref().is_none_or(|w| ic.name == w.as_deref().map(JS::new));
				let leftover_self_entry = input_inner.iter().any(|ic| ic.inner.to_string_lossy() == new);
				match rest.iter().position(&says_the_nest).or_else(|| rest.iter().position(|ic| ic.inner.to_string_lossy() == new)) {
					// an entry of the input that already says exactly what the nest says records the nest as well
					None if input_inner.iter().any(&says_the_nest) && input_gone.is_empty() => notes.push("leftover:inner-classes-entry-of-the-input-already-records-the-nest"),
					None => d.push((format!("nest_jar:inner-classes-entry-missing:{ty}"), format!("class {new:?} (nested {ty} class) has no InnerClasses entry for itself that the input did not have: {:?}", actual.inner_classes))),
					Some(pos) => {
						let ic = rest.remove(pos);
						let before = d.len();
						if ic.outer != want_outer {
							d.push((format!("nest_jar:inner-classes-outer-wrong:{ty}"), format!("class {new:?}: outer class {:?}, expected {want_outer:?}", ic.outer)));
						}
						if let Some(want) = &want_name {
							if ic.name != want.as_deref().map(JS::new) {
								d.push((format!("nest_jar:inner-classes-simple-name-wrong:{ty}"), format!("class {new:?} (inner name {:?}): simple name {:?}, expected {want:?}", e.inner, ic.name)));
							}
						}
						if ic.flags != e.flags {
							d.push(("nest_jar:inner-classes-flags-wrong".into(), format!("class {new:?}: flags {:#06x}, the table says {:#06x}", ic.flags, e.flags)));
						}
						if d.len() == before && leftover_self_entry {
							notes.push(if input_inner.iter().any(&says_the_nest) { "leftover:inner-classes-entry-equal-to-the-nest's-next-to-it" } else { "leftover:inner-classes-entry-for-the-class-itself-next-to-the-nest's" });
						}
					},
				}
				let want_em = (JS::new(&alt.new_name(&e.encl)), e.method.as_ref().map(|(n, de)| (JS::new(n), JS::new(&map_desc(de, &alt.names)))));
				match (&actual.enclosing_method, e.ty) {
					// the statement asks for no EnclosingMethod on a member class and is silent on one the input already had
					(Some(em), Ty::Inner) if input_em.as_ref() == Some(em) => notes.push("info:leftover:enclosing-method-kept-on-member-class"),
					(Some(_), Ty::Inner) => d.push(("nest_jar:enclosing-method-on-member-class".into(), format!("class {new:?} is a member (inner) class and got an EnclosingMethod attribute {:?} (the input had {input_em:?})", actual.enclosing_method))),
					(None, Ty::Inner) => {
						if input_em.is_some() {
							notes.push("info:leftover:enclosing-method-removed-from-member-class");
						}
					},
					(None, _) => d.push((format!("nest_jar:enclosing-method-missing:{ty}"), format!("class {new:?} (nested {ty} class) has no EnclosingMethod attribute"))),
					(Some(em), _) => {
						if em.0 != want_em.0 {
							d.push(("nest_jar:enclosing-method-class-wrong".into(), format!("class {new:?}: EnclosingMethod names class {:?}, expected {:?} (the input had {input_em:?})", em.0, want_em.0)));
						}
						if em.1 != want_em.1 {
							d.push(("nest_jar:enclosing-method-method-wrong".into(), format!("class {new:?}: EnclosingMethod names method {:?}, expected {:?} (the input had {input_em:?})", em.1, want_em.1)));
						}
						if *em == want_em {
							match &input_em {
								Some(i) if *i == want_em => notes.push("leftover:enclosing-method-equal-to-the-nest's"),
								Some(i) if i.0 != want_em.0 => notes.push("leftover:enclosing-method-of-another-class-replaced"),
								Some(_) => notes.push("leftover:enclosing-method-of-another-method-replaced"),
								None => {},
							}
						}
					},
				}
			},
			None => {
				// a class that is not nested keeps what it had, references rewritten
				if actual.enclosing_method != input_em {
					let key = match (&input_em, &actual.enclosing_method) {
						(None, _) => "nest_jar:nesting-attributes-on-class-that-is-not-nested",
						(Some(_), None) => "class.enclosing_method:dropped",
						(Some(_), Some(_)) => "class.enclosing_method:changed",
					};
					d.push((key.into(), format!("class {:?} is not nested by the table: EnclosingMethod {:?}, expected {input_em:?}", actual.this_class, actual.enclosing_method)));
				} else if let (Some(em), Some(mi)) = (&input_em, mi) {
					notes.push(if fx.models[mi].enclosing_method.as_ref() == Some(em) { "leftover:enclosing-method-passed-through" } else { "leftover:enclosing-method-passed-through-with-rewritten-reference" });
				}
			},
		}
		let Some(expected) = expected else {
			// a created class: the statement asks for its existence (and its own nesting attributes) only
			continue;
		};
		// InnerClasses entries that describe a nest of the table may additionally be recorded anywhere (JVMS 4.7.6
		// wants them in the enclosing class too; the statement does not ask for it)
		rest.retain(|ic| !nest_entries.iter().any(|(e, w)| w.inner == ic.inner && w.outer == ic.outer && w.flags == ic.flags && (demanded_simple_name(e).is_none() || w.name == ic.name)));
		if !input_gone.is_empty() {
			d.push(("class.inner_classes:dropped".into(), format!("class {:?}: InnerClasses entries of the input are gone or changed: {input_gone:?}; got {:?}", actual.this_class, c.class.inner_classes)));
		}
		if !rest.is_empty() {
			d.push(("class.inner_classes:invented".into(), format!("class {:?}: unexpected InnerClasses entries {rest:?}", actual.this_class)));
		}
		if !same_except_nesting(&expected, actual) {
			let mut e2 = (*expected).clone();
			e2.inner_classes = actual.inner_classes.clone();
			e2.enclosing_method = actual.enclosing_method.clone();
			for (key, detail) in cfmodel::sdiff::diff(&e2, actual).0 {
				d.push((key, detail));
			}
		}
	}
	cmp.notes = notes;
	cmp
}

/// equality of everything but the two nesting attributes (which are judged separately)
fn same_except_nesting(a: &SClass, b: &SClass) -> bool {
	a.version == b.version && a.access == b.access && a.this_class == b.this_class && a.super_class == b.super_class && a.interfaces == b.interfaces
		&& a.fields == b.fields && a.methods == b.methods && a.synthetic == b.synthetic && a.deprecated == b.deprecated && a.signature == b.signature
		&& a.source_file == b.source_file && a.source_debug_extension == b.source_debug_extension && a.annotations == b.annotations && a.module == b.module
		&& a.module_packages == b.module_packages && a.module_main_class == b.module_main_class && a.nest_host == b.nest_host && a.nest_members == b.nest_members
		&& a.permitted_subclasses == b.permitted_subclasses && a.record == b.record && a.unknown == b.unknown
}
