//! The explored space of C14: the class universe, nests-table entries, the menus they are drawn from,
//! the enumeration of tables, their text form and the conversion into the real `dukenest::nest::Nests`.

use std::collections::BTreeMap;
use std::marker::PhantomData;
use dukenest::nest::{Nest, NestType, Nests};
use duke::tree::method::MethodNameAndDesc;

/// A class universe: six class names, the first `N_PRESENT` are in the jar, the others are not. Every universe
/// keeps the roles of the base one: index 2 has the calamus shape `C_12`, index 3 the pre-nested shape `A__D`
/// (whose prefix is the simple name of class 0).
///  * `base`: plain ASCII names in one package;
///  * `multibyte`: 2-, 3- and 4-byte characters at the first / last position of simple names, in package names,
///    next to `__` and behind the digit prefix of local inner names; one class two packages deep;
///  * `odd-a`: a class that already has the name the table gives it (`p/A$B` as member `B` of `p/A`: the name stays,
///    the attributes are still recorded), a `(` inside a name, a class in the default package whose name starts with `L`;
///  * `odd-b`: two classes with the same simple name in different packages, classes in the default package (one in
///    the jar, one missing), a package whose name starts with `L`, a name that ends in `$`.
pub struct Uni {
	pub id: &'static str,
	pub cls: [&'static str; 6],
	/// inner-class access flags of the nest of each class (all inside the InnerClasses flag mask)
	pub flags: [u16; 6],
	/// a method every jar class declares
	pub m_present: (String, String),
	/// a method none declares: the name of the present one, another descriptor
	pub m_absent: (String, String),
	/// a method none declares: the descriptor of the present one, another name
	pub m_other_name: (String, String),
}

/// one letter per class, for names derived in the checker (target names, field names)
pub const LETTER: [&str; 6] = ["A", "B", "C", "D", "E", "F"];
pub const N_PRESENT: usize = 4;

impl Uni {
	fn new(id: &'static str, cls: [&'static str; 6], flags: [u16; 6]) -> Uni {
		let desc = format!("(L{};[L{};)L{};", cls[1], cls[4], cls[2]);
		Uni { id, cls, flags, m_present: ("m".into(), desc.clone()), m_absent: ("m".into(), format!("(L{};)V", cls[1])), m_other_name: ("mm".into(), desc) }
	}
	pub fn simple(&self, i: usize) -> &'static str {
		let c: &'static str = self.cls[i];
		c.rsplit_once('/').map_or(c, |(_, s)| s)
	}
	pub fn idx_of(&self, class: &str) -> usize {
		self.cls.iter().position(|c| *c == class).unwrap_or_else(|| vcore::machinery_fail(&format!("class {class:?} is not in the universe {}", self.id)))
	}
	pub fn is_base(&self) -> bool {
		self.id == "base"
	}
}

pub fn universes() -> &'static [Uni] {
	static U: std::sync::OnceLock<Vec<Uni>> = std::sync::OnceLock::new();
	U.get_or_init(|| vec![
		Uni::new("base", ["p/A", "p/B", "p/C_12", "p/A__D", "p/E", "p/F"], [0x0009, 0x0008, 0x0002, 0x4019, 0x0000, 0x0608]),
		Uni::new("multibyte", ["\u{3c0}/\u{c4}", "\u{3c0}/B\u{20ac}", "\u{3c0}/C_12", "\u{3c0}/\u{c4}__\u{110}\u{1f600}", "\u{3c0}/\u{1f600}E", "\u{fc}/\u{e9}/F\u{e9}"], [0x000a, 0x041a, 0x1004, 0x2609, 0x0000, 0x0001]),
		Uni::new("odd-a", ["p/A", "p/A$B", "p/C_12", "p/A__D", "p/(E", "LF"], [0x0009, 0x0008, 0x0002, 0x4019, 0x0000, 0x0608]),
		Uni::new("odd-b", ["p/A", "r/A", "C_12", "Lp/A__D", "E", "p/F$"], [0x0009, 0x000a, 0x0004, 0x4019, 0x0000, 0x0608]),
	])
}
pub fn base() -> &'static Uni {
	&universes()[0]
}
pub fn universe(id: &str) -> &'static Uni {
	universes().iter().find(|u| u.id == id).unwrap_or_else(|| vcore::machinery_fail(&format!("no universe {id:?}")))
}

#[derive(Clone, Copy, Debug, PartialEq, Eq, Hash, PartialOrd, Ord)]
pub enum Ty {
	Inner,
	Local,
	Anon,
}

impl Ty {
	pub fn name(self) -> &'static str {
		match self {
			Ty::Inner => "inner",
			Ty::Local => "local",
			Ty::Anon => "anonymous",
		}
	}
	pub fn parse(s: &str) -> Option<Ty> {
		Some(match s {
			"inner" => Ty::Inner,
			"local" => Ty::Local,
			"anonymous" => Ty::Anon,
			_ => return None,
		})
	}
}

#[derive(Clone, Copy, Debug, PartialEq, Eq, Hash, PartialOrd, Ord)]
pub enum NameK {
	/// the simple name of the class (`B` for `p/B`)
	Derived,
	/// a name the class name does not end with (`Xb`)
	Custom,
	/// a positive number (`1` for `p/B`, another digit per class so that siblings do not collide)
	Pos,
	/// `0`
	Zero,
	/// digit prefix + custom name (`1LocB`)
	LocCustom,
	/// digit prefix + simple name of the class (`1B`)
	LocDerived,
	/// a positive number of two digits (`11` for `p/B`)
	Pos2,
	/// the largest number a 32-bit reader accepts (`2147483647`)
	PosMax,
	/// `00`: numeric, not positive
	Zeros,
	/// the part of the simple name behind its last `__` (`D` for `p/A__D`; the whole simple name where there is no `__`):
	/// the inner name an already-nested `C__D` name carries
	Tail,
	/// digit prefix + that part (`1D`)
	LocTail,
	/// a number with a leading zero (`01` for `p/B`): numeric and positive
	PosLead0,
	/// a digit prefix of two digits + the simple name (`12B`)
	Loc2Derived,
	/// one name for every class (`Same`): two classes get the same inner name in different enclosing classes
	Shared,
	/// `1Same`
	LocShared,
	/// `7` for every class
	SharedPos,
}

#[derive(Clone, Copy, Debug, PartialEq, Eq, Hash, PartialOrd, Ord)]
pub enum MethK {
	None,
	/// a method the enclosing class declares (if that class is in the jar)
	Present,
	/// a method no class declares (the name of the present one, another descriptor)
	Absent,
	/// a method no class declares (the descriptor of the present one, another name)
	OtherName,
	/// a method only the nested class itself declares (`onlyB()V` for `p/B`), not the enclosing class
	InNestedOnly,
}

#[derive(Clone, Copy, Debug, PartialEq, Eq, Hash, PartialOrd, Ord)]
pub struct Kind {
	pub ty: Ty,
	pub meth: MethK,
	pub name: NameK,
}

const fn k(ty: Ty, meth: MethK, name: NameK) -> Kind {
	Kind { ty, meth, name }
}

/// every entry kind explored for tables of one and two entries
pub const KINDS_FULL: &[Kind] = &[
	k(Ty::Inner, MethK::None, NameK::Derived),
	k(Ty::Inner, MethK::Present, NameK::Custom),
	k(Ty::Local, MethK::Present, NameK::LocDerived),
	k(Ty::Local, MethK::None, NameK::LocCustom),
	k(Ty::Anon, MethK::None, NameK::Pos),
	k(Ty::Anon, MethK::Present, NameK::Zero),
	// --- the first six are the core menu
	k(Ty::Inner, MethK::None, NameK::Custom),
	k(Ty::Inner, MethK::Absent, NameK::Derived),
	k(Ty::Local, MethK::Absent, NameK::LocDerived),
	k(Ty::Anon, MethK::Present, NameK::Pos),
	k(Ty::Local, MethK::Present, NameK::LocCustom),
	k(Ty::Anon, MethK::None, NameK::Zero),
	// --- the first twelve are the medium menu
	k(Ty::Inner, MethK::Present, NameK::Derived),
	k(Ty::Inner, MethK::Absent, NameK::Custom),
	k(Ty::Inner, MethK::None, NameK::Pos),
	k(Ty::Inner, MethK::None, NameK::LocCustom),
	k(Ty::Local, MethK::None, NameK::LocDerived),
	k(Ty::Local, MethK::Absent, NameK::LocCustom),
	k(Ty::Local, MethK::Present, NameK::Derived),
	k(Ty::Anon, MethK::Absent, NameK::Pos),
	k(Ty::Anon, MethK::None, NameK::Derived),
	k(Ty::Anon, MethK::None, NameK::LocCustom),
	// --- the first twenty-two are the menu of the first sessions (`OLD`); the rest: enclosing methods that are
	//     "present" only for a sloppy lookup, numbers at the edges of "positive numeric", already-nested names
	k(Ty::Local, MethK::OtherName, NameK::LocDerived),
	k(Ty::Inner, MethK::OtherName, NameK::Derived),
	k(Ty::Local, MethK::InNestedOnly, NameK::LocDerived),
	k(Ty::Inner, MethK::InNestedOnly, NameK::Derived),
	k(Ty::Anon, MethK::InNestedOnly, NameK::Pos),
	k(Ty::Anon, MethK::None, NameK::Pos2),
	k(Ty::Anon, MethK::Present, NameK::PosMax),
	k(Ty::Anon, MethK::None, NameK::Zeros),
	k(Ty::Inner, MethK::None, NameK::Tail),
	k(Ty::Local, MethK::Present, NameK::LocTail),
	// --- second extension: a number with a leading zero, a local prefix of two digits, one inner name for all classes
	k(Ty::Anon, MethK::None, NameK::PosLead0),
	k(Ty::Local, MethK::Present, NameK::Loc2Derived),
	k(Ty::Inner, MethK::None, NameK::Shared),
	k(Ty::Local, MethK::Present, NameK::LocShared),
	k(Ty::Anon, MethK::Present, NameK::SharedPos),
];
/// menu of the shared-inner-name sweep: the three kinds whose inner name does not depend on the class, and one
/// derived kind to mix them with
pub const KINDS_SHARED: &[Kind] = &[
	k(Ty::Inner, MethK::None, NameK::Shared),
	k(Ty::Local, MethK::Present, NameK::LocShared),
	k(Ty::Anon, MethK::Present, NameK::SharedPos),
	k(Ty::Inner, MethK::None, NameK::Derived),
];
/// menu of the two-entry tables of the further name universes: derived / tail / custom names of every type, a rejected kind
pub const KINDS_NAMES: &[Kind] = &[
	k(Ty::Inner, MethK::None, NameK::Derived),
	k(Ty::Inner, MethK::None, NameK::Tail),
	k(Ty::Local, MethK::Present, NameK::LocDerived),
	k(Ty::Local, MethK::Present, NameK::LocTail),
	k(Ty::Anon, MethK::None, NameK::Pos),
	k(Ty::Inner, MethK::Present, NameK::Custom),
];
/// kinds of the chain sweep, by position in the chain (all apply when the enclosing class is in the jar)
pub const KINDS_CHAIN: &[Kind] = &[
	k(Ty::Inner, MethK::None, NameK::Derived),
	k(Ty::Local, MethK::Present, NameK::LocDerived),
	k(Ty::Anon, MethK::None, NameK::Pos),
	k(Ty::Inner, MethK::Absent, NameK::Custom),
	k(Ty::Anon, MethK::Present, NameK::Pos2),
];
pub const CORE: usize = 6;
pub const MEDIUM: usize = 12;
pub const OLD: usize = 22;
/// the method only class `i` declares
pub fn only_method(i: usize) -> (String, String) {
	(format!("only{}", LETTER[i]), "()V".to_owned())
}
/// menu of the four-entry tables: one applying kind per type plus one rejected
pub const KINDS_MINI: &[Kind] = &[
	k(Ty::Inner, MethK::None, NameK::Derived),
	k(Ty::Local, MethK::Present, NameK::LocDerived),
	k(Ty::Anon, MethK::None, NameK::Pos),
	k(Ty::Inner, MethK::Present, NameK::Derived),
];

/// One line of a nests table, as plain strings (the oracle works on this, replays carry this).
#[derive(Clone, Debug, PartialEq, Eq, Hash, PartialOrd, Ord)]
pub struct Entry {
	pub ty: Ty,
	pub class: String,
	pub encl: String,
	pub method: Option<(String, String)>,
	pub inner: String,
	pub flags: u16,
}

/// the part of a simple name behind its last `__` or `$` (the whole name where that part would be empty)
fn tail_of(s: &str) -> &str {
	let a = s.rsplit_once("__").map_or(s, |(_, t)| t);
	let b = a.rsplit_once('$').map_or(a, |(_, t)| t);
	if b.is_empty() { s } else { b }
}

pub fn inner_name(u: &Uni, class: usize, name: NameK) -> String {
	let s = u.simple(class);
	match name {
		NameK::Derived => s.to_owned(),
		NameK::Custom => format!("X{}", s.to_lowercase()),
		NameK::Pos => ["4", "1", "2", "3", "5", "6"][class].to_owned(),
		NameK::Zero => "0".to_owned(),
		NameK::LocCustom => format!("1Loc{s}"),
		NameK::LocDerived => format!("1{s}"),
		NameK::Pos2 => ["14", "11", "12", "13", "15", "16"][class].to_owned(),
		NameK::PosMax => "2147483647".to_owned(),
		NameK::Zeros => "00".to_owned(),
		NameK::Tail => tail_of(s).to_owned(),
		NameK::LocTail => format!("1{}", tail_of(s)),
		NameK::PosLead0 => format!("0{}", ["4", "1", "2", "3", "5", "6"][class]),
		NameK::Loc2Derived => format!("12{s}"),
		NameK::Shared => "Same".to_owned(),
		NameK::LocShared => "1Same".to_owned(),
		NameK::SharedPos => "7".to_owned(),
	}
}

pub fn entry(u: &Uni, class: usize, encl: usize, kind: Kind) -> Entry {
	Entry {
		ty: kind.ty,
		class: u.cls[class].to_owned(),
		encl: u.cls[encl].to_owned(),
		method: match kind.meth {
			MethK::None => None,
			MethK::Present => Some(u.m_present.clone()),
			MethK::Absent => Some(u.m_absent.clone()),
			MethK::OtherName => Some(u.m_other_name.clone()),
			MethK::InNestedOnly => Some(only_method(class)),
		},
		inner: inner_name(u, class, kind.name),
		flags: u.flags[class],
	}
}

/// the classes other than `class`, in universe order: the candidates for its enclosing class
pub fn encl_choices(class: usize) -> Vec<usize> {
	(0..6).filter(|c| *c != class).collect()
}

/// does following the enclosing classes from some entry come back to a class already seen?
pub fn has_cycle(t: &[Entry]) -> bool {
	let by_class: BTreeMap<&str, &str> = t.iter().map(|e| (e.class.as_str(), e.encl.as_str())).collect();
	for e in t {
		let mut cur = e.class.as_str();
		let mut steps = 0;
		while let Some(next) = by_class.get(cur) {
			cur = next;
			steps += 1;
			if steps > t.len() {
				return true;
			}
		}
	}
	false
}

/// A family of tables: every choice of `size` distinct nested classes (ascending) × for each the
/// enclosing class (5) × the entry kind (menu). Addressed by index.
pub struct TableSpace {
	pub uni: &'static Uni,
	pub size: usize,
	pub menu: &'static [Kind],
	/// class subsets (ascending class indices)
	pub subsets: Vec<Vec<usize>>,
	pub per_entry: usize,
}

impl TableSpace {
	pub fn new(size: usize, menu: &'static [Kind]) -> TableSpace {
		TableSpace::of(base(), size, menu)
	}
	pub fn of(uni: &'static Uni, size: usize, menu: &'static [Kind]) -> TableSpace {
		let subsets = vcore::enumerate::subsets_by_size(6).into_iter().filter(|m| m.count_ones() as usize == size).map(|m| (0..6).filter(|i| m & (1 << i) != 0).collect()).collect();
		TableSpace { uni, size, menu, subsets, per_entry: 5 * menu.len() }
	}
	pub fn per_subset(&self) -> u64 {
		(self.per_entry as u64).pow(self.size as u32)
	}
	pub fn count(&self) -> u64 {
		self.subsets.len() as u64 * self.per_subset()
	}
	pub fn nth(&self, idx: u64) -> Vec<Entry> {
		let ps = self.per_subset();
		let subset = &self.subsets[(idx / ps) as usize];
		let mut rest = idx % ps;
		let mut out = Vec::with_capacity(self.size);
		for &class in subset.iter().rev() {
			let d = (rest % self.per_entry as u64) as usize;
			rest /= self.per_entry as u64;
			let encl = encl_choices(class)[d / self.menu.len()];
			out.push(entry(self.uni, class, encl, self.menu[d % self.menu.len()]));
		}
		out.reverse();
		out
	}
}

// ---------------------------------------------------------------------------------------------
// the text form (six tab-separated columns: class, enclosing class, enclosing method name,
// enclosing method descriptor, inner name, access flags; the kind is read off the inner name)

/// the kind the text format assigns to an inner name
pub fn text_type(inner: &str) -> Ty {
	if inner.chars().all(|c| c.is_ascii_digit()) {
		Ty::Anon
	} else if inner.chars().next().is_some_and(|c| c.is_ascii_digit()) {
		Ty::Local
	} else {
		Ty::Inner
	}
}

pub fn text_expressible(t: &[Entry]) -> bool {
	t.iter().all(|e| text_type(&e.inner) == e.ty)
}

pub fn render_text(t: &[Entry]) -> String {
	render_text_as(t, 0, "\n", true)
}

/// The text form with the spelling choices it leaves open: the access flags of line `i` are written in radix
/// `(i + radix_shift) % 4` (decimal, `0x` lower case, `0b`, `0x` upper-case digits), lines end in `eol`, and the last
/// line has a line terminator or not.
pub fn render_text_as(t: &[Entry], radix_shift: usize, eol: &str, final_eol: bool) -> String {
	let mut s = String::new();
	for (i, e) in t.iter().enumerate() {
		let (mn, md) = e.method.clone().unwrap_or_default();
		let access = match (i + radix_shift) % 4 {
			0 => format!("{}", e.flags),
			1 => format!("0x{:x}", e.flags),
			2 => format!("0b{:b}", e.flags),
			_ => format!("0x{:04X}", e.flags),
		};
		s.push_str(&format!("{}\t{}\t{}\t{}\t{}\t{}", e.class, e.encl, mn, md, e.inner, access));
		if final_eol || i + 1 < t.len() {
			s.push_str(eol);
		}
	}
	s
}

/// every chain `c0 in c1 in … in cn` of `n` entries over the universe (the root `cn` is not nested), the kinds taken
/// from `KINDS_CHAIN` by position (rotated from chain to chain), in every order of the `n` lines
pub fn chain_tables(u: &Uni, n: usize) -> Vec<Vec<Entry>> {
	let perms = vcore::enumerate::permutations(n);
	let mut out = Vec::new();
	for (ci, seq) in vcore::enumerate::injective_sequences(6, n + 1).into_iter().filter(|s| s.len() == n + 1).enumerate() {
		let lines: Vec<Entry> = (0..n).map(|p| entry(u, seq[p], seq[p + 1], KINDS_CHAIN[(p + ci) % KINDS_CHAIN.len()])).collect();
		for perm in &perms {
			out.push(perm.iter().map(|i| lines[*i].clone()).collect());
		}
	}
	out
}

// ---------------------------------------------------------------------------------------------
// the real table

pub fn to_real<Ns>(t: &[Entry]) -> Nests<Ns> {
	let mut all = indexmap::IndexMap::new();
	for e in t {
		let c = |s: &str| mapmodel::cls(s).unwrap_or_else(|x| vcore::machinery_fail(&format!("duke rejects the class name {s:?}: {x:#}")));
		let nest = Nest {
			nest_type: match e.ty {
				Ty::Inner => NestType::Inner,
				Ty::Local => NestType::Local,
				Ty::Anon => NestType::Anonymous,
			},
			class_name: c(&e.class),
			encl_class_name: c(&e.encl),
			encl_method: e.method.as_ref().map(|(n, d)| MethodNameAndDesc {
				name: mapmodel::mname(n).unwrap_or_else(|x| vcore::machinery_fail(&format!("method name {n:?}: {x:#}"))),
				desc: mapmodel::mdesc(d).unwrap_or_else(|x| vcore::machinery_fail(&format!("method descriptor {d:?}: {x:#}"))),
			}),
			inner_name: c(&e.inner),
			inner_access: e.flags.into(),
		};
		all.insert(nest.class_name.clone(), nest);
	}
	Nests { phantom: PhantomData, all }
}

/// projection of a real table back into plain strings (in table order)
pub fn from_real<Ns>(n: &Nests<Ns>) -> Vec<(String, Entry)> {
	n.all.iter().map(|(key, nest)| {
		(key.as_inner().to_string(), Entry {
			ty: match nest.nest_type {
				NestType::Inner => Ty::Inner,
				NestType::Local => Ty::Local,
				NestType::Anonymous => Ty::Anon,
			},
			class: nest.class_name.as_inner().to_string(),
			encl: nest.encl_class_name.as_inner().to_string(),
			method: nest.encl_method.as_ref().map(|m| (m.name.as_inner().to_string(), m.desc.as_inner().to_string())),
			inner: nest.inner_name.as_inner().to_string(),
			flags: nest.inner_access.into(),
		})
	}).collect()
}

// ---------------------------------------------------------------------------------------------
// replay text

pub fn table_text(t: &[Entry]) -> String {
	let mut s = String::new();
	for e in t {
		let (mn, md) = e.method.clone().unwrap_or_default();
		s.push_str(&format!("nest|{}|{}|{}|{}|{}|{}|{}\n", e.ty.name(), e.class, e.encl, mn, md, e.inner, e.flags));
	}
	s
}

pub fn parse_table_text(body: &str) -> Vec<Entry> {
	body.lines().filter_map(|l| l.strip_prefix("nest|")).map(|l| {
		let f: Vec<&str> = l.split('|').collect();
		if f.len() != 7 {
			vcore::machinery_fail(&format!("bad nest line in replay: {l:?}"));
		}
		Entry {
			ty: Ty::parse(f[0]).unwrap_or_else(|| vcore::machinery_fail("bad nest type in replay")),
			class: f[1].to_owned(),
			encl: f[2].to_owned(),
			method: if f[3].is_empty() { None } else { Some((f[3].to_owned(), f[4].to_owned())) },
			inner: f[5].to_owned(),
			flags: f[6].parse().unwrap_or_else(|_| vcore::machinery_fail("bad flags in replay")),
		}
	}).collect()
}
