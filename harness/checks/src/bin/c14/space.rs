//! The explored space of C14: the class universe, nests-table entries, the menus they are drawn from,
//! the enumeration of tables, their text form and the conversion into the real `dukenest::nest::Nests`.

use std::collections::BTreeMap;
use std::marker::PhantomData;
use dukenest::nest::{Nest, NestType, Nests};
use duke::tree::method::MethodNameAndDesc;

/// the class universe: the first `N_PRESENT` are in the jar, the others are not. Two of the names have
/// the shapes the statement mentions for names that are already processed: calamus-style `C_12` and
/// the pre-nested `A__D` (whose prefix is another class of the universe)
pub const CLS: [&str; 6] = ["p/A", "p/B", "p/C_12", "p/A__D", "p/E", "p/F"];
pub const SIMPLE: [&str; 6] = ["A", "B", "C_12", "A__D", "E", "F"];
/// one letter per class, for names derived in the checker (target names, field names)
pub const LETTER: [&str; 6] = ["A", "B", "C", "D", "E", "F"];
pub const N_PRESENT: usize = 4;
/// inner-class access flags of the nest of each class (all inside the InnerClasses flag mask)
pub const FLAGS: [u16; 6] = [0x0009, 0x0008, 0x0002, 0x4019, 0x0000, 0x0608];
/// a method every jar class declares, and one (same name, other descriptor) that none declares
pub const M_PRESENT: (&str, &str) = ("m", "(Lp/B;[Lp/E;)Lp/C_12;");
pub const M_ABSENT: (&str, &str) = ("m", "(Lp/B;)V");

#[derive(Clone, Copy, Debug, PartialEq, Eq, Hash, PartialOrd, Ord)]
pub enum Ty {
	Inner,
	Local,
	Anon,
}

impl Ty {
	pub fn name(self) -> &'static str {
		match self {
			Ty::Inner => "inner",
			Ty::Local => "local",
			Ty::Anon => "anonymous",
		}
	}
	pub fn parse(s: &str) -> Option<Ty> {
		Some(match s {
			"inner" => Ty::Inner,
			"local" => Ty::Local,
			"anonymous" => Ty::Anon,
			_ => return None,
		})
	}
}

#[derive(Clone, Copy, Debug, PartialEq, Eq, Hash, PartialOrd, Ord)]
pub enum NameK {
	/// the simple name of the class (`B` for `p/B`)
	Derived,
	/// a name the class name does not end with (`Xb`)
	Custom,
	/// a positive number (`1` for `p/B`, another digit per class so that siblings do not collide)
	Pos,
	/// `0`
	Zero,
	/// digit prefix + custom name (`1LocB`)
	LocCustom,
	/// digit prefix + simple name of the class (`1B`)
	LocDerived,
	/// a positive number of two digits (`11` for `p/B`)
	Pos2,
	/// the largest number a 32-bit reader accepts (`2147483647`)
	PosMax,
	/// `00`: numeric, not positive
	Zeros,
	/// the part of the simple name behind its last `__` (`D` for `p/A__D`; the whole simple name where there is no `__`):
	/// the inner name an already-nested `C__D` name carries
	Tail,
	/// digit prefix + that part (`1D`)
	LocTail,
}

#[derive(Clone, Copy, Debug, PartialEq, Eq, Hash, PartialOrd, Ord)]
pub enum MethK {
	None,
	/// a method the enclosing class declares (if that class is in the jar)
	Present,
	/// a method no class declares (the name of the present one, another descriptor)
	Absent,
	/// a method no class declares (the descriptor of the present one, another name)
	OtherName,
	/// a method only the nested class itself declares (`onlyB()V` for `p/B`), not the enclosing class
	InNestedOnly,
}

#[derive(Clone, Copy, Debug, PartialEq, Eq, Hash, PartialOrd, Ord)]
pub struct Kind {
	pub ty: Ty,
	pub meth: MethK,
	pub name: NameK,
}

const fn k(ty: Ty, meth: MethK, name: NameK) -> Kind {
	Kind { ty, meth, name }
}

/// every entry kind explored for tables of one and two entries
pub const KINDS_FULL: &[Kind] = &[
	k(Ty::Inner, MethK::None, NameK::Derived),
	k(Ty::Inner, MethK::Present, NameK::Custom),
	k(Ty::Local, MethK::Present, NameK::LocDerived),
	k(Ty::Local, MethK::None, NameK::LocCustom),
	k(Ty::Anon, MethK::None, NameK::Pos),
	k(Ty::Anon, MethK::Present, NameK::Zero),
	// --- the first six are the core menu
	k(Ty::Inner, MethK::None, NameK::Custom),
	k(Ty::Inner, MethK::Absent, NameK::Derived),
	k(Ty::Local, MethK::Absent, NameK::LocDerived),
	k(Ty::Anon, MethK::Present, NameK::Pos),
	k(Ty::Local, MethK::Present, NameK::LocCustom),
	k(Ty::Anon, MethK::None, NameK::Zero),
	// --- the first twelve are the medium menu
	k(Ty::Inner, MethK::Present, NameK::Derived),
	k(Ty::Inner, MethK::Absent, NameK::Custom),
	k(Ty::Inner, MethK::None, NameK::Pos),
	k(Ty::Inner, MethK::None, NameK::LocCustom),
	k(Ty::Local, MethK::None, NameK::LocDerived),
	k(Ty::Local, MethK::Absent, NameK::LocCustom),
	k(Ty::Local, MethK::Present, NameK::Derived),
	k(Ty::Anon, MethK::Absent, NameK::Pos),
	k(Ty::Anon, MethK::None, NameK::Derived),
	k(Ty::Anon, MethK::None, NameK::LocCustom),
	// --- the first twenty-two are the menu of the first sessions (`OLD`); the rest: enclosing methods that are
	//     "present" only for a sloppy lookup, numbers at the edges of "positive numeric", already-nested names
	k(Ty::Local, MethK::OtherName, NameK::LocDerived),
	k(Ty::Inner, MethK::OtherName, NameK::Derived),
	k(Ty::Local, MethK::InNestedOnly, NameK::LocDerived),
	k(Ty::Inner, MethK::InNestedOnly, NameK::Derived),
	k(Ty::Anon, MethK::InNestedOnly, NameK::Pos),
	k(Ty::Anon, MethK::None, NameK::Pos2),
	k(Ty::Anon, MethK::Present, NameK::PosMax),
	k(Ty::Anon, MethK::None, NameK::Zeros),
	k(Ty::Inner, MethK::None, NameK::Tail),
	k(Ty::Local, MethK::Present, NameK::LocTail),
];
pub const CORE: usize = 6;
pub const MEDIUM: usize = 12;
pub const OLD: usize = 22;
/// a method name with the descriptor of `M_PRESENT` that no class declares
pub const M_OTHER_NAME: (&str, &str) = ("mm", "(Lp/B;[Lp/E;)Lp/C_12;");
/// the method only class `i` declares
pub fn only_method(i: usize) -> (String, String) {
	(format!("only{}", LETTER[i]), "()V".to_owned())
}
/// menu of the four-entry tables: one applying kind per type plus one rejected
pub const KINDS_MINI: &[Kind] = &[
	k(Ty::Inner, MethK::None, NameK::Derived),
	k(Ty::Local, MethK::Present, NameK::LocDerived),
	k(Ty::Anon, MethK::None, NameK::Pos),
	k(Ty::Inner, MethK::Present, NameK::Derived),
];

/// One line of a nests table, as plain strings (the oracle works on this, replays carry this).
#[derive(Clone, Debug, PartialEq, Eq, Hash, PartialOrd, Ord)]
pub struct Entry {
	pub ty: Ty,
	pub class: String,
	pub encl: String,
	pub method: Option<(String, String)>,
	pub inner: String,
	pub flags: u16,
}

pub fn inner_name(class: usize, name: NameK) -> String {
	let s = SIMPLE[class];
	match name {
		NameK::Derived => s.to_owned(),
		NameK::Custom => format!("X{}", s.to_lowercase()),
		NameK::Pos => ["4", "1", "2", "3", "5", "6"][class].to_owned(),
		NameK::Zero => "0".to_owned(),
		NameK::LocCustom => format!("1Loc{s}"),
		NameK::LocDerived => format!("1{s}"),
		NameK::Pos2 => ["14", "11", "12", "13", "15", "16"][class].to_owned(),
		NameK::PosMax => "2147483647".to_owned(),
		NameK::Zeros => "00".to_owned(),
		NameK::Tail => s.rsplit_once("__").map_or(s, |(_, t)| t).to_owned(),
		NameK::LocTail => format!("1{}", s.rsplit_once("__").map_or(s, |(_, t)| t)),
	}
}

pub fn entry(class: usize, encl: usize, kind: Kind) -> Entry {
	Entry {
		ty: kind.ty,
		class: CLS[class].to_owned(),
		encl: CLS[encl].to_owned(),
		method: match kind.meth {
			MethK::None => None,
			MethK::Present => Some((M_PRESENT.0.to_owned(), M_PRESENT.1.to_owned())),
			MethK::Absent => Some((M_ABSENT.0.to_owned(), M_ABSENT.1.to_owned())),
			MethK::OtherName => Some((M_OTHER_NAME.0.to_owned(), M_OTHER_NAME.1.to_owned())),
			MethK::InNestedOnly => Some(only_method(class)),
		},
		inner: inner_name(class, kind.name),
		flags: FLAGS[class],
	}
}

/// the classes other than `class`, in universe order: the candidates for its enclosing class
pub fn encl_choices(class: usize) -> Vec<usize> {
	(0..CLS.len()).filter(|c| *c != class).collect()
}

/// does following the enclosing classes from some entry come back to a class already seen?
pub fn has_cycle(t: &[Entry]) -> bool {
	let by_class: BTreeMap<&str, &str> = t.iter().map(|e| (e.class.as_str(), e.encl.as_str())).collect();
	for e in t {
		let mut cur = e.class.as_str();
		let mut steps = 0;
		while let Some(next) = by_class.get(cur) {
			cur = next;
			steps += 1;
			if steps > t.len() {
				return true;
			}
		}
	}
	false
}

/// A family of tables: every choice of `size` distinct nested classes (ascending) × for each the
/// enclosing class (5) × the entry kind (menu). Addressed by index.
pub struct TableSpace {
	pub size: usize,
	pub menu: &'static [Kind],
	/// class subsets (ascending class indices)
	pub subsets: Vec<Vec<usize>>,
	pub per_entry: usize,
}

impl TableSpace {
	pub fn new(size: usize, menu: &'static [Kind]) -> TableSpace {
		let subsets = vcore::enumerate::subsets_by_size(CLS.len()).into_iter().filter(|m| m.count_ones() as usize == size).map(|m| (0..CLS.len()).filter(|i| m & (1 << i) != 0).collect()).collect();
		TableSpace { size, menu, subsets, per_entry: (CLS.len() - 1) * menu.len() }
	}
	pub fn per_subset(&self) -> u64 {
		(self.per_entry as u64).pow(self.size as u32)
	}
	pub fn count(&self) -> u64 {
		self.subsets.len() as u64 * self.per_subset()
	}
	pub fn nth(&self, idx: u64) -> Vec<Entry> {
		let ps = self.per_subset();
		let subset = &self.subsets[(idx / ps) as usize];
		let mut rest = idx % ps;
		let mut out = Vec::with_capacity(self.size);
		for &class in subset.iter().rev() {
			let d = (rest % self.per_entry as u64) as usize;
			rest /= self.per_entry as u64;
			let encl = encl_choices(class)[d / self.menu.len()];
			out.push(entry(class, encl, self.menu[d % self.menu.len()]));
		}
		out.reverse();
		out
	}
}

// ---------------------------------------------------------------------------------------------
// the text form (six tab-separated columns: class, enclosing class, enclosing method name,
// enclosing method descriptor, inner name, access flags; the kind is read off the inner name)

/// the kind the text format assigns to an inner name
pub fn text_type(inner: &str) -> Ty {
	if inner.chars().all(|c| c.is_ascii_digit()) {
		Ty::Anon
	} else if inner.chars().next().is_some_and(|c| c.is_ascii_digit()) {
		Ty::Local
	} else {
		Ty::Inner
	}
}

pub fn text_expressible(t: &[Entry]) -> bool {
	t.iter().all(|e| text_type(&e.inner) == e.ty)
}

pub fn render_text(t: &[Entry]) -> String {
	let mut s = String::new();
	for (i, e) in t.iter().enumerate() {
		let (mn, md) = e.method.clone().unwrap_or_default();
		let access = match i % 3 {
			0 => format!("{}", e.flags),
			1 => format!("0x{:x}", e.flags),
			_ => format!("0b{:b}", e.flags),
		};
		s.push_str(&format!("{}\t{}\t{}\t{}\t{}\t{}\n", e.class, e.encl, mn, md, e.inner, access));
	}
	s
}

// ---------------------------------------------------------------------------------------------
// the real table

pub fn to_real<Ns>(t: &[Entry]) -> Nests<Ns> {
	let mut all = indexmap::IndexMap::new();
	for e in t {
		let c = |s: &str| mapmodel::cls(s).unwrap_or_else(|x| vcore::machinery_fail(&format!("duke rejects the class name {s:?}: {x:#}")));
		let nest = Nest {
			nest_type: match e.ty {
				Ty::Inner => NestType::Inner,
				Ty::Local => NestType::Local,
				Ty::Anon => NestType::Anonymous,
			},
			class_name: c(&e.class),
			encl_class_name: c(&e.encl),
			encl_method: e.method.as_ref().map(|(n, d)| MethodNameAndDesc {
				name: mapmodel::mname(n).unwrap_or_else(|x| vcore::machinery_fail(&format!("method name {n:?}: {x:#}"))),
				desc: mapmodel::mdesc(d).unwrap_or_else(|x| vcore::machinery_fail(&format!("method descriptor {d:?}: {x:#}"))),
			}),
			inner_name: c(&e.inner),
			inner_access: e.flags.into(),
		};
		all.insert(nest.class_name.clone(), nest);
	}
	Nests { phantom: PhantomData, all }
}

/// projection of a real table back into plain strings (in table order)
pub fn from_real<Ns>(n: &Nests<Ns>) -> Vec<(String, Entry)> {
	n.all.iter().map(|(key, nest)| {
		(key.as_inner().to_string(), Entry {
			ty: match nest.nest_type {
				NestType::Inner => Ty::Inner,
				NestType::Local => Ty::Local,
				NestType::Anonymous => Ty::Anon,
			},
			class: nest.class_name.as_inner().to_string(),
			encl: nest.encl_class_name.as_inner().to_string(),
			method: nest.encl_method.as_ref().map(|m| (m.name.as_inner().to_string(), m.desc.as_inner().to_string())),
			inner: nest.inner_name.as_inner().to_string(),
			flags: nest.inner_access.into(),
		})
	}).collect()
}

// ---------------------------------------------------------------------------------------------
// replay text

pub fn table_text(t: &[Entry]) -> String {
	let mut s = String::new();
	for e in t {
		let (mn, md) = e.method.clone().unwrap_or_default();
		s.push_str(&format!("nest|{}|{}|{}|{}|{}|{}|{}\n", e.ty.name(), e.class, e.encl, mn, md, e.inner, e.flags));
	}
	s
}

pub fn parse_table_text(body: &str) -> Vec<Entry> {
	body.lines().filter_map(|l| l.strip_prefix("nest|")).map(|l| {
		let f: Vec<&str> = l.split('|').collect();
		if f.len() != 7 {
			vcore::machinery_fail(&format!("bad nest line in replay: {l:?}"));
		}
		Entry {
			ty: Ty::parse(f[0]).unwrap_or_else(|| vcore::machinery_fail("bad nest type in replay")),
			class: f[1].to_owned(),
			encl: f[2].to_owned(),
			method: if f[3].is_empty() { None } else { Some((f[3].to_owned(), f[4].to_owned())) },
			inner: f[5].to_owned(),
			flags: f[6].parse().unwrap_or_else(|_| vcore::machinery_fail("bad flags in replay")),
		}
	}).collect()
}
