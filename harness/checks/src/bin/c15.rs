//! C15 — bridge targets inherit the bridge's mapped name, nothing else changes.
//!
//! Bounded exhaustive exploration of the REAL `add_specialized_methods_to_mappings` and
//! `Jar::get_specialized_methods` (compiled from `/repo/src/specialized_methods/mod.rs` through `fbrshim`):
//! every case is a jar of generated classes (cfmodel assembler, zipped in memory, opened with dukebox's
//! `UnnamedMemJar`), library jars, an official→intermediary and an intermediary→named mapping set.
//! The oracle (`c15/oracle.rs`) is written from the property statement over the class *models*; the produced
//! mappings are compared as whole `mapmodel::MSet`s ("nothing else changes").
//!
//! Spaces (each a complete product, see `bounds` in the evidence):
//!  * predicate: candidate flags × modifiers × call sets × delegate name × every signature (relation per position)
//!  * arity: delegate with one parameter more / fewer
//!  * mapping-states: kind of candidate × hierarchy level × placement of the parents (main jar, library jar,
//!    nowhere) × interface × where the bridge is named × delegate entry × class entry × calamus mode
//!  * relay (two spaces): the bridge in p/D over p/A ← p/B ← p/C ← p/D with the interface p/I (⊂ p/I0) on any class of
//!    the chain × where the bridge is named (every place above p/D) × the class entry of every super type in the
//!    named mappings {named, without target name, absent} × where calamus names the bridge × the class entry of every
//!    super type in calamus {present, absent} × where the delegate is declared (up to two levels above the call's owner)
//!  * multi: two candidates over the chain A ← B ← C (same delegate from two classes, two delegates in one
//!    class, bridge calling a bridge)

#[path = "c15/oracle.rs"]
mod oracle;
#[path = "c15/gen.rs"]
mod gen;
#[path = "c15/world.rs"]
mod world;

use rayon::prelude::*;
use vcore::enumerate::product_nth;
use vcore::{json, Ctx, Stats, Tier};
use gen::*;

fn sweep(ctx: &'static Ctx, name: &str, n: u64, case: impl Fn(u64) -> Option<(String, oracle::Input)> + Sync) -> Stats {
	sweep_pairs(ctx, name, n, 1, case)
}

/// `pairs_every`: `get_specialized_methods` is run directly on every `pairs_every`-th case only (the main jar is
/// the same for the cases in between, which differ in the mapping sets alone)
fn sweep_pairs(ctx: &'static Ctx, name: &str, n: u64, pairs_every: u64, case: impl Fn(u64) -> Option<(String, oracle::Input)> + Sync) -> Stats {
	// development aid: C15_ONLY=<space> runs one space only (the floors then fail: exit 2, never a verdict)
	if std::env::var("C15_ONLY").is_ok_and(|only| only != name) {
		return Stats::new();
	}
	// development aid: C15_CASE=<index> (with C15_ONLY) runs that one case of the space
	let one: Option<u64> = std::env::var("C15_CASE").ok().and_then(|v| v.parse().ok());
	let st = (one.unwrap_or(0)..one.map_or(n, |i| i + 1)).into_par_iter().fold(Stats::new, |mut st, idx| {
		if let Some((label, input)) = case(idx) {
			let label = format!("{name}/{idx}: {label}");
			if idx == 7 {
				// development aid: C15_DUMP=<dir> writes the 8th case of every space as a replay file
				if let Some(dir) = std::env::var_os("C15_DUMP") {
					let _ = std::fs::write(std::path::Path::new(&dir).join(format!("{name}.txt")), format!("property=C15\nkey=dump\nwhat=dumped case\n----\n{}\n", world::replay_text(&label, &input, &[])));
				}
			}
			vcore::watched(|| label.clone(), || world::run_case(ctx, &mut st, &label, &input, idx % pairs_every == 0));
		} else {
			st.outcome("skipped-duplicate-shape");
		}
		st
	}).reduce(Stats::new, Stats::merge);
	st
}

/// every signature of arity `lo..=hi`: (relation per parameter, return relation)
fn signatures(lo: usize, hi: usize) -> Vec<(Vec<usize>, usize)> {
	let mut out = Vec::new();
	for arity in lo..=hi {
		let mut dims = vec![REL.len(); arity];
		dims.push(ret_count());
		for idx in 0..vcore::enumerate::Product::size(&dims) {
			let mut v = product_nth(&dims, idx);
			let ret = v.pop().unwrap_or(0);
			out.push((v, ret));
		}
	}
	out
}

fn main() {
	let ctx: &'static Ctx = Box::leak(Box::new(Ctx::new("C15", "exploration")));
	if let Some(path) = ctx.replay.clone() {
		let body = vcore::replay_body(&path);
		let input = world::parse_replay(&body);
		let mut st = Stats::new();
		world::run_case(ctx, &mut st, "replay", &input, true);
		let mut st2 = Stats::new();
		world::run_case(ctx, &mut st2, "replay", &input, true);
		if st.outcomes != st2.outcomes {
			vcore::machinery_fail("replay: two runs of the same case observed different outcomes");
		}
		println!("replay outcomes: {:?}", st.outcomes);
		ctx.finish(json!({"evaluations": st.evaluations + st2.evaluations, "distinct_nontrivial": 2, "rule": "replay of one case, twice", "samples": [body.lines().next()], "outcomes": st.outcomes}), &[]);
	}
	let quick = ctx.tier == Tier::Quick;
	let mut total = Stats::new();
	let mut spaces = serde_json::Map::new();
	let mut run = |name: &str, st: Stats| {
		eprintln!("C15 {name}: {} evaluations, {:.1}s elapsed", st.evaluations, ctx.elapsed_s());
		spaces.insert(name.to_owned(), json!({"evaluations": st.evaluations, "distinct_inputs": st.distinct.len(), "outcomes": st.outcomes.iter().filter(|(k, _)| !k.starts_with("mechanism ")).collect::<std::collections::BTreeMap<_, _>>()}));
		total = std::mem::take(&mut total).merge(st);
	};

	// 1. predicate. Thorough: the full product flags × modifiers × call sets × delegate name × every signature of
	// arity ≤ 1. Quick: two complete sub-products of it — (a) every signature × the flags that let the signature
	// decide, (b) every flag/modifier/call-set combination × 16 signatures, one per compatibility class.
	let sigs01 = signatures(0, 1);
	let mods = ctx.tier.pick(4, MODIFIERS.len());
	let r = |k: usize| RET_ONLY.len() + k;
	let representative: Vec<(Vec<usize>, usize)> = vec![
		(vec![], 0), (vec![2], 0), (vec![1], r(3)), (vec![4], r(0)), (vec![6], 0), (vec![1], r(6)), (vec![8], 0), (vec![0], r(8)),
		(vec![], 1), (vec![11], r(12)), (vec![16], 0), (vec![14], 0), (vec![1], r(1)), (vec![5], r(2)), (vec![7], 0), (vec![10], 0),
	];
	if quick {
		let calls_a = [Calls::One, Calls::Twice, Calls::OnePlusArray];
		let dims = [2, mods, calls_a.len(), 2, sigs01.len()];
		let n = vcore::enumerate::Product::size(&dims);
		run("predicate-signatures", sweep(ctx, "predicate-signatures", n, |idx| {
			let v = product_nth(&dims, idx);
			let (params, ret) = sigs01[v[4]].clone();
			let spec = Spec { syn: Syn::Flag, bridge_flag: v[0] == 1, modifier: MODIFIERS[v[1]], calls: calls_a[v[2]], same_name: v[3] == 0, params, ret, ..Default::default() };
			Some((spec.label(), build(&spec).input))
		}));
		let dims = [SYNS.len(), 2, mods, CALLS.len(), 2, representative.len()];
		let n = vcore::enumerate::Product::size(&dims);
		run("predicate-flags", sweep(ctx, "predicate-flags", n, |idx| {
			let v = product_nth(&dims, idx);
			let (params, ret) = representative[v[5]].clone();
			let spec = Spec { syn: SYNS[v[0]], bridge_flag: v[1] == 1, modifier: MODIFIERS[v[2]], calls: CALLS[v[3]], same_name: v[4] == 0, params, ret, ..Default::default() };
			Some((spec.label(), build(&spec).input))
		}));
	} else {
		let dims = [SYNS.len(), 2, mods, CALLS.len(), 2, sigs01.len()];
		let n = vcore::enumerate::Product::size(&dims);
		run("predicate-arity-0-1", sweep(ctx, "predicate-arity-0-1", n, |idx| {
			let v = product_nth(&dims, idx);
			let (params, ret) = sigs01[v[5]].clone();
			let spec = Spec { syn: SYNS[v[0]], bridge_flag: v[1] == 1, modifier: MODIFIERS[v[2]], calls: CALLS[v[3]], same_name: v[4] == 0, params, ret, ..Default::default() };
			Some((spec.label(), build(&spec).input))
		}));
	}
	// 1b. signatures of arity 2 (quick: the inheritable synthetic candidate with one call; thorough: the wider product)
	let sigs2 = signatures(2, 2);
	let syn2: &[Syn] = ctx.tier.pick(&SYNS[..1], &SYNS[..]);
	let flag2: &[bool] = ctx.tier.pick(&[false], &[false, true]);
	let mods2: &[u16] = ctx.tier.pick(&[0], &[0, 0x0010]);
	let calls2: &[Calls] = ctx.tier.pick(&[Calls::One], &[Calls::One, Calls::TwoDifferent, Calls::OnePlusArray]);
	{
		let dims = [syn2.len(), flag2.len(), mods2.len(), calls2.len(), ctx.tier.pick(1, 2), sigs2.len()];
		let n = vcore::enumerate::Product::size(&dims);
		run("predicate-arity-2", sweep(ctx, "predicate-arity-2", n, |idx| {
			let v = product_nth(&dims, idx);
			let (params, ret) = sigs2[v[5]].clone();
			let spec = Spec { syn: syn2[v[0]], bridge_flag: flag2[v[1]], modifier: mods2[v[2]], calls: calls2[v[3]], same_name: v[4] == 0, params, ret, ..Default::default() };
			Some((spec.label(), build(&spec).input))
		}));
	}
	// 2. arity ±1
	{
		let mut shapes: Vec<Vec<usize>> = Vec::new();
		for arity in 1..=2 {
			let dims = vec![3; arity];
			for idx in 0..vcore::enumerate::Product::size(&dims) {
				shapes.push(product_nth(&dims, idx)); // relations 0..3: equal-primitive, equal-class, erased-to-object
			}
		}
		let rets = [0usize, RET_ONLY.len() + 1, RET_ONLY.len() + 2]; // void-void, equal-class, erased-to-object
		let dims = [shapes.len(), rets.len(), 3, 2, 2, 2, OWNERS.len()];
		let n = vcore::enumerate::Product::size(&dims);
		run("arity-delta", sweep(ctx, "arity-delta", n, |idx| {
			let v = product_nth(&dims, idx);
			let spec = Spec { params: shapes[v[0]].clone(), ret: rets[v[1]], delta: [1, -1, 0][v[2]], syn: [Syn::Flag, Syn::No][v[3]], bridge_flag: v[4] == 1, same_name: v[5] == 0, owner: OWNERS[v[6]], ..Default::default() };
			Some((spec.label(), build(&spec).input))
		}));
	}
	// 3. mapping states
	let kinds_all: Vec<Spec> = vec![
		Spec { syn: Syn::Flag, bridge_flag: true, params: vec![7], ret: 2, ..Default::default() },   // flagged bridge with an otherwise incompatible signature
		Spec { syn: Syn::Flag, bridge_flag: false, params: vec![2], ret: RET_ONLY.len() + 3, ..Default::default() }, // unflagged: parameter erased to Object, covariant return
		Spec { syn: Syn::Flag, bridge_flag: false, calls: Calls::TwoDifferent, params: vec![2], ..Default::default() },
		Spec { syn: Syn::No, bridge_flag: true, params: vec![2], ..Default::default() },
		Spec { syn: Syn::Flag, bridge_flag: false, params: vec![6], ..Default::default() },
	];
	let kinds = &kinds_all[..ctx.tier.pick(2, 5)];
	// (level, place of A, place of B): placements only of the classes above the candidate's class
	let mut shapes: Vec<(usize, Place, Place)> = Vec::new();
	for pa in PLACES {
		for pb in PLACES {
			shapes.push((2, pa, pb));
		}
		shapes.push((1, pa, Place::Main));
	}
	shapes.push((0, Place::Main, Place::Main));
	let owner_names: Vec<(Owner, bool)> = vec![(Owner::This, true), (Owner::This, false), (Owner::Super, true), (Owner::Unrelated, false), (Owner::OutOfJar, false), (Owner::Super, false), (Owner::Unrelated, true), (Owner::OutOfJar, true)];
	let calami: &[Calamus] = &CALAMI[..];
	let owner_names = &owner_names[..ctx.tier.pick(4, 8)];
	let ifaces: &[Iface] = ctx.tier.pick(&IFACES[..2], &IFACES[..]);
	{
		let dims = [kinds.len(), shapes.len(), owner_names.len(), ASUPERS.len(), ifaces.len(), NAME_ATS.len(), DELEGATE_ENTRIES.len(), CLASS_ENTRIES.len(), CALAMI.len()];
		let n = vcore::enumerate::Product::size(&dims);
		run("mapping-states", sweep_pairs(ctx, "mapping-states", n, (NAME_ATS.len() * DELEGATE_ENTRIES.len() * CLASS_ENTRIES.len() * CALAMI.len()) as u64, |idx| {
			let v = product_nth(&dims, idx);
			let (level, place_a, place_b) = shapes[v[1]];
			let (owner, same_name) = owner_names[v[2]];
			let spec = Spec { level, place_a, place_b, owner, same_name, a_super: ASUPERS[v[3]], iface: ifaces[v[4]], name_at: NAME_ATS[v[5]], delegate_entry: DELEGATE_ENTRIES[v[6]], class_entry: CLASS_ENTRIES[v[7]], calamus: CALAMI[v[8]], ..kinds[v[0]].clone() };
			Some((spec.label(), build(&spec).input))
		}));
	}
	// 3b. relay: the bridge in p/D over the chain p/A <- p/B <- p/C <- p/D with the interface p/I (optionally extending
	// p/I0) on any class of the chain. The bridge's name comes from any place above p/D; the class entry of every
	// class on the way (and off the way) is present, present without target name or absent in the named mappings
	// and present or absent in the calamus mappings. A class that names nothing itself hands the question on to its
	// own super types, whether or not the mappings have an entry for it.
	let ent_sets: Vec<[Ent; 5]> = (0..243u64).map(|i| {
		let v = product_nth(&[3; 5], i);
		[ENTS[v[0]], ENTS[v[1]], ENTS[v[2]], ENTS[v[3]], ENTS[v[4]]]
	}).collect();
	let absent_sets: Vec<[bool; 5]> = (0..32u64).map(|i| {
		let v = product_nth(&[2; 5], i);
		[v[0] == 1, v[1] == 1, v[2] == 1, v[3] == 1, v[4] == 1]
	}).collect();
	// without p/I0 everything that concerns p/I0 alone repeats another case
	let relay_spec = |kind: &Spec, iface_on: usize, iface_super: bool, decl: Decl, name_at: NameAt, ent_named: [Ent; 5], calamus: Calamus, calamus_absent: [bool; 5]| -> Option<(String, oracle::Input)> {
		if !iface_super && (ent_named[4] != Ent::Named || calamus_absent[4] || calamus == Calamus::RenamesIface0 || matches!(name_at, NameAt::Iface0 | NameAt::Up3AndIface0)) {
			return None;
		}
		let spec = Spec { level: 3, iface: Iface::Main, iface_on, iface_super, decl, same_name: false, name_at, ent_named, calamus, calamus_absent, ..kind.clone() };
		Some((spec.label(), build(&spec).input))
	};
	let relay_modes: &[Calamus] = ctx.tier.pick(&CALAMI_RELAY[..2], &CALAMI_RELAY[..]);
	let relay_absent: &[[bool; 5]] = ctx.tier.pick(&absent_sets[..1], &absent_sets[..]);
	{
		// (the unflagged compatible synthetic here, the flagged bridge in the next space: the kind of candidate decides
		// whether there is a pair, not where its name comes from)
		let dims = [4, 2, NAME_ATS_RELAY.len(), ent_sets.len(), relay_modes.len(), relay_absent.len()];
		let n = vcore::enumerate::Product::size(&dims);
		run("relay-named-entries", sweep_pairs(ctx, "relay-named-entries", n, (NAME_ATS_RELAY.len() * ent_sets.len() * relay_modes.len() * relay_absent.len()) as u64, |idx| {
			let v = product_nth(&dims, idx);
			relay_spec(&kinds_all[1], v[0], v[1] == 1, Decl::AtOwner, NAME_ATS_RELAY[v[2]], ent_sets[v[3]], relay_modes[v[4]], relay_absent[v[5]])
		}));
	}
	// named class entries of [p/C, p/B, p/A, p/I, p/I0] in this space: everything present, the lowest one / two / three
	// classes of the chain absent, everything without target name
	let (en, ea, ew) = (Ent::Named, Ent::Absent, Ent::WithoutTargetName);
	let uniform_ents_all: [[Ent; 5]; 5] = [[en; 5], [ea, ea, en, en, en], [ea, en, en, en, en], [ea, ea, ea, en, en], [ew; 5]];
	let uniform_ents = &uniform_ents_all[..ctx.tier.pick(2, 5)];
	let relay_decls = [Decl::AtOwner, Decl::AboveOwner, Decl::TwoAboveOwner];
	let relay_kinds = ctx.tier.pick(1, 2);
	{
		let dims = [relay_kinds, 4, 2, relay_decls.len(), NAME_ATS_RELAY.len(), uniform_ents.len(), CALAMI_RELAY.len(), absent_sets.len()];
		let n = vcore::enumerate::Product::size(&dims);
		run("relay-calamus-entries", sweep_pairs(ctx, "relay-calamus-entries", n, (NAME_ATS_RELAY.len() * uniform_ents.len() * CALAMI_RELAY.len() * absent_sets.len()) as u64, |idx| {
			let v = product_nth(&dims, idx);
			relay_spec(&kinds_all[v[0]], v[1], v[2] == 1, relay_decls[v[3]], NAME_ATS_RELAY[v[4]], uniform_ents[v[5]], CALAMI_RELAY[v[6]], absent_sets[v[7]])
		}));
	}
	// 4. two candidates
	{
		let dims = [MODES.len(), 3, 3, KINDS.len(), KINDS.len(), 3, 2, 2, 2];
		let n = vcore::enumerate::Product::size(&dims);
		run("two-candidates", sweep(ctx, "two-candidates", n, |idx| {
			let v = product_nth(&dims, idx);
			let m = Multi { mode: MODES[v[0]], at: [v[1], v[2]], kind: [KINDS[v[3]], KINDS[v[4]]], name1: v[5], name2: v[6], first_class_absent: v[7] == 1, delegate_named: v[8] == 1 };
			Some((format!("{m:?}"), build_multi(&m)))
		}));
	}

	// 5. javac's own output as main jar
	let corpus = corpus_inputs(&vcore::verif_root());
	let n_corpus = corpus.len();
	run("javac-corpus", sweep(ctx, "javac-corpus", n_corpus as u64, |idx| corpus.get(idx as usize).cloned()));

	let mech = |t: &str| total.get(&format!("mechanism {t}"));
	ctx.floor("renames through a flagged bridge", 1, mech("rename:flagged"));
	ctx.floor("renames through an unflagged compatible synthetic", 1, mech("rename:unflagged"));
	ctx.floor("renames with the bridge named directly", 1, mech("rename:named-directly"));
	ctx.floor("renames with the name inherited from the direct super type", 1, mech("rename:inherited-depth-1"));
	ctx.floor("renames with the name inherited from a super type two levels up", 1, mech("rename:inherited-depth-2"));
	for d in 3..=5 {
		ctx.floor(&format!("renames with the name inherited from a super type {d} levels up"), 1, mech(&format!("rename:inherited-depth-{d}")));
	}
	for (what, tag) in [
		("handed on by a class without entry in the mappings", "name-relayed-by-a-class-without-entry-in-the-mappings"),
		("handed on by two or more classes without entry in the mappings", "name-relayed-by-two-or-more-classes-without-entry-in-the-mappings"),
		("handed on by a class without entry in the mappings to its interface", "name-relayed-by-a-class-without-entry-in-the-mappings-to-its-interface"),
		("handed on by a class whose entry has no target name", "name-relayed-by-a-class-entry-without-target-name"),
		("handed on by a class that lists the bridge without target name", "name-relayed-by-a-class-that-lists-the-bridge-without-target-name"),
	] {
		ctx.floor(&format!("renames with the name {what}"), 100, mech(&format!("rename:{tag}")));
	}
	for who in ["bridge", "delegate"] {
		ctx.floor(&format!("renames with the {who}'s intermediary name inherited"), 100, mech(&format!("rename:{who}-intermediary-name-inherited")));
		ctx.floor(&format!("renames with the {who}'s intermediary name handed on by a class without calamus entry"), 100, mech(&format!("rename:{who}-intermediary-name-relayed-by-a-class-without-calamus-entry")));
	}
	ctx.floor("renames with the bridge's intermediary name handed on by two or more classes without calamus entry", 100, mech("rename:bridge-intermediary-name-relayed-by-two-or-more-classes-without-calamus-entry"));
	ctx.floor("renames with the bridge's intermediary name handed on by a class without calamus entry to its interface", 100, mech("rename:bridge-intermediary-name-relayed-by-a-class-without-calamus-entry-to-its-interface"));
	ctx.floor("renames through real calamus renames", 1, mech("rename:through-real-calamus-renames"));
	ctx.floor("renames of a delegate owned by another class", 1, mech("rename:delegate-owned-by-another-class"));
	ctx.floor("renames that add a new entry", 1, mech("rename:adds-entry"));
	ctx.floor("renames that replace the name of an existing entry", 1, mech("rename:replaces-existing-name"));
	ctx.floor("renames that replace only the name (comment and parameters kept)", 1, mech("rename:replaces-name-keeps-comment-and-parameters"));
	for r in ["not-synthetic", "calls-none", "calls-several", "private", "static", "final", "arity", "incompatible-param:class", "incompatible-param:primitive", "incompatible-return:class", "incompatible-return:primitive", "incompatible-return:void"] {
		ctx.floor(&format!("rejections: {r}"), 1, mech(&format!("reject:{r}")));
	}
	ctx.floor("cases with two or more bridges found in one jar", 1, total.get("pairs:two-or-more-bridges"));
	ctx.floor("results equal to the given mappings (required)", 100, total.get("add:unchanged-as-required"));
	ctx.floor("results that differ from the given mappings (required)", 100, total.get("add:renamed-as-required"));
	ctx.floor("javac corpus inputs", 6, n_corpus as u64);
	ctx.floor("cases", ctx.tier.pick(50_000, 1_000_000), total.get("add:renamed-as-required") + total.get("add:unchanged-as-required") + total.get("add:renamed-one-of-the-accepted-readings") + total.get("add:unchanged-one-of-the-accepted-readings"));

	let mechanisms: std::collections::BTreeMap<&str, u64> = total.outcomes.iter().filter_map(|(k, v)| k.strip_prefix("mechanism ").map(|k| (k, *v))).collect();
	let outcomes: std::collections::BTreeMap<&String, &u64> = total.outcomes.iter().filter(|(k, _)| !k.starts_with("mechanism ")).collect();
	let coverage = json!({
		"evaluations": total.evaluations,
		"distinct_nontrivial": total.distinct.len(),
		"rule": "every case = one (main jar, library jars, calamus, mappings) input; evaluations = executions of the real add_specialized_methods_to_mappings (one per case) + get_specialized_methods (one per case; in the mapping-state space one per distinct jar); distinct_nontrivial = distinct inputs (hash of the class models and both mapping sets), every one of which contains at least one candidate method",
		"exhaustive": true,
		"samples": total.samples,
		"outcomes": outcomes,
		"mechanisms": mechanisms,
		"spaces": spaces,
		"bounds": {
			"hierarchy": "p/A <- p/B <- p/C (depth 3; relay spaces: <- p/D, depth 4, interface p/I extending p/I0 on any class of the chain), A's super in {java/lang/Object, lib/L in a library jar, ext/E in no jar}, interface p/I in {absent, main jar, library jar}, A and B each in {main jar, library jar, no jar}",
			"position_relations": REL.iter().map(|r| r.0).collect::<Vec<_>>(),
			"return_only_relations": RET_ONLY.iter().map(|r| r.0).collect::<Vec<_>>(),
			"call_sets": CALLS.iter().map(|c| format!("{c:?}")).collect::<Vec<_>>(),
			"synthetic": SYNS.iter().map(|c| format!("{c:?}")).collect::<Vec<_>>(),
			"modifiers": MODIFIERS[..mods].iter().map(|m| format!("{m:#06x}")).collect::<Vec<_>>(),
			"predicate_space": if quick { "two complete sub-products: (a) bridge flag × modifiers × calls {One, Twice, OnePlusArray} × delegate name × every signature of arity 0..1 with ACC_SYNTHETIC set; (b) synthetic × bridge flag × modifiers × all call sets × delegate name × 16 representative signatures (one per compatibility class)" } else { "synthetic × bridge flag × modifiers × call sets × delegate name {same, different} × every signature of arity 0..1 (relation per parameter × return relation)" },
			"arity_2_space": format!("{} signatures × synthetic {:?} × bridge flag {:?} × modifiers {:?} × calls {:?} × delegate name", sigs2.len(), syn2, flag2, mods2, calls2),
			"arity_delta_space": "parameter shapes over {equal-primitive, equal-class, erased-to-object}^(1..2) × return {void, equal-class, erased-to-object} × delta {+1, -1, 0} × synthetic × bridge flag × delegate name × delegate owner",
			"mapping_state_space": format!("{} candidate kinds × {} (level, placement) shapes × {} (delegate owner, name) × A-super 3 × interface {} × name location {:?} × delegate entry {:?} × class entry {:?} × calamus {:?}", kinds.len(), shapes.len(), owner_names.len(), ifaces.len(), NAME_ATS, DELEGATE_ENTRIES, CLASS_ENTRIES, CALAMI),
			"relay_named_entries_space": format!("bridge (unflagged compatible synthetic) in p/D over p/A <- p/B <- p/C <- p/D: interface p/I on the class 0..3 levels above p/D × p/I extends p/I0 {{no, yes}} × name location {:?} × class entry of [p/C, p/B, p/A, p/I, p/I0] in the named mappings {:?}^5 × calamus {:?} × {} subsets of [p/C, p/B, p/A, p/I, p/I0] without calamus entry (cases that differ only in something about an absent p/I0 are generated once)", NAME_ATS_RELAY, ENTS, relay_modes, relay_absent.len()),
			"relay_calamus_entries_space": format!("same worlds: {} candidate kinds (flagged bridge; unflagged compatible synthetic) × interface position 0..3 × p/I0 {{no, yes}} × delegate declared {:?} × name location {:?} × named class entries {:?} × calamus {:?} × all 32 subsets of [p/C, p/B, p/A, p/I, p/I0] without calamus entry", relay_kinds, relay_decls, NAME_ATS_RELAY, uniform_ents, CALAMI_RELAY),
			"two_candidate_space": "mode {same delegate, different delegates, chain} × class of each candidate {A,B,C}² × kind {flagged, unflagged, not synthetic}² × name of first {own, in A, nowhere} × name of second {own, nowhere} × first class absent × delegate already named",
			"javac_corpus": "the vendored javac-17 corpus (main, main8, main11) as main jar × naming scheme {every synthetic named directly, only ordinary methods with a bridge's signature named, nothing named} × calamus {identity, empty}",
			"signatures_arity_0_1": sigs01.len(),
			"signatures_arity_2": sigs2.len(),
		},
	});
	let _ = calami;
	if std::env::var_os("C15_PROFILE").is_some() {
		let names = ["oracle", "jars", "to_quill", "hash", "get_specialized_methods", "add_specialized_methods_to_mappings"];
		for (n, p) in names.iter().zip(world::PROFILE.iter()) {
			eprintln!("C15 profile {n}: {:.1}s", p.load(std::sync::atomic::Ordering::Relaxed) as f64 / 1e9);
		}
	}
	ctx.finish(coverage, &[
		"the oracle reads the property statement; 'bridge-compatible' is the relation DESIGN §2 C15 documents (equal; or both class types with the bridge side java/lang/Object, unknown to the main jar, an ancestor of the specialised side, or the specialised side having an ancestor outside the main jar)",
		"where statement and documentation are silent both outcomes are accepted: Synthetic attribute without ACC_SYNTHETIC, array types that differ, a specialised type unknown to the jar against an in-jar bridge type, a bridge without any name (nothing happens or the fall-back name is written), a bridge's class absent from the mappings, equally near super types naming the bridge differently",
		"'invokes exactly one distinct method' counts invoke{virtual,special,static,interface} references on non-array classes as a set of (owner, name, descriptor); references that differ only in the owner are outside the domain (explored for panics only)",
		"inputs with two bridges for one delegate in one class are outside the property's quantifier (explored for panics only)",
		"specialized_to_bridge: with several bridges for one delegate any of them is accepted (the tie-break is not part of the statement)",
		"jars hold generated classes only (cfmodel assembler, self-checked against the independent parser); javac output is not needed for this property",
	]);
}
