//! Deterministic generators of C15 cases: jars of generated classes + calamus + mappings.
//!
//! Nothing here decides a verdict: the oracle works on the generated `Input` alone.

use std::collections::BTreeMap;
use cfmodel::gen::{bootstrap, js, mref, RETURN};
use cfmodel::model::*;
use mapmodel::{MClass, MField, MMethod, MParam, MSet};
use crate::oracle::{Input, MRef, World, ACC_BRIDGE, ACC_SYNTHETIC};

pub const OBJ: &str = "Ljava/lang/Object;";

/// signature relation of one position: (label, type on the bridge side, type on the specialised side)
pub const REL: &[(&str, &str, &str)] = &[
	("equal-primitive", "I", "I"),
	("equal-class", "Lp/T2;", "Lp/T2;"),
	("erased-to-object", OBJ, "Lp/T2;"),
	("erased-to-parent", "Lp/T1;", "Lp/T2;"),
	("erased-to-grandparent", "Lp/T0;", "Lp/T2;"),
	("erased-to-interface", "Lp/J;", "Lp/T2;"),
	("non-ancestor", "Lp/U;", "Lp/T2;"),
	("descendant-instead-of-ancestor", "Lp/T2;", "Lp/T1;"),
	("primitive-mismatch", "I", "J"),
	("primitive-vs-class", "I", "Lp/T2;"),
	("object-vs-primitive", OBJ, "I"),
	("bridge-side-unknown-to-jar", "Lext/K;", "Lp/T2;"),
	("specialised-side-has-ancestor-outside-jar", "Lp/U;", "Lp/X;"),
	("equal-array", "[I", "[I"),
	("specialised-side-unknown-to-jar", "Lp/T0;", "Ljava/lang/Integer;"),
	("object-vs-unknown-class", OBJ, "Ljava/lang/Integer;"),
	("array-covariance", "[Ljava/lang/Object;", "[Lp/T2;"),
	("object-vs-array", OBJ, "[I"),
	("unknown-vs-unknown", "Lext/K;", "Ljava/lang/Integer;"),
	("erased-to-interface-of-grandparent", "Lp/J0;", "Lp/T2;"),
	("erased-to-superinterface", "Lp/J1;", "Lp/T2;"),
	("jar-class-vs-library-class", "Lp/U;", "Llib/L;"),
];
/// return-only relations
pub const RET_ONLY: &[(&str, &str, &str)] = &[
	("void-void", "V", "V"),
	("void-vs-value", "V", "I"),
	("value-vs-void", "I", "V"),
	("void-vs-class", "V", "Lp/T2;"),
	("object-vs-void", OBJ, "V"),
];

pub fn ret_rel(i: usize) -> (&'static str, &'static str, &'static str) {
	if i < RET_ONLY.len() { RET_ONLY[i] } else { REL[i - RET_ONLY.len()] }
}
pub fn ret_count() -> usize {
	RET_ONLY.len() + REL.len()
}

#[derive(Clone, Copy, Debug, PartialEq, Eq)]
pub enum Place { Main, Lib, Nowhere }
pub const PLACES: [Place; 3] = [Place::Main, Place::Lib, Place::Nowhere];

#[derive(Clone, Copy, Debug, PartialEq, Eq)]
pub enum ASuper { Object, LibL, Ext }
pub const ASUPERS: [ASuper; 3] = [ASuper::Object, ASuper::LibL, ASuper::Ext];

#[derive(Clone, Copy, Debug, PartialEq, Eq)]
pub enum Iface { None, Main, Lib }
pub const IFACES: [Iface; 3] = [Iface::None, Iface::Main, Iface::Lib];

#[derive(Clone, Copy, Debug, PartialEq, Eq)]
pub enum Syn { No, Flag, AttributeOnly }
pub const SYNS: [Syn; 3] = [Syn::Flag, Syn::No, Syn::AttributeOnly];

#[derive(Clone, Copy, Debug, PartialEq, Eq)]
pub enum Calls { One, None, Twice, TwoDifferent, TwoDescriptorsDiffer, IndyOnly, OnePlusIndy, ArrayOnly, OnePlusArray, NoCode, TwiceDifferentOpcode, TwoOwnersDiffer }
pub const CALLS: [Calls; 12] = [Calls::One, Calls::None, Calls::Twice, Calls::TwoDifferent, Calls::TwoDescriptorsDiffer, Calls::IndyOnly, Calls::OnePlusIndy, Calls::ArrayOnly, Calls::OnePlusArray, Calls::NoCode, Calls::TwiceDifferentOpcode, Calls::TwoOwnersDiffer];

#[derive(Clone, Copy, Debug, PartialEq, Eq)]
pub enum Owner { This, Super, Unrelated, OutOfJar }
pub const OWNERS: [Owner; 4] = [Owner::This, Owner::Super, Owner::Unrelated, Owner::OutOfJar];

#[derive(Clone, Copy, Debug, PartialEq, Eq)]
pub enum NameAt { Direct, Up1, Up2, Iface, DirectAndUp1, DirectUnnamedAndUp1, Up2AndIface, Nowhere, Up3, Iface0, Up1UnnamedAndUp2, Up3AndIface0 }
/// the name locations of the relay space: everything above the bridge's class (and the direct name as control)
pub const NAME_ATS_RELAY: [NameAt; 10] = [NameAt::Direct, NameAt::Up1, NameAt::Up2, NameAt::Up3, NameAt::Iface, NameAt::Iface0, NameAt::Up1UnnamedAndUp2, NameAt::Up2AndIface, NameAt::Up3AndIface0, NameAt::Nowhere];
pub const NAME_ATS: [NameAt; 8] = [NameAt::Direct, NameAt::Up1, NameAt::Up2, NameAt::Iface, NameAt::DirectAndUp1, NameAt::DirectUnnamedAndUp1, NameAt::Up2AndIface, NameAt::Nowhere];

#[derive(Clone, Copy, Debug, PartialEq, Eq)]
pub enum DelegateEntry { Absent, Unnamed, Named, NamedWithCommentAndParameters }
pub const DELEGATE_ENTRIES: [DelegateEntry; 4] = [DelegateEntry::Absent, DelegateEntry::Unnamed, DelegateEntry::Named, DelegateEntry::NamedWithCommentAndParameters];

#[derive(Clone, Copy, Debug, PartialEq, Eq)]
pub enum ClassEntry { Named, WithoutTargetName, Absent }
pub const CLASS_ENTRIES: [ClassEntry; 3] = [ClassEntry::Named, ClassEntry::WithoutTargetName, ClassEntry::Absent];

#[derive(Clone, Copy, Debug, PartialEq, Eq)]
pub enum Calamus { Identity, Empty, Renames, RenamesInherited, RenamesUp1, RenamesUp2, RenamesIface, RenamesIface0 }
/// calamus modes in which the bridge's intermediary name comes from a super type only
pub const CALAMI_INHERITING: [Calamus; 5] = [Calamus::RenamesInherited, Calamus::RenamesUp1, Calamus::RenamesUp2, Calamus::RenamesIface, Calamus::RenamesIface0];

/// state of a class entry of the intermediary→named mappings
#[derive(Clone, Copy, Debug, PartialEq, Eq)]
pub enum Ent { Named, WithoutTargetName, Absent }
pub const ENTS: [Ent; 3] = [Ent::Named, Ent::WithoutTargetName, Ent::Absent];

/// where the delegate is declared: in the class the call names, in that class' super class (the call names a
/// sub class, as javac does), two levels above the class the call names, in no class of any jar
#[derive(Clone, Copy, Debug, PartialEq, Eq)]
pub enum Decl { AtOwner, AboveOwner, TwoAboveOwner, Nowhere }
pub const DECLS: [Decl; 4] = [Decl::AtOwner, Decl::AboveOwner, Decl::TwoAboveOwner, Decl::Nowhere];

/// what kind of class file holds the candidate
#[derive(Clone, Copy, Debug, PartialEq, Eq)]
pub enum Holder { Class, Interface, Abstract, Final, Synthetic, Enum }
pub const HOLDERS: [Holder; 6] = [Holder::Class, Holder::Interface, Holder::Abstract, Holder::Final, Holder::Synthetic, Holder::Enum];
pub const CALAMI: [Calamus; 4] = [Calamus::Identity, Calamus::Empty, Calamus::Renames, Calamus::RenamesInherited];
/// the calamus modes of the relay space: the bridge's intermediary name from every place above the bridge's class
pub const CALAMI_RELAY: [Calamus; 8] = [Calamus::Identity, Calamus::RenamesUp2, Calamus::RenamesIface, Calamus::RenamesIface0, Calamus::RenamesUp1, Calamus::RenamesInherited, Calamus::Renames, Calamus::Empty];

/// modifiers explored on the candidate: none, private, static, final, static final, private static final
pub const MODIFIERS: [u16; 6] = [0, 0x0002, 0x0008, 0x0010, 0x0018, 0x001a];

/// One world with one candidate method.
#[derive(Clone, Debug)]
pub struct Spec {
	/// the candidate's class: 0 = p/A, 1 = p/B (extends p/A), 2 = p/C (extends p/B), 3 = p/D (extends p/C)
	pub level: usize,
	pub place_a: Place,
	pub place_b: Place,
	pub place_c: Place,
	/// the interface p/I is attached to the class this many levels above the candidate's class
	pub iface_on: usize,
	/// p/I extends p/I0 (which declares the method too)
	pub iface_super: bool,
	/// class entries of the intermediary→named mappings of [1 up, 2 up, 3 up, p/I, p/I0]
	pub ent_named: [Ent; 5],
	/// [1 up, 2 up, 3 up, p/I, p/I0] has no class entry in the calamus mappings
	pub calamus_absent: [bool; 5],
	pub decl: Decl,
	pub holder: Holder,
	/// fields in the candidate's class
	pub fields: usize,
	/// the candidate's class holds further methods with calls (the delegate calls helpers, an ordinary and a static
	/// synthetic method call the delegate, a synthetic method calls two methods)
	pub busy: bool,
	/// the candidate is the last method of its class (else the first)
	pub candidate_last: bool,
	/// class-level attributes on the candidate's class
	pub class_attrs: bool,
	/// a library jar holds a class with a flagged bridge, and the mappings name both of its methods
	pub lib_bridge: bool,
	pub a_super: ASuper,
	pub iface: Iface,
	pub syn: Syn,
	pub bridge_flag: bool,
	pub modifier: u16,
	pub calls: Calls,
	/// indices into REL
	pub params: Vec<usize>,
	/// index for `ret_rel`
	pub ret: usize,
	/// the delegate has this many parameters more than the candidate
	pub delta: i8,
	pub same_name: bool,
	pub owner: Owner,
	pub name_at: NameAt,
	pub delegate_entry: DelegateEntry,
	pub class_entry: ClassEntry,
	pub calamus: Calamus,
}

impl Default for Spec {
	fn default() -> Spec {
		Spec {
			level: 2, place_a: Place::Main, place_b: Place::Main, place_c: Place::Main, a_super: ASuper::Object, iface: Iface::None,
			iface_on: 0, iface_super: false, ent_named: [Ent::Named; 5], calamus_absent: [false; 5], decl: Decl::AtOwner,
			holder: Holder::Class, fields: 0, busy: false, candidate_last: false, class_attrs: false, lib_bridge: false,
			syn: Syn::Flag, bridge_flag: true, modifier: 0, calls: Calls::One, params: vec![2], ret: 0, delta: 0, same_name: true, owner: Owner::This,
			name_at: NameAt::Direct, delegate_entry: DelegateEntry::Absent, class_entry: ClassEntry::Named, calamus: Calamus::Identity,
		}
	}
}

impl Spec {
	pub fn label(&self) -> String {
		let p: Vec<&str> = self.params.iter().map(|i| REL[*i].0).collect();
		let base = format!("level={} A:{:?} B:{:?} A-super:{:?} iface:{:?} | {:?} bridge-flag={} modifier={:#06x} calls:{:?} params:{:?} return:{} delta={} same-name={} owner:{:?} | name:{:?} delegate:{:?} class:{:?} calamus:{:?}",
			self.level, self.place_a, self.place_b, self.a_super, self.iface, self.syn, self.bridge_flag, self.modifier, self.calls, p, ret_rel(self.ret).0, self.delta, self.same_name, self.owner,
			self.name_at, self.delegate_entry, self.class_entry, self.calamus);
		let d = Spec::default();
		let mut extra = String::new();
		if self.place_c != d.place_c || self.iface_on != 0 || self.iface_super {
			extra.push_str(&format!(" C:{:?} iface-on:+{} iface-super={}", self.place_c, self.iface_on, self.iface_super));
		}
		if self.ent_named != d.ent_named || self.calamus_absent != d.calamus_absent {
			extra.push_str(&format!(" entries[up1,up2,up3,I,I0]:{:?} calamus-absent:{:?}", self.ent_named, self.calamus_absent));
		}
		if self.decl != d.decl {
			extra.push_str(&format!(" delegate-declared:{:?}", self.decl));
		}
		if self.holder != d.holder || self.fields != 0 || self.busy || self.candidate_last || self.class_attrs || self.lib_bridge {
			extra.push_str(&format!(" holder:{:?} fields={} busy={} candidate-last={} class-attributes={} library-bridge={}", self.holder, self.fields, self.busy, self.candidate_last, self.class_attrs, self.lib_bridge));
		}
		base + &extra
	}
}

// ---------------------------------------------------------------------------------------------
// classes

pub fn class(name: &str, super_class: &str, interfaces: &[&str]) -> SClass {
	SClass { version: (52, 0), access: 0x0021, this_class: js(name), super_class: Some(js(super_class)), interfaces: interfaces.iter().map(|i| js(i)).collect(), ..Default::default() }
}

pub fn interface(name: &str, interfaces: &[&str]) -> SClass {
	SClass { access: 0x0601, ..class(name, "java/lang/Object", interfaces) }
}

pub fn method(access: u16, name: &str, desc: &str, insns: Option<Vec<SInsn>>) -> SMethod {
	SMethod { access, name: js(name), desc: js(desc), code: insns.map(|insns| SCode { max_stack: 8, max_locals: 8, insns, ..Default::default() }), ..Default::default() }
}

fn add_method(c: &mut SClass, m: SMethod) {
	if !c.methods.iter().any(|x| x.name == m.name && x.desc == m.desc) {
		c.methods.push(m);
	}
}

/// the classes the signature relations refer to (always in the main jar)
pub fn type_universe() -> Vec<SClass> {
	vec![
		class("p/T0", "java/lang/Object", &["p/J0"]),
		class("p/T1", "p/T0", &[]),
		class("p/T2", "p/T1", &["p/J"]),
		interface("p/J", &["p/J1"]),
		interface("p/J0", &[]),
		interface("p/J1", &[]),
		class("p/U", "java/lang/Object", &[]),
		class("p/X", "lib/L", &[]),
	]
}

fn invoke(op_: u8, r: &MRef) -> SInsn {
	SInsn::Invoke(op_, mref(&r.0, &r.1, &r.2), op_ == op::INVOKEINTERFACE)
}

fn indy() -> SInsn {
	SInsn::InvokeDynamic(SDynamic { bootstrap: bootstrap(0), name: js("run"), desc: js("()Ljava/lang/Runnable;") })
}

fn array_call() -> SInsn {
	SInsn::Invoke(op::INVOKEVIRTUAL, mref("[Lp/T2;", "clone", "()Ljava/lang/Object;"), false)
}

fn simple(c: &str) -> &str {
	c.rsplit('/').next().unwrap_or(c)
}

fn row2(a: &str, b: Option<&str>) -> Vec<Option<String>> {
	vec![Some(a.to_owned()), b.map(|s| s.to_owned())]
}

fn put_method(set: &mut MSet, class: &str, name: &str, desc: &str, target: Option<&str>) {
	let c = set.classes.entry(class.to_owned()).or_insert_with(|| MClass { names: row2(class, Some(&format!("n/{}", simple(class)))), ..Default::default() });
	c.methods.entry((name.to_owned(), desc.to_owned())).or_insert_with(|| MMethod { names: row2(name, target), ..Default::default() });
}

pub struct Built {
	pub input: Input,
}

pub fn descs(spec: &Spec) -> (String, String) {
	let mut b = String::from("(");
	let mut sp = String::from("(");
	for p in &spec.params {
		b.push_str(REL[*p].1);
		sp.push_str(REL[*p].2);
	}
	if spec.delta > 0 {
		sp.push('I');
	} else if spec.delta < 0 {
		// one parameter fewer: rebuild without the last one
		sp = String::from("(");
		for p in &spec.params[..spec.params.len().saturating_sub(1)] {
			sp.push_str(REL[*p].2);
		}
	}
	b.push(')');
	sp.push(')');
	let r = ret_rel(spec.ret);
	b.push_str(r.1);
	sp.push_str(r.2);
	(b, sp)
}

pub fn build(spec: &Spec) -> Built {
	let chain = ["p/A", "p/B", "p/C", "p/D"];
	let a_super = match spec.a_super { ASuper::Object => "java/lang/Object", ASuper::LibL => "lib/L", ASuper::Ext => "ext/E" };
	let bc = chain[spec.level];
	let (bdesc, sdesc) = descs(spec);
	let owner = match spec.owner {
		Owner::This => bc,
		Owner::Super => if spec.level == 0 { a_super } else { chain[spec.level - 1] },
		Owner::Unrelated => "p/U",
		Owner::OutOfJar => "ext/K2",
	};
	let bridge: MRef = (bc.to_owned(), "m".to_owned(), bdesc.clone());
	let delegate: MRef = (owner.to_owned(), if spec.same_name { "m" } else { "d" }.to_owned(), sdesc.clone());
	let other: MRef = (owner.to_owned(), "e".to_owned(), sdesc.clone());
	let other_desc: MRef = (owner.to_owned(), delegate.1.clone(), "(J)V".to_owned());
	let other_owner: MRef = ("p/U".to_owned(), delegate.1.clone(), sdesc.clone());
	let opc = match spec.owner { Owner::This => op::INVOKEVIRTUAL, Owner::Super => op::INVOKESPECIAL, Owner::Unrelated => op::INVOKESTATIC, Owner::OutOfJar => op::INVOKEINTERFACE };
	// the class that declares the delegate (the call may name a sub class of it)
	let decl_class: Option<&str> = match spec.decl {
		Decl::AtOwner => Some(owner),
		Decl::AboveOwner => Some(match chain.iter().position(|k| *k == owner) {
			Some(i) if i > 0 => chain[i - 1],
			_ => owner,
		}),
		Decl::TwoAboveOwner => Some(match chain.iter().position(|k| *k == owner) {
			Some(i) if i > 1 => chain[i - 2],
			_ => owner,
		}),
		Decl::Nowhere => None,
	};
	let declared_delegate: Option<MRef> = decl_class.map(|k| (k.to_owned(), delegate.1.clone(), delegate.2.clone()));

	// the candidate
	let mut body = vec![SInsn::Load(LvKind::A, 0)];
	match spec.calls {
		Calls::None | Calls::NoCode => {},
		Calls::One => body.push(invoke(opc, &delegate)),
		Calls::Twice => body.extend([invoke(opc, &delegate), SInsn::Load(LvKind::A, 0), invoke(opc, &delegate)]),
		Calls::TwoDifferent => body.extend([invoke(opc, &delegate), invoke(opc, &other)]),
		Calls::TwoDescriptorsDiffer => body.extend([invoke(opc, &delegate), invoke(opc, &other_desc)]),
		Calls::IndyOnly => body.push(indy()),
		Calls::OnePlusIndy => body.extend([indy(), invoke(opc, &delegate)]),
		Calls::ArrayOnly => body.push(array_call()),
		Calls::OnePlusArray => body.extend([invoke(opc, &delegate), array_call()]),
		Calls::TwiceDifferentOpcode => body.extend([invoke(op::INVOKEVIRTUAL, &delegate), invoke(op::INVOKESPECIAL, &delegate)]),
		Calls::TwoOwnersDiffer => body.extend([invoke(opc, &delegate), invoke(op::INVOKESTATIC, &other_owner)]),
	}
	body.push(SInsn::Simple(op::NOP));
	body.push(RETURN);
	let mut access = 0x0001 | spec.modifier;
	if spec.syn == Syn::Flag {
		access |= ACC_SYNTHETIC;
	}
	if spec.bridge_flag {
		access |= ACC_BRIDGE;
	}
	let mut candidate = method(access, "m", &bdesc, if spec.calls == Calls::NoCode { None } else { Some(body) });
	if spec.calls == Calls::NoCode {
		candidate.access |= 0x0400;
	}
	candidate.synthetic = spec.syn == Syn::AttributeOnly;

	// the hierarchy
	let i_name = "p/I";
	let i0_name = "p/I0";
	let mut ch: Vec<SClass> = vec![class("p/A", a_super, &[]), class("p/B", "p/A", &[]), class("p/C", "p/B", &[]), class("p/D", "p/C", &[])];
	let mut u = class("p/U", "java/lang/Object", &[]);
	let i_supers: Vec<&str> = if spec.iface_super { vec![i0_name] } else { vec![] };
	let mut itf = interface(i_name, &i_supers);
	itf.methods.push(method(0x0401, "m", &bdesc, None));
	let mut itf0 = interface(i0_name, &[]);
	itf0.methods.push(method(0x0401, "m", &bdesc, None));
	if spec.iface != Iface::None {
		ch[spec.level.saturating_sub(spec.iface_on)].interfaces.push(js(i_name));
	}
	// the methods of the candidate's class besides the candidate; the candidate is put first or last at the end
	ch[spec.level].methods.push(method(0x0001, "other", "()V", Some(vec![RETURN])));
	// the generic method the bridge overrides, at the top of the chain
	if spec.level > 0 {
		add_method(&mut ch[0], method(0x0001, "m", &bdesc, Some(vec![RETURN])));
	}
	// the delegate where it is declared, the second target where it is referenced
	let helper1: MRef = ("p/U".to_owned(), "helper".to_owned(), "()V".to_owned());
	let helper2: MRef = ("p/U".to_owned(), "helper".to_owned(), "(I)V".to_owned());
	for (r, is_delegate) in [(declared_delegate.as_ref(), true), (Some(&other), false)] {
		let Some(r) = r else { continue };
		let acc = if spec.owner == Owner::Unrelated { 0x0009 } else { 0x0001 };
		let insns = if is_delegate && spec.busy {
			// a delegate that calls methods itself
			vec![invoke(op::INVOKESTATIC, &helper1), SInsn::BiPush(1), invoke(op::INVOKESTATIC, &helper2), RETURN]
		} else {
			vec![RETURN]
		};
		let m = method(acc, &r.1, &r.2, Some(insns));
		match r.0.as_str() {
			"p/U" => add_method(&mut u, m),
			k => {
				if let Some(i) = chain.iter().position(|x| *x == k) {
					add_method(&mut ch[i], m);
				}
			},
		}
	}
	if spec.busy {
		let k = &mut ch[spec.level];
		// an ordinary method that calls the delegate only, with the candidate's signature
		add_method(k, method(0x0001, "wrap", &bdesc, Some(vec![SInsn::Load(LvKind::A, 0), invoke(opc, &delegate), RETURN])));
		// a static synthetic accessor that calls the delegate only, with the delegate's signature
		add_method(k, method(0x0008 | ACC_SYNTHETIC, "access$000", &sdesc, Some(vec![invoke(opc, &delegate), RETURN])));
		// a synthetic method that calls the delegate and a helper (a lambda body)
		add_method(k, method(0x0002 | ACC_SYNTHETIC, "lambda$m$0", &bdesc, Some(vec![invoke(opc, &delegate), invoke(op::INVOKESTATIC, &helper1), RETURN])));
		if let Some(o) = k.methods.iter_mut().find(|m| m.name == js("other")) {
			o.code = Some(SCode { max_stack: 8, max_locals: 8, insns: vec![invoke(op::INVOKESTATIC, &helper1), invoke(opc, &delegate), RETURN], ..Default::default() });
		}
	}
	{
		let k = &mut ch[spec.level];
		// a delegate with the candidate's own name and descriptor is the candidate itself
		k.methods.retain(|m| !(m.name == candidate.name && m.desc == candidate.desc));
		if spec.candidate_last {
			k.methods.push(candidate);
		} else {
			k.methods.insert(0, candidate);
		}
		for i in 0..spec.fields {
			let synthetic = if i % 2 == 1 { ACC_SYNTHETIC } else { 0 };
			k.fields.push(SField { access: 0x0002 | synthetic, name: js(&format!("f{i}")), desc: js(if i % 2 == 0 { "I" } else { "Lp/T2;" }), ..Default::default() });
		}
		k.access = match spec.holder {
			Holder::Class => 0x0021,
			Holder::Interface => 0x0601,
			Holder::Abstract => 0x0421,
			Holder::Final => 0x0031,
			Holder::Synthetic => 0x1021,
			Holder::Enum => 0x4031,
		};
		if spec.class_attrs {
			k.signature = Some(js("<T:Ljava/lang/Object;>Ljava/lang/Object;"));
			k.source_file = Some(js("Holder.java"));
			k.deprecated = true;
			k.synthetic = true;
			k.inner_classes = Some(vec![SInnerClass { inner: js("p/C$1"), outer: None, name: None, flags: 0x1000 }, SInnerClass { inner: js("p/C$In"), outer: Some(js("p/C")), name: Some(js("In")), flags: 0x0009 }]);
			k.nest_members = Some(vec![js("p/C$In")]);
			k.record = Some(vec![SRecordComponent { name: js("m"), desc: js("I"), ..Default::default() }]);
			k.unknown = vec![SUnknown { name: js("org.example.Marker"), bytes: vec![1, 2, 3] }];
		}
	}
	let mut main: Vec<SClass> = type_universe().into_iter().filter(|k| k.this_class != js("p/U")).collect();
	main.push(u);
	let mut lib1 = vec![class("lib/L", "java/lang/Object", &[])];
	let mut lib2 = Vec::new();
	let places = [
		if spec.level == 0 { Place::Main } else { spec.place_a },
		if spec.level <= 1 { Place::Main } else { spec.place_b },
		if spec.level <= 2 { Place::Main } else { spec.place_c },
		if spec.level == 3 { Place::Main } else { Place::Nowhere },
	];
	for (k, p) in ch.into_iter().zip(places) {
		match p {
			Place::Main => main.push(k),
			Place::Lib => lib2.push(k),
			Place::Nowhere => {},
		}
	}
	match spec.iface {
		Iface::None | Iface::Main => {
			main.push(itf);
			if spec.iface_super {
				main.push(itf0);
			}
		},
		Iface::Lib => {
			lib1.push(itf);
			if spec.iface_super {
				lib1.push(itf0);
			}
		},
	}
	let lib_bridge_desc = ("(Ljava/lang/Object;)V", "(Lp/T2;)V");
	if spec.lib_bridge {
		// a bridge pattern in a library: not a method of the main jar
		let mut lb = class("lib/LB", "java/lang/Object", &[]);
		let target: MRef = ("lib/LB".to_owned(), "m".to_owned(), lib_bridge_desc.1.to_owned());
		lb.methods.push(method(0x0001 | ACC_SYNTHETIC | ACC_BRIDGE, "m", lib_bridge_desc.0, Some(vec![SInsn::Load(LvKind::A, 0), SInsn::Load(LvKind::A, 1), invoke(op::INVOKEVIRTUAL, &target), RETURN])));
		lb.methods.push(method(0x0001, "m", lib_bridge_desc.1, Some(vec![RETURN])));
		lib1.push(lb);
	}
	let mut libs = vec![lib1];
	if !lib2.is_empty() {
		libs.push(lib2);
	}

	// the classes whose entries are varied: [1 up, 2 up, 3 up, p/I, p/I0] (official names)
	let up_official = |k: usize| -> Option<&str> {
		let idx = spec.level as isize - k as isize;
		if idx >= 0 {
			Some(chain[idx as usize])
		} else if idx == -1 && a_super != "java/lang/Object" {
			Some(a_super)
		} else {
			None
		}
	};
	let roles: [Option<&str>; 5] = [up_official(1), up_official(2), up_official(3), Some(i_name), if spec.iface_super { Some(i0_name) } else { None }];

	// calamus: official -> intermediary
	let mut calamus = MSet::new(&["official", "intermediary"]);
	let all_classes: Vec<String> = main.iter().chain(libs.iter().flatten()).map(|k| k.this_class.to_string_lossy()).collect();
	let declared = |r: &MRef| main.iter().chain(libs.iter().flatten()).any(|k| k.this_class == js(&r.0) && k.methods.iter().any(|m| m.name == js(&r.1) && m.desc == js(&r.2)));
	match spec.calamus {
		Calamus::Empty => {},
		Calamus::Identity => {
			for k in &all_classes {
				calamus.classes.insert(k.clone(), MClass { names: row2(k, Some(k)), ..Default::default() });
			}
			for r in [Some(&bridge), declared_delegate.as_ref()].into_iter().flatten() {
				if declared(r) {
					if let Some(k) = calamus.classes.get_mut(&r.0) {
						k.methods.entry((r.1.clone(), r.2.clone())).or_insert_with(|| MMethod { names: row2(&r.1, Some(&r.1)), ..Default::default() });
					}
				}
			}
		},
		_ => {
			for k in &all_classes {
				calamus.classes.insert(k.clone(), MClass { names: row2(k, Some(&format!("q/{}_", simple(k)))), ..Default::default() });
			}
			// the class that gives the bridge its intermediary name ("m_b"); `true`: only if the method is declared there
			let source: (Option<&str>, bool) = match spec.calamus {
				Calamus::RenamesUp1 => (up_official(1), false),
				Calamus::RenamesUp2 => (up_official(2), false),
				Calamus::RenamesIface => (Some(i_name), false),
				Calamus::RenamesIface0 => (roles[4], false),
				_ => (Some("p/A"), true),
			};
			let mut entries: Vec<(MRef, String, bool)> = Vec::new();
			if let Some(k) = source.0 {
				entries.push(((k.to_owned(), "m".to_owned(), bdesc.clone()), "m_b".to_owned(), source.1));
			}
			if spec.calamus == Calamus::Renames {
				entries.push((bridge.clone(), "m_b".to_owned(), true));
			}
			if let Some(d) = &declared_delegate {
				entries.push((d.clone(), format!("{}_s", delegate.1), true));
			}
			for (r, to, only_declared) in entries {
				if !only_declared || declared(&r) {
					if let Some(k) = calamus.classes.get_mut(&r.0) {
						k.methods.entry((r.1.clone(), r.2.clone())).or_insert_with(|| MMethod { names: row2(&r.1, Some(&to)), ..Default::default() });
					}
				}
			}
		},
	}
	for (role, absent) in roles.iter().zip(spec.calamus_absent) {
		if let (Some(k), true) = (role, absent) {
			if *k != bc {
				calamus.classes.remove(*k);
			}
		}
	}

	let mut input = Input { main, libs, calamus, mappings: MSet::new(&["intermediary", "named"]) };
	// mappings: intermediary -> named, keyed by what the calamus mappings make of the official names
	let (ib, idl, ic): (MRef, MRef, BTreeMap<String, String>) = {
		let w = World::new(&input);
		let ib = w.int_ref(&bridge).unwrap_or_else(|| bridge.clone());
		let idl = w.int_ref(&delegate).unwrap_or_else(|| delegate.clone());
		let mut ic = BTreeMap::new();
		for k in all_classes.iter().map(|s| s.as_str()).chain(["p/A", "p/B", "p/C", "p/D", "p/I", "p/I0", "lib/L", "lib/LB", "ext/E", "ext/K2", "java/lang/Object"]) {
			ic.insert(k.to_owned(), w.int_class(k));
		}
		(ib, idl, ic)
	};
	let mut m = MSet::new(&["intermediary", "named"]);
	for k in &all_classes {
		let k = &ic[k];
		m.classes.insert(k.clone(), MClass { names: row2(k, Some(&format!("n/{}", simple(k)))), ..Default::default() });
	}
	// where the bridge gets its name from
	let up = |k: usize| -> Option<String> { up_official(k).map(|c| ic[c].clone()) };
	let mut name_in = |cls: Option<String>, target: Option<&str>| {
		if let Some(cls) = cls {
			put_method(&mut m, &cls, &ib.1, &ib.2, target);
		}
	};
	let itf_int = ic[i_name].clone();
	let itf0_int = roles[4].map(|k| ic[k].clone());
	match spec.name_at {
		NameAt::Direct => name_in(up(0), Some("nm_direct")),
		NameAt::Up1 => name_in(up(1), Some("nm_up1")),
		NameAt::Up2 => name_in(up(2), Some("nm_up2")),
		NameAt::Up3 => name_in(up(3), Some("nm_up3")),
		NameAt::Iface => name_in(Some(itf_int), Some("nm_iface")),
		NameAt::Iface0 => name_in(itf0_int, Some("nm_iface0")),
		NameAt::DirectAndUp1 => {
			name_in(up(0), Some("nm_direct"));
			name_in(up(1), Some("nm_up1"));
		},
		NameAt::DirectUnnamedAndUp1 => {
			name_in(up(0), None);
			name_in(up(1), Some("nm_up1"));
		},
		NameAt::Up1UnnamedAndUp2 => {
			name_in(up(1), None);
			name_in(up(2), Some("nm_up2"));
		},
		NameAt::Up2AndIface => {
			name_in(up(2), Some("nm_up2"));
			name_in(Some(itf_int), Some("nm_iface"));
		},
		NameAt::Up3AndIface0 => {
			name_in(up(3), Some("nm_up3"));
			name_in(itf0_int, Some("nm_iface0"));
		},
		NameAt::Nowhere => {},
	}
	// bystanders: other members of the bridge's class, the delegate's owner, an unrelated class
	let bci = ic[bc].clone();
	{
		let k = m.classes.entry(bci.clone()).or_default();
		k.doc = Some("the bridge's class".into());
		k.fields.insert(("f".into(), "I".into()), MField { names: row2("f", Some("nf")), doc: Some("a field".into()) });
		let mut params = BTreeMap::new();
		params.insert(1, MParam { names: row2("p1", Some("np1")), doc: None });
		k.methods.insert(("other".into(), "()V".into()), MMethod { names: row2("other", Some("nother")), doc: Some("untouched".into()), params });
		k.methods.entry((idl.1.clone(), "(JJ)V".into())).or_insert_with(|| MMethod { names: row2(&idl.1, Some("overload")), ..Default::default() });
		if spec.busy {
			// the further methods with calls carry names of their own: none of them may reach the delegate
			let w = World::new(&input);
			for (name, desc, to) in [("wrap", &bdesc, "nwrap"), ("access$000", &sdesc, "naccess"), ("lambda$m$0", &bdesc, "nlambda")] {
				k.methods.entry((name.to_owned(), w.int_desc(desc))).or_insert_with(|| MMethod { names: row2(name, Some(to)), ..Default::default() });
			}
		}
	}
	if idl.0 != bci {
		let k = m.classes.entry(idl.0.clone()).or_insert_with(|| MClass { names: row2(&idl.0, Some(&format!("n/{}", simple(&idl.0)))), ..Default::default() });
		k.methods.entry((idl.1.clone(), idl.2.clone())).or_insert_with(|| MMethod { names: row2(&idl.1, Some("name_in_owner")), doc: Some("the delegate in its owner".into()), ..Default::default() });
	}
	{
		let t2 = ic["p/T2"].clone();
		let k = m.classes.entry(t2).or_default();
		k.methods.entry((idl.1.clone(), idl.2.clone())).or_insert_with(|| MMethod { names: row2(&idl.1, Some("same_key_elsewhere")), ..Default::default() });
	}
	if spec.lib_bridge {
		let w = World::new(&input);
		let k = m.classes.entry(ic["lib/LB"].clone()).or_default();
		k.methods.insert(("m".into(), w.int_desc(lib_bridge_desc.0)), MMethod { names: row2("m", Some("name_of_the_library_bridge")), ..Default::default() });
		k.methods.insert(("m".into(), w.int_desc(lib_bridge_desc.1)), MMethod { names: row2("m", Some("name_of_the_library_delegate")), ..Default::default() });
	}
	// the delegate's entry inside the bridge's class
	let dkey = (idl.1.clone(), idl.2.clone());
	let bkey = (ib.1.clone(), ib.2.clone());
	if dkey != bkey {
		let k = m.classes.entry(bci.clone()).or_default();
		match spec.delegate_entry {
			DelegateEntry::Absent => {},
			DelegateEntry::Unnamed => {
				k.methods.insert(dkey, MMethod { names: row2(&idl.1, None), ..Default::default() });
			},
			DelegateEntry::Named => {
				k.methods.insert(dkey, MMethod { names: row2(&idl.1, Some("old_name")), ..Default::default() });
			},
			DelegateEntry::NamedWithCommentAndParameters => {
				let mut params = BTreeMap::new();
				params.insert(0, MParam { names: row2("p0", Some("value")), doc: Some("kept".into()) });
				params.insert(2, MParam { names: row2("p2", None), doc: None });
				k.methods.insert(dkey, MMethod { names: row2(&idl.1, Some("old_name")), doc: Some("comment of the delegate".into()), params });
			},
		}
	}
	// the bridge's class entry itself
	match spec.class_entry {
		ClassEntry::Named => {
			if let Some(k) = m.classes.get_mut(&bci) {
				if k.names.is_empty() {
					k.names = row2(&bci, Some(&format!("n/{}", simple(&bci))));
				}
			}
		},
		ClassEntry::WithoutTargetName => {
			if let Some(k) = m.classes.get_mut(&bci) {
				k.names = row2(&bci, None);
			}
		},
		ClassEntry::Absent => {
			m.classes.remove(&bci);
		},
	}
	for (key, k) in m.classes.iter_mut() {
		if k.names.is_empty() {
			k.names = row2(key, Some(&format!("n/{}", simple(key))));
		}
	}
	// the class entries of the super types (whatever they hold goes with them)
	for (role, ent) in roles.iter().zip(spec.ent_named) {
		let Some(k) = role.map(|k| ic[k].clone()) else { continue };
		if k == bci {
			continue;
		}
		match ent {
			Ent::Named => {},
			Ent::WithoutTargetName => {
				if let Some(e) = m.classes.get_mut(&k) {
					e.names = row2(&k, None);
				}
			},
			Ent::Absent => {
				m.classes.remove(&k);
			},
		}
	}
	input.mappings = m;
	Built { input }
}

// ---------------------------------------------------------------------------------------------
// worlds with two candidates (space "multi")

#[derive(Clone, Copy, Debug, PartialEq, Eq)]
pub enum Kind { Flagged, Unflagged, NotSynthetic }
pub const KINDS: [Kind; 3] = [Kind::Flagged, Kind::Unflagged, Kind::NotSynthetic];

#[derive(Clone, Copy, Debug, PartialEq, Eq)]
pub enum Mode { SameDelegate, DifferentDelegates, Chain }
pub const MODES: [Mode; 3] = [Mode::SameDelegate, Mode::DifferentDelegates, Mode::Chain];

#[derive(Clone, Debug)]
pub struct Multi {
	pub mode: Mode,
	/// class of each candidate: 0 = p/A, 1 = p/B, 2 = p/C
	pub at: [usize; 2],
	pub kind: [Kind; 2],
	/// 0 = own class, 1 = in p/A, 2 = nowhere
	pub name1: usize,
	/// 0 = own class, 1 = nowhere
	pub name2: usize,
	pub first_class_absent: bool,
	pub delegate_named: bool,
}

pub fn build_multi(s: &Multi) -> Input {
	let chain = ["p/A", "p/B", "p/C"];
	let d1 = "(Ljava/lang/Object;)V";
	let d2 = "(Lp/T1;)V";
	let ds = "(Lp/T2;)V";
	let real: MRef = ("p/C".into(), "m".into(), ds.into());
	let real_g: MRef = ("p/C".into(), "g".into(), ds.into());
	let m2: MRef = (chain[s.at[1]].into(), "m".into(), d2.into());
	let target1 = match s.mode { Mode::SameDelegate | Mode::DifferentDelegates => real.clone(), Mode::Chain => m2.clone() };
	let target2 = match s.mode { Mode::SameDelegate | Mode::Chain => real.clone(), Mode::DifferentDelegates => real_g.clone() };
	let acc = |k: Kind| 0x0001 | match k { Kind::Flagged => ACC_SYNTHETIC | ACC_BRIDGE, Kind::Unflagged => ACC_SYNTHETIC, Kind::NotSynthetic => 0 };
	let body = |t: &MRef| Some(vec![SInsn::Load(LvKind::A, 0), SInsn::Load(LvKind::A, 1), SInsn::CheckCast(js("p/T2")), invoke(op::INVOKEVIRTUAL, t), RETURN]);
	let mut classes = [class("p/A", "java/lang/Object", &[]), class("p/B", "p/A", &[]), class("p/C", "p/B", &[])];
	add_method(&mut classes[0], method(0x0001, "m", d1, Some(vec![RETURN])));
	classes[s.at[0]].methods.retain(|m| !(m.name == js("m") && m.desc == js(d1)));
	classes[s.at[0]].methods.push(method(acc(s.kind[0]), "m", d1, body(&target1)));
	classes[s.at[1]].methods.push(method(acc(s.kind[1]), "m", d2, body(&target2)));
	add_method(&mut classes[2], method(0x0001, "m", ds, Some(vec![RETURN])));
	add_method(&mut classes[2], method(0x0001, "g", ds, Some(vec![RETURN])));
	let mut main = type_universe();
	main.extend(classes);
	let mut calamus = MSet::new(&["official", "intermediary"]);
	let mut m = MSet::new(&["intermediary", "named"]);
	for k in main.iter().map(|k| k.this_class.to_string_lossy()) {
		calamus.classes.insert(k.clone(), MClass { names: row2(&k, Some(&k)), ..Default::default() });
		m.classes.insert(k.clone(), MClass { names: row2(&k, Some(&format!("n/{}", simple(&k)))), ..Default::default() });
	}
	match s.name1 {
		0 => put_method(&mut m, chain[s.at[0]], "m", d1, Some("first_own")),
		1 => put_method(&mut m, "p/A", "m", d1, Some("first_in_a")),
		_ => {},
	}
	if s.name2 == 0 {
		put_method(&mut m, chain[s.at[1]], "m", d2, Some("second_own"));
	}
	if s.delegate_named {
		for k in chain {
			put_method(&mut m, k, "m", ds, Some("old_name"));
		}
	}
	put_method(&mut m, "p/U", "m", ds, Some("bystander"));
	if s.first_class_absent {
		m.classes.remove(chain[s.at[0]]);
	}
	Input { main, libs: vec![], calamus, mappings: m }
}

// ---------------------------------------------------------------------------------------------
// the vendored javac corpus as main jar (javac's own bridges, lambdas, accessors, enum helpers)

/// One input per corpus variant (main: javac 17, main8, main11) × naming scheme × calamus mode.
pub fn corpus_inputs(verif_root: &std::path::Path) -> Vec<(String, Input)> {
	let mut out = Vec::new();
	for variant in ["main", "main8", "main11"] {
		let files = cfmodel::corpus::load_dir(&verif_root.join("corpus").join("classes").join(variant));
		let mut classes = Vec::new();
		for (name, bytes) in &files {
			match cfmodel::parse(bytes) {
				Ok(p) => classes.push(p.class),
				Err(e) => vcore::machinery_fail(&format!("C15: corpus class {name} does not parse: {e}")),
			}
		}
		if classes.is_empty() {
			continue;
		}
		let synthetic_keys: std::collections::BTreeSet<(JS, JS)> = classes.iter().flat_map(|c| c.methods.iter()).filter(|m| m.access & ACC_SYNTHETIC != 0).map(|m| (m.name.clone(), m.desc.clone())).collect();
		for scheme in 0..3 {
			for identity in [true, false] {
				let mut calamus = MSet::new(&["official", "intermediary"]);
				let mut m = MSet::new(&["intermediary", "named"]);
				for c in &classes {
					let k = c.this_class.to_string_lossy();
					if identity {
						calamus.classes.insert(k.clone(), MClass { names: row2(&k, Some(&k)), ..Default::default() });
					}
					m.classes.insert(k.clone(), MClass { names: row2(&k, Some(&format!("n/{}", k.replace('/', "_")))), ..Default::default() });
					for (i, me) in c.methods.iter().enumerate() {
						let name = me.name.to_string_lossy();
						if name.starts_with('<') {
							continue;
						}
						let is_synthetic = me.access & ACC_SYNTHETIC != 0;
						let names_it = match scheme {
							0 => is_synthetic,                                                                      // every synthetic method named directly
							1 => !is_synthetic && synthetic_keys.contains(&(me.name.clone(), me.desc.clone())), // only ordinary methods with a bridge's signature (inherited names)
							_ => false,                                                                             // nothing named
						};
						if names_it {
							put_method(&mut m, &k, &name, &me.desc.to_string_lossy(), Some(&format!("named_{i}_{}", name.replace('$', "_"))));
						}
					}
				}
				out.push((format!("javac-corpus/{variant}/scheme{scheme}/{}", if identity { "identity-calamus" } else { "empty-calamus" }), Input { main: classes.clone(), libs: vec![], calamus, mappings: m }));
			}
		}
	}
	out
}
