//! The C15 oracle, written from the property statement (and the documented bridge-compatibility
//! relation, DESIGN §2 C15) over the encoding-free class models — it shares nothing with
//! `/repo/src/specialized_methods/mod.rs`.
//!
//! A method of the main jar is a *bridge* iff it is synthetic AND its body invokes exactly one distinct
//! method (invoke{virtual,special,static,interface} targets on non-array classes, as a set) AND (it is
//! flagged ACC_BRIDGE OR (it is neither private, static nor final AND has the same arity as the invoked
//! method AND every parameter type and the return type are bridge-compatible)).
//! Outcome: inside the bridge's class (intermediary name) of the given intermediary→named mappings the
//! entry of the invoked method (intermediary name + descriptor) carries the target name the mappings give
//! to the bridge (own entry, else the nearest naming super type); every other entry is unchanged.
//! Where the statement is silent (`Tri::Either`, several equally near super types, no name at all, class
//! absent from the mappings) every reading is acceptable.

use std::collections::{BTreeMap, BTreeSet};
use cfmodel::model::*;
use mapmodel::{MClass, MMethod, MSet};

/// (class, name, descriptor)
pub type MRef = (String, String, String);

pub const ACC_PRIVATE: u16 = 0x0002;
pub const ACC_STATIC: u16 = 0x0008;
pub const ACC_FINAL: u16 = 0x0010;
pub const ACC_BRIDGE: u16 = 0x0040;
pub const ACC_SYNTHETIC: u16 = 0x1000;
const OBJECT: &str = "java/lang/Object";

#[derive(Clone, Copy, Debug, PartialEq, Eq, PartialOrd, Ord)]
pub enum Tri {
	No,
	/// the statement and the documentation are silent: both outcomes are accepted
	Either,
	Yes,
}

impl Tri {
	pub fn and(self, o: Tri) -> Tri {
		self.min(o)
	}
	pub fn or(self, o: Tri) -> Tri {
		self.max(o)
	}
	fn of(b: bool) -> Tri {
		if b { Tri::Yes } else { Tri::No }
	}
}

#[derive(Clone, Debug, Default)]
pub struct Input {
	pub main: Vec<SClass>,
	pub libs: Vec<Vec<SClass>>,
	/// official → intermediary
	pub calamus: MSet,
	/// intermediary → named
	pub mappings: MSet,
}

fn s(j: &JS) -> String {
	j.to_string_lossy()
}

// ---------------------------------------------------------------------------------------------
// descriptors

#[derive(Clone, Debug, PartialEq, Eq)]
enum Ty {
	Prim(char),
	Class(String),
	/// the whole array type text
	Array(String),
}

fn parse_type(b: &[u8], i: &mut usize) -> Option<Ty> {
	let start = *i;
	let mut dims = 0;
	while *i < b.len() && b[*i] == b'[' {
		dims += 1;
		*i += 1;
	}
	let c = *b.get(*i)?;
	let base = match c {
		b'B' | b'C' | b'D' | b'F' | b'I' | b'J' | b'S' | b'Z' => {
			*i += 1;
			Ty::Prim(c as char)
		},
		b'L' => {
			let from = *i + 1;
			let mut j = from;
			while j < b.len() && b[j] != b';' {
				j += 1;
			}
			if j >= b.len() || j == from {
				return None;
			}
			*i = j + 1;
			Ty::Class(String::from_utf8_lossy(&b[from..j]).into_owned())
		},
		_ => return None,
	};
	Some(if dims > 0 { Ty::Array(String::from_utf8_lossy(&b[start..*i]).into_owned()) } else { base })
}

/// (parameter types, return type; `None` = void)
fn parse_method_desc(d: &str) -> Option<(Vec<Ty>, Option<Ty>)> {
	let b = d.as_bytes();
	if b.first() != Some(&b'(') {
		return None;
	}
	let mut i = 1;
	let mut params = Vec::new();
	while *b.get(i)? != b')' {
		params.push(parse_type(b, &mut i)?);
	}
	i += 1;
	let ret = if b.get(i) == Some(&b'V') {
		i += 1;
		None
	} else {
		Some(parse_type(b, &mut i)?)
	};
	if i != b.len() {
		return None;
	}
	Some((params, ret))
}

/// rewrites every `L<name>;` of a descriptor through `f`
pub fn map_desc(d: &str, f: &dyn Fn(&str) -> String) -> String {
	let mut out = String::new();
	let mut rest = d;
	while let Some(p) = rest.find('L') {
		let (head, tail) = rest.split_at(p);
		out.push_str(head);
		match tail.find(';') {
			Some(e) => {
				out.push('L');
				out.push_str(&f(&tail[1..e]));
				out.push(';');
				rest = &tail[e + 1..];
			},
			None => {
				out.push_str(tail);
				rest = "";
			},
		}
	}
	out.push_str(rest);
	out
}

// ---------------------------------------------------------------------------------------------
// the jar as the statement sees it

/// direct super types in declaration order (super class first), as the class file states them
fn declared_supers(c: &SClass) -> Vec<String> {
	c.super_class.iter().chain(c.interfaces.iter()).map(s).collect()
}

pub struct World<'a> {
	pub input: &'a Input,
	/// classes of the main jar
	main: BTreeMap<String, &'a SClass>,
	/// direct super types of every class of any jar (the main jar first), official names
	supers: BTreeMap<String, Vec<String>>,
}

impl<'a> World<'a> {
	pub fn new(input: &'a Input) -> World<'a> {
		let mut main = BTreeMap::new();
		let mut supers = BTreeMap::new();
		for c in &input.main {
			main.entry(s(&c.this_class)).or_insert(c);
		}
		for c in input.main.iter().chain(input.libs.iter().flatten()) {
			supers.entry(s(&c.this_class)).or_insert_with(|| declared_supers(c));
		}
		World { input, main, supers }
	}

	/// ancestors of a class as far as the main jar knows them (java/lang/Object as super class is the
	/// root of everything and states nothing, so it is not an "ancestor outside the jar")
	fn jar_ancestors(&self, class: &str) -> BTreeSet<String> {
		let mut seen = BTreeSet::new();
		let mut todo = vec![class.to_owned()];
		while let Some(c) = todo.pop() {
			if let Some(k) = self.main.get(&c) {
				let sup = k.super_class.as_ref().map(s).filter(|n| n != OBJECT);
				for p in sup.into_iter().chain(k.interfaces.iter().map(s)) {
					if seen.insert(p.clone()) {
						todo.push(p);
					}
				}
			}
		}
		seen
	}

	/// the documented relation: equal types; or both class types with the bridge side java/lang/Object,
	/// unknown to the jar, an ancestor of the specialised side, or the specialised side having an
	/// ancestor outside the jar
	fn compatible(&self, bridge: &Ty, spec: &Ty) -> (Tri, &'static str) {
		if bridge == spec {
			return (Tri::Yes, "equal");
		}
		match (bridge, spec) {
			(Ty::Class(b), Ty::Class(sp)) => {
				if b == OBJECT {
					return (Tri::Yes, "erased-to-object");
				}
				if !self.main.contains_key(b) {
					return (Tri::Yes, "bridge-side-unknown-to-jar");
				}
				if !self.main.contains_key(sp) {
					// The relation speaks about what the jar states: a class outside the jar has no ancestor the jar
					// knows of, so none of the documented arms holds (the bridge side is a class of the jar, it is not
					// java/lang/Object, it is no stated ancestor of the other side, and no stated ancestor of the other
					// side lies outside the jar). It could not hold in fact either: a class from outside the main jar
					// cannot have a class of the main jar as its ancestor. Not compatible.
					return (Tri::No, "specialised-side-outside-jar");
				}
				let anc = self.jar_ancestors(sp);
				if anc.contains(b) {
					return (Tri::Yes, "erased-to-ancestor");
				}
				if anc.iter().any(|a| !self.main.contains_key(a)) {
					return (Tri::Yes, "specialised-side-has-ancestor-outside-jar");
				}
				(Tri::No, "class")
			},
			// array types are not "class types"; covariant arrays are not documented either way
			(Ty::Array(_), Ty::Array(_)) | (Ty::Array(_), Ty::Class(_)) | (Ty::Class(_), Ty::Array(_)) => (Tri::Either, "array"),
			_ => (Tri::No, "primitive"),
		}
	}

	// -----------------------------------------------------------------------------------------
	// names

	fn class_to(set: &MSet, c: &str) -> String {
		set.classes.get(c).and_then(|k| k.names.get(1).cloned().flatten()).unwrap_or_else(|| c.to_owned())
	}

	pub fn int_class(&self, c: &str) -> String {
		Self::class_to(&self.input.calamus, c)
	}

	pub fn int_desc(&self, d: &str) -> String {
		map_desc(d, &|c| self.int_class(c))
	}

	/// Names a mapping set gives to a method: the owner's own entry, else the nearest naming super types
	/// (every path is followed; a path ends at the first class that names the method).
	fn lookup(set: &MSet, supers: &dyn Fn(&str) -> Vec<String>, owner: &str, name: &str, desc: &str) -> Lookup {
		let entry = |class: &str| -> Option<Option<String>> {
			set.classes.get(class)?.methods.get(&(name.to_owned(), desc.to_owned())).map(|m| m.names.get(1).cloned().flatten())
		};
		let own = entry(owner);
		let mut inherited = Vec::new();
		let mut relayed = Vec::new();
		let mut seen = BTreeSet::new();
		// state of a class entry: 0 = the mapping set has none, 1 = present without target name, 2 = present with one
		let known = |class: &str| -> u8 {
			match set.classes.get(class) {
				None => 0,
				Some(k) if k.names.get(1).cloned().flatten().is_none() => 1,
				Some(_) => 2,
			}
		};
		struct Walk<'w> {
			supers: &'w dyn Fn(&str) -> Vec<String>,
			entry: &'w dyn Fn(&str) -> Option<Option<String>>,
			known: &'w dyn Fn(&str) -> u8,
			seen: &'w mut BTreeSet<String>,
			out: &'w mut Vec<(String, usize)>,
			relayed: &'w mut Vec<Relay>,
		}
		// depth-first in declaration order, so that `inherited[0]` is the first one in declaration order
		fn walk(w: &mut Walk, class: &str, class_unknown: bool, depth: usize, path: Relay) {
			for (j, p) in (w.supers)(class).into_iter().enumerate() {
				if !w.seen.insert(p.clone()) {
					continue;
				}
				let mut path = path;
				path.to_later_super_of_unknown |= class_unknown && j > 0;
				match (w.entry)(&p) {
					Some(Some(n)) => {
						w.out.push((n, depth + 1));
						w.relayed.push(path);
					},
					e => {
						let k = (w.known)(&p);
						path.unknown += usize::from(k == 0);
						path.without_target_name |= k == 1;
						path.own_entry_without_target_name |= e.is_some();
						walk(w, &p, k == 0, depth + 1, path);
					},
				}
			}
		}
		walk(&mut Walk { supers, entry: &entry, known: &known, seen: &mut seen, out: &mut inherited, relayed: &mut relayed }, owner, false, 0, Relay::default());
		Lookup { own, inherited, relayed }
	}

	fn official_supers(&self, c: &str) -> Vec<String> {
		self.supers.get(c).cloned().unwrap_or_default()
	}

	/// intermediary name of a method given by official reference; `None` = the calamus mappings are
	/// ambiguous about it (outside the explored domain)
	pub fn int_method_name(&self, r: &MRef) -> Option<String> {
		let l = Self::lookup(&self.input.calamus, &|c| self.official_supers(c), &r.0, &r.1, &r.2);
		match l.own {
			Some(Some(n)) => Some(n),
			Some(None) => None,
			None => {
				let names: BTreeSet<&String> = l.inherited.iter().map(|(n, _)| n).collect();
				match names.len() {
					0 => Some(r.1.clone()),
					1 => Some(l.inherited[0].0.clone()),
					_ => None,
				}
			},
		}
	}

	/// for the vacuity floors: `Some` = the intermediary name of `r` is inherited from a super type, with the kind
	/// of classes on the path to that super type
	pub fn int_name_inherited(&self, r: &MRef) -> Option<Relay> {
		let l = Self::lookup(&self.input.calamus, &|c| self.official_supers(c), &r.0, &r.1, &r.2);
		match l.own {
			Some(Some(_)) => None,
			_ => l.relayed.first().copied(),
		}
	}

	pub fn int_ref(&self, r: &MRef) -> Option<MRef> {
		Some((self.int_class(&r.0), self.int_method_name(r)?, self.int_desc(&r.2)))
	}

	/// super types in intermediary names
	fn int_supers(&self, int_class: &str) -> Vec<String> {
		// invert the class map over the classes the jars know
		for (c, sup) in &self.supers {
			if self.int_class(c) == int_class {
				return sup.iter().map(|p| self.int_class(p)).collect();
			}
		}
		Vec::new()
	}

	/// what the intermediary→named mappings say about a method given by intermediary reference
	pub fn named_lookup(&self, int: &MRef) -> Lookup {
		Self::lookup(&self.input.mappings, &|c| self.int_supers(c), &int.0, &int.1, &int.2)
	}

	// -----------------------------------------------------------------------------------------
	// the predicate

	pub fn candidates(&self) -> Vec<Candidate> {
		let mut out = Vec::new();
		for c in &self.input.main {
			let class = s(&c.this_class);
			if !std::ptr::eq(*self.main.get(&class).unwrap_or(&c), c) {
				continue; // a second entry of the same class name: not generated
			}
			for m in &c.methods {
				out.push(self.judge_method(&class, m));
			}
		}
		out
	}

	fn judge_method(&self, class: &str, m: &SMethod) -> Candidate {
		let me: MRef = (class.to_owned(), s(&m.name), s(&m.desc));
		let mut targets: BTreeSet<MRef> = BTreeSet::new();
		if let Some(code) = &m.code {
			for i in &code.insns {
				if let SInsn::Invoke(_, r, _) = i {
					if !r.owner.0.first().is_some_and(|c| *c == b'[' as u16) {
						targets.insert((s(&r.owner), s(&r.name), s(&r.desc)));
					}
				}
			}
		}
		let synthetic = if m.access & ACC_SYNTHETIC != 0 {
			Tri::Yes
		} else if m.synthetic {
			Tri::Either // only the Synthetic attribute: the statement's "synthetic" is taken as the flag, the JVMS counts both
		} else {
			Tri::No
		};
		let mut c = Candidate { bridge: me, delegate: None, verdict: Tri::No, reason: "not-synthetic".into(), flagged: m.access & ACC_BRIDGE != 0, ambiguous_targets: false, near_miss: false };
		if synthetic == Tri::No {
			// an ordinary method that would be a bridge if it were synthetic is the near miss of this leg
			if targets.len() == 1 {
				let d = targets.iter().next().cloned().unwrap_or_default();
				c.near_miss = c.flagged || self.judge_shape(m, &c.bridge.2, &d.2).0 == Tri::Yes;
			}
			return c;
		}
		c.near_miss = true;
		if targets.len() != 1 {
			c.reason = if targets.is_empty() { "calls-none".into() } else { "calls-several".into() };
			// two references that differ only in the owner may or may not be "one distinct method"
			let nd: BTreeSet<(&String, &String)> = targets.iter().map(|t| (&t.1, &t.2)).collect();
			c.ambiguous_targets = targets.len() > 1 && nd.len() == 1;
			return c;
		}
		let delegate = targets.into_iter().next().unwrap_or_default();
		c.delegate = Some(delegate.clone());
		let (shape, reason) = self.judge_shape(m, &c.bridge.2, &delegate.2);
		let verdict = synthetic.and(Tri::of(c.flagged).or(shape));
		c.verdict = verdict;
		c.reason = if c.flagged { "flagged".into() } else { reason };
		if verdict == Tri::Either && synthetic == Tri::Either {
			c.reason = format!("synthetic-attribute-only/{}", c.reason);
		}
		c
	}

	/// the "inheritable with a bridge-compatible signature" leg
	fn judge_shape(&self, m: &SMethod, bridge_desc: &str, spec_desc: &str) -> (Tri, String) {
		if m.access & ACC_PRIVATE != 0 {
			return (Tri::No, "private".into());
		}
		if m.access & ACC_STATIC != 0 {
			return (Tri::No, "static".into());
		}
		if m.access & ACC_FINAL != 0 {
			return (Tri::No, "final".into());
		}
		let (Some((bp, br)), Some((sp, sr))) = (parse_method_desc(bridge_desc), parse_method_desc(spec_desc)) else {
			return (Tri::Either, "unparsable-descriptor".into());
		};
		if bp.len() != sp.len() {
			return (Tri::No, "arity".into());
		}
		let mut all = Tri::Yes;
		let mut why = String::from("compatible");
		for (b, sp) in bp.iter().zip(&sp) {
			let (t, k) = self.compatible(b, sp);
			if t < all {
				all = t;
				why = format!("{}-param:{k}", if t == Tri::No { "incompatible" } else { "undocumented" });
			}
			if all == Tri::No {
				return (all, why);
			}
		}
		let (t, k) = match (&br, &sr) {
			(None, None) => (Tri::Yes, "void"),
			(Some(b), Some(sp)) => self.compatible(b, sp),
			_ => (Tri::No, "void"),
		};
		if t < all {
			all = t;
			why = format!("{}-return:{k}", if t == Tri::No { "incompatible" } else { "undocumented" });
		}
		(all, why)
	}
}

#[derive(Clone, Debug)]
pub struct Lookup {
	/// the owner's own entry: `Some(None)` = present without target name
	pub own: Option<Option<String>>,
	/// (name, depth) from the nearest naming super type of every path, declaration order
	pub inherited: Vec<(String, usize)>,
	/// per element of `inherited`: what kind of classes the path to it leads through (a class on the path names
	/// nothing itself: it relays to its own super types); for the vacuity floors only
	pub relayed: Vec<Relay>,
}

/// the classes between the owner and the naming super type on one path of a `Lookup`
#[derive(Clone, Copy, Debug, Default)]
pub struct Relay {
	/// classes without a class entry in the mapping set
	pub unknown: usize,
	/// a class whose class entry has no target name
	pub without_target_name: bool,
	/// a class that lists the method itself, without target name
	pub own_entry_without_target_name: bool,
	/// a class without class entry handed on to a super type that is not its first one (an interface)
	pub to_later_super_of_unknown: bool,
}

#[derive(Clone, Debug)]
pub struct Candidate {
	pub bridge: MRef,
	/// the single invoked method, if there is exactly one
	pub delegate: Option<MRef>,
	pub verdict: Tri,
	/// why: `flagged`, `compatible`, `not-synthetic`, `calls-none`, `calls-several`, `private`, `static`, `final`,
	/// `arity`, `incompatible-param:<kind>`, `incompatible-return:<kind>`, `undocumented-…`
	pub reason: String,
	pub flagged: bool,
	pub ambiguous_targets: bool,
	/// a rejected method that is synthetic, or that only lacks the synthetic flag
	pub near_miss: bool,
}

// ---------------------------------------------------------------------------------------------
// expected mappings

/// one acceptable treatment of one bridge
#[derive(Clone, Debug, PartialEq, Eq)]
pub struct Alt {
	/// the target name the delegate's entry receives; `None` = nothing happens
	set: Option<String>,
	/// 0 = the class entry exists (or nothing is created), 1 / 2 = the absent class is created without / with an identity target name
	create: u8,
}

/// one (class, method key) of the mappings that a bridge concerns, with every acceptable treatment (`[0]` = primary)
#[derive(Clone, Debug)]
pub struct Site {
	pub class: String,
	pub key: (String, String),
	pub alts: Vec<Alt>,
}

pub struct Expectation {
	pub candidates: Vec<Candidate>,
	/// `Some(reason)`: the input is outside the property's domain — only "no panic" is judged
	pub outside_domain: Option<String>,
	/// the entries concerned; every other entry must be returned unchanged
	pub sites: Vec<Site>,
	/// mechanisms the primary reading exercises (for the vacuity floors)
	pub tags: BTreeSet<String>,
	/// human-readable plan, for replays
	pub plan: Vec<String>,
}

fn apply_alt(set: &mut MSet, class: &str, key: &(String, String), alt: &Alt) {
	let Some(name) = &alt.set else { return };
	if !set.classes.contains_key(class) {
		if alt.create == 0 {
			return;
		}
		let target = if alt.create == 2 { Some(class.to_owned()) } else { None };
		set.classes.insert(class.to_owned(), MClass { names: vec![Some(class.to_owned()), target], ..Default::default() });
	}
	let Some(c) = set.classes.get_mut(class) else { return };
	let names = vec![Some(key.0.clone()), Some(name.clone())];
	match c.methods.get_mut(key) {
		Some(m) => m.names = names, // only the names are replaced: comment and parameters stay
		None => {
			c.methods.insert(key.clone(), MMethod { names, ..Default::default() });
		},
	}
}

pub fn expect(world: &World) -> Expectation {
	let candidates = world.candidates();
	let mut outside: Option<String> = None;
	let mut tags = BTreeSet::new();
	let mut plan = Vec::new();
	let mut sites: Vec<Site> = Vec::new();
	let mut conflict = false;
	for c in &candidates {
		if c.ambiguous_targets {
			outside = Some(format!("{:?} invokes references that differ only in their owner", c.bridge));
		}
		if c.verdict == Tri::No {
			if c.near_miss {
				tags.insert(format!("reject:{}", c.reason));
			}
			plan.push(format!("{:?}: not a bridge ({})", c.bridge, c.reason));
			continue;
		}
		let Some(delegate) = &c.delegate else { continue };
		let (Some(int_bridge), Some(int_delegate)) = (world.int_ref(&c.bridge), world.int_ref(delegate)) else {
			outside = Some(format!("the calamus mappings are ambiguous about {:?} or {:?}", c.bridge, delegate));
			continue;
		};
		let class = int_bridge.0.clone();
		let key = (int_delegate.1.clone(), int_delegate.2.clone());
		let look = world.named_lookup(&int_bridge);
		let mut names: Vec<Option<String>> = Vec::new(); // None = nothing happens
		let fallback = int_bridge.1.clone();
		let mut how = String::new();
		let mut relay_named: Option<Relay> = None;
		match &look.own {
			Some(Some(n)) => {
				names.push(Some(n.clone()));
				how = "named-directly".into();
			},
			own => {
				let mut distinct: Vec<&(String, usize)> = Vec::new();
				for e in &look.inherited {
					if !distinct.iter().any(|d| d.0 == e.0) {
						distinct.push(e);
					}
				}
				for (n, _) in &distinct {
					names.push(Some(n.clone()));
				}
				if distinct.len() == 1 && own.is_none() {
					how = format!("inherited-depth-{}", look.inherited.iter().filter(|e| e.0 == distinct[0].0).map(|e| e.1).min().unwrap_or(0));
					relay_named = if look.inherited.len() == 1 { look.relayed.first().copied() } else { None };
				} else if distinct.len() > 1 {
					how = "inherited-ambiguous".into();
				}
				if distinct.is_empty() || own.is_some() {
					// no name at all (or an own entry without target name): the statement does not say whether
					// the fall-back "name" (the bridge's own intermediary name) is written or nothing happens
					names.push(Some(fallback.clone()));
					names.push(None);
					if how.is_empty() {
						how = "unnamed".into();
					} else {
						how = format!("own-entry-without-target-name+{how}");
					}
				}
			},
		}
		if c.verdict == Tri::Either && !names.contains(&None) {
			names.push(None);
		}
		let class_present = world.input.mappings.classes.contains_key(&class);
		let mut alts = Vec::new();
		for n in &names {
			match n {
				None => alts.push(Alt { set: None, create: 0 }),
				Some(n) if class_present => alts.push(Alt { set: Some(n.clone()), create: 0 }),
				Some(n) => {
					// "within the bridge's class" when the mappings have no such class: nothing, or the class appears
					alts.push(Alt { set: None, create: 0 });
					alts.push(Alt { set: Some(n.clone()), create: 1 });
					alts.push(Alt { set: Some(n.clone()), create: 2 });
				},
			}
		}
		alts.dedup();
		let mut uniq: Vec<Alt> = Vec::new();
		for a in alts {
			if !uniq.contains(&a) {
				uniq.push(a);
			}
		}
		if c.verdict == Tri::Yes {
			let kind = if c.flagged { "flagged" } else { "unflagged" };
			if class_present {
				if names.len() == 1 {
					tags.insert(format!("rename:{kind}"));
					tags.insert(format!("rename:{how}"));
					let existing = world.input.mappings.classes.get(&class).and_then(|k| k.methods.get(&key));
					match existing {
						Some(m) if m.names.get(1).cloned().flatten() != names[0] => {
							tags.insert("rename:replaces-existing-name".into());
							if m.doc.is_some() || !m.params.is_empty() {
								tags.insert("rename:replaces-name-keeps-comment-and-parameters".into());
							}
						},
						Some(_) => {
							tags.insert("rename:existing-entry-already-has-the-name".into());
						},
						None => {
							tags.insert("rename:adds-entry".into());
						},
					}
					if delegate.0 != c.bridge.0 {
						tags.insert("rename:delegate-owned-by-another-class".into());
					}
					if int_bridge != c.bridge || &int_delegate != delegate {
						tags.insert("rename:through-real-calamus-renames".into());
					}
					if let Some(r) = relay_named {
						if r.unknown >= 1 {
							tags.insert("rename:name-relayed-by-a-class-without-entry-in-the-mappings".into());
						}
						if r.unknown >= 2 {
							tags.insert("rename:name-relayed-by-two-or-more-classes-without-entry-in-the-mappings".into());
						}
						if r.to_later_super_of_unknown {
							tags.insert("rename:name-relayed-by-a-class-without-entry-in-the-mappings-to-its-interface".into());
						}
						if r.without_target_name {
							tags.insert("rename:name-relayed-by-a-class-entry-without-target-name".into());
						}
						if r.own_entry_without_target_name {
							tags.insert("rename:name-relayed-by-a-class-that-lists-the-bridge-without-target-name".into());
						}
					}
					for (who, r, renamed) in [("bridge", world.int_name_inherited(&c.bridge), int_bridge.1 != c.bridge.1), ("delegate", world.int_name_inherited(delegate), int_delegate.1 != delegate.1)] {
						let Some(r) = r.filter(|_| renamed) else { continue };
						tags.insert(format!("rename:{who}-intermediary-name-inherited"));
						if r.unknown >= 1 {
							tags.insert(format!("rename:{who}-intermediary-name-relayed-by-a-class-without-calamus-entry"));
						}
						if r.unknown >= 2 {
							tags.insert(format!("rename:{who}-intermediary-name-relayed-by-two-or-more-classes-without-calamus-entry"));
						}
						if r.to_later_super_of_unknown {
							tags.insert(format!("rename:{who}-intermediary-name-relayed-by-a-class-without-calamus-entry-to-its-interface"));
						}
					}
				} else {
					tags.insert(format!("silent:{how}"));
				}
			} else {
				tags.insert("silent:bridge-class-absent-from-mappings".into());
			}
		} else {
			tags.insert(format!("silent:{}", c.reason));
		}
		plan.push(format!("{:?} -> {:?} [{:?}, {}]: in class {:?} entry {:?} gets one of {:?} ({how})", c.bridge, delegate, c.verdict, c.reason, class, key, uniq));
		match sites.iter_mut().find(|x| x.class == class && x.key == key) {
			Some(site) => {
				// two bridges for one delegate in one class: excluded by the property's quantifier ("at most one
				// bridge per delegate and class") — for this entry the treatment of either bridge is accepted
				conflict = true;
				plan.push(format!("  (second bridge for entry {key:?} of class {class:?}: outside the quantifier, either bridge's treatment is accepted for this entry)"));
				for a in uniq {
					if !site.alts.contains(&a) {
						site.alts.push(a);
					}
				}
			},
			None => sites.push(Site { class, key, alts: uniq }),
		}
	}
	if conflict {
		tags.retain(|t: &String| !t.starts_with("rename:"));
		tags.insert("silent:two-bridges-for-one-delegate-in-one-class".into());
	}
	Expectation { candidates, outside_domain: outside, sites, tags, plan }
}

/// (names of the class entry, the method entry) of a site after one treatment — what `apply_alt` produces there
fn site_after(base: &MSet, s: &Site, a: &Alt) -> (Option<Vec<Option<String>>>, Option<MMethod>) {
	let cls = base.classes.get(&s.class);
	let names = |n: &String| vec![Some(s.key.0.clone()), Some(n.clone())];
	match (&a.set, cls) {
		(None, _) => (cls.map(|c| c.names.clone()), cls.and_then(|c| c.methods.get(&s.key).cloned())),
		(Some(n), Some(c)) => {
			let mut m = c.methods.get(&s.key).cloned().unwrap_or_default();
			m.names = names(n);
			(Some(c.names.clone()), Some(m))
		},
		(Some(_), None) if a.create == 0 => (None, None),
		(Some(n), None) => (Some(vec![Some(s.class.clone()), if a.create == 2 { Some(s.class.clone()) } else { None }]), Some(MMethod { names: names(n), ..Default::default() })),
	}
}

impl Expectation {
	/// does the statement leave more than one result acceptable?
	pub fn several_readings(&self) -> bool {
		self.sites.iter().any(|s| s.alts.len() > 1)
	}

	/// the primary reading
	pub fn primary(&self, base: &MSet) -> MSet {
		let mut m = base.clone();
		for s in &self.sites {
			apply_alt(&mut m, &s.class, &s.key, &s.alts[0]);
		}
		m
	}

	/// The acceptable result nearest to `actual`: for every concerned entry the first acceptable treatment
	/// that produces the entry `actual` has there (else the primary one). `actual` is acceptable iff it is
	/// equal to the returned set — so every entry not concerned must be unchanged.
	pub fn nearest(&self, base: &MSet, actual: &MSet) -> MSet {
		let mut m = base.clone();
		for s in &self.sites {
			let got_class = actual.classes.get(&s.class);
			let got = got_class.and_then(|c| c.methods.get(&s.key));
			let mut pick = &s.alts[0];
			for a in &s.alts {
				let (want_row, want) = site_after(base, s, a);
				let row_ok = a.create == 0 || want_row.as_ref() == got_class.map(|c| &c.names);
				if want.as_ref() == got && row_ok {
					pick = a;
					break;
				}
			}
			apply_alt(&mut m, &s.class, &s.key, pick);
		}
		m
	}
}

/// Judges the two maps of `get_specialized_methods`: differences as (key, text).
pub fn judge_pairs(candidates: &[Candidate], b2s: &[(MRef, MRef)], s2b: &[(MRef, MRef)]) -> Vec<(String, String)> {
	let mut out = Vec::new();
	let by_bridge: BTreeMap<&MRef, &Candidate> = candidates.iter().map(|c| (&c.bridge, c)).collect();
	let mut seen = BTreeSet::new();
	for (b, sp) in b2s {
		if !seen.insert(b) {
			out.push(("pairs:bridge-listed-twice".into(), format!("{b:?} appears twice in bridge_to_specialized")));
		}
		match by_bridge.get(b) {
			None => out.push(("pairs:unknown-bridge".into(), format!("bridge_to_specialized names {b:?}, which is not a method of the jar"))),
			Some(c) if c.verdict == Tri::No => out.push((format!("pairs:not-a-bridge:{}", strip(&c.reason)), format!("bridge_to_specialized contains {b:?} -> {sp:?}, but {b:?} is not a bridge ({})", c.reason))),
			Some(c) => {
				if c.delegate.as_ref() != Some(sp) {
					out.push(("pairs:wrong-specialized".into(), format!("bridge_to_specialized maps {b:?} to {sp:?}, the method it invokes is {:?}", c.delegate)));
				}
			},
		}
	}
	for c in candidates {
		if c.verdict == Tri::Yes && !b2s.iter().any(|(b, _)| b == &c.bridge) {
			out.push((format!("pairs:bridge-missing:{}", strip(&c.reason)), format!("{:?} is a bridge ({}) for {:?} but is missing from bridge_to_specialized", c.bridge, c.reason, c.delegate)));
		}
	}
	// specialized_to_bridge: exactly the specialised methods, each with one of its bridges
	let values: BTreeSet<&MRef> = b2s.iter().map(|(_, sp)| sp).collect();
	let mut keys = BTreeSet::new();
	for (sp, b) in s2b {
		if !keys.insert(sp) {
			out.push(("pairs:specialized-listed-twice".into(), format!("{sp:?} appears twice in specialized_to_bridge")));
		}
		if !b2s.iter().any(|(b2, s2)| b2 == b && s2 == sp) {
			out.push(("pairs:reverse-pair-without-forward-pair".into(), format!("specialized_to_bridge contains {sp:?} -> {b:?}, bridge_to_specialized has no such pair")));
		}
	}
	for v in values {
		if !keys.contains(v) {
			out.push(("pairs:specialized-missing".into(), format!("{v:?} has a bridge but is missing from specialized_to_bridge")));
		}
	}
	out
}

/// the part of a reason before the first ':' (stable, no type kinds) — for difference keys
pub fn strip(reason: &str) -> &str {
	reason.split(':').next().unwrap_or(reason)
}
