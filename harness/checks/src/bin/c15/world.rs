//! Building the jars in memory, running the real code, comparing with the oracle; replay text.

use std::cell::RefCell;
use std::collections::HashMap;
use std::io::{Cursor, Write};
use cfmodel::asm::{assemble, AsmError, Encoding};
use cfmodel::model::*;
use dukebox::storage::UnnamedMemJar;
use fbrshim::sm;
use mapmodel::MSet;
use vcore::{json, Ctx, Stats};
use crate::oracle::{self, Expectation, Input, MRef, World};

/// development aid (C15_PROFILE=1): CPU split per phase on stderr; never part of a verdict or of the evidence
pub static PROFILE: [std::sync::atomic::AtomicU64; 8] = [const { std::sync::atomic::AtomicU64::new(0) }; 8];
fn lap(slot: usize, since: &mut std::time::Instant) {
	let now = std::time::Instant::now();
	PROFILE[slot].fetch_add((now - *since).as_nanos() as u64, std::sync::atomic::Ordering::Relaxed);
	*since = now;
}

thread_local! {
	/// assembled (and self-checked) class files by model; a pure cache, never decides anything
	static ASSEMBLED: RefCell<HashMap<SClass, Vec<u8>>> = RefCell::new(HashMap::new());
}

/// `assemble` with the oracle self-check `parse(assemble(m)) == m`
pub fn class_bytes(c: &SClass) -> Vec<u8> {
	ASSEMBLED.with(|cache| {
		let mut cache = cache.borrow_mut();
		if let Some(b) = cache.get(c) {
			return b.clone();
		}
		let bytes = match assemble(c, &Encoding::default()) {
			Ok(b) => b,
			Err(AsmError::Unencodable(e)) | Err(AsmError::Internal(e)) => vcore::machinery_fail(&format!("C15: cannot assemble {:?}: {e}", c.this_class)),
		};
		match cfmodel::parse(&bytes) {
			Ok(p) if &p.class == c => {},
			Ok(p) => vcore::machinery_fail(&format!("C15: assembler and reference parser disagree on {:?}: {:?}", c.this_class, cfmodel::sdiff::diff(c, &p.class).0.first())),
			Err(e) => vcore::machinery_fail(&format!("C15: the reference parser rejects the assembled {:?}: {e}", c.this_class)),
		}
		if cache.len() > 20_000 {
			cache.clear();
		}
		cache.insert(c.clone(), bytes.clone());
		bytes
	})
}

thread_local! {
	/// zipped jars by class list; a pure cache (a hit is verified by comparing the class lists)
	static JARS: RefCell<HashMap<u64, (Vec<SClass>, Vec<u8>)>> = RefCell::new(HashMap::new());
}

pub fn jar_of(classes: &[SClass]) -> UnnamedMemJar {
	let h = vcore::hash64(classes);
	if let Some(data) = JARS.with(|j| j.borrow().get(&h).filter(|(k, _)| k.as_slice() == classes).map(|(_, d)| d.clone())) {
		return UnnamedMemJar { data };
	}
	let data = build_jar(classes);
	JARS.with(|j| {
		let mut j = j.borrow_mut();
		if j.len() > 64 {
			j.clear();
		}
		j.insert(h, (classes.to_vec(), data.clone()));
	});
	UnnamedMemJar { data }
}

fn build_jar(classes: &[SClass]) -> Vec<u8> {
	let mut w = zip::ZipWriter::new(Cursor::new(Vec::new()));
	let opts = zip::write::SimpleFileOptions::default().compression_method(zip::CompressionMethod::Stored).last_modified_time(zip::DateTime::default());
	for c in classes {
		let name = format!("{}.class", c.this_class.to_string_lossy());
		if let Err(e) = w.start_file(name, opts).map_err(|e| e.to_string()).and_then(|()| w.write_all(&class_bytes(c)).map_err(|e| e.to_string())) {
			vcore::machinery_fail(&format!("C15: cannot build the jar: {e}"));
		}
	}
	// a non-class entry: must be ignored
	if w.start_file("META-INF/MANIFEST.MF", opts).is_ok() {
		let _ = w.write_all(b"Manifest-Version: 1.0\n");
	}
	match w.finish() {
		Ok(c) => c.into_inner(),
		Err(e) => vcore::machinery_fail(&format!("C15: cannot finish the jar: {e}")),
	}
}

// ---------------------------------------------------------------------------------------------
// replay text

pub fn replay_text(label: &str, input: &Input, notes: &[String]) -> String {
	let mut o = format!("case={label}\n");
	for c in &input.main {
		o.push_str(&format!("main.class={}\n", vcore::hex(&class_bytes(c))));
	}
	for l in &input.libs {
		o.push_str("lib.begin\n");
		for c in l {
			o.push_str(&format!("lib.class={}\n", vcore::hex(&class_bytes(c))));
		}
	}
	o.push_str("#calamus\n");
	o.push_str(&mapmodel::tiny::print(&input.calamus));
	o.push_str("#mappings\n");
	o.push_str(&mapmodel::tiny::print(&input.mappings));
	o.push_str("#notes\n");
	for c in &input.main {
		for m in &c.methods {
			o.push_str(&format!("  {} {:#06x} {}{}{}\n", c.this_class.to_string_lossy(), m.access, m.name.to_string_lossy(), m.desc.to_string_lossy(),
				m.code.as_ref().map(|k| format!(" calls {:?}", k.insns.iter().filter_map(|i| match i {
					SInsn::Invoke(op, r, _) => Some(format!("{op:#x} {}.{}{}", r.owner.to_string_lossy(), r.name.to_string_lossy(), r.desc.to_string_lossy())),
					SInsn::InvokeDynamic(_) => Some("invokedynamic".into()),
					_ => None,
				}).collect::<Vec<_>>())).unwrap_or_default()));
		}
		o.push_str(&format!("  class {} extends {:?} implements {:?}\n", c.this_class.to_string_lossy(), c.super_class, c.interfaces));
	}
	for n in notes {
		o.push_str(n);
		o.push('\n');
	}
	o
}

pub fn parse_replay(body: &str) -> Input {
	let mut input = Input::default();
	let mut section = 0; // 0 classes, 1 calamus, 2 mappings, 3 notes
	let mut calamus = String::new();
	let mut mappings = String::new();
	let class = |hex: &str| -> SClass {
		let bytes = vcore::unhex(hex).unwrap_or_else(|| vcore::machinery_fail("replay: bad hex"));
		match cfmodel::parse(&bytes) {
			Ok(p) => p.class,
			Err(e) => vcore::machinery_fail(&format!("replay: class does not parse: {e}")),
		}
	};
	for line in body.split('\n') {
		match line {
			"#calamus" => section = 1,
			"#mappings" => section = 2,
			"#notes" => section = 3,
			_ => match section {
				0 => {
					if let Some(h) = line.strip_prefix("main.class=") {
						input.main.push(class(h));
					} else if line == "lib.begin" {
						input.libs.push(Vec::new());
					} else if let Some(h) = line.strip_prefix("lib.class=") {
						match input.libs.last_mut() {
							Some(l) => l.push(class(h)),
							None => vcore::machinery_fail("replay: lib.class before lib.begin"),
						}
					}
				},
				1 => {
					calamus.push_str(line);
					calamus.push('\n');
				},
				2 => {
					mappings.push_str(line);
					mappings.push('\n');
				},
				_ => {},
			},
		}
	}
	input.calamus = mapmodel::tiny::parse(&calamus).unwrap_or_else(|e| vcore::machinery_fail(&format!("replay: calamus: {e:?}")));
	input.mappings = mapmodel::tiny::parse(&mappings).unwrap_or_else(|e| vcore::machinery_fail(&format!("replay: mappings: {e:?}")));
	input
}

// ---------------------------------------------------------------------------------------------
// one case

fn describe(m: &MSet) -> String {
	mapmodel::tiny::print(m)
}

/// Runs `get_specialized_methods` and `add_specialized_methods_to_mappings` (the real code) on the case
/// and judges both against the oracle. `with_pairs`: also run/judge `get_specialized_methods` directly.
pub fn run_case(ctx: &Ctx, st: &mut Stats, label: &str, input: &Input, with_pairs: bool) {
	let mut t0 = std::time::Instant::now();
	let world = World::new(input);
	let exp: Expectation = oracle::expect(&world);
	lap(0, &mut t0);
	let main_jar = jar_of(&input.main);
	let libs: Vec<UnnamedMemJar> = input.libs.iter().map(|l| jar_of(l)).collect();
	lap(1, &mut t0);
	let calamus: sm::Calamus = match mapmodel::to_quill(&input.calamus) {
		Ok(q) => q,
		Err(e) => vcore::machinery_fail(&format!("C15 {label}: calamus model does not convert: {e:#}")),
	};
	let mappings: sm::NamedMappings = match mapmodel::to_quill(&input.mappings) {
		Ok(q) => q,
		Err(e) => vcore::machinery_fail(&format!("C15 {label}: mappings model does not convert: {e:#}")),
	};
	let notes = |extra: String| -> Vec<String> {
		let mut v = vec!["oracle plan:".to_owned()];
		v.extend(exp.plan.iter().map(|p| format!("  {p}")));
		if let Some(o) = &exp.outside_domain {
			v.push(format!("outside the property's domain: {o}"));
		}
		v.push(extra);
		v
	};
	lap(2, &mut t0);
	st.distinct.add(&(&input.main, &input.libs, &input.calamus, &input.mappings));
	lap(3, &mut t0);

	// 1. the detected pairs
	if with_pairs {
		st.eval();
		match vcore::guard(|| sm::get_specialized_methods(&main_jar)) {
			Err(p) => {
				st.outcome("pairs:panic");
				ctx.diff(&format!("panic@{}", p.file()), &format!("get_specialized_methods panicked at {}: {}", p.site, p.msg), || replay_text(label, input, &notes(String::new())));
			},
			Ok(Err(e)) => {
				st.outcome("pairs:refused");
				ctx.diff("pairs:refused", &format!("get_specialized_methods refuses a jar of well-formed classes: {e:#}"), || replay_text(label, input, &notes(String::new())));
			},
			Ok(Ok(pairs)) => {
				if exp.outside_domain.is_some() {
					st.outcome("pairs:outside-domain-no-panic");
				} else {
					let b2s: &[(MRef, MRef)] = &pairs.bridge_to_specialized;
					let diffs = oracle::judge_pairs(&exp.candidates, b2s, &pairs.specialized_to_bridge);
					st.outcome(if !diffs.is_empty() { "pairs:differ" } else if b2s.is_empty() { "pairs:none-expected-none-found" } else { "pairs:as-expected" });
					st.outcome_n("pairs:bridges-found", b2s.len() as u64);
					if b2s.len() >= 2 && diffs.is_empty() {
						st.outcome("pairs:two-or-more-bridges");
					}
					for (key, what) in diffs {
						ctx.diff(&key, &what, || replay_text(label, input, &notes(format!("actual pairs: {pairs:?}"))));
					}
				}
			},
		}
	}

	// 2. the produced mappings
	lap(4, &mut t0);
	st.eval();
	let result = vcore::guard(|| sm::add_specialized_methods_to_mappings(&main_jar, &calamus, &libs, &mappings));
	lap(5, &mut t0);
	let produced = match result {
		Err(p) => {
			st.outcome("add:panic");
			ctx.diff(&format!("panic@{}", p.file()), &format!("add_specialized_methods_to_mappings panicked at {}: {}", p.site, p.msg), || replay_text(label, input, &notes(String::new())));
			return;
		},
		Ok(Err(e)) => {
			st.outcome("add:refused");
			if exp.outside_domain.is_none() {
				ctx.diff("add:refused", &format!("add_specialized_methods_to_mappings fails on a well-formed input: {e:#}"), || replay_text(label, input, &notes(String::new())));
			}
			return;
		},
		Ok(Ok(m)) => m,
	};
	if let Some(why) = &exp.outside_domain {
		st.outcome("add:outside-domain-no-panic");
		if std::env::var_os("C15_PROFILE").is_some() && label.starts_with("javac") {
			eprintln!("{label}: outside: {why}");
		}
		return;
	}
	let actual = match mapmodel::from_quill(&produced) {
		Ok(a) => a,
		Err(k) => {
			st.outcome("add:key-mismatch");
			ctx.diff("add:entry-stored-under-wrong-key", &format!("the produced mappings store an entry under a key that is not its first name: {}", k.0), || replay_text(label, input, &notes(String::new())));
			return;
		},
	};
	let primary = exp.primary(&input.mappings);
	let several = exp.several_readings();
	let nearest = exp.nearest(&input.mappings, &actual);
	let unchanged_expected = primary == input.mappings;
	if nearest == actual {
		let changed = actual != input.mappings;
		st.outcome(match (changed, several) {
			(true, false) => "add:renamed-as-required",
			(true, true) => "add:renamed-one-of-the-accepted-readings",
			(false, false) => "add:unchanged-as-required",
			(false, true) => "add:unchanged-one-of-the-accepted-readings",
		});
		if !several {
			for t in &exp.tags {
				st.outcome(&format!("mechanism {t}"));
			}
		} else {
			for t in exp.tags.iter().filter(|t| t.starts_with("silent:")) {
				st.outcome(&format!("mechanism {t}"));
			}
		}
		if changed {
			st.sample(exp.tags.iter().next().map(|s| s.as_str()).unwrap_or("renamed"), || json!({
				"case": label,
				"plan": exp.plan,
				"mappings_before": describe(&input.mappings),
				"mappings_after": describe(&actual),
			}));
		}
		return;
	}
	// a difference: classify it
	let primary = &nearest; // differences are reported against the acceptable result nearest to the actual one
	let (key, what) = if unchanged_expected && !several {
		let d = mapmodel::first_difference(&input.mappings, &actual).unwrap_or(("other".into(), "sets differ".into()));
		let why = exp.candidates.iter().filter(|c| c.near_miss).map(|c| oracle::strip(&c.reason).to_owned()).collect::<std::collections::BTreeSet<_>>().into_iter().collect::<Vec<_>>().join("+");
		(format!("add:unexpected-change:{}:{}", d.0, if why.is_empty() { "no-candidate".into() } else { why }), format!("the given mappings must be returned as they are (no bridge concerns an entry, or the entry concerned already carries the name), but the produced mappings differ from them: {}", d.1))
	} else if actual == input.mappings {
		let d = mapmodel::first_difference(primary, &actual).unwrap_or(("other".into(), "sets differ".into()));
		("add:rename-missing".into(), format!("the mappings are returned unchanged although a bridge's delegate must be renamed: {}", d.1))
	} else {
		let d = mapmodel::first_difference(primary, &actual).unwrap_or(("other".into(), "sets differ".into()));
		(format!("add:wrong-result:{}", d.0), format!("the produced mappings are not an acceptable result; against the nearest acceptable one: {}", d.1))
	};
	st.outcome("add:differs");
	ctx.diff(&key, &what, || replay_text(label, input, &notes(format!("expected (nearest acceptable result):\n{}actual:\n{}", describe(primary), describe(&actual)))));
}
