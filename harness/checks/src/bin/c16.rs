//! C16 — parsers fail with an error, never crash, on arbitrary input (FAULT ENUMERATION).
//!
//! Every case is one execution of a REAL parser of /repo in a sandboxed child process (this binary
//! re-executed with `--faultbox`): `duke::read_class` (+ `duke::write_class` on whatever it accepts),
//! `quill::tiny_v2::read::<2|3>`, `quill::tiny_v2_diff::read_file`, `quill::enigma_file::read_into`,
//! `dukenest Nests::read`, and `parse()` (+ `write()`) of the three descriptor types.
//!
//! Oracle (from the statement): the verdict of a case must be `ok` or `err`. A panic, an abort or
//! signal (stack overflow), more than 2 s of CPU time, or more than 64 × input + 64 MiB of live
//! allocations is a violation, keyed by call site.
//!
//! Fault sets, each enumerated COMPLETELY (no sampling, no randomness):
//!  (a) every entry of the seed's field map (cfmodel's independent strict parser: offset, width, role
//!      of every tag/count/length/index/offset) × every width-appropriate boundary value;
//!  (b) truncation of every seed at every byte position;
//!  (c) thorough: all pairs of (a)-faults within one structure (bounded, see `bounds`);
//!  (d) hand-built adversaries and every instruction cut short at every operand byte;
//!  (e) text parsers: every sequence of ≤ 3 lines over a line alphabet, every single-token
//!      replacement in fixture-like seeds; descriptor parsers: every string up to a length bound;
//!  (f) every single byte edit of every seed; (g) short strings in every text cell / Utf8 constant;
//!  (h) "text is bytes": k ASCII letters and one character of 1/2/3/4 UTF-8 bytes (first and last), every
//!      k ≤ 140, in every cell of the text seeds (accepted, and quoted by an indentation error), in
//!      the slot of every error-situation template (duplicate class/field/method/parameter/comment,
//!      too many / too few fields, bad descriptor / index / header / indentation: the errors that quote
//!      text), in the descriptor parsers and in every Utf8 constant of class seeds: a message or a name
//!      that is cut at a byte offset meets a character boundary problem for some k;
//!  (i) fault sequences of the environment: readers that serve 1..7 bytes per call, answer
//!      `Interrupted` first, fail with an I/O error at every byte offset; writers that accept part of
//!      what is offered and fail after every number of bytes (the class reader, tiny v2, Enigma);
//!  (j) structure edits: every attribute duplicated (in place / at the ends of its list), deleted,
//!      swapped with its successor: repeated attributes are legal for some kinds (the reader merges
//!      LineNumberTables, LocalVariable(Type)Tables), "already there" for the others;
//!  (d+) around every bound: element values nested along every periodic word of ≤ 3 steps over
//!      {annotation, array} (a depth guard reset at one of the four recursion sites shows only on a
//!      mix) at every place an annotation can stand, at depths 254..258 (with siblings before and
//!      after) and 100000; Enigma classes with members between the levels; Dynamic chains 254..258,
//!      32767..32769 nested arguments; tables merged by the reader to 65535 / 65536 entries, 65535
//!      attributes / fields / methods / interfaces, a pool with every slot used (what the reader
//!      accepts is written again: counts beyond a u16 must come back as errors); code that grows
//!      when written (ldc → ldc_w) so that branches must be widened, up to the last byte of a method.
//!  Enigma's `read_into` appends to existing mappings: every accepted Enigma input is read a second
//!  time into the mappings it has just produced (state that is already there).

#![recursion_limit = "256"]

use std::alloc::{GlobalAlloc, Layout, System};
use std::collections::{BTreeMap, BTreeSet, VecDeque};
use std::io::{BufRead, BufReader};
use std::path::{Path, PathBuf};
use std::sync::atomic::{AtomicUsize, Ordering};
use std::sync::Mutex;

use vcore::{json, Ctx, Tier, Value};

#[path = "c16/adversaries.rs"]
mod adversaries;
#[path = "c16/child.rs"]
mod child;
#[path = "c16/spaces.rs"]
mod spaces;
#[path = "c16/texts.rs"]
mod texts;

use child::{Page, IDLE, S_ERR, S_IDX, S_JOB, S_OK, S_OKWR, S_PANIC};
use spaces::{Space, P, PARSERS};

// ---------------------------------------------------------------------------------------------
// counting allocator: bytes live; in the child a per-case budget is enforced through LIMIT

pub static LIVE: AtomicUsize = AtomicUsize::new(0);
pub static LIMIT: AtomicUsize = AtomicUsize::new(usize::MAX);

struct Counting;

/// Probe mode only: once a stack overflow has been caught (possibly inside malloc, with its lock
/// held) every allocation is served from a private bump arena and nothing is ever freed.
pub static ARENA_ON: std::sync::atomic::AtomicBool = std::sync::atomic::AtomicBool::new(false);
pub static ARENA_BASE: AtomicUsize = AtomicUsize::new(0);
pub static ARENA_POS: AtomicUsize = AtomicUsize::new(0);
pub const ARENA_SIZE: usize = 6 << 30;

fn arena_alloc(l: Layout) -> *mut u8 {
	let base = ARENA_BASE.load(Ordering::SeqCst);
	if base == 0 {
		return std::ptr::null_mut();
	}
	loop {
		let pos = ARENA_POS.load(Ordering::SeqCst);
		let start = (base + pos + l.align() - 1) & !(l.align() - 1);
		let end = start + l.size() - base;
		if end > ARENA_SIZE {
			return std::ptr::null_mut();
		}
		if ARENA_POS.compare_exchange(pos, end, Ordering::SeqCst, Ordering::SeqCst).is_ok() {
			return start as *mut u8;
		}
	}
}

#[inline]
fn note(n: usize) {
	let now = LIVE.fetch_add(n, Ordering::Relaxed).wrapping_add(n);
	if now > LIMIT.load(Ordering::Relaxed) {
		child::alloc_excess(n, now);
	}
}

// SAFETY: forwards to the system allocator (or, in probe mode after an overflow, to a bump arena
// whose memory is zero pages never handed out twice); only counts
unsafe impl GlobalAlloc for Counting {
	unsafe fn alloc(&self, l: Layout) -> *mut u8 {
		if ARENA_ON.load(Ordering::Relaxed) {
			return arena_alloc(l);
		}
		note(l.size());
		System.alloc(l)
	}
	unsafe fn alloc_zeroed(&self, l: Layout) -> *mut u8 {
		if ARENA_ON.load(Ordering::Relaxed) {
			return arena_alloc(l);
		}
		note(l.size());
		System.alloc_zeroed(l)
	}
	unsafe fn dealloc(&self, p: *mut u8, l: Layout) {
		if ARENA_ON.load(Ordering::Relaxed) {
			return;
		}
		LIVE.fetch_sub(l.size(), Ordering::Relaxed);
		System.dealloc(p, l)
	}
	unsafe fn realloc(&self, p: *mut u8, l: Layout, new: usize) -> *mut u8 {
		if ARENA_ON.load(Ordering::Relaxed) {
			let q = arena_alloc(Layout::from_size_align_unchecked(new, l.align()));
			if !q.is_null() {
				std::ptr::copy_nonoverlapping(p, q, l.size().min(new));
			}
			return q;
		}
		if new > l.size() {
			note(new - l.size());
		} else {
			LIVE.fetch_sub(l.size() - new, Ordering::Relaxed);
		}
		System.realloc(p, l, new)
	}
}

#[global_allocator]
static ALLOC: Counting = Counting;

// ---------------------------------------------------------------------------------------------
// parent: jobs, children, triage

#[derive(Clone, Debug)]
struct Job {
	space: usize,
	from: u64,
	to: u64,
}

#[derive(Clone, Debug)]
enum Kind {
	Panic { file: String, line: u32, frame: Option<String>, msg: String },
	Alloc { request: u64, live: u64, limit: u64, site: String },
	Timeout { cpu: String, wall: String },
	Killed { how: String, stack_overflow: bool, stderr: String },
	/// a stack overflow whose innermost repository frames were found by re-running the case in probe mode
	StackOverflow { how: String, sites: Vec<(String, u32, u64)> },
}

#[derive(Clone, Debug)]
struct Violation {
	space: usize,
	idx: u64,
	kind: Kind,
}

#[derive(Default, Clone)]
struct Counts {
	ok: u64,
	okwr: u64,
	err: u64,
	panic: u64,
	alloc: u64,
	timeout: u64,
	killed: u64,
}

impl Counts {
	fn total(&self) -> u64 {
		self.ok + self.okwr + self.err + self.panic + self.alloc + self.timeout + self.killed
	}
	fn add(&mut self, o: &Counts) {
		self.ok += o.ok;
		self.okwr += o.okwr;
		self.err += o.err;
		self.panic += o.panic;
		self.alloc += o.alloc;
		self.timeout += o.timeout;
		self.killed += o.killed;
	}
	fn json(&self) -> Value {
		json!({"cases": self.total(), "ok": self.ok, "ok_but_write_class_refused": self.okwr, "err": self.err, "panic": self.panic, "alloc_excess": self.alloc, "timeout": self.timeout, "killed": self.killed})
	}
}

#[derive(Default)]
struct Tally {
	per_space: BTreeMap<usize, Counts>,
	/// per (space, parser) only where a space mixes parsers (adversaries, seeds): counted via per-case lines
	err_classes: BTreeMap<usize, BTreeSet<String>>,
	violations: Vec<Violation>,
	samples: Vec<(usize, u64, String)>,
	respawns: u64,
	children: u64,
}

impl Tally {
	fn merge(&mut self, o: Tally) {
		for (k, v) in o.per_space {
			self.per_space.entry(k).or_default().add(&v);
		}
		for (k, v) in o.err_classes {
			self.err_classes.entry(k).or_default().extend(v);
		}
		self.violations.extend(o.violations);
		self.samples.extend(o.samples);
		self.respawns += o.respawns;
		self.children += o.children;
	}
}

struct WorkerEnv {
	exe: PathBuf,
	tier: &'static str,
	page_path: PathBuf,
	jobs_path: PathBuf,
	scratch_path: PathBuf,
	stderr_path: PathBuf,
	page: Page,
}

fn signal_name(s: i32) -> String {
	match s {
		libc::SIGSEGV => "SIGSEGV".into(),
		libc::SIGABRT => "SIGABRT".into(),
		libc::SIGBUS => "SIGBUS".into(),
		libc::SIGKILL => "SIGKILL".into(),
		libc::SIGXCPU => "SIGXCPU".into(),
		libc::SIGILL => "SIGILL".into(),
		libc::SIGFPE => "SIGFPE".into(),
		n => format!("SIG{n}"),
	}
}

/// Re-runs one case that died of a stack overflow in probe mode; returns the repository source
/// positions (path, line, occurrences) among the innermost frames of the overflowed stack.
fn probe_overflow(env: &WorkerEnv, spec: &str, idx: u64) -> Vec<(String, u32, u64)> {
	if std::fs::write(&env.jobs_path, format!("{spec}\t{idx}\t{}\n", idx + 1)).is_err() {
		return Vec::new();
	}
	env.page.set(S_IDX, IDLE);
	let out = std::process::Command::new(&env.exe)
		.arg("--faultbox").arg(env.tier).arg(&env.page_path).arg(&env.jobs_path).arg(&env.scratch_path)
		.env("C16_PROBE", "1")
		.stdin(std::process::Stdio::null()).stderr(std::process::Stdio::null()).output();
	let Ok(out) = out else { return Vec::new() };
	let text = String::from_utf8_lossy(&out.stdout);
	for l in text.lines() {
		let f: Vec<&str> = l.split(' ').collect();
		if f.len() >= 4 && f[0] == "V" && f[3] == "overflow" {
			return f[4..].iter().filter_map(|s| {
				let (site, n) = s.rsplit_once('*')?;
				let (p, line) = split_site(site);
				Some((p, line, n.parse().ok()?))
			}).collect();
		}
	}
	Vec::new()
}

/// Runs one batch of jobs to completion, restarting the child after every case that killed it.
fn run_batch(env: &WorkerEnv, spaces: &[Space], batch: Vec<Job>, tally: &mut Tally) {
	use std::os::unix::process::ExitStatusExt;
	let mut pending: VecDeque<Job> = batch.into();
	let mut first = true;
	while !pending.is_empty() {
		if !first {
			tally.respawns += 1;
		}
		first = false;
		tally.children += 1;
		let text: String = pending.iter().map(|j| format!("{}\t{}\t{}\n", spaces[j.space].spec, j.from, j.to)).collect();
		std::fs::write(&env.jobs_path, text).unwrap_or_else(|e| vcore::machinery_fail(&format!("jobs file: {e}")));
		env.page.set(S_IDX, IDLE);
		env.page.set(S_JOB, 0);
		let stderr = std::fs::File::create(&env.stderr_path).unwrap_or_else(|e| vcore::machinery_fail(&format!("stderr file: {e}")));
		let mut ch = std::process::Command::new(&env.exe)
			.arg("--faultbox").arg(env.tier).arg(&env.page_path).arg(&env.jobs_path).arg(&env.scratch_path)
			.stdin(std::process::Stdio::null()).stdout(std::process::Stdio::piped()).stderr(stderr)
			.spawn().unwrap_or_else(|e| vcore::machinery_fail(&format!("cannot spawn the faultbox child: {e}")));
		let out = ch.stdout.take().unwrap_or_else(|| vcore::machinery_fail("child without stdout"));
		let mut done_jobs = 0usize;
		let mut reported: Option<(usize, u64)> = None;
		for line in BufReader::new(out).split(b'\n') {
			let line = match line {
				Ok(l) => String::from_utf8_lossy(&l).into_owned(),
				Err(_) => break,
			};
			let (tag, rest) = line.split_once(' ').unwrap_or((line.as_str(), ""));
			match tag {
				"E" => {
					if let Some((pid, text)) = rest.split_once(' ') {
						if let Ok(pid) = pid.parse::<usize>() {
							tally.err_classes.entry(pid).or_default().insert(text.to_owned());
						}
					}
				},
				"S" => {
					let mut it = rest.splitn(3, ' ');
					if let (Some(j), Some(i), Some(v)) = (it.next().and_then(|x| x.parse::<usize>().ok()), it.next().and_then(|x| x.parse::<u64>().ok()), it.next()) {
						if let Some(job) = pending.get(j) {
							tally.samples.push((job.space, i, v.to_owned()));
						}
					}
				},
				"D" => {
					let n: Vec<u64> = rest.split(' ').filter_map(|x| x.parse().ok()).collect();
					if n.len() != 7 {
						vcore::machinery_fail(&format!("bad D line from the child: {line}"));
					}
					let job = pending.get(n[0] as usize).unwrap_or_else(|| vcore::machinery_fail("D line for an unknown job"));
					if n[1] != job.from || n[2] != job.to || n[3] + n[4] + n[5] + n[6] != job.to - job.from {
						vcore::machinery_fail(&format!("child accounting does not add up: {line} for {job:?}"));
					}
					let c = tally.per_space.entry(job.space).or_default();
					c.ok += n[3];
					c.okwr += n[4];
					c.err += n[5];
					c.panic += n[6];
					done_jobs = n[0] as usize + 1;
				},
				"V" => {
					let mut it = rest.splitn(4, ' ');
					let j = it.next().and_then(|x| x.parse::<usize>().ok());
					let i = it.next().and_then(|x| x.parse::<u64>().ok());
					let kind = it.next().unwrap_or("");
					let detail = it.next().unwrap_or("");
					let (Some(j), Some(i)) = (j, i) else { vcore::machinery_fail(&format!("bad V line: {line}")) };
					let job = pending.get(j).unwrap_or_else(|| vcore::machinery_fail("V line for an unknown job"));
					let k = match kind {
						"panic" => {
							let f: Vec<&str> = detail.splitn(4, '\t').collect();
							if f.len() != 4 {
								vcore::machinery_fail(&format!("bad panic line: {line}"));
							}
							Kind::Panic { file: f[0].to_owned(), line: f[1].parse().unwrap_or(0), frame: if f[2] == "-" { None } else { Some(f[2].to_owned()) }, msg: f[3].to_owned() }
						},
						"alloc" => {
							let f: Vec<&str> = detail.splitn(4, ' ').collect();
							if f.len() != 4 {
								vcore::machinery_fail(&format!("bad alloc line: {line}"));
							}
							reported = Some((j, i));
							Kind::Alloc { request: f[0].parse().unwrap_or(0), live: f[1].parse().unwrap_or(0), limit: f[2].parse().unwrap_or(0), site: f[3].to_owned() }
						},
						"timeout" => {
							let f: Vec<&str> = detail.split(' ').collect();
							reported = Some((j, i));
							Kind::Timeout { cpu: f.first().copied().unwrap_or("?").to_owned(), wall: f.get(1).copied().unwrap_or("?").to_owned() }
						},
						_ => vcore::machinery_fail(&format!("bad V line: {line}")),
					};
					tally.violations.push(Violation { space: job.space, idx: i, kind: k });
				},
				"M" => vcore::machinery_fail(&format!("faultbox child: {rest}")),
				_ => vcore::machinery_fail(&format!("unexpected line from the child: {line}")),
			}
		}
		let status = ch.wait().unwrap_or_else(|e| vcore::machinery_fail(&format!("wait: {e}")));
		if status.success() {
			if done_jobs != pending.len() {
				vcore::machinery_fail("the child exited normally without finishing its jobs");
			}
			pending.clear();
			continue;
		}
		// the child died (or left on purpose) during the case published in the shared page
		let (j, i) = (env.page.get(S_JOB) as usize, env.page.get(S_IDX));
		let stderr_text = std::fs::read_to_string(&env.stderr_path).unwrap_or_default();
		if i == IDLE || j >= pending.len() || j < done_jobs {
			vcore::machinery_fail(&format!("the faultbox child died outside a case ({status:?}): {}", stderr_text.chars().take(600).collect::<String>()));
		}
		let job = pending[j].clone();
		let c = tally.per_space.entry(job.space).or_default();
		c.ok += env.page.get(S_OK);
		c.okwr += env.page.get(S_OKWR);
		c.err += env.page.get(S_ERR);
		c.panic += env.page.get(S_PANIC);
		match (status.code(), status.signal()) {
			(Some(child::EXIT_ALLOC), _) if reported == Some((j, i)) => c.alloc += 1,
			(Some(child::EXIT_TIMEOUT), _) if reported == Some((j, i)) => c.timeout += 1,
			(Some(child::EXIT_MACHINERY), _) => vcore::machinery_fail(&format!("faultbox child machinery failure: {}", stderr_text.chars().take(600).collect::<String>())),
			(code, sig) => {
				c.killed += 1;
				let how = match (code, sig) {
					(_, Some(s)) => signal_name(s),
					(Some(cd), None) => format!("exit-{cd}"),
					_ => "unknown".into(),
				};
				let so = stderr_text.contains("overflowed its stack");
				let sites = if so { probe_overflow(env, &spaces[job.space].spec, i) } else { Vec::new() };
				tally.children += so as u64;
				let kind = if sites.is_empty() { Kind::Killed { how, stack_overflow: so, stderr: stderr_text.chars().take(300).collect() } } else { Kind::StackOverflow { how, sites } };
				tally.violations.push(Violation { space: job.space, idx: i, kind });
			},
		}
		// continue after the culprit
		for _ in 0..j {
			pending.pop_front();
		}
		if let Some(front) = pending.front_mut() {
			front.from = i + 1;
			if front.from >= front.to {
				pending.pop_front();
			}
		}
	}
}

// ---------------------------------------------------------------------------------------------
// keys: call sites

fn repo_marker() -> String {
	["/", "repo", "/"].concat()
}

fn rel_path(p: &str) -> String {
	let m = repo_marker();
	match p.rfind(&m) {
		Some(i) => p[i + m.len()..].to_owned(),
		None => {
			let parts: Vec<&str> = p.rsplit('/').take(3).collect();
			parts.into_iter().rev().collect::<Vec<_>>().join("/")
		},
	}
}

fn slug(s: &str, max: usize) -> String {
	let mut out = String::new();
	let mut prev_digit = false;
	for c in s.chars() {
		if c.is_ascii_digit() {
			if !prev_digit {
				out.push('N');
			}
			prev_digit = true;
			continue;
		}
		prev_digit = false;
		if c.is_ascii_alphabetic() || c == '_' {
			out.push(c);
		} else if !out.ends_with('-') && !out.is_empty() {
			out.push('-');
		}
		if out.len() >= max {
			break;
		}
	}
	out.trim_end_matches('-').to_owned()
}

fn fn_name_of(line: &str) -> Option<String> {
	let mut t = line.trim_start();
	loop {
		let before = t;
		for p in ["pub(crate) ", "pub(super) ", "pub ", "const ", "unsafe ", "async "] {
			if let Some(r) = t.strip_prefix(p) {
				t = r;
			}
		}
		if t == before {
			break;
		}
	}
	let r = t.strip_prefix("fn ")?;
	let name: String = r.chars().take_while(|c| c.is_ascii_alphanumeric() || *c == '_').collect();
	if name.is_empty() { None } else { Some(name) }
}

/// (enclosing function, slug of the source line, ordinal among identical lines of the file) of a source position
fn source_site(path: &str, line: u32) -> Option<(String, String, usize)> {
	static CACHE: Mutex<BTreeMap<String, Option<String>>> = Mutex::new(BTreeMap::new());
	let text = {
		let mut c = CACHE.lock().ok()?;
		c.entry(path.to_owned()).or_insert_with(|| std::fs::read_to_string(path).ok()).clone()?
	};
	let lines: Vec<&str> = text.lines().collect();
	let k = (line as usize).checked_sub(1)?;
	let target = *lines.get(k)?;
	let indent = |s: &str| s.chars().take_while(|c| *c == '\t' || *c == ' ').count();
	let ti = indent(target);
	let mut name = "?".to_owned();
	for l in lines[..k].iter().rev() {
		if l.trim().is_empty() || indent(l) >= ti {
			continue;
		}
		if let Some(n) = fn_name_of(l) {
			name = n;
			break;
		}
	}
	let ord = 1 + lines[..k].iter().filter(|l| l.trim() == target.trim()).count();
	Some((name, slug(target.trim(), 44), ord))
}

fn site_key(prefix: &str, path: &str, line: u32) -> String {
	let rel = rel_path(path);
	match source_site(path, line) {
		Some((f, s, ord)) => format!("{prefix}@{rel}:{f}:{s}{}", if ord > 1 { format!("#{ord}") } else { String::new() }),
		None => format!("{prefix}@{rel}"),
	}
}

fn split_site(s: &str) -> (String, u32) {
	match s.rsplit_once(':') {
		Some((p, l)) => (p.to_owned(), l.parse().unwrap_or(0)),
		None => (s.to_owned(), 0),
	}
}

fn replay_text(space: &Space, idx: u64, tier: &str) -> String {
	let input = space.input(idx);
	let hex = if input.len() <= 2 << 20 { vcore::hex(&input) } else { "(omitted: larger than 2 MiB, regenerated from the generator line)".to_owned() };
	format!("parser={}\nenv={}\ncase={}\ngenerator={}:{}#{}\ninput_len={}\ninput (hex):\n{}", space.parser(idx).name(), space.env(idx).text(), space.label(idx), tier, space.spec, idx, input.len(), hex)
}

/// turns one violation into a (key, what) pair
fn describe(v: &Violation, space: &Space) -> (String, String) {
	let parser = space.parser(v.idx).name();
	match &v.kind {
		Kind::Panic { file, line, frame, msg } => {
			let in_repo = file.contains(&repo_marker());
			if in_repo {
				(site_key("panic", file, *line), format!("{parser} panicked at {}:{line}: {msg}", rel_path(file)))
			} else if let Some(fr) = frame {
				let (p, l) = split_site(fr);
				(site_key("panic", &p, l), format!("{parser} panicked at {}:{l} (raised inside {}:{line}): {msg}", rel_path(&p), rel_path(file)))
			} else {
				(format!("panic@{}:{}@{parser}", rel_path(file), slug(msg, 40)), format!("{parser} panicked at {file}:{line}: {msg}"))
			}
		},
		Kind::Alloc { request, live, limit, site } => {
			let (p, l) = split_site(site);
			let n = space.input(v.idx).len();
			(site_key("alloc", &p, l), format!("{parser} asked for {request} more bytes (then {live} live, budget {limit} = live at start + 64 x {n} input bytes + 64 MiB) at {}:{l}", rel_path(&p)))
		},
		Kind::Timeout { cpu, wall } => (format!("timeout@{parser}:{}", space.death_class(v.idx)), format!("{parser} used {cpu} s of CPU ({wall} s wall) on one input, budget {} s", child::CPU_BUDGET_S)),
		Kind::StackOverflow { how, sites } => {
			// the recursion cycle: positions seen more than once; keyed by its alphabetically first function
			let mut fns: Vec<(String, String, u32)> = sites.iter().filter(|(_, _, n)| *n >= 2).filter_map(|(p, l, _)| source_site(p, *l).map(|(f, _, _)| (f, p.clone(), *l))).collect();
			fns.sort();
			fns.dedup_by(|a, b| a.0 == b.0);
			match fns.first() {
				Some((f, p, _)) => (format!("stack-overflow@{}:{f}", rel_path(p)), format!("{parser} overflowed the 8 MiB stack ({how}); unbounded recursion through {}", fns.iter().map(|(f, p, l)| format!("{f} ({}:{l})", rel_path(p))).collect::<Vec<_>>().join(" -> "))),
				None => (format!("killed:{how}(stack-overflow)@{parser}:{}", space.death_class(v.idx)), format!("{parser} overflowed the 8 MiB stack ({how})")),
			}
		},
		Kind::Killed { how, stack_overflow, stderr } => {
			let h = if *stack_overflow { format!("{how}(stack-overflow)") } else { how.clone() };
			(format!("killed:{h}@{parser}:{}", space.death_class(v.idx)), format!("the process running {parser} died with {h}: {}", stderr.replace('\n', " ")))
		},
	}
}

// ---------------------------------------------------------------------------------------------

fn scratch_dir() -> PathBuf {
	let shm = Path::new("/dev/shm");
	let base = if shm.is_dir() { shm.to_path_buf() } else { vcore::verif_root().join("harness").join("target") };
	base.join(format!("verif-c16-{}", std::process::id()))
}

/// removes scratch directories left behind by runs of this checker that ended abnormally
fn remove_stale_scratch() {
	let Some(parent) = scratch_dir().parent().map(|p| p.to_path_buf()) else { return };
	let Ok(rd) = std::fs::read_dir(&parent) else { return };
	for e in rd.flatten() {
		let name = e.file_name().to_string_lossy().into_owned();
		if let Some(pid) = name.strip_prefix("verif-c16-").and_then(|p| p.parse::<u32>().ok()) {
			if pid != std::process::id() && !Path::new(&format!("/proc/{pid}")).exists() {
				let _ = std::fs::remove_dir_all(e.path());
			}
		}
	}
}

fn make_env(dir: &Path, k: usize, tier: &'static str) -> WorkerEnv {
	let page_path = dir.join(format!("w{k}.page"));
	let page = Page::map(&page_path, true).unwrap_or_else(|e| vcore::machinery_fail(&e));
	WorkerEnv {
		exe: std::env::current_exe().unwrap_or_else(|e| vcore::machinery_fail(&format!("current_exe: {e}"))),
		tier,
		page_path,
		jobs_path: dir.join(format!("w{k}.jobs")),
		scratch_path: dir.join(format!("w{k}.tinydiff")),
		stderr_path: dir.join(format!("w{k}.stderr")),
		page,
	}
}

fn space_specs(thorough: bool) -> Vec<String> {
	let mut v = vec!["seeds".to_owned(), "adversaries".to_owned(), "boundaries".to_owned(), "insncut".to_owned()];
	let gen = spaces::class_seed_names(thorough);
	let corpus = spaces::corpus_seed_names(thorough);
	for s in gen.iter().chain(corpus.iter()) {
		v.push(format!("fields:{s}"));
		v.push(format!("trunc:{s}"));
		v.push(format!("utf8:{s}"));
		v.push(format!("attrops:{s}"));
	}
	// long texts with a multi-byte character at every offset in every Utf8 constant; every scripted reader / writer behaviour
	for s in spaces::pad_seed_names(thorough) {
		v.push(format!("utf8pad:{s}"));
	}
	for s in spaces::env_seed_names(thorough) {
		v.push(format!("env:{}|{s}", P::Class.name()));
	}
	// the padded texts again, with a fault behind the pool (an unknown opcode, a constant value / bootstrap argument index
	// outside the pool), so that the error contexts which quote class, member and constant names are built
	for (k, (fault, seed)) in spaces::faulted_pad_seeds(thorough).into_iter().enumerate() {
		let spec = format!("utf8padf:{fault}:{seed}");
		// the first three (small compiled classes) are required; a further seed takes part where it has the structure to fault
		if k < 3 || Space::open(&spec, thorough).is_ok() {
			v.push(spec);
		}
	}
	// every byte of the seed / every short string in every Utf8 constant: all generated seeds; corpus: the quick selection
	let quick_corpus = spaces::corpus_seed_names(false);
	for s in gen.iter().chain(quick_corpus.iter()) {
		v.push(format!("bytes:{s}"));
		v.push(format!("utf8s:{s}"));
	}
	if thorough {
		for s in ["ks0e0", "ks1e0", "ks2e0", "ks2e2", "mod02", "mod12", "cldc", "utf9"] {
			v.push(format!("pairs:{s}"));
		}
		for s in corpus.iter().take(40) {
			v.push(format!("pairs:{s}"));
		}
	} else {
		// two small seeds of the pair space already in the quick tier
		for s in ["cldc", "mod02"] {
			v.push(format!("pairs:{s}"));
		}
	}
	for p in [P::Tiny2, P::Tiny3, P::TinyDiff, P::Enigma, P::Nests] {
		for mode in if texts::header(p).is_some() { &["raw", "header"][..] } else { &["raw"][..] } {
			v.push(format!("lines:{}:{mode}", p.name()));
			v.push(format!("linesx:{}:{mode}:4", p.name()));
			if thorough {
				v.push(format!("linesx:{}:{mode}:5", p.name()));
			}
		}
		v.push(format!("tmpl:{}", p.name()));
		for k in 0..texts::seeds(p).len() {
			if thorough || k == 0 {
				v.push(format!("pad:{}:{k}", p.name()));
			}
			if matches!(p, P::Tiny2 | P::Tiny3 | P::Enigma) {
				v.push(format!("env:{}|{k}", p.name()));
			}
			v.push(format!("tokens:{}:{k}", p.name()));
			v.push(format!("ttrunc:{}:{k}", p.name()));
			v.push(format!("tedit:{}:{k}", p.name()));
			v.push(format!("chars:{}:{k}:full:0:2", p.name()));
			v.push(format!("chars:{}:{k}:core:3:3", p.name()));
			if thorough {
				v.push(format!("chars:{}:{k}:full:3:3", p.name()));
				v.push(format!("chars:{}:{k}:core:4:4", p.name()));
			}
		}
	}
	let (max_len, letters_len) = if thorough { (6, 4) } else { (5, 3) };
	for p in [P::DescField, P::DescMethod, P::DescReturn] {
		v.push(format!("tmpl:{}", p.name()));
		v.push(format!("desc:{}:{max_len}", p.name()));
		v.push(format!("descl:{}:{letters_len}", p.name()));
	}
	v
}

const BATCH_COST: u64 = 40_000_000;

fn make_batches(spaces: &[Space]) -> Vec<Vec<Job>> {
	let mut batches: Vec<Vec<Job>> = Vec::new();
	let mut cur: Vec<Job> = Vec::new();
	let mut cur_cost = 0u64;
	for (si, s) in spaces.iter().enumerate() {
		let cc = s.case_cost().max(1);
		let per = (BATCH_COST / cc).max(1);
		let mut from = 0;
		while from < s.len() {
			let room = ((BATCH_COST.saturating_sub(cur_cost)) / cc).max(1);
			let n = per.min(room).min(s.len() - from);
			cur.push(Job { space: si, from, to: from + n });
			cur_cost += n * cc;
			from += n;
			if cur_cost >= BATCH_COST {
				batches.push(std::mem::take(&mut cur));
				cur_cost = 0;
			}
		}
	}
	if !cur.is_empty() {
		batches.push(cur);
	}
	batches
}

fn run_all(ctx: &Ctx, spaces: &[Space], batches: Vec<Vec<Job>>, dir: &Path, threads: usize) -> Tally {
	let tier: &'static str = ctx.tier.name();
	let queue: Mutex<VecDeque<Vec<Job>>> = Mutex::new(batches.into());
	let total = Mutex::new(Tally::default());
	std::thread::scope(|sc| {
		for k in 0..threads {
			let (queue, total) = (&queue, &total);
			sc.spawn(move || {
				let env = make_env(dir, k, tier);
				let mut tally = Tally::default();
				loop {
					let next = queue.lock().ok().and_then(|mut q| q.pop_front());
					match next {
						Some(b) => {
							let t0 = std::time::Instant::now();
							let desc = format!("{} jobs, first {} {}..{}", b.len(), spaces[b[0].space].spec, b[0].from, b[0].to);
							run_batch(&env, spaces, b, &mut tally);
							if std::env::var_os("C16_DEBUG").is_some() {
								eprintln!("batch [{desc}] {:.2}s", t0.elapsed().as_secs_f64());
							}
						},
						None => break,
					}
				}
				if let Ok(mut t) = total.lock() {
					t.merge(tally);
				}
			});
		}
	});
	total.into_inner().unwrap_or_else(|_| vcore::machinery_fail("a worker thread panicked"))
}

fn report(ctx: &Ctx, spaces: &[Space], violations: &mut Vec<Violation>) -> BTreeMap<String, u64> {
	violations.sort_by(|a, b| (a.space, a.idx).cmp(&(b.space, b.idx)));
	let mut sites: BTreeMap<String, u64> = BTreeMap::new();
	for v in violations.iter() {
		let sp = &spaces[v.space];
		let (key, what) = describe(v, sp);
		*sites.entry(key.clone()).or_insert(0) += 1;
		ctx.diff(&key, &format!("{what} [{}]", sp.label(v.idx)), || replay_text(sp, v.idx, ctx.tier.name()));
	}
	sites
}

fn replay(ctx: &Ctx, path: &Path) -> ! {
	let body = vcore::replay_body(path);
	let field = |k: &str| body.lines().find_map(|l| l.strip_prefix(k)).map(|s| s.to_owned());
	let parser = field("parser=").and_then(|n| P::from_name(&n)).unwrap_or_else(|| vcore::machinery_fail("replay: no parser= line"));
	let hex: String = body.lines().skip_while(|l| !l.starts_with("input (hex):")).skip(1).collect();
	let thorough = ctx.tier == Tier::Thorough;
	// replay files written before the environment alphabet existed have no env= line: the plain environment
	let env = match field("env=") {
		Some(t) => spaces::Env::from_text(&t).unwrap_or_else(|| vcore::machinery_fail("replay: bad env= line")),
		None => spaces::Env::Plain,
	};
	let input = match vcore::unhex(&hex) {
		Some(b) if !hex.starts_with('(') => b,
		_ => {
			let g = field("generator=").unwrap_or_else(|| vcore::machinery_fail("replay: neither hex input nor generator"));
			let (spec, idx) = g.rsplit_once('#').unwrap_or_else(|| vcore::machinery_fail("replay: bad generator line"));
			let (tier, spec) = spec.split_once(':').unwrap_or_else(|| vcore::machinery_fail("replay: bad generator line"));
			let sp = Space::open(spec, tier == "thorough").unwrap_or_else(|e| vcore::machinery_fail(&format!("replay: {e}")));
			sp.input(idx.parse().unwrap_or_else(|_| vcore::machinery_fail("replay: bad index")))
		},
	};
	let dir = scratch_dir();
	let _ = std::fs::create_dir_all(&dir);
	let case_file = dir.join("replay.case");
	let (env_kind, env_value) = env.encode();
	let mut bytes = vec![parser.id() as u8, env_kind];
	bytes.extend_from_slice(&env_value.to_be_bytes());
	bytes.extend_from_slice(&input);
	std::fs::write(&case_file, bytes).unwrap_or_else(|e| vcore::machinery_fail(&format!("replay case file: {e}")));
	let spec = format!("file:{}", case_file.display());
	let spaces = vec![Space::open(&spec, thorough).unwrap_or_else(|e| vcore::machinery_fail(&e))];
	let mut observed = Vec::new();
	let mut last = Tally::default();
	for _ in 0..2 {
		let t = run_all(ctx, &spaces, vec![vec![Job { space: 0, from: 0, to: 1 }]], &dir, 1);
		let c = t.per_space.get(&0).cloned().unwrap_or_default();
		let keys: Vec<String> = t.violations.iter().map(|v| describe(v, &spaces[0]).0).collect();
		observed.push(format!("{:?} {:?}", c.json().to_string(), keys));
		last = t;
	}
	if observed[0] != observed[1] {
		let _ = std::fs::remove_dir_all(&dir);
		vcore::machinery_fail(&format!("replay is not deterministic: {} vs {}", observed[0], observed[1]));
	}
	let mut v = std::mem::take(&mut last.violations);
	let sites = report(ctx, &spaces, &mut v);
	let _ = std::fs::remove_dir_all(&dir);
	println!("replay verdict: {}", observed[0]);
	ctx.finish(json!({"evaluations": 2, "distinct_nontrivial": 2, "rule": "replay of one (parser, input) case in a sandboxed child, twice, identical verdicts required", "samples": [observed[0]], "panic_sites": sites}), &[]);
}

fn main() {
	let args: Vec<String> = std::env::args().collect();
	if args.get(1).map(|s| s.as_str()) == Some("--faultbox") {
		child::main(&args[2..]);
	}
	let ctx: &'static Ctx = Box::leak(Box::new(Ctx::new("C16", "fault_enumeration")));
	if let Some(path) = ctx.replay.clone() {
		replay(ctx, &path);
	}
	let thorough = ctx.tier == Tier::Thorough;
	let mut specs = space_specs(thorough);
	// development aid: restrict the run to the spaces whose spec starts with one of the given prefixes (never a verdict: exit 2)
	let only = std::env::var("C16_ONLY").ok();
	if let Some(o) = &only {
		specs.retain(|s| o.split(',').any(|p| s.starts_with(p)));
	}
	let spaces: Vec<Space> = {
		use rayon::prelude::*;
		specs.par_iter().map(|s| Space::open(s, thorough).unwrap_or_else(|e| vcore::machinery_fail(&format!("space {s}: {e}")))).collect()
	};
	remove_stale_scratch();
	let dir = scratch_dir();
	let _ = std::fs::remove_dir_all(&dir);
	std::fs::create_dir_all(&dir).unwrap_or_else(|e| vcore::machinery_fail(&format!("{dir:?}: {e}")));
	let batches = make_batches(&spaces);
	let n_batches = batches.len();
	// RAYON_NUM_THREADS (the knob of the other checkers) also limits the number of concurrent faultbox children
	let limit = std::env::var("RAYON_NUM_THREADS").ok().and_then(|v| v.parse::<usize>().ok()).filter(|n| *n > 0).unwrap_or(16);
	let threads = std::thread::available_parallelism().map(|n| n.get()).unwrap_or(16).min(16).min(limit);
	let mut tally = run_all(ctx, &spaces, batches, &dir, threads);
	let _ = std::fs::remove_dir_all(&dir);

	// every case of every space must have a verdict
	for (i, s) in spaces.iter().enumerate() {
		let got = tally.per_space.get(&i).map(|c| c.total()).unwrap_or(0);
		if got != s.len() {
			vcore::machinery_fail(&format!("space {}: {} cases but {} verdicts", s.spec, s.len(), got));
		}
	}
	let mut violations = std::mem::take(&mut tally.violations);
	let sites = report(ctx, &spaces, &mut violations);
	if only.is_some() {
		for (k, n) in &sites {
			println!("site {n:6} {k}");
		}
		if std::env::var_os("C16_TRACE").is_some() {
			tally.samples.sort();
			for (si, idx, verdict) in &tally.samples {
				println!("case {} | {verdict}", spaces[*si].label(*idx));
			}
		}
		for (i, s) in spaces.iter().enumerate() {
			println!("space {} {} {}", s.spec, tally.per_space.get(&i).cloned().unwrap_or_default().json(), s.bounds().unwrap_or(Value::Null));
		}
		vcore::machinery_fail(&format!("partial run (C16_ONLY), {:.1}s: not a verdict", ctx.elapsed_s()));
	}

	// aggregation
	let mut total = Counts::default();
	let mut families: BTreeMap<&'static str, (u64, Counts)> = BTreeMap::new();
	let mut per_parser: BTreeMap<usize, Counts> = BTreeMap::new();
	let mut pair_bounds = (0u64, 0u64);
	let mut field_entries = 0u64;
	let mut seed_bytes = 0u64;
	let mut mixed: Vec<usize> = Vec::new();
	for (i, s) in spaces.iter().enumerate() {
		let c = tally.per_space.get(&i).cloned().unwrap_or_default();
		total.add(&c);
		let f = families.entry(s.family()).or_default();
		f.0 += 1;
		f.1.add(&c);
		let single = (0..s.len().min(2000)).map(|k| s.parser(k)).collect::<BTreeSet<_>>();
		if single.len() == 1 {
			per_parser.entry(s.parser(0).id()).or_default().add(&c);
		} else {
			mixed.push(i);
		}
		if let Some(b) = s.bounds() {
			if let (Some(a), Some(c2)) = (b.get("structures").and_then(|x| x.as_u64()), b.get("structures_over_candidate_cap").and_then(|x| x.as_u64())) {
				pair_bounds.0 += a;
				pair_bounds.1 += c2;
			}
			if let Some(n) = b.get("field_map_entries").and_then(|x| x.as_u64()) {
				field_entries += n;
				seed_bytes += b.get("seed_bytes").and_then(|x| x.as_u64()).unwrap_or(0);
			}
		}
	}
	// spaces that mix parsers (seeds, adversaries): attribute by the first-case samples is not enough, so
	// their per-parser split is left out of `per_parser` and shown under `mixed_spaces`
	let mixed_json: Vec<Value> = mixed.iter().map(|i| json!({"space": spaces[*i].spec, "counts": tally.per_space.get(i).cloned().unwrap_or_default().json()})).collect();

	let seeds_idx = spaces.iter().position(|s| s.spec == "seeds");
	let adv_idx = spaces.iter().position(|s| s.spec == "adversaries");
	let cut_idx = spaces.iter().position(|s| s.spec == "insncut");
	let count_of = |i: Option<usize>| i.and_then(|i| tally.per_space.get(&i).cloned()).unwrap_or_default();
	let seeds_c = count_of(seeds_idx);
	let seeds_len = seeds_idx.map(|i| spaces[i].len()).unwrap_or(0);
	ctx.floor("every unmodified seed is accepted (verdict ok)", seeds_len, seeds_c.ok);
	let adv_len = adv_idx.map(|i| spaces[i].len()).unwrap_or(0);
	ctx.floor("every hand-built adversary executed", adv_len.max(150), count_of(adv_idx).total());
	ctx.floor("every cut instruction executed", cut_idx.map(|i| spaces[i].len()).unwrap_or(0).max(500), count_of(cut_idx).total());
	for p in PARSERS {
		let c = per_parser.get(&p.id()).cloned().unwrap_or_default();
		ctx.floor(&format!("{}: inputs accepted (ok)", p.name()), 1, c.ok + c.okwr);
		ctx.floor(&format!("{}: inputs refused (err)", p.name()), 1, c.err);
		let need = match p {
			P::Class => 60,
			P::DescField | P::DescReturn => 3,
			P::DescMethod => 4,
			_ => 8,
		};
		ctx.floor(&format!("{}: distinct error messages", p.name()), need, tally.err_classes.get(&p.id()).map(|s| s.len() as u64).unwrap_or(0));
	}
	// the spaces added for the gap patterns: each must have run, and have met both accepting and refusing situations
	let bnd_idx = spaces.iter().position(|s| s.spec == "boundaries");
	let bnd = count_of(bnd_idx);
	ctx.floor("adversaries around the bounds of the recursion guards: executed", bnd_idx.map(|i| spaces[i].len()).unwrap_or(0).max(2500), bnd.total());
	ctx.floor("adversaries around the bounds of the recursion guards: accepted (nesting within the bound, written again)", 500, bnd.ok + bnd.okwr);
	ctx.floor("adversaries around the bounds of the recursion guards: refused (nesting beyond the bound)", 500, bnd.err);
	ctx.floor("hand-built adversaries read but refused by write_class (merged tables beyond a count, code grown beyond 65535 bytes)", 60, count_of(adv_idx).okwr);
	let fam = |prefix: &str| families.iter().find(|(k, _)| k.starts_with(prefix)).map(|(_, (_, c))| c.clone()).unwrap_or_default();
	let (h, i_, j) = (fam("(h)"), fam("(i)"), fam("(j)"));
	ctx.floor("(h) padded texts: cases", ctx.tier.pick(700_000, 1_000_000), h.total());
	ctx.floor("(h) padded texts: accepted", 100_000, h.ok + h.okwr);
	ctx.floor("(h) padded texts: refused (the text is quoted by an error)", 100_000, h.err);
	ctx.floor("(i) scripted readers and writers: cases", 30_000, i_.total());
	ctx.floor("(i) scripted readers and writers: accepted", 2_000, i_.ok);
	ctx.floor("(i) scripted readers and writers: read but write_class refused (the writer's failure came back)", 2_000, i_.okwr);
	ctx.floor("(i) scripted readers and writers: refused", 10_000, i_.err);
	for p in [P::Class, P::Tiny2, P::Tiny3, P::Enigma] {
		let n = tally.err_classes.get(&p.id()).map(|s| s.iter().filter(|c| c.contains(child::READER_FAILURE)).count() as u64).unwrap_or(0);
		ctx.floor(&format!("(i) {}: the failure of the scripted reader came back as an error", p.name()), 1, n);
	}
	let n = tally.err_classes.get(&P::Class.id()).map(|s| s.iter().filter(|c| c.contains(child::WRITER_FAILURE)).count() as u64).unwrap_or(0);
	ctx.floor("(i) write_class: the failure of the scripted writer came back as an error", 1, n);
	ctx.floor("(j) attribute edits: cases", 1_000, j.total());
	ctx.floor("(j) attribute edits: accepted (merged or replaced by the reader, written again)", 300, j.ok + j.okwr);
	ctx.floor("(j) attribute edits: refused", 100, j.err);
	let class_c = per_parser.get(&P::Class.id()).cloned().unwrap_or_default();
	ctx.floor("faulted classes accepted by read_class and passed to write_class", 1000, class_c.ok + class_c.okwr);
	ctx.floor("cases", ctx.tier.pick(300_000, 3_000_000), total.total());

	let distinct: u64 = tally.err_classes.values().map(|s| s.len() as u64).sum::<u64>() + sites.len() as u64;
	let mut samples: Vec<Value> = Vec::new();
	let mut seen_fam: BTreeSet<(&'static str, usize)> = BTreeSet::new();
	tally.samples.sort();
	for (si, idx, verdict) in &tally.samples {
		let s = &spaces[*si];
		if samples.len() >= 12 || !seen_fam.insert((s.family(), s.parser(*idx).id())) {
			continue;
		}
		let input = s.input(*idx);
		samples.push(json!({"space": s.spec, "index": idx, "case": s.label(*idx), "parser": s.parser(*idx).name(), "input_len": input.len(), "input_hex_prefix": vcore::hex(&input[..input.len().min(96)]), "verdict": verdict}));
	}
	let error_classes: BTreeMap<String, Value> = PARSERS.iter().map(|p| {
		let set = tally.err_classes.get(&p.id()).cloned().unwrap_or_default();
		(p.name().to_owned(), json!({"distinct": set.len(), "examples": set.iter().take(6).collect::<Vec<_>>()}))
	}).collect();

	let line_alpha_sizes: BTreeMap<String, usize> = [P::Tiny2, P::Tiny3, P::TinyDiff, P::Enigma, P::Nests].iter().map(|p| (p.name().to_owned(), texts::line_alphabet(*p).len())).collect();
	let template_counts: BTreeMap<String, usize> = PARSERS.iter().filter(|p| **p != P::Class).map(|p| (p.name().to_owned(), texts::templates(*p).len())).collect();
	let coverage = json!({
		"evaluations": total.total(),
		"distinct_nontrivial": distinct,
		"rule": "FAULT ENUMERATION, complete within each stated fault set; the statement's 'random byte edits' are NOT sampled (no randomness anywhere): they are replaced by the exhaustive sets (a)-(e). evaluations = cases = executions of a real parser of /repo in a sandboxed child (read_class cases that are accepted additionally execute write_class). distinct_nontrivial = distinct (parser, error-message class) pairs observed (digits and quoted data erased) + distinct violation call sites; every case is a distinct input by construction within its space",
		"exhaustive": true,
		"samples": samples,
		"outcomes": total.json(),
		"families": families.iter().map(|(k, (n, c))| ((*k).to_owned(), json!({"spaces": n, "counts": c.json()}))).collect::<BTreeMap<_, _>>(),
		"per_parser": PARSERS.iter().map(|p| (p.name().to_owned(), per_parser.get(&p.id()).cloned().unwrap_or_default().json())).collect::<BTreeMap<_, _>>(),
		"mixed_spaces": mixed_json,
		"error_classes": error_classes,
		"panic_sites": sites,
		"children": {"spawned": tally.children, "respawned_after_a_death": tally.respawns, "batches": n_batches, "parallel": threads},
		"bounds": {
			"(a) values": "for every field-map entry (all roles: magic, version, tags, counts, lengths, indices, offsets, opcodes, immediates, flags) each of {0,1,actual-1,actual+1,0x7f,0x80,0xff,0x7fff,0x8000,0xffff,0x7fffffff,0x80000000,0xffffffff} that fits the field's width and differs from the actual value",
			"(a) field_map_entries": field_entries,
			"(a)/(b) seed_bytes": seed_bytes,
			"(b)": "every proper prefix (0..len-1 bytes) of every class seed and of every text seed",
			"(c)": format!("thorough only: within each structure (file header, each constant-pool entry, class body header, each member header, each attribute innermost, each instruction) all pairs of structural fields (tags, counts, lengths, indices, offsets, switch bounds, u2 'other') among the first {} and last {} of the structure, each with values {{0, actual+1, all-ones, sign bit}}", spaces::PAIR_CAP_FIRST, spaces::PAIR_CAP_LAST),
			"(c) structures": pair_bounds.0,
			"(c) structures_with_more_candidates_than_the_cap": pair_bounds.1,
			"(d) adversaries": adv_len,
			"(d) adversaries around the bounds": bnd_idx.map(|i| spaces[i].len()).unwrap_or(0),
			"(d) nesting": "element values: every periodic word of length 1..=3 over {annotation, array} x 11 places (class, field, method, record component, visible/invisible, type annotations of class/field/method/code/record component, AnnotationDefault) x depths {254..=258, 300} x {alone, after a sibling, before a sibling}, and 100000 levels (thorough: 1000000) after a sibling; Enigma classes 254..=259 levels and 100/1000/3000 (with and without members); Dynamic chains of 254..=258 and 10..30000 constants; 1/32766..32769/65535 arguments of nested Dynamic constants",
			"(d) counts": "LineNumberTable / LocalVariableTable / LocalVariableTypeTable merged from two attributes to 65535 and 65536 (and more) entries; 65534 / 65535 attributes at each of 5 levels; 65534 / 65535 interfaces, fields, methods; every slot of a pool of 65533..=65535 slots in use (ints, longs)",
			"(d) writer code growth": "5 branch opcodes x {backward, forward} over 10900 / 10923 / 12000 ldc that become ldc_w when written; the replaced branch at byte 65518..=65537 of the written code",
			"(h) padded_texts": texts::pad_strings(false).len(),
			"(h)": format!("k letters + one character of 1/2/3/4 UTF-8 bytes (class files: modified UTF-8, a surrogate pair and a lone surrogate) and the character first, k = 0..={}: in every cell of a text seed (line as it is / indented 7 tabs too deep), in the slot of every error-situation template (duplicates, field counts, descriptors, indices, headers, indentation), in every Utf8 constant of the listed class seeds", texts::PAD_MAX),
			"(h) class_seeds": spaces::pad_seed_names(thorough),
			"(h) class_seeds_with_a_fault_behind_the_pool": spaces.iter().filter(|s| s.spec.starts_with("utf8padf:")).map(|s| s.spec.clone()).collect::<Vec<_>>(),
			"(h) templates": template_counts,
			"(i)": "class seeds and the text seeds of tiny v2 (2 and 3 namespaces) and Enigma through: read() serving at most 1/2/3/7 bytes; every request refused once with Interrupted (then 1 / 4 / all bytes); an I/O error at every byte offset; (class) write() accepting at most 1 / 3 bytes per call and failing after every number of bytes up to input length + 512; every prefix of the seed through the 1-byte and the interrupted reader",
			"(i) class_seeds": spaces::env_seed_names(thorough),
			"(j)": "every attribute of every class seed (all levels): duplicated in place, at the end and at the start of its list, deleted, swapped with its successor (counts and enclosing attribute lengths adjusted)",
			"(d) cut_instructions": cut_idx.map(|i| spaces[i].len()).unwrap_or(0),
			"(e) line_sequences": "every sequence of 0..=3 lines over the parser's line alphabet, raw and (tiny formats) after a valid header",
			"(e) line_alphabet_sizes": line_alpha_sizes,
			"(e) token_replacements": texts::replacements().len(),
			"(e) descriptor_alphabet": spaces::DESC_ALPHABET.iter().map(|s| String::from_utf8_lossy(s).into_owned()).collect::<Vec<_>>(),
			"(e) descriptor_max_len": if thorough { 6 } else { 5 },
			"class_seeds_generated": spaces::class_seed_names(thorough),
			"class_seeds_corpus": spaces::corpus_seed_names(thorough).len(),
			"per_case": {"cpu_s": child::CPU_BUDGET_S, "alloc": "64 x input + 64 MiB live above the level at case start", "stack_bytes": child::STACK_BYTES, "rlimit_as_bytes": child::RLIMIT_AS_BYTES},
		},
	});
	ctx.finish(coverage, &[
		"cfmodel's strict parser (independent reading of JVMS ch. 4) supplies the field map of every class seed",
		"memory is judged by bytes requested from the allocator (live above the level at case start), not by resident pages: a 4 GiB request that the OS would back lazily still counts",
		"time is judged by CPU time of the parsing thread (2 s), so machine load cannot cause a verdict",
		"a death by signal has no call site; its key carries the parser and the fault class of the input instead",
		"totality is decided for the enumerated fault sets, not for all byte strings",
	]);
}
