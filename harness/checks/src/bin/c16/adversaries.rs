//! Hand-built adversarial inputs for C16 (fault set (d)) and the "last instruction cut short" set.
//!
//! Class files are produced by a tiny raw builder (no validation whatsoever, so that self-referential
//! constants, lying counts and impossible lengths can be written down directly).

use super::spaces::P;

pub struct Cf {
	entries: Vec<Vec<u8>>,
	next: u16,
}

fn be16(v: u16) -> [u8; 2] {
	v.to_be_bytes()
}
fn be32(v: u32) -> [u8; 4] {
	v.to_be_bytes()
}

impl Cf {
	pub fn new() -> Cf {
		Cf { entries: Vec::new(), next: 1 }
	}
	pub fn push(&mut self, bytes: Vec<u8>, slots: u16) -> u16 {
		let i = self.next;
		self.entries.push(bytes);
		self.next = self.next.wrapping_add(slots);
		i
	}
	pub fn utf8(&mut self, s: &[u8]) -> u16 {
		let mut b = vec![1u8];
		b.extend(be16(s.len() as u16));
		b.extend_from_slice(s);
		self.push(b, 1)
	}
	pub fn idx1(&mut self, tag: u8, a: u16) -> u16 {
		let mut b = vec![tag];
		b.extend(be16(a));
		self.push(b, 1)
	}
	pub fn idx2(&mut self, tag: u8, a: u16, c: u16) -> u16 {
		let mut b = vec![tag];
		b.extend(be16(a));
		b.extend(be16(c));
		self.push(b, 1)
	}
	pub fn class(&mut self, n: &str) -> u16 {
		let u = self.utf8(n.as_bytes());
		self.idx1(7, u)
	}
	pub fn nat(&mut self, n: &str, d: &str) -> u16 {
		let a = self.utf8(n.as_bytes());
		let b = self.utf8(d.as_bytes());
		self.idx2(12, a, b)
	}
	/// tag 9 Fieldref, 10 Methodref, 11 InterfaceMethodref
	pub fn member(&mut self, tag: u8, c: &str, n: &str, d: &str) -> u16 {
		let ci = self.class(c);
		let nt = self.nat(n, d);
		self.idx2(tag, ci, nt)
	}
	pub fn handle(&mut self, kind: u8, r: u16) -> u16 {
		let mut b = vec![15u8, kind];
		b.extend(be16(r));
		self.push(b, 1)
	}
	pub fn int(&mut self, v: i32) -> u16 {
		let mut b = vec![3u8];
		b.extend(v.to_be_bytes());
		self.push(b, 1)
	}
}

pub struct Member {
	pub access: u16,
	pub name: u16,
	pub desc: u16,
	pub attrs: Vec<Vec<u8>>,
}

pub fn attr_len(name: u16, len: u32, body: &[u8]) -> Vec<u8> {
	let mut b = Vec::with_capacity(6 + body.len());
	b.extend(be16(name));
	b.extend(be32(len));
	b.extend_from_slice(body);
	b
}

pub fn attr(name: u16, body: &[u8]) -> Vec<u8> {
	attr_len(name, body.len() as u32, body)
}

fn attr_list(out: &mut Vec<u8>, attrs: &[Vec<u8>]) {
	out.extend(be16(attrs.len() as u16));
	for a in attrs {
		out.extend_from_slice(a);
	}
}

pub fn code_body(max_stack: u16, max_locals: u16, code_length: u32, code: &[u8], exc: &[[u16; 4]], attrs: &[Vec<u8>]) -> Vec<u8> {
	let mut b = Vec::new();
	b.extend(be16(max_stack));
	b.extend(be16(max_locals));
	b.extend(be32(code_length));
	b.extend_from_slice(code);
	b.extend(be16(exc.len() as u16));
	for e in exc {
		for x in e {
			b.extend(be16(*x));
		}
	}
	attr_list(&mut b, attrs);
	b
}

pub struct ClassParts {
	pub version: (u16, u16),
	pub access: u16,
	pub interfaces: Vec<u16>,
	pub fields: Vec<Member>,
	pub methods: Vec<Member>,
	pub attrs: Vec<Vec<u8>>,
}

impl Default for ClassParts {
	fn default() -> ClassParts {
		ClassParts { version: (61, 0), access: 0x0021, interfaces: Vec::new(), fields: Vec::new(), methods: Vec::new(), attrs: Vec::new() }
	}
}

pub fn finish(mut cf: Cf, p: ClassParts) -> Vec<u8> {
	let this = cf.class("p/Adv");
	let sup = cf.class("java/lang/Object");
	let mut b = Vec::new();
	b.extend(be32(0xCAFEBABE));
	b.extend(be16(p.version.1));
	b.extend(be16(p.version.0));
	b.extend(be16(cf.next));
	for e in &cf.entries {
		b.extend_from_slice(e);
	}
	b.extend(be16(p.access));
	b.extend(be16(this));
	b.extend(be16(sup));
	b.extend(be16(p.interfaces.len() as u16));
	for i in &p.interfaces {
		b.extend(be16(*i));
	}
	for list in [&p.fields, &p.methods] {
		b.extend(be16(list.len() as u16));
		for m in list.iter() {
			b.extend(be16(m.access));
			b.extend(be16(m.name));
			b.extend(be16(m.desc));
			attr_list(&mut b, &m.attrs);
		}
	}
	attr_list(&mut b, &p.attrs);
	b
}

/// a class with one method `m()V` whose Code attribute has the given code bytes and code-level attributes
fn class_with_code(mut cf: Cf, code_length: u32, code: &[u8], exc: &[[u16; 4]], code_attrs: &[Vec<u8>], class_attrs: Vec<Vec<u8>>) -> Vec<u8> {
	let name = cf.utf8(b"m");
	let desc = cf.utf8(b"()V");
	let code_name = cf.utf8(b"Code");
	let body = code_body(4, 4, code_length, code, exc, code_attrs);
	let m = Member { access: 0x0009, name, desc, attrs: vec![attr(code_name, &body)] };
	finish(cf, ClassParts { methods: vec![m], attrs: class_attrs, ..Default::default() })
}

fn simple_code(code: &[u8]) -> Vec<u8> {
	class_with_code(Cf::new(), code.len() as u32, code, &[], &[], vec![])
}

const RETURN: u8 = 0xb1;
const NOP: u8 = 0x00;
const POP: u8 = 0x57;

fn bootstrap_attr(cf: &mut Cf, methods: &[(u16, Vec<u16>)]) -> Vec<u8> {
	let name = cf.utf8(b"BootstrapMethods");
	let mut b = Vec::new();
	b.extend(be16(methods.len() as u16));
	for (h, args) in methods {
		b.extend(be16(*h));
		b.extend(be16(args.len() as u16));
		for a in args {
			b.extend(be16(*a));
		}
	}
	attr(name, &b)
}

fn bsm_handle(cf: &mut Cf) -> u16 {
	let r = cf.member(10, "p/Boot", "bsm", "(Ljava/lang/invoke/MethodHandles$Lookup;Ljava/lang/String;Ljava/lang/Class;)Ljava/lang/Object;");
	cf.handle(6, r)
}

/// `ldc_w #idx; pop; return`
fn ldc_w(idx: u16) -> Vec<u8> {
	let mut c = vec![0x13u8];
	c.extend(be16(idx));
	c.push(POP);
	c.push(RETURN);
	c
}

/// dynamic constants whose bootstrap arguments form a cycle of length `n` (1 = its own argument);
/// `load` = the method loads the first one with ldc_w, `via_indy` = reached through an invokedynamic's bootstrap argument
fn dynamic_cycle(n: usize, load: bool, via_indy: bool) -> Vec<u8> {
	let mut cf = Cf::new();
	let h = bsm_handle(&mut cf);
	let nt = cf.nat("k", "Ljava/lang/Object;");
	let dyns: Vec<u16> = (0..n).map(|i| cf.idx2(17, i as u16, nt)).collect();
	let mut methods: Vec<(u16, Vec<u16>)> = (0..n).map(|i| (h, vec![dyns[(i + 1) % n]])).collect();
	let mut code = if load { ldc_w(dyns[0]) } else { vec![RETURN] };
	if via_indy {
		let mnt = cf.nat("run", "()V");
		methods.push((h, vec![dyns[0]]));
		let indy = cf.idx2(18, n as u16, mnt);
		code = vec![0xba];
		code.extend(be16(indy));
		code.extend([0, 0, RETURN]);
	}
	let bs = bootstrap_attr(&mut cf, &methods);
	class_with_code(cf, code.len() as u32, &code, &[], &[], vec![bs])
}

/// a finite chain: constant i has constant i+1 as its bootstrap argument, the last one an Integer
fn dynamic_chain(n: usize) -> Vec<u8> {
	dynamic_chain_at(n, false)
}

/// the chain loaded by ldc_w, or reached as the bootstrap argument of an invokedynamic
fn dynamic_chain_at(n: usize, via_indy: bool) -> Vec<u8> {
	let mut cf = Cf::new();
	let h = bsm_handle(&mut cf);
	let nt = cf.nat("k", "Ljava/lang/Object;");
	let last = cf.int(7);
	let dyns: Vec<u16> = (0..n).map(|i| cf.idx2(17, i as u16, nt)).collect();
	let mut methods: Vec<(u16, Vec<u16>)> = (0..n).map(|i| (h, vec![if i + 1 < n { dyns[i + 1] } else { last }])).collect();
	let mut code = ldc_w(dyns[0]);
	if via_indy {
		let mnt = cf.nat("run", "()V");
		methods.push((h, vec![dyns[0]]));
		let indy = cf.idx2(18, n as u16, mnt);
		code = vec![0xba];
		code.extend(be16(indy));
		code.extend([0, 0, RETURN]);
	}
	let bs = bootstrap_attr(&mut cf, &methods);
	class_with_code(cf, code.len() as u32, &code, &[], &[], vec![bs])
}

/// a dynamic constant whose only bootstrap argument is a dynamic constant with `k` Integer arguments: exactly `k`
/// arguments of nested constants are resolved (the reader bounds their number per class file)
fn dynamic_nested_arguments(k: usize, via_indy: bool) -> Vec<u8> {
	let mut cf = Cf::new();
	let h = bsm_handle(&mut cf);
	let nt = cf.nat("k", "Ljava/lang/Object;");
	let last = cf.int(7);
	let outer = cf.idx2(17, 0, nt);
	let inner = cf.idx2(17, 1, nt);
	let mut methods: Vec<(u16, Vec<u16>)> = vec![(h, vec![inner]), (h, vec![last; k])];
	let mut code = ldc_w(outer);
	if via_indy {
		let mnt = cf.nat("run", "()V");
		methods.push((h, vec![outer]));
		let indy = cf.idx2(18, 2, mnt);
		code = vec![0xba];
		code.extend(be16(indy));
		code.extend([0, 0, RETURN]);
	}
	let bs = bootstrap_attr(&mut cf, &methods);
	class_with_code(cf, code.len() as u32, &code, &[], &[], vec![bs])
}

/// Tables of one kind given in several attributes of one Code (legal; the reader merges them into one list, which can
/// then hold more entries than the count field of one table can state). `kind`: 0 LineNumberTable, 1 LocalVariableTable,
/// 2 LocalVariableTypeTable; `counts` = entries per attribute, in file order.
fn merged_tables(kinds: &[(u8, usize)]) -> Vec<u8> {
	let mut cf = Cf::new();
	let names = [cf.utf8(b"LineNumberTable"), cf.utf8(b"LocalVariableTable"), cf.utf8(b"LocalVariableTypeTable")];
	let nm = cf.utf8(b"x");
	let ds = cf.utf8(b"I");
	let sg = cf.utf8(b"TT;");
	let code = nops(8);
	let mut attrs = Vec::new();
	let mut serial = 0usize;
	for &(kind, count) in kinds {
		let mut b = Vec::with_capacity(2 + count * 10);
		b.extend(be16(count as u16));
		for _ in 0..count {
			if kind == 0 {
				b.extend(be16((serial % 8) as u16));
				b.extend(be16((serial % 60_000) as u16 + 1));
			} else {
				b.extend(be16(0));
				b.extend(be16(8));
				b.extend(be16(nm));
				b.extend(be16(if kind == 1 { ds } else { sg }));
				b.extend(be16((serial % 65_536) as u16));
			}
			serial += 1;
		}
		attrs.push(attr(names[kind as usize], &b));
	}
	class_with_code(cf, code.len() as u32, &code, &[], &attrs, vec![])
}

/// `n` attributes `x.U` without content at one level, plus Deprecated and Synthetic where they are flags of the tree
fn many_attributes(n: usize, at: Level, flags_too: bool) -> Vec<u8> {
	let mut cf = Cf::new();
	let an = cf.utf8(b"x.U");
	let dep = cf.utf8(b"Deprecated");
	let syn = cf.utf8(b"Synthetic");
	let mut list: Vec<Vec<u8>> = Vec::with_capacity(n);
	if flags_too {
		list.push(attr(dep, &[]));
		list.push(attr(syn, &[]));
	}
	while list.len() < n {
		list.push(attr(an, &[]));
	}
	let fname = cf.utf8(b"f");
	let fdesc = cf.utf8(b"I");
	let mut parts = ClassParts::default();
	match at {
		Level::Class => parts.attrs = list,
		Level::Field => parts.fields.push(Member { access: 1, name: fname, desc: fdesc, attrs: list }),
		Level::Method => {
			let d = cf.utf8(b"()V");
			parts.methods.push(Member { access: 0x0401, name: fname, desc: d, attrs: list });
		},
		Level::Code => return class_with_code(cf, 1, &[RETURN], &[], &list, vec![]),
		Level::Record => {
			let rec = cf.utf8(b"Record");
			let mut b = Vec::new();
			b.extend(be16(1));
			b.extend(be16(fname));
			b.extend(be16(fdesc));
			b.extend(be16(list.len() as u16));
			for a in &list {
				b.extend_from_slice(a);
			}
			parts.attrs.push(attr(rec, &b));
		},
	}
	finish(cf, parts)
}

/// `n` members of one kind (0 interfaces, 1 fields, 2 methods), all different
fn many_members(kind: u8, n: usize) -> Vec<u8> {
	let mut cf = Cf::new();
	let mut parts = ClassParts::default();
	match kind {
		0 => {
			let u = cf.utf8(b"p/I");
			let c = cf.idx1(7, u);
			parts.interfaces = vec![c; n];
		},
		_ => {
			// 257 names x 255 descriptors (int arrays of 1..=255 dimensions): 65535 different members from 512 constants
			let names: Vec<u16> = (0..257).map(|i| cf.utf8(format!("m{i}").as_bytes())).collect();
			let descs: Vec<u16> = (0..255).map(|j| {
				let d = format!("{}I", "[".repeat(j + 1));
				cf.utf8(if kind == 2 { format!("(){d}") } else { d }.as_bytes())
			}).collect();
			for i in 0..n {
				let m = Member { access: if kind == 2 { 0x0401 } else { 1 }, name: names[(i / 255) % 257], desc: descs[i % 255], attrs: vec![] };
				if kind == 1 { parts.fields.push(m) } else { parts.methods.push(m) }
			}
		},
	}
	finish(cf, parts)
}

/// A class that uses every slot of a constant pool of `count` slots (`constant_pool_count` = `count`): an annotation with an
/// array of `k` different int (or, `wide`, long) constants; the writer needs exactly as many constants as the file has.
fn full_pool(count: usize, wide: bool) -> Vec<u8> {
	let mut cf = Cf::new();
	let ty = cf.utf8(b"Lp/A;");
	let nm = cf.utf8(b"v");
	let rva = cf.utf8(b"RuntimeVisibleAnnotations");
	// finish() adds four more entries: 1 (slot 0) + 3 + 4 + values = count
	let free = count.saturating_sub(8);
	let k = if wide { free / 2 } else { free };
	let mut ev = vec![b'['];
	ev.extend(be16((k + (wide && free % 2 == 1) as usize) as u16));
	for i in 0..k {
		let c = if wide {
			let mut b = vec![5u8];
			b.extend((i as i64).to_be_bytes());
			cf.push(b, 2)
		} else {
			cf.int(i as i32)
		};
		ev.push(if wide { b'J' } else { b'I' });
		ev.extend(be16(c));
	}
	if wide && free % 2 == 1 {
		let c = cf.int(-1);
		ev.push(b'I');
		ev.extend(be16(c));
	}
	let mut ann = Vec::new();
	ann.extend(be16(1));
	ann.extend(be16(ty));
	ann.extend(be16(1));
	ann.extend(be16(nm));
	ann.extend_from_slice(&ev);
	finish(cf, ClassParts { attrs: vec![attr(rva, &ann)], ..Default::default() })
}

/// Code that grows when it is written again: `ldc` instructions of a constant that has a one-byte index in the file but
/// (300 fields come first in the writer's pool) needs `ldc_w` when written, between a branch and its target, so that an
/// offset that fits 16 bits in the file does not fit any more and the writer has to replace the branch by a wider sequence.
/// Layout: `a` ldc, [target of the backward branch] `b` ldc, `p` nop, the branch; forward: the branch first, its target last.
fn growing_code(opcode: u8, a: usize, b: usize, p: usize, forward: bool) -> Vec<u8> {
	let mut cf = Cf::new();
	let int = cf.int(0x1234_5678);
	let fdesc = cf.utf8(b"I");
	let mut parts = ClassParts::default();
	for i in 0..300 {
		let name = cf.utf8(format!("f{i}").as_bytes());
		parts.fields.push(Member { access: 1, name, desc: fdesc, attrs: vec![] });
	}
	let ldc = [0x12u8, int as u8];
	let mut c = Vec::with_capacity(2 * (a + b) + p + 8);
	for _ in 0..a {
		c.extend(ldc);
	}
	let span = 2 * b + p;
	if forward {
		c.push(opcode);
		c.extend(be16((3 + span) as u16));
	}
	for _ in 0..b {
		c.extend(ldc);
	}
	c.extend(vec![NOP; p]);
	if !forward {
		c.push(opcode);
		c.extend(be16((span as u16).wrapping_neg()));
	}
	c.push(RETURN);
	let name = cf.utf8(b"m");
	let desc = cf.utf8(b"()V");
	let code_name = cf.utf8(b"Code");
	let body = code_body(4, 4, c.len() as u32, &c, &[], &[]);
	parts.methods.push(Member { access: 0x0009, name, desc, attrs: vec![attr(code_name, &body)] });
	finish(cf, parts)
}

/// an acyclic graph with fan-out: constant i names constant i+1 `fan` times as bootstrap argument, the last one an
/// Integer. The file has `levels` constants; a reader that expands the shared constants into a tree needs
/// `fan^levels` steps and nodes.
fn dynamic_dag(levels: usize, fan: usize, via_indy: bool) -> Vec<u8> {
	let mut cf = Cf::new();
	let h = bsm_handle(&mut cf);
	let nt = cf.nat("k", "Ljava/lang/Object;");
	let last = cf.int(7);
	let dyns: Vec<u16> = (0..levels).map(|i| cf.idx2(17, i as u16, nt)).collect();
	let mut methods: Vec<(u16, Vec<u16>)> = (0..levels).map(|i| (h, vec![if i + 1 < levels { dyns[i + 1] } else { last }; fan])).collect();
	let mut code = ldc_w(dyns[0]);
	if via_indy {
		let mnt = cf.nat("run", "()V");
		methods.push((h, vec![dyns[0]; fan]));
		let indy = cf.idx2(18, levels as u16, mnt);
		code = vec![0xba];
		code.extend(be16(indy));
		code.extend([0, 0, RETURN]);
	}
	let bs = bootstrap_attr(&mut cf, &methods);
	class_with_code(cf, code.len() as u32, &code, &[], &[], vec![bs])
}

/// element_value nested `depth` deep: `kind` b'@' (annotation inside annotation) or b'[' (array inside array)
fn nested_element_value(kind: u8, depth: usize, type_idx: u16, name_idx: u16) -> Vec<u8> {
	let mut b = Vec::new();
	for _ in 0..depth {
		if kind == b'@' {
			b.push(b'@');
			b.extend(be16(type_idx));
			b.extend(be16(1)); // one pair
			b.extend(be16(name_idx));
		} else {
			b.push(b'[');
			b.extend(be16(1));
		}
	}
	// innermost
	if kind == b'@' {
		b.push(b'@');
		b.extend(be16(type_idx));
		b.extend(be16(0));
	} else {
		b.push(b'[');
		b.extend(be16(0));
	}
	b
}

/// An element value nested `depth` deep along the periodic word `word` over {b'@', b'['}: level i is an annotation
/// (`@`, its one pair holds the next level) or an array (`[`, its one element is the next level); the innermost level is an
/// empty container of its kind. After an `@` the reader is in its named-pairs routine, after a `[` in its unnamed-values
/// routine, so the words of length <= 3 pass through every ordered pair (and triple) of the four recursion sites.
/// `sibling`: 0 = the nested value is alone in its parent, 1 = an int constant comes before it, 2 = one comes after it.
fn mixed_element_value(word: &[u8], depth: usize, sibling: u8, type_idx: u16, name_idx: u16, int_idx: u16) -> Vec<u8> {
	let kind = |i: usize| word[i % word.len()];
	let int_value = |b: &mut Vec<u8>| {
		b.push(b'I');
		b.extend(be16(int_idx));
	};
	let mut b = Vec::with_capacity(depth * 14 + 8);
	for i in 0..depth {
		let n = if sibling == 0 { 1 } else { 2 };
		if kind(i) == b'@' {
			b.push(b'@');
			b.extend(be16(type_idx));
			b.extend(be16(n));
			if sibling == 1 {
				b.extend(be16(name_idx));
				int_value(&mut b);
			}
			b.extend(be16(name_idx));
		} else {
			b.push(b'[');
			b.extend(be16(n));
			if sibling == 1 {
				int_value(&mut b);
			}
		}
	}
	if kind(depth) == b'@' {
		b.push(b'@');
		b.extend(be16(type_idx));
		b.extend(be16(0));
	} else {
		b.push(b'[');
		b.extend(be16(0));
	}
	if sibling == 2 {
		for i in (0..depth).rev() {
			if kind(i) == b'@' {
				b.extend(be16(name_idx));
			}
			int_value(&mut b);
		}
	}
	b
}

#[derive(Clone, Copy)]
enum Where {
	Class,
	ClassInvisible,
	Field,
	Method,
	Default,
	ClassType,
	FieldType,
	MethodType,
	CodeType,
	Record,
	RecordType,
}

const WHERE_ALL: [(Where, &str); 11] = [
	(Where::Class, "class"), (Where::ClassInvisible, "class-invisible"), (Where::Field, "field"), (Where::Method, "method"), (Where::Default, "annotation-default"),
	(Where::ClassType, "class-type-annotation"), (Where::FieldType, "field-type-annotation"), (Where::MethodType, "method-type-annotation"), (Where::CodeType, "code-type-annotation"),
	(Where::Record, "record-component"), (Where::RecordType, "record-component-type-annotation"),
];

/// a class with one annotation `@Lp/A;(v = <element value>)` (or the bare element value as an AnnotationDefault) at `at`;
/// `make` gets the pool indices of the annotation type, of the element name and of an Integer constant
fn annotated_class(at: Where, make: impl Fn(u16, u16, u16) -> Vec<u8>) -> Vec<u8> {
	let mut cf = Cf::new();
	let ty = cf.utf8(b"Lp/A;");
	let nm = cf.utf8(b"v");
	let int = cf.int(7);
	let ev = make(ty, nm, int);
	// annotations attribute: num=1, annotation { type, 1 pair { name, value } }
	let mut ann = Vec::new();
	ann.extend(be16(1));
	ann.extend(be16(ty));
	ann.extend(be16(1));
	ann.extend(be16(nm));
	ann.extend_from_slice(&ev);
	let type_ann = |target: &[u8]| {
		let mut b = Vec::new();
		b.extend(be16(1));
		b.extend_from_slice(target);
		b.push(0); // path length
		b.extend_from_slice(&ann[2..]);
		b
	};
	let rva = cf.utf8(b"RuntimeVisibleAnnotations");
	let ria = cf.utf8(b"RuntimeInvisibleAnnotations");
	let rvta = cf.utf8(b"RuntimeVisibleTypeAnnotations");
	let rita = cf.utf8(b"RuntimeInvisibleTypeAnnotations");
	let fname = cf.utf8(b"f");
	let fdesc = cf.utf8(b"I");
	let mname = cf.utf8(b"value");
	let mdesc = cf.utf8(b"()I");
	let mut parts = ClassParts::default();
	let record = |cf: &mut Cf, a: Vec<u8>| {
		let rec = cf.utf8(b"Record");
		let mut b = Vec::new();
		b.extend(be16(1));
		b.extend(be16(fname));
		b.extend(be16(fdesc));
		b.extend(be16(1));
		b.extend_from_slice(&a);
		attr(rec, &b)
	};
	match at {
		Where::Class => parts.attrs.push(attr(rva, &ann)),
		Where::ClassInvisible => parts.attrs.push(attr(ria, &ann)),
		Where::Field => parts.fields.push(Member { access: 1, name: fname, desc: fdesc, attrs: vec![attr(rva, &ann)] }),
		Where::Method => parts.methods.push(Member { access: 0x0401, name: mname, desc: mdesc, attrs: vec![attr(rva, &ann)] }),
		Where::Default => {
			let ad = cf.utf8(b"AnnotationDefault");
			parts.methods.push(Member { access: 0x0401, name: mname, desc: mdesc, attrs: vec![attr(ad, &ev)] });
		},
		// class_extends of the super class, field, method return, `new` at offset 0
		Where::ClassType => parts.attrs.push(attr(rvta, &type_ann(&[0x10, 0xff, 0xff]))),
		Where::FieldType => parts.fields.push(Member { access: 1, name: fname, desc: fdesc, attrs: vec![attr(rita, &type_ann(&[0x13]))] }),
		Where::MethodType => parts.methods.push(Member { access: 0x0401, name: mname, desc: mdesc, attrs: vec![attr(rvta, &type_ann(&[0x14]))] }),
		Where::CodeType => return class_with_code(cf, 1, &[RETURN], &[], &[attr(rita, &type_ann(&[0x44, 0, 0]))], vec![]),
		Where::Record => {
			let a = record(&mut cf, attr(rva, &ann));
			parts.attrs.push(a);
		},
		Where::RecordType => {
			let a = record(&mut cf, attr(rvta, &type_ann(&[0x13])));
			parts.attrs.push(a);
		},
	}
	finish(cf, parts)
}

fn nesting_class(kind: u8, depth: usize, at: Where) -> Vec<u8> {
	annotated_class(at, |ty, nm, _| nested_element_value(kind, depth, ty, nm))
}

fn mixed_nesting_class(word: &'static [u8], depth: usize, sibling: u8, at: Where) -> Vec<u8> {
	annotated_class(at, |ty, nm, int| mixed_element_value(word, depth, sibling, ty, nm, int))
}

/// the words of length 1..=3 over {`@`, `[`}
const NESTING_WORDS: [&[u8]; 14] = [b"@", b"[", b"@@", b"@[", b"[@", b"[[", b"@@@", b"@@[", b"@[@", b"@[[", b"[@@", b"[@[", b"[[@", b"[[["];

fn field_with_descriptor(desc: &[u8]) -> Vec<u8> {
	let mut cf = Cf::new();
	let name = cf.utf8(b"f");
	let d = cf.utf8(desc);
	finish(cf, ClassParts { fields: vec![Member { access: 1, name, desc: d, attrs: vec![] }], ..Default::default() })
}

fn method_with_descriptor(desc: &[u8]) -> Vec<u8> {
	let mut cf = Cf::new();
	let name = cf.utf8(b"m");
	let d = cf.utf8(desc);
	finish(cf, ClassParts { methods: vec![Member { access: 0x0401, name, desc: d, attrs: vec![] }], ..Default::default() })
}

fn tableswitch(low: i32, high: i32, entries: usize) -> Vec<u8> {
	let mut c = vec![0xaau8, 0, 0, 0];
	c.extend(be32(0)); // default → itself
	c.extend(low.to_be_bytes());
	c.extend(high.to_be_bytes());
	for _ in 0..entries {
		c.extend(be32(0));
	}
	simple_code(&c)
}

fn lookupswitch(npairs: u32, pairs: usize) -> Vec<u8> {
	let mut c = vec![0xabu8, 0, 0, 0];
	c.extend(be32(0));
	c.extend(be32(npairs));
	for i in 0..pairs {
		c.extend(be32(i as u32));
		c.extend(be32(0));
	}
	simple_code(&c)
}

fn nops(n: usize) -> Vec<u8> {
	let mut c = vec![NOP; n];
	if let Some(l) = c.last_mut() {
		*l = RETURN;
	}
	c
}

/// LocalVariableTable / LocalVariableTypeTable with one entry (start, length)
fn lvt(type_table: bool, start: u16, length: u16, code_len: usize) -> Vec<u8> {
	let mut cf = Cf::new();
	let an = cf.utf8(if type_table { b"LocalVariableTypeTable" } else { b"LocalVariableTable" });
	let nm = cf.utf8(b"x");
	let ds = cf.utf8(if type_table { b"TT;" } else { b"I" });
	let mut b = Vec::new();
	b.extend(be16(1));
	b.extend(be16(start));
	b.extend(be16(length));
	b.extend(be16(nm));
	b.extend(be16(ds));
	b.extend(be16(0));
	let code = nops(code_len);
	class_with_code(cf, code.len() as u32, &code, &[], &[attr(an, &b)], vec![])
}

/// a valid method with a label at every bytecode offset it has: `code_len` nops, a LineNumberTable entry for each of the
/// first `lines` offsets and (optionally) a local variable live over the whole code (its end label is `code_len`)
fn labels_everywhere(code_len: usize, lines: usize, whole_range_local: bool) -> Vec<u8> {
	let mut cf = Cf::new();
	let ln = cf.utf8(b"LineNumberTable");
	let mut b = Vec::new();
	b.extend(be16(lines as u16));
	for pc in 0..lines {
		b.extend(be16(pc as u16));
		b.extend(be16((pc % 60_000) as u16 + 1));
	}
	let mut attrs = vec![attr(ln, &b)];
	if whole_range_local {
		let an = cf.utf8(b"LocalVariableTable");
		let nm = cf.utf8(b"x");
		let ds = cf.utf8(b"I");
		let mut b = Vec::new();
		b.extend(be16(1));
		b.extend(be16(0));
		b.extend(be16(code_len as u16));
		b.extend(be16(nm));
		b.extend(be16(ds));
		b.extend(be16(0));
		attrs.push(attr(an, &b));
	}
	let code = nops(code_len);
	class_with_code(cf, code.len() as u32, &code, &[], &attrs, vec![])
}

/// code-level type annotation with a localvar target (0x40 / 0x41) of one entry (start, length)
fn localvar_target(target: u8, start: u16, length: u16, code_len: usize) -> Vec<u8> {
	let mut cf = Cf::new();
	let an = cf.utf8(b"RuntimeVisibleTypeAnnotations");
	let ty = cf.utf8(b"Lp/A;");
	let mut b = Vec::new();
	b.extend(be16(1));
	b.push(target);
	b.extend(be16(1));
	b.extend(be16(start));
	b.extend(be16(length));
	b.extend(be16(0));
	b.push(0); // path
	b.extend(be16(ty));
	b.extend(be16(0));
	let code = nops(code_len);
	class_with_code(cf, code.len() as u32, &code, &[], &[attr(an, &b)], vec![])
}

/// StackMapTable of same_frame_extended (251) / same (0..=63) frames with the given offset deltas
fn stackmap(deltas: &[(u8, u16)], code_len: usize, name: &[u8]) -> Vec<u8> {
	let mut cf = Cf::new();
	let an = cf.utf8(name);
	let mut b = Vec::new();
	b.extend(be16(deltas.len() as u16));
	for (t, d) in deltas {
		b.push(*t);
		if *t >= 247 {
			b.extend(be16(*d));
		}
	}
	let code = nops(code_len);
	class_with_code(cf, code.len() as u32, &code, &[], &[attr(an, &b)], vec![])
}

#[derive(Clone, Copy)]
enum Level {
	Class,
	Field,
	Method,
	Code,
	Record,
}

/// an attribute called `name` whose attribute_length is `len` although only `body` follows
fn lying_attribute(name: &[u8], len: u32, body: &[u8], at: Level) -> Vec<u8> {
	let mut cf = Cf::new();
	let an = cf.utf8(name);
	let a = attr_len(an, len, body);
	let fname = cf.utf8(b"f");
	let fdesc = cf.utf8(b"I");
	let mut parts = ClassParts::default();
	match at {
		Level::Class => parts.attrs.push(a),
		Level::Field => parts.fields.push(Member { access: 1, name: fname, desc: fdesc, attrs: vec![a] }),
		Level::Method => {
			let d = cf.utf8(b"()V");
			parts.methods.push(Member { access: 0x0401, name: fname, desc: d, attrs: vec![a] });
		},
		Level::Code => return class_with_code(cf, 1, &[RETURN], &[], &[a], vec![]),
		Level::Record => {
			let rec = cf.utf8(b"Record");
			let mut b = Vec::new();
			b.extend(be16(1));
			b.extend(be16(fname));
			b.extend(be16(fdesc));
			b.extend(be16(1));
			b.extend_from_slice(&a);
			parts.attrs.push(attr(rec, &b));
		},
	}
	finish(cf, parts)
}

/// the class file up to and including a u16 count that promises `count` elements, then end of data
fn count_at_eof(which: &str, count: u16) -> Vec<u8> {
	let mut cf = Cf::new();
	match which {
		"pool" => {
			let mut b = Vec::new();
			b.extend(be32(0xCAFEBABE));
			b.extend(be16(0));
			b.extend(be16(61));
			b.extend(be16(count));
			return b;
		},
		"utf8" => {
			let mut b = Vec::new();
			b.extend(be32(0xCAFEBABE));
			b.extend(be16(0));
			b.extend(be16(61));
			b.extend(be16(2));
			b.push(1);
			b.extend(be16(count));
			b.extend_from_slice(b"abc");
			return b;
		},
		_ => {},
	}
	let full = {
		let _ = cf.utf8(b"pad");
		finish(cf, ClassParts::default())
	};
	// header layout after the pool: access this super interfaces_count fields_count methods_count attributes_count
	let tail = 2 + 2 + 2 + 2 + 2 + 2 + 2;
	let pool_end = full.len() - tail;
	let cut = match which {
		"interfaces" => pool_end + 6,
		"fields" => pool_end + 8,
		"methods" => pool_end + 10,
		_ => pool_end + 12, // attributes
	};
	let mut b = full[..cut].to_vec();
	b.extend(be16(count));
	b
}

fn counts_inside(which: &str) -> Vec<u8> {
	let mut cf = Cf::new();
	match which {
		"bootstrap-methods" => {
			let n = cf.utf8(b"BootstrapMethods");
			finish(cf, ClassParts { attrs: vec![attr(n, &be16(0xffff))], ..Default::default() })
		},
		"bootstrap-arguments" => {
			let h = bsm_handle(&mut cf);
			let n = cf.utf8(b"BootstrapMethods");
			let mut b = Vec::new();
			b.extend(be16(1));
			b.extend(be16(h));
			b.extend(be16(0xffff));
			finish(cf, ClassParts { attrs: vec![attr(n, &b)], ..Default::default() })
		},
		"annotation-pairs" => {
			let n = cf.utf8(b"RuntimeVisibleAnnotations");
			let ty = cf.utf8(b"Lp/A;");
			let mut b = Vec::new();
			b.extend(be16(1));
			b.extend(be16(ty));
			b.extend(be16(0xffff));
			finish(cf, ClassParts { attrs: vec![attr(n, &b)], ..Default::default() })
		},
		"annotations" => {
			let n = cf.utf8(b"RuntimeVisibleAnnotations");
			finish(cf, ClassParts { attrs: vec![attr(n, &be16(0xffff))], ..Default::default() })
		},
		"inner-classes" | "nest-members" | "permitted-subclasses" | "module-packages" | "record" => {
			let name: &[u8] = match which {
				"inner-classes" => b"InnerClasses",
				"nest-members" => b"NestMembers",
				"permitted-subclasses" => b"PermittedSubclasses",
				"module-packages" => b"ModulePackages",
				_ => b"Record",
			};
			let n = cf.utf8(name);
			finish(cf, ClassParts { attrs: vec![attr(n, &be16(0xffff))], ..Default::default() })
		},
		"exceptions" => {
			let n = cf.utf8(b"Exceptions");
			let nm = cf.utf8(b"m");
			let d = cf.utf8(b"()V");
			finish(cf, ClassParts { methods: vec![Member { access: 0x0401, name: nm, desc: d, attrs: vec![attr(n, &be16(0xffff))] }], ..Default::default() })
		},
		"method-parameters" => {
			let n = cf.utf8(b"MethodParameters");
			let nm = cf.utf8(b"m");
			let d = cf.utf8(b"()V");
			finish(cf, ClassParts { methods: vec![Member { access: 0x0401, name: nm, desc: d, attrs: vec![attr(n, &[0xff])] }], ..Default::default() })
		},
		"exception-table" => {
			let nm = cf.utf8(b"m");
			let d = cf.utf8(b"()V");
			let cn = cf.utf8(b"Code");
			let mut b = Vec::new();
			b.extend(be16(1));
			b.extend(be16(1));
			b.extend(be32(1));
			b.push(RETURN);
			b.extend(be16(0xffff));
			finish(cf, ClassParts { methods: vec![Member { access: 9, name: nm, desc: d, attrs: vec![attr(cn, &b)] }], ..Default::default() })
		},
		"stackmap-entries" => stackmap_raw(&be16(0xffff), b"StackMapTable"),
		"stackmap-full-locals" => {
			let mut b = Vec::new();
			b.extend(be16(1));
			b.push(255);
			b.extend(be16(0));
			b.extend(be16(0xffff));
			stackmap_raw(&b, b"StackMapTable")
		},
		"stackmap-cldc-entries" => stackmap_raw(&be16(0xffff), b"StackMap"),
		"line-numbers" => stackmap_raw(&be16(0xffff), b"LineNumberTable"),
		"local-variables" => stackmap_raw(&be16(0xffff), b"LocalVariableTable"),
		"localvar-target" => {
			let mut b = Vec::new();
			b.extend(be16(1));
			b.push(0x40);
			b.extend(be16(0xffff));
			stackmap_raw(&b, b"RuntimeVisibleTypeAnnotations")
		},
		"type-path" => {
			let n = cf.utf8(b"RuntimeVisibleTypeAnnotations");
			let mut b = Vec::new();
			b.extend(be16(1));
			b.push(0x10);
			b.extend(be16(0xffff));
			b.push(0xff);
			finish(cf, ClassParts { attrs: vec![attr(n, &b)], ..Default::default() })
		},
		_ => {
			// module tables
			let n = cf.utf8(b"Module");
			let mn = cf.utf8(b"m.main");
			let mi = cf.idx1(19, mn);
			let mut b = Vec::new();
			b.extend(be16(mi));
			b.extend(be16(0));
			b.extend(be16(0));
			b.extend(be16(0xffff));
			finish(cf, ClassParts { access: 0x8000, attrs: vec![attr(n, &b)], ..Default::default() })
		},
	}
}

fn stackmap_raw(body: &[u8], name: &[u8]) -> Vec<u8> {
	let mut cf = Cf::new();
	let an = cf.utf8(name);
	class_with_code(cf, 1, &[RETURN], &[], &[attr(an, body)], vec![])
}

fn code_length_case(declared: u32, actual: usize) -> Vec<u8> {
	let code = nops(actual);
	class_with_code(Cf::new(), declared, &code, &[], &[], vec![])
}

/// invokeinterface of a method whose descriptor has `slots` argument slots
fn invokeinterface_args(desc: &str) -> Vec<u8> {
	let mut cf = Cf::new();
	let r = cf.member(11, "p/Itf", "big", desc);
	let mut c = vec![0xb9u8];
	c.extend(be16(r));
	c.extend([1, 0, RETURN]);
	class_with_code(cf, c.len() as u32, &c, &[], &[], vec![])
}

fn exception_entry(e: [u16; 4], code_len: usize) -> Vec<u8> {
	let mut cf = Cf::new();
	let _ = cf.class("java/lang/Exception");
	let code = nops(code_len);
	class_with_code(cf, code.len() as u32, &code, &[e], &[], vec![])
}

fn branch(opcode: u8, operand: &[u8], pad_before: usize) -> Vec<u8> {
	let mut c = vec![NOP; pad_before];
	c.push(opcode);
	c.extend_from_slice(operand);
	c.push(RETURN);
	simple_code(&c)
}

fn big_pool(entries: u16) -> Vec<u8> {
	let mut cf = Cf::new();
	for i in 0..entries {
		cf.int(i as i32);
	}
	finish(cf, ClassParts::default())
}

fn two_slot_at_end() -> Vec<u8> {
	// a Long in the last slot: constant_pool_count says one slot too few
	let mut b = Vec::new();
	b.extend(be32(0xCAFEBABE));
	b.extend(be16(0));
	b.extend(be16(61));
	b.extend(be16(2));
	b.push(5);
	b.extend([0u8; 8]);
	b.extend(be16(0x21));
	b.extend(be16(1));
	b.extend(be16(0));
	b.extend([0u8; 8]);
	b
}

fn enigma_nesting(depth: usize) -> Vec<u8> {
	let mut b = Vec::with_capacity(depth * depth / 2 + depth * 10);
	for d in 0..depth {
		b.extend(std::iter::repeat(b'\t').take(d));
		b.extend_from_slice(b"CLASS a b\n");
	}
	b
}

/// nested classes, each with a comment, a field and a method with a parameter before the class nested in it
fn enigma_nesting_with_members(depth: usize) -> Vec<u8> {
	let mut b = Vec::with_capacity(depth * depth * 3 + depth * 64);
	let mut line = |d: usize, text: &[u8]| {
		b.extend(std::iter::repeat(b'\t').take(d));
		b.extend_from_slice(text);
		b.push(b'\n');
	};
	for d in 0..depth {
		line(d, b"CLASS a b");
		line(d + 1, b"COMMENT c");
		line(d + 1, b"FIELD f g I");
		line(d + 1, b"METHOD m n (I)V");
		line(d + 2, b"ARG 1 p");
	}
	b
}

fn repeat_line(line: &[u8], n: usize, vary: bool) -> Vec<u8> {
	let mut b = Vec::with_capacity((line.len() + 8) * n);
	for i in 0..n {
		if vary {
			b.extend_from_slice(String::from_utf8_lossy(line).replace("{}", &i.to_string()).as_bytes());
		} else {
			b.extend_from_slice(line);
		}
		b.push(b'\n');
	}
	b
}

/// The strings the contents of every Utf8 constant of a class seed are replaced with (fault set (g)): descriptor and
/// class-name shapes at the boundaries of their grammars, member names, signatures, the names of the attributes (so that
/// the body of one attribute is read as another), and modified-UTF-8 byte sequences legal and illegal.
pub fn class_strings() -> Vec<Vec<u8>> {
	let l = |s: &str| s.as_bytes().to_vec();
	let rep = |c: u8, n: usize, tail: &str| {
		let mut v = vec![c; n];
		v.extend_from_slice(tail.as_bytes());
		v
	};
	let mut v = vec![
		l(""), l("I"), l("J"), l("V"), l("["), l("[[I"), rep(b'[', 255, "I"), rep(b'[', 256, "I"), l("L;"), l("La;"), l("La"), l("L"), l("[La;"), l("[V"),
		l("("), l(")"), l("()"), l("()V"), l("(I)V"), l("(J)J"), l("()La;"), l("(La;)[[D"), l("(V)V"), l("(()V"), l("()VV"),
		l(&format!("({})V", "J".repeat(128))), l(&format!("({})V", "I".repeat(255))), l(&format!("({})V", "I".repeat(256))), l(&format!("({}J)V", "I".repeat(253))),
		l("<init>"), l("<clinit>"), l("<x>"), l("<"), l(">"), l("a"), l("a/b"), l("a//b"), l("/a"), l("a/"), l("/"), l("a.b"), l("a;b"), l("a[b"), l("[a"), l("a$b"), l("$"), l("a$"), l("$a"), l("a$$b"), l("1"), l("a$1"), l("a$1b"),
		l("java/lang/Object"), l("java/lang/Enum"), l("java/lang/Record"), l("module-info"), l("package-info"),
		l("\u{e9}"), l("\u{20ac}"), l("a\u{e9}"), l("a/\u{e9}$\u{20ac}"), l("L\u{e9};"), l("(L\u{20ac};)V"),
		// raw four-byte UTF-8 and a raw NUL are not modified UTF-8; C0 80 is NUL; surrogates alone and as a pair; cut sequences
		l("\u{1F600}"), vec![0], vec![0xc0, 0x80], vec![b'a', 0xc0, 0x80, b'b'], vec![0xed, 0xa0, 0x80], vec![0xed, 0xb0, 0x80], vec![0xed, 0xa0, 0xbd, 0xed, 0xb8, 0x80], vec![0xed, 0xb8, 0x80, 0xed, 0xa0, 0xbd],
		vec![0xc3], vec![b'a', 0xc3], vec![0xe2, 0x82], vec![0x80], vec![0xff], vec![0xc0, 0xaf], vec![0xe0, 0x80, 0xaf], vec![0xed, 0xa0], vec![0xf8, 0x88, 0x80, 0x80, 0x80],
		l("<T:Ljava/lang/Object;>Ljava/lang/Object;"), l("TT;"), l("Ljava/util/List<"), l("Ljava/util/List<*>;"), l("<T:"), l("(TT;)V^TE;"),
		vec![b'a'; 65535], rep(b'L', 1, &format!("{};", "a".repeat(65533))), rep(b'[', 65535, ""),
	];
	for name in ["Code", "StackMapTable", "StackMap", "LineNumberTable", "LocalVariableTable", "LocalVariableTypeTable", "BootstrapMethods", "Signature", "Record", "ConstantValue", "Deprecated", "Synthetic", "RuntimeVisibleAnnotations", "RuntimeInvisibleAnnotations", "RuntimeVisibleTypeAnnotations", "RuntimeInvisibleTypeAnnotations", "RuntimeVisibleParameterAnnotations", "RuntimeInvisibleParameterAnnotations", "AnnotationDefault", "MethodParameters", "Exceptions", "InnerClasses", "EnclosingMethod", "SourceFile", "SourceDebugExtension", "Module", "ModulePackages", "ModuleMainClass", "NestHost", "NestMembers", "PermittedSubclasses", "x.Unknown"] {
		v.push(l(name));
	}
	v
}

/// the symbols of the "every short string in every Utf8 constant" space (byte sequences, not all of them characters)
pub fn class_char_alphabet() -> Vec<Vec<u8>> {
	let mut v: Vec<Vec<u8>> = ["a", "/", "$", ";", "[", "L", "(", ")", "<", ">", ".", "I", "J", "V", "1", "\u{e9}", "\u{20ac}"].iter().map(|s| s.as_bytes().to_vec()).collect();
	v.extend([vec![0xc0u8, 0x80], vec![0xed, 0xa0, 0x80], vec![0xc3], vec![0x80]]);
	v
}

pub struct Adversary {
	pub name: String,
	pub parser: P,
	pub build: Box<dyn Fn() -> Vec<u8> + Send + Sync>,
}

fn adv(v: &mut Vec<Adversary>, name: impl Into<String>, parser: P, build: impl Fn() -> Vec<u8> + Send + Sync + 'static) {
	v.push(Adversary { name: name.into(), parser, build: Box::new(build) });
}

/// The hand-built adversaries (fault set (d)). `thorough` adds the bigger sizes.
pub fn adversaries(thorough: bool) -> Vec<Adversary> {
	let mut v = Vec::new();
	let c = P::Class;
	// self-referential bootstrap arguments
	adv(&mut v, "dynamic-self/loaded-by-ldc", c, || dynamic_cycle(1, true, false));
	adv(&mut v, "dynamic-2-cycle/loaded-by-ldc", c, || dynamic_cycle(2, true, false));
	adv(&mut v, "dynamic-3-cycle/loaded-by-ldc", c, || dynamic_cycle(3, true, false));
	adv(&mut v, "dynamic-self/argument-of-invokedynamic", c, || dynamic_cycle(1, false, true));
	adv(&mut v, "dynamic-2-cycle/argument-of-invokedynamic", c, || dynamic_cycle(2, false, true));
	adv(&mut v, "dynamic-self/never-loaded", c, || dynamic_cycle(1, false, false));
	for n in [10usize, 1000, 10_000, 30_000] {
		adv(&mut v, format!("dynamic-chain/finite-depth-{n}"), c, move || dynamic_chain(n));
	}
	// as many labels as a method can have (every offset 0..code_length, the end included)
	for (code_len, lines, local) in [(100usize, 100usize, true), (65_535, 65_534, true), (65_535, 65_535, false), (65_535, 65_535, true), (65_534, 65_534, true)] {
		adv(&mut v, format!("labels-at-every-offset/code_length={code_len},lines={lines},whole-range-local={local}"), c, move || labels_everywhere(code_len, lines, local));
	}
	// shared (not nested) dynamic constants: tiny files whose expansion into a tree is exponential
	for (levels, fan) in [(3usize, 2usize), (12, 2), (24, 2), (40, 2), (200, 2), (16, 3), (10, 8), (5, 200)] {
		adv(&mut v, format!("dynamic-dag/{levels}-levels-fan-{fan}/loaded-by-ldc"), c, move || dynamic_dag(levels, fan, false));
		adv(&mut v, format!("dynamic-dag/{levels}-levels-fan-{fan}/argument-of-invokedynamic"), c, move || dynamic_dag(levels, fan, true));
	}
	// deep nesting of element values
	let depths: &[usize] = if thorough { &[100, 10_000, 100_000, 1_000_000] } else { &[100, 10_000, 100_000] };
	for &depth in depths {
		for (kind, kn) in [(b'@', "annotation"), (b'[', "array")] {
			for (at, an) in [(Where::Class, "class"), (Where::Field, "field"), (Where::Method, "method"), (Where::Default, "annotation-default"), (Where::FieldType, "field-type-annotation"), (Where::Record, "record-component")] {
				adv(&mut v, format!("element-value-nesting/{kn}-depth-{depth}-on-{an}"), c, move || nesting_class(kind, depth, at));
			}
		}
	}
	// mixed nesting: every periodic word of length <= 3 over {annotation, array} at every place an element value can stand,
	// deep (a guard that one of the four recursion sites resets is only seen on a mix) ...
	for &depth in depths.iter().filter(|d| **d >= 100_000) {
		for word in NESTING_WORDS.iter().filter(|w| w.len() > 1) {
			for (at, an) in WHERE_ALL {
				adv(&mut v, format!("element-value-nesting/mixed-{}-depth-{depth}-on-{an}", String::from_utf8_lossy(word)), c, move || mixed_nesting_class(word, depth, 1, at));
			}
		}
	}
	// nesting of dynamic constants around the reader's bounds (depth 256; 32768 resolved arguments of nested constants)
	for n in [254usize, 255, 256, 257, 258] {
		for via in [false, true] {
			adv(&mut v, format!("dynamic-chain/depth-{n}{}", if via { "/argument-of-invokedynamic" } else { "/loaded-by-ldc" }), c, move || dynamic_chain_at(n, via));
		}
	}
	for k in [1usize, 32_766, 32_767, 32_768, 32_769, 65_535] {
		for via in [false, true] {
			adv(&mut v, format!("dynamic-nested-arguments/{k}{}", if via { "/argument-of-invokedynamic" } else { "/loaded-by-ldc" }), c, move || dynamic_nested_arguments(k, via));
		}
	}
	// tables the reader merges from several attributes: exactly as many entries as a count field can state, and one more
	for (kind, kn) in [(0u8, "LineNumberTable"), (1, "LocalVariableTable"), (2, "LocalVariableTypeTable")] {
		for counts in [&[65_535usize][..], &[65_534, 1], &[65_535, 1], &[1, 65_535], &[32_768, 32_768], &[65_535, 65_535], &[0, 0], &[0, 1]] {
			adv(&mut v, format!("merged-tables/{kn}x{counts:?}"), c, move || merged_tables(&counts.iter().map(|n| (kind, *n)).collect::<Vec<_>>()));
		}
	}
	for (a, b2) in [(65_535usize, 65_535usize), (65_535, 1), (1, 65_535), (0, 65_535), (65_535, 0)] {
		adv(&mut v, format!("merged-tables/LocalVariableTable[{a}]+LocalVariableTypeTable[{b2}]"), c, move || merged_tables(&[(1, a), (2, b2)]));
		adv(&mut v, format!("merged-tables/LocalVariableTypeTable[{b2}]+LocalVariableTable[{a}]"), c, move || merged_tables(&[(2, b2), (1, a)]));
	}
	adv(&mut v, "merged-tables/LocalVariableTable[40000]+LocalVariableTypeTable[40000]+LocalVariableTable[40000]+LineNumberTable[65535]x2", c, || merged_tables(&[(1, 40_000), (2, 40_000), (1, 40_000), (0, 65_535), (0, 65_535)]));
	// as many attributes / members as a count can state
	for (lv, ln) in [(Level::Class, "class"), (Level::Field, "field"), (Level::Method, "method"), (Level::Code, "code"), (Level::Record, "record-component")] {
		for n in [65_534usize, 65_535] {
			for flags in [false, true] {
				adv(&mut v, format!("count-at-its-maximum/{n}-attributes-on-{ln}{}", if flags { "-Deprecated-and-Synthetic-among-them" } else { "" }), c, move || many_attributes(n, lv, flags));
			}
		}
	}
	for (kind, kn) in [(0u8, "interfaces"), (1, "fields"), (2, "methods")] {
		for n in [65_534usize, 65_535] {
			adv(&mut v, format!("count-at-its-maximum/{n}-{kn}"), c, move || many_members(kind, n));
		}
	}
	// every slot of the largest pool in use (a two-slot constant in the last two slots included)
	for count in [65_533usize, 65_534, 65_535] {
		for wide in [false, true] {
			adv(&mut v, format!("pool/every-slot-used/constant_pool_count={count}{}", if wide { ",longs" } else { ",ints" }), c, move || full_pool(count, wide));
		}
	}
	// code that grows when written again, so that a branch has to be replaced by a wider sequence; the replacement at the
	// very end of the largest method
	for (op, on) in [(0x99u8, "ifeq"), (0xa7, "goto"), (0xa8, "jsr"), (0xc6, "ifnull"), (0xa5, "if_acmpeq")] {
		for forward in [false, true] {
			let dir = if forward { "forward" } else { "backward" };
			adv(&mut v, format!("writer-code-growth/{on}-{dir}-over-12000-ldc"), c, move || growing_code(op, 10, 12_000, 0, forward));
			adv(&mut v, format!("writer-code-growth/{on}-{dir}-over-10900-ldc-just-fits"), c, move || growing_code(op, 0, 10_900, 0, forward));
			adv(&mut v, format!("writer-code-growth/{on}-{dir}-over-10923-ldc"), c, move || growing_code(op, 0, 10_923, 0, forward));
		}
		// the branch stands at byte 63000 + p of the written code
		for p in 2_518..=2_537usize {
			adv(&mut v, format!("writer-code-growth/{on}-backward-at-the-end-of-the-code,padding={p}"), c, move || growing_code(op, 9_000, 12_000, p, false));
		}
		for p in [2_520usize, 2_530] {
			adv(&mut v, format!("writer-code-growth/{on}-forward-to-the-end-of-the-code,padding={p}"), c, move || growing_code(op, 9_000, 12_000, p, true));
		}
	}
	// descriptors made of brackets
	for n in [255usize, 256, 65_534] {
		adv(&mut v, format!("descriptor-brackets/field-{n}"), c, move || {
			let mut d = vec![b'['; n];
			d.push(b'I');
			field_with_descriptor(&d)
		});
		adv(&mut v, format!("descriptor-brackets/method-parameter-{n}"), c, move || {
			let mut d = vec![b'('];
			d.extend(vec![b'['; n - 2]);
			d.extend_from_slice(b"I)V");
			method_with_descriptor(&d)
		});
	}
	adv(&mut v, "descriptor-brackets/field-only-brackets-65535", c, || field_with_descriptor(&vec![b'['; 65_535]));
	for (p, pre, post) in [(P::DescField, "", "I"), (P::DescReturn, "", "I"), (P::DescMethod, "(", "I)V"), (P::DescMethod, "()", "I")] {
		for n in [255usize, 256, 100_000] {
			adv(&mut v, format!("descriptor-brackets/parse-{}-{n}-brackets-after-{pre:?}", p.name()), p, move || {
				let mut d = pre.as_bytes().to_vec();
				d.extend(vec![b'['; n]);
				d.extend_from_slice(post.as_bytes());
				d
			});
		}
	}
	adv(&mut v, "descriptor/method-100000-parameters", P::DescMethod, || {
		let mut d = vec![b'('];
		d.extend(vec![b'J'; 100_000]);
		d.extend_from_slice(b")V");
		d
	});
	adv(&mut v, "descriptor/class-name-1MiB", P::DescField, || {
		let mut d = vec![b'L'];
		d.extend(vec![b'a'; 1 << 20]);
		d.push(b';');
		d
	});
	// switches spanning the int range
	for (low, high) in [(i32::MIN, i32::MAX), (i32::MIN, -1), (i32::MIN, 0), (0, i32::MAX), (-1, i32::MAX), (-2, i32::MAX), (i32::MIN, i32::MIN), (i32::MAX, i32::MAX), (1, 0), (0, 0x00ff_ffff), (0, 0x0fff_ffff)] {
		adv(&mut v, format!("tableswitch/low={low},high={high}"), c, move || tableswitch(low, high, 1));
	}
	for n in [i32::MAX as u32, 0xffff_ffff, 0x8000_0000, 0x1000_0000, 0x0100_0000, 0x0001_0000] {
		adv(&mut v, format!("lookupswitch/npairs={n:#x}"), c, move || lookupswitch(n, 1));
	}
	// code ranges past 65535
	for (s, l) in [(1u16, 65535u16), (65535, 1), (65535, 65535), (32768, 32768), (0, 65535), (0, 0), (4, 65532), (5, 0)] {
		for cl in [5usize, 65535] {
			adv(&mut v, format!("local-variable-range/LocalVariableTable start={s},length={l},code_length={cl}"), c, move || lvt(false, s, l, cl));
			adv(&mut v, format!("local-variable-range/LocalVariableTypeTable start={s},length={l},code_length={cl}"), c, move || lvt(true, s, l, cl));
			adv(&mut v, format!("local-variable-range/localvar_target(0x40) start={s},length={l},code_length={cl}"), c, move || localvar_target(0x40, s, l, cl));
			adv(&mut v, format!("local-variable-range/localvar_target(0x41) start={s},length={l},code_length={cl}"), c, move || localvar_target(0x41, s, l, cl));
		}
	}
	let frames: Vec<(&str, Vec<(u8, u16)>)> = vec![
		("251:65535,251:65535", vec![(251, 65535), (251, 65535)]),
		("251:65535,0", vec![(251, 65535), (0, 0)]),
		("251:65534,0", vec![(251, 65534), (0, 0)]),
		("251:65534,251:0,251:0", vec![(251, 65534), (251, 0), (251, 0)]),
		("251:32767,251:32767,251:1", vec![(251, 32767), (251, 32767), (251, 1)]),
		("63,63,251:65535", vec![(63, 0), (63, 0), (251, 65535)]),
		("251:65535", vec![(251, 65535)]),
		("251:4,0", vec![(251, 3), (0, 0)]),
		("0,251:65535", vec![(0, 0), (251, 65535)]),
		("0,251:65534", vec![(0, 0), (251, 65534)]),
		("0,0,251:65534", vec![(0, 0), (0, 0), (251, 65534)]),
	];
	for (n, f) in frames {
		for cl in [1usize, 5, 65535] {
			let f = f.clone();
			adv(&mut v, format!("stack-map-offset-sum/frames={n},code_length={cl}"), c, move || stackmap(&f, cl, b"StackMapTable"));
		}
	}
	// counts and lengths that promise more than there is
	for len in [0xffff_ffffu32, 0x8000_0000, 0x7fff_ffff, 0x1000_0000, 0x0800_0000, 0x0010_0000] {
		for (lv, ln) in [(Level::Class, "class"), (Level::Field, "field"), (Level::Method, "method"), (Level::Code, "code"), (Level::Record, "record-component")] {
			adv(&mut v, format!("attribute-length/unknown-attribute-on-{ln}-length={len:#x}"), c, move || lying_attribute(b"x.Unknown", len, &[1, 2, 3], lv));
		}
		adv(&mut v, format!("attribute-length/SourceDebugExtension-length={len:#x}"), c, move || lying_attribute(b"SourceDebugExtension", len, b"SMAP", Level::Class));
		adv(&mut v, format!("attribute-length/Deprecated-length={len:#x}"), c, move || lying_attribute(b"Deprecated", len, &[], Level::Class));
		adv(&mut v, format!("attribute-length/Signature-length={len:#x}"), c, move || lying_attribute(b"Signature", len, &[0, 1], Level::Class));
		adv(&mut v, format!("attribute-length/Code-length={len:#x}"), c, move || lying_attribute(b"Code", len, &[0, 1, 0, 1, 0, 0, 0, 1, RETURN, 0, 0, 0, 0], Level::Method));
	}
	for which in ["pool", "utf8", "interfaces", "fields", "methods", "attributes"] {
		for n in [1u16, 0x7fff, 0xffff] {
			adv(&mut v, format!("count-at-end-of-data/{which}={n}"), c, move || count_at_eof(which, n));
		}
	}
	for which in ["bootstrap-methods", "bootstrap-arguments", "annotation-pairs", "annotations", "inner-classes", "nest-members", "permitted-subclasses", "module-packages", "record", "exceptions", "method-parameters", "exception-table", "stackmap-entries", "stackmap-full-locals", "stackmap-cldc-entries", "line-numbers", "local-variables", "localvar-target", "type-path", "module-requires"] {
		adv(&mut v, format!("count-at-end-of-data/{which}=max"), c, move || counts_inside(which));
	}
	for (declared, actual) in [(0u32, 0usize), (0, 1), (65536, 65536), (65536, 1), (0xffff_ffff, 1), (0x8000_0000, 1), (65535, 1), (65535, 65535), (2, 1), (1, 1)] {
		adv(&mut v, format!("code-length/declared={declared},present={actual}"), c, move || code_length_case(declared, actual));
	}
	// the writer's u8 argument count
	for (n, l) in [(127usize, 'J'), (128, 'J'), (254, 'I'), (255, 'I'), (256, 'I'), (300, 'I'), (1000, 'D')] {
		adv(&mut v, format!("invokeinterface-argument-slots/{n}x{l}"), c, move || invokeinterface_args(&format!("({})V", l.to_string().repeat(n))));
	}
	// a two-slot argument straddling the 255-slot limit, in every composition that reaches the limit differently
	for slots in [253usize, 254, 255, 256, 257] {
		for w in ['J', 'D'] {
			adv(&mut v, format!("invokeinterface-argument-slots/{slots}-ints-then-{w}"), c, move || invokeinterface_args(&format!("({}{w})V", "I".repeat(slots - 2))));
			adv(&mut v, format!("invokeinterface-argument-slots/{slots}-{w}-then-ints"), c, move || invokeinterface_args(&format!("({w}{})V", "I".repeat(slots - 2))));
			adv(&mut v, format!("invokeinterface-argument-slots/{slots}-objects-then-{w}"), c, move || invokeinterface_args(&format!("({}{w})V", "Lp/T;".repeat(slots - 2))));
			adv(&mut v, format!("invokeinterface-argument-slots/{slots}-arrays-then-{w}"), c, move || invokeinterface_args(&format!("({}{w})V", "[D".repeat(slots - 2))));
			adv(&mut v, format!("invokeinterface-argument-slots/{slots}-int-then-{w}s"), c, move || invokeinterface_args(&format!("({}{})V", "I".repeat(slots % 2), w.to_string().repeat(slots / 2))));
		}
	}
	adv(&mut v, "invokeinterface-argument-slots/255-arrays", c, || invokeinterface_args(&format!("({})V", "[[I".repeat(255))));
	adv(&mut v, "invokeinterface-argument-slots/255-objects", c, || invokeinterface_args(&format!("({})V", "Lp/T;".repeat(255))));
	// exception table corners
	for e in [[0u16, 5, 0, 0], [0, 6, 0, 0], [5, 5, 0, 0], [4, 0, 0, 0], [0, 5, 5, 0], [0, 65535, 0, 0], [65535, 65535, 65535, 65535], [0, 5, 0, 1], [0, 5, 0, 2]] {
		adv(&mut v, format!("exception-table/{e:?}"), c, move || exception_entry(e, 5));
	}
	// branch arithmetic
	for (o, operand, pad) in [(0xa7u8, vec![0x80u8, 0x00], 0usize), (0xa7, vec![0x7f, 0xff], 0), (0xa7, vec![0xff, 0xff], 0), (0xc8, vec![0x80, 0, 0, 0], 0), (0xc8, vec![0x7f, 0xff, 0xff, 0xff], 3), (0xc8, vec![0xff, 0xff, 0xff, 0xfd], 3), (0xc9, vec![0, 1, 0, 0], 0), (0xa8, vec![0, 3], 0), (0xc6, vec![0x80, 0x01], 1)] {
		adv(&mut v, format!("branch-offset/opcode={o:#x},operand={operand:02x?},at={pad}"), c, move || branch(o, &operand, pad));
	}
	// big but legal
	adv(&mut v, "large-legal/code-of-65535-nops", c, || simple_code(&nops(65535)));
	adv(&mut v, "large-legal/pool-of-65534-integers", c, || big_pool(65534));
	adv(&mut v, "pool/two-slot-constant-in-last-slot", c, two_slot_at_end);
	adv(&mut v, "pool/count-0", c, || count_at_eof("pool", 0));
	adv(&mut v, "empty-input", c, Vec::new);
	adv(&mut v, "version/68.0", c, || finish(Cf::new(), ClassParts { version: (68, 0), ..Default::default() }));
	adv(&mut v, "version/65535.65535", c, || finish(Cf::new(), ClassParts { version: (65535, 65535), ..Default::default() }));
	adv(&mut v, "trailing-bytes/1MiB-after-the-class", c, || {
		let mut b = finish(Cf::new(), ClassParts::default());
		b.extend(vec![0xAAu8; 1 << 20]);
		b
	});

	// text parsers: scale and depth
	let edepths: &[usize] = if thorough { &[100, 1000, 3000, 10_000] } else { &[100, 1000, 3000] };
	for &d in edepths {
		adv(&mut v, format!("enigma/class-nesting-depth-{d}"), P::Enigma, move || enigma_nesting(d));
	}
	adv(&mut v, "enigma/class-nesting-with-members-depth-1000", P::Enigma, || enigma_nesting_with_members(1000));
	adv(&mut v, "enigma/100000-classes", P::Enigma, || repeat_line(b"CLASS a{} b{}", 100_000, true));
	adv(&mut v, "enigma/100000-comment-lines", P::Enigma, || {
		let mut b = b"CLASS a b\n".to_vec();
		b.extend(repeat_line(b"\tCOMMENT x", 100_000, false));
		b
	});
	adv(&mut v, "enigma/line-of-1000000-tabs", P::Enigma, || vec![b'\t'; 1_000_000]);
	adv(&mut v, "enigma/line-of-1000000-spaces-between-fields", P::Enigma, || {
		let mut b = b"CLASS a".to_vec();
		b.extend(vec![b' '; 1_000_000]);
		b.extend_from_slice(b"b\n");
		b
	});
	for (p, header) in [(P::Tiny2, &b"tiny\t2\t0\ta\tb\n"[..]), (P::Tiny3, &b"tiny\t2\t0\ta\tb\tc\n"[..]), (P::TinyDiff, &b"tiny\t2\t0\n"[..])] {
		let h = header.to_vec();
		let cols = match p {
			P::Tiny3 => "\tb{}\tc{}",
			_ => "\tb{}",
		};
		let line = format!("c\ta{{}}{cols}");
		let (h1, l1) = (h.clone(), line.clone());
		adv(&mut v, format!("{}/100000-classes", p.name()), p, move || {
			let mut b = h1.clone();
			b.extend(repeat_line(l1.as_bytes(), 100_000, true));
			b
		});
		let h2 = h.clone();
		adv(&mut v, format!("{}/line-of-1000000-tabs", p.name()), p, move || {
			let mut b = h2.clone();
			b.extend(vec![b'\t'; 1_000_000]);
			b
		});
		let h3 = h.clone();
		adv(&mut v, format!("{}/header-with-100000-namespaces", p.name()), p, move || {
			let mut b = h3.clone();
			b.pop();
			for i in 0..100_000 {
				b.extend_from_slice(format!("\tn{i}").as_bytes());
			}
			b.push(b'\n');
			b
		});
		let h4 = h.clone();
		adv(&mut v, format!("{}/field-descriptor-of-100000-brackets", p.name()), p, move || {
			let mut b = h4.clone();
			b.extend_from_slice(if p == P::TinyDiff { b"c\ta\ta\tb\n\tf\t" } else { b"c\ta\tb\tc\n\tf\t" });
			b.extend(vec![b'['; 100_000]);
			b.extend_from_slice(b"I\tx\ty\tz\n");
			b
		});
		let h5 = h.clone();
		adv(&mut v, format!("{}/no-line-break-1MiB", p.name()), p, move || {
			let mut b = h5.clone();
			b.pop();
			b.extend(vec![b'x'; 1 << 20]);
			b
		});
	}
	adv(&mut v, "nests/100000-lines", P::Nests, || repeat_line(b"a/B$C{}\ta/B\t\t\tC{}\t8", 100_000, true));
	adv(&mut v, "nests/line-of-1000000-tabs", P::Nests, || vec![b'\t'; 1_000_000]);
	adv(&mut v, "nests/access-of-1000000-digits", P::Nests, || {
		let mut b = b"a/B$C\ta/B\t\t\tC\t".to_vec();
		b.extend(vec![b'9'; 1_000_000]);
		b
	});
	v
}

/// The small adversaries around the bounds of the recursion guards (their own space: thousands of cheap cases).
pub fn boundary_adversaries() -> Vec<Adversary> {
	let mut v = Vec::new();
	let c = P::Class;
	// ... and around the reader's bound (what it accepts there goes through the writer and is dropped): with the nested
	// value alone in its parent, after a sibling, before a sibling
	for depth in [254usize, 255, 256, 257, 258, 300] {
		for word in NESTING_WORDS {
			for (at, an) in WHERE_ALL {
				for sibling in 0..3u8 {
					adv(&mut v, format!("element-value-nesting/mixed-{}-depth-{depth}-sibling-{sibling}-on-{an}", String::from_utf8_lossy(word)), c, move || mixed_nesting_class(word, depth, sibling, at));
				}
			}
		}
	}
	for d in [254usize, 255, 256, 257, 258, 259] {
		adv(&mut v, format!("enigma/class-nesting-depth-{d}"), P::Enigma, move || enigma_nesting(d));
		adv(&mut v, format!("enigma/class-nesting-with-members-depth-{d}"), P::Enigma, move || enigma_nesting_with_members(d));
	}
	v
}

/// operand bytes following the opcode (None = not an instruction of the class-file format;
/// switches and wide are handled separately)
fn operand_len(op: u8) -> Option<usize> {
	Some(match op {
		0x10 | 0x12 | 0x15..=0x19 | 0x36..=0x3a | 0xa9 | 0xbc => 1,
		0x11 | 0x13 | 0x14 | 0x84 | 0x99..=0xa8 | 0xb2..=0xb8 | 0xbb | 0xbd | 0xc0 | 0xc1 | 0xc6 | 0xc7 => 2,
		0xc5 => 3,
		0xb9 | 0xba | 0xc8 | 0xc9 => 4,
		0xaa | 0xab | 0xc4 => return None,
		0xca..=0xff => return None,
		_ => 0,
	})
}

/// "Last instruction cut short": every opcode as the only (and last) instruction of a method, with
/// every proper prefix of its operand bytes (and, for completeness, the full and over-long forms).
/// Operand bytes are all 0x00 or all 0x01.
pub fn insn_cut_cases() -> Vec<(String, Vec<u8>)> {
	let mut v = Vec::new();
	let mut emit = |name: String, code: Vec<u8>| v.push((name, simple_code(&code)));
	for op in 0..=255u8 {
		match operand_len(op) {
			Some(n) => {
				for k in 0..=n {
					for fill in [0u8, 1] {
						if k == 0 && fill == 1 {
							continue;
						}
						let mut c = vec![op];
						c.extend(vec![fill; k]);
						emit(format!("opcode={op:#04x},operand-bytes-present={k}/{n},fill={fill}"), c);
					}
				}
			},
			None if op == 0xaa || op == 0xab => {
				// padding (3, at pc 0) + default + low/high or npairs
				let full = if op == 0xaa { 3 + 12 + 4 } else { 3 + 8 + 8 };
				for k in 0..=full {
					let mut c = vec![op];
					c.extend(vec![0u8; k]);
					if op == 0xab && k >= 11 {
						c[11] = 1; // npairs = 1 once its last byte is present
					}
					emit(format!("opcode={op:#04x},bytes-after-opcode={k}/{full}"), c);
				}
			},
			None if op == 0xc4 => {
				emit("opcode=0xc4 alone".to_string(), vec![op]);
				for sub in [0x15u8, 0x16, 0x17, 0x18, 0x19, 0x36, 0x37, 0x38, 0x39, 0x3a, 0xa9, 0x84, 0x00, 0xc4, 0xaa] {
					let n = if sub == 0x84 { 4 } else { 2 };
					for k in 0..=n {
						let mut c = vec![op, sub];
						c.extend(vec![0u8; k]);
						emit(format!("opcode=0xc4,wide={sub:#04x},operand-bytes-present={k}/{n}"), c);
					}
				}
			},
			None => emit(format!("opcode={op:#04x} (reserved)"), vec![op]),
		}
	}
	// the cut instruction after a complete one, and at the very end of a 65535-byte method
	for op in [0x11u8, 0xa7, 0xc8, 0xb9, 0xc5, 0xaa, 0xab, 0xc4, 0x12] {
		let mut c = vec![NOP, NOP, op];
		emit(format!("opcode={op:#04x} after two nops, no operand"), c.clone());
		c.push(0);
		emit(format!("opcode={op:#04x} after two nops, one operand byte"), c);
		let mut big = vec![NOP; 65534];
		big.push(op);
		emit(format!("opcode={op:#04x} as the 65535th byte"), big);
	}
	v
}
