//! The sandboxed child ("faultbox"): `c16 --faultbox <quick|thorough> <page file> <jobs file> <scratch file>`.
//!
//! Address space and CPU time are limited with setrlimit; every case runs under `catch_unwind` on a
//! thread with an 8 MiB stack (what `main` gets), with an allocation budget of 64 × input + 64 MiB
//! enforced by the counting global allocator and a 2 s CPU budget enforced by a watchdog thread.
//! The index of the case in flight is published in a shared memory page, so that when the process
//! dies (stack overflow, abort) the parent can attribute the death to that case.

use std::cell::{Cell, RefCell};
use std::io::Cursor;
use std::panic::{catch_unwind, AssertUnwindSafe};
use std::sync::atomic::{AtomicBool, AtomicI32, AtomicU64, Ordering};
use std::sync::Mutex;

use super::spaces::{Env, Space, P};
use super::{LIMIT, LIVE};

pub const IDLE: u64 = u64::MAX;
pub const EXIT_ALLOC: i32 = 77;
pub const EXIT_TIMEOUT: i32 = 78;
pub const EXIT_MACHINERY: i32 = 3;
pub const EXIT_OVERFLOW_PROBED: i32 = 79;
pub const CPU_BUDGET_S: f64 = 2.0;
pub const WALL_BACKSTOP_S: f64 = 120.0;
pub const ALLOC_FACTOR: usize = 64;
pub const ALLOC_SLACK: usize = 64 << 20;
pub const STACK_BYTES: usize = 8 << 20;
pub const RLIMIT_AS_BYTES: u64 = 2 << 30;
pub const RLIMIT_CPU_S: u64 = 1800;

// slots of the shared page
pub const S_JOB: usize = 0;
pub const S_IDX: usize = 1;
pub const S_OK: usize = 2;
pub const S_OKWR: usize = 3;
pub const S_ERR: usize = 4;
pub const S_PANIC: usize = 5;

pub struct Page(*mut u64);
unsafe impl Send for Page {}
unsafe impl Sync for Page {}

impl Page {
	pub fn map(path: &std::path::Path, create: bool) -> Result<Page, String> {
		use std::os::unix::io::AsRawFd;
		let f = std::fs::OpenOptions::new().read(true).write(true).create(create).truncate(false).open(path).map_err(|e| format!("{path:?}: {e}"))?;
		if create {
			f.set_len(4096).map_err(|e| format!("{path:?}: {e}"))?;
		}
		// SAFETY: plain shared mapping of a 4096-byte file that lives as long as the process
		let p = unsafe { libc::mmap(std::ptr::null_mut(), 4096, libc::PROT_READ | libc::PROT_WRITE, libc::MAP_SHARED, f.as_raw_fd(), 0) };
		if p == libc::MAP_FAILED {
			return Err(format!("mmap {path:?} failed"));
		}
		Ok(Page(p as *mut u64))
	}
	pub fn get(&self, slot: usize) -> u64 {
		// SAFETY: slot < 512, the mapping is 4096 bytes
		unsafe { (*(self.0.add(slot) as *const AtomicU64)).load(Ordering::SeqCst) }
	}
	pub fn set(&self, slot: usize, v: u64) {
		// SAFETY: as above
		unsafe { (*(self.0.add(slot) as *const AtomicU64)).store(v, Ordering::SeqCst) }
	}
	fn add(&self, slot: usize) {
		// SAFETY: as above
		unsafe { (*(self.0.add(slot) as *const AtomicU64)).fetch_add(1, Ordering::SeqCst) };
	}
}

static CUR_JOB: AtomicU64 = AtomicU64::new(0);
static CUR_IDX: AtomicU64 = AtomicU64::new(IDLE);
/// odd while a case is in flight
static SEQ: AtomicU64 = AtomicU64::new(0);
static DONE: AtomicBool = AtomicBool::new(false);
static CLOCK_ID: AtomicI32 = AtomicI32::new(-1);
static OUT: Mutex<()> = Mutex::new(());

thread_local! {
	static IS_WORKER: Cell<bool> = const { Cell::new(false) };
	static BYPASS: Cell<bool> = const { Cell::new(false) };
	static LAST_PANIC: RefCell<Option<PanicInfo>> = const { RefCell::new(None) };
}

#[derive(Clone, Debug)]
struct PanicInfo {
	file: String,
	line: u32,
	msg: String,
	/// first frame inside the repository when the panic location itself is not (std, a dependency)
	repo_frame: Option<String>,
}

fn emit(line: &str) {
	let _g = OUT.lock();
	let b = line.as_bytes();
	let mut off = 0;
	while off < b.len() {
		// SAFETY: writing a byte slice to fd 1
		let n = unsafe { libc::write(1, b[off..].as_ptr() as *const libc::c_void, b.len() - off) };
		if n <= 0 {
			break;
		}
		off += n as usize;
	}
}

fn repo_marker() -> String {
	["/", "repo", "/"].concat()
}

fn one_line(s: &str) -> String {
	s.chars().map(|c| if c == '\n' || c == '\r' || c == '\t' { ' ' } else { c }).collect()
}

/// `path:line` of the innermost backtrace frame that lies in the repository under test
fn repo_frame_from_backtrace() -> Option<String> {
	let bt = std::backtrace::Backtrace::force_capture().to_string();
	let marker = repo_marker();
	for l in bt.lines() {
		let t = l.trim_start();
		if let Some(rest) = t.strip_prefix("at ") {
			if rest.contains(&marker) {
				// path:line:col
				let mut parts = rest.rsplitn(3, ':');
				let _col = parts.next();
				let line = parts.next()?;
				let path = parts.next()?;
				return Some(format!("{path}:{line}"));
			}
		}
	}
	None
}

/// Called by the global allocator when the bytes live exceed the budget of the case in flight.
pub fn alloc_excess(request: usize, live: usize) {
	if !IS_WORKER.try_with(|w| w.get()).unwrap_or(false) {
		return;
	}
	// allocations made while reporting (backtrace, formatting) are not the parser's
	if BYPASS.try_with(|b| b.replace(true)).unwrap_or(true) {
		return;
	}
	let limit = LIMIT.swap(usize::MAX, Ordering::SeqCst);
	let site = repo_frame_from_backtrace().unwrap_or_else(|| "?:0".into());
	emit(&format!("V {} {} alloc {} {} {} {}\n", CUR_JOB.load(Ordering::SeqCst), CUR_IDX.load(Ordering::SeqCst), request, live, limit, site));
	// SAFETY: leaving the process without running destructors, on purpose
	unsafe { libc::_exit(EXIT_ALLOC) };
}

/// Probe mode (`C16_PROBE=1`, used by the parent to re-run a case that died of a stack overflow): a
/// SIGSEGV handler on an alternate stack walks the overflowed stack and reports the repository
/// functions of its innermost frames, so that the death can be keyed by call site.
extern "C" fn overflow_probe(_sig: libc::c_int, _info: *mut libc::siginfo_t, _ctx: *mut libc::c_void) {
	LIMIT.store(usize::MAX, Ordering::SeqCst);
	// the overflow may have happened inside malloc: from here on nothing may touch the system allocator
	super::ARENA_ON.store(true, Ordering::SeqCst);
	let _ = BYPASS.try_with(|b| b.set(true));
	let bt = std::backtrace::Backtrace::force_capture().to_string();
	let marker = repo_marker();
	let mut sites: Vec<(String, u32)> = Vec::new();
	let mut frames = 0usize;
	for l in bt.lines() {
		let t = l.trim_start();
		if let Some(rest) = t.strip_prefix("at ") {
			if rest.contains(&marker) {
				let mut parts = rest.rsplitn(3, ':');
				let _col = parts.next();
				if let (Some(line), Some(path)) = (parts.next(), parts.next()) {
					let site = format!("{path}:{line}");
					match sites.iter_mut().find(|(s, _)| *s == site) {
						Some(e) => e.1 += 1,
						None => sites.push((site, 1)),
					}
				}
			}
		} else {
			frames += 1;
			if frames > 400 {
				break;
			}
		}
	}
	let list: Vec<String> = sites.iter().map(|(s, n)| format!("{s}*{n}")).collect();
	emit(&format!("V {} {} overflow {}\n", CUR_JOB.load(Ordering::SeqCst), CUR_IDX.load(Ordering::SeqCst), list.join(" ")));
	// SAFETY: leaving the process without running destructors, on purpose
	unsafe { libc::_exit(EXIT_OVERFLOW_PROBED) };
}

/// installs the probe on the calling thread (its own alternate signal stack)
fn install_overflow_probe() {
	const ALT: usize = 4 << 20;
	// SAFETY: plain libc calls; the alternate stack is leaked on purpose
	unsafe {
		let stack = libc::mmap(std::ptr::null_mut(), ALT, libc::PROT_READ | libc::PROT_WRITE, libc::MAP_PRIVATE | libc::MAP_ANONYMOUS, -1, 0);
		if stack == libc::MAP_FAILED {
			machinery("probe: cannot map the alternate stack");
		}
		let arena = libc::mmap(std::ptr::null_mut(), super::ARENA_SIZE, libc::PROT_READ | libc::PROT_WRITE, libc::MAP_PRIVATE | libc::MAP_ANONYMOUS | libc::MAP_NORESERVE, -1, 0);
		if arena == libc::MAP_FAILED {
			machinery("probe: cannot map the allocation arena");
		}
		super::ARENA_BASE.store(arena as usize, Ordering::SeqCst);
		let ss = libc::stack_t { ss_sp: stack, ss_flags: 0, ss_size: ALT };
		libc::sigaltstack(&ss, std::ptr::null_mut());
		let mut sa: libc::sigaction = std::mem::zeroed();
		sa.sa_sigaction = overflow_probe as *const () as usize;
		sa.sa_flags = libc::SA_SIGINFO | libc::SA_ONSTACK;
		libc::sigemptyset(&mut sa.sa_mask);
		libc::sigaction(libc::SIGSEGV, &sa, std::ptr::null_mut());
		libc::sigaction(libc::SIGBUS, &sa, std::ptr::null_mut());
	}
}

fn install_hook() {
	std::panic::set_hook(Box::new(|info| {
		let was = BYPASS.try_with(|b| b.replace(true)).unwrap_or(true);
		let (file, line) = info.location().map(|l| (l.file().to_owned(), l.line())).unwrap_or(("?".into(), 0));
		let msg = if let Some(s) = info.payload().downcast_ref::<&str>() {
			(*s).to_owned()
		} else if let Some(s) = info.payload().downcast_ref::<String>() {
			s.clone()
		} else {
			"<non-string payload>".to_owned()
		};
		let repo_frame = if file.contains(&repo_marker()) { None } else { repo_frame_from_backtrace() };
		let _ = LAST_PANIC.try_with(|p| *p.borrow_mut() = Some(PanicInfo { file, line, msg, repo_frame }));
		let _ = BYPASS.try_with(|b| b.set(was));
	}));
}

enum Outcome {
	Ok,
	/// read_class accepted, write_class refused with an error (allowed)
	OkWriteRefused(String),
	Err(String),
	Panic(PanicInfo),
}

/// the input as a JavaString: as it is when it is "semi" UTF-8 (UTF-8 plus surrogates encoded on their own, which a
/// JavaString can hold and a class file can contain), otherwise with the offending bytes replaced
fn js_of(input: &[u8]) -> java_string::JavaString {
	match java_string::JavaString::from_semi_utf8(input.to_vec()) {
		Ok(s) => s,
		Err(_) => java_string::JavaString::from(String::from_utf8_lossy(input).into_owned()),
	}
}

/// The scripted reader of the environment alphabet: serves `data` in pieces of at most `chunk` bytes, optionally refusing
/// every request once with `Interrupted`, optionally failing with an I/O error once byte offset `fail_at` is reached.
/// Seeking is that of a cursor (a position behind the end is allowed and reads nothing).
struct EnvReader<'a> {
	data: &'a [u8],
	pos: u64,
	chunk: usize,
	interrupt: bool,
	refused: bool,
	fail_at: Option<usize>,
}

impl<'a> EnvReader<'a> {
	fn new(data: &'a [u8], env: Env) -> EnvReader<'a> {
		let mut r = EnvReader { data, pos: 0, chunk: usize::MAX, interrupt: false, refused: false, fail_at: None };
		match env {
			Env::Chunk(k) => r.chunk = (k as usize).max(1),
			Env::Interrupted(k) => {
				r.chunk = (k as usize).max(1);
				r.interrupt = true;
			},
			Env::FailAt(n) => r.fail_at = Some(n as usize),
			_ => {},
		}
		r
	}
}

pub const READER_FAILURE: &str = "scripted reader failure";
pub const WRITER_FAILURE: &str = "scripted writer failure";

impl std::io::Read for EnvReader<'_> {
	fn read(&mut self, buf: &mut [u8]) -> std::io::Result<usize> {
		if buf.is_empty() {
			return Ok(0);
		}
		if self.interrupt && !self.refused {
			self.refused = true;
			return Err(std::io::ErrorKind::Interrupted.into());
		}
		self.refused = false;
		let pos = (self.pos.min(self.data.len() as u64)) as usize;
		let mut n = buf.len().min(self.data.len() - pos).min(self.chunk);
		if let Some(f) = self.fail_at {
			if pos >= f {
				return Err(std::io::Error::new(std::io::ErrorKind::Other, READER_FAILURE));
			}
			n = n.min(f - pos);
		}
		buf[..n].copy_from_slice(&self.data[pos..pos + n]);
		self.pos = (pos + n) as u64;
		Ok(n)
	}
}

impl std::io::Seek for EnvReader<'_> {
	fn seek(&mut self, to: std::io::SeekFrom) -> std::io::Result<u64> {
		let target = match to {
			std::io::SeekFrom::Start(p) => p as i128,
			std::io::SeekFrom::Current(d) => self.pos as i128 + d as i128,
			std::io::SeekFrom::End(d) => self.data.len() as i128 + d as i128,
		};
		if target < 0 || target > u64::MAX as i128 {
			return Err(std::io::Error::new(std::io::ErrorKind::InvalidInput, "invalid seek to a negative or overflowing position"));
		}
		self.pos = target as u64;
		self.refused = false;
		Ok(self.pos)
	}
}

/// the scripted writer: accepts at most `chunk` bytes per call and `fail_at` bytes in total, then fails with an I/O error
struct EnvWriter {
	written: usize,
	chunk: usize,
	fail_at: Option<usize>,
}

impl std::io::Write for EnvWriter {
	fn write(&mut self, buf: &[u8]) -> std::io::Result<usize> {
		if buf.is_empty() {
			return Ok(0);
		}
		let mut n = buf.len().min(self.chunk);
		if let Some(f) = self.fail_at {
			if self.written >= f {
				return Err(std::io::Error::new(std::io::ErrorKind::Other, WRITER_FAILURE));
			}
			n = n.min(f - self.written);
		}
		self.written += n;
		Ok(n)
	}
	fn flush(&mut self) -> std::io::Result<()> {
		Ok(())
	}
}

/// Runs the REAL parser `p` on `input`, served as `env` says. Everything built from the input (tree, error) is dropped in here.
fn run_real(p: P, env: Env, input: &Vec<u8>, scratch: &std::path::Path) -> Result<Option<String>, String> {
	let e2s = |e: anyhow::Error| format!("{e:#}");
	if env != Env::Plain {
		return match p {
			P::Class => {
				let class = match env {
					Env::WriterFailAt(_) | Env::WriterChunk(_) => duke::read_class(&mut Cursor::new(input.as_slice())),
					_ => duke::read_class(&mut EnvReader::new(input, env)),
				}.map_err(e2s)?;
				let written = match env {
					Env::WriterFailAt(n) => duke::write_class(&mut EnvWriter { written: 0, chunk: usize::MAX, fail_at: Some(n as usize) }, &class),
					Env::WriterChunk(k) => duke::write_class(&mut EnvWriter { written: 0, chunk: (k as usize).max(1), fail_at: None }, &class),
					_ => duke::write_class(&mut Vec::new(), &class),
				};
				match written {
					Ok(()) => Ok(None),
					Err(e) => Ok(Some(format!("{e:#}"))),
				}
			},
			P::Tiny2 => quill::tiny_v2::read::<2, ()>(EnvReader::new(input, env)).map(|_| None).map_err(e2s),
			P::Tiny3 => quill::tiny_v2::read::<3, ()>(EnvReader::new(input, env)).map(|_| None).map_err(e2s),
			P::Enigma => {
				let mut m = quill::tree::mappings::Mappings::<2, ()>::from_namespaces(["a", "b"]).map_err(|e| format!("MACHINERY from_namespaces: {e:#}"))?;
				quill::enigma_file::read_into(EnvReader::new(input, env), &mut m).map(|_| None).map_err(e2s)
			},
			_ => Err(format!("MACHINERY no scripted environment for {}", p.name())),
		};
	}
	match p {
		P::Class => {
			let class = duke::read_class(&mut Cursor::new(input.as_slice())).map_err(e2s)?;
			let mut out = Vec::new();
			match duke::write_class(&mut out, &class) {
				Ok(()) => Ok(None),
				Err(e) => Ok(Some(format!("{e:#}"))),
			}
		},
		P::Tiny2 => quill::tiny_v2::read::<2, ()>(input.as_slice()).map(|_| None).map_err(e2s),
		P::Tiny3 => quill::tiny_v2::read::<3, ()>(input.as_slice()).map(|_| None).map_err(e2s),
		P::TinyDiff => {
			std::fs::write(scratch, input).map_err(|e| format!("MACHINERY scratch file: {e}"))?;
			quill::tiny_v2_diff::read_file(scratch).map(|_| None).map_err(e2s)
		},
		P::Enigma => {
			let mut m = quill::tree::mappings::Mappings::<2, ()>::from_namespaces(["a", "b"]).map_err(|e| format!("MACHINERY from_namespaces: {e:#}"))?;
			quill::enigma_file::read_into(input.as_slice(), &mut m).map_err(e2s)?;
			// the function appends to mappings that are already there: the same file once more, into what it has just
			// produced (every entry is a duplicate now); whatever the answer, it must be an answer
			let _ = quill::enigma_file::read_into(input.as_slice(), &mut m);
			Ok(None)
		},
		P::Nests => dukenest::nest::Nests::<()>::read(input).map(|_| None).map_err(e2s),
		P::DescField => {
			let js = js_of(input);
			let d = <&duke::tree::field::FieldDescriptorSlice>::try_from(js.as_java_str()).map_err(e2s)?;
			let parsed = d.parse().map_err(e2s)?;
			let _written = parsed.write();
			Ok(None)
		},
		P::DescMethod => {
			let js = js_of(input);
			let d = <&duke::tree::method::MethodDescriptorSlice>::try_from(js.as_java_str()).map_err(e2s)?;
			let parsed = d.parse().map_err(e2s)?;
			let _written = parsed.write();
			Ok(None)
		},
		P::DescReturn => {
			let js = js_of(input);
			let d = <&duke::tree::descriptor::ReturnDescriptorSlice>::try_from(js.as_java_str()).map_err(e2s)?;
			let parsed = d.parse().map_err(e2s)?;
			let _written = parsed.write();
			Ok(None)
		},
	}
}

fn run_case(p: P, env: Env, input: &Vec<u8>, scratch: &std::path::Path) -> Outcome {
	let r = catch_unwind(AssertUnwindSafe(|| run_real(p, env, input, scratch)));
	match r {
		Ok(Ok(None)) => Outcome::Ok,
		Ok(Ok(Some(w))) => Outcome::OkWriteRefused(w),
		Ok(Err(e)) => Outcome::Err(e),
		Err(_) => Outcome::Panic(LAST_PANIC.with(|p| p.borrow_mut().take()).unwrap_or(PanicInfo { file: "?".into(), line: 0, msg: "?".into(), repo_frame: None })),
	}
}

/// Error-message class: quoted data erased, then every token that is not a plain lower-case word
/// (or a back-quoted identifier) replaced by `_`; first 200 characters.
pub fn err_class(msg: &str) -> String {
	let mut flat = String::with_capacity(msg.len().min(600));
	let mut in_quote = false;
	let mut prev_bs = false;
	for c in msg.chars() {
		if flat.len() >= 600 {
			break;
		}
		if in_quote {
			if c == '"' && !prev_bs {
				in_quote = false;
			}
			prev_bs = c == '\\' && !prev_bs;
			continue;
		}
		if c == '"' {
			in_quote = true;
			prev_bs = false;
			flat.push_str(" \"\" ");
		} else {
			flat.push(if c.is_whitespace() { ' ' } else { c });
		}
	}
	let mut out = String::with_capacity(200);
	let mut prev_blank = false;
	for tok in flat.split(' ').filter(|t| !t.is_empty()) {
		if out.len() >= 200 {
			break;
		}
		let core = tok.trim_start_matches('(').trim_end_matches(|c: char| matches!(c, ',' | '.' | ':' | ';' | ')'));
		let word = !core.is_empty() && core.chars().all(|c| c.is_ascii_lowercase() || c == '\'' || c == '-');
		let ticked = core.len() > 2 && core.starts_with('`') && core.ends_with('`') && core[1..core.len() - 1].chars().all(|c| c.is_ascii_alphanumeric() || c == '_');
		if word || ticked || tok == "\"\"" {
			if !out.is_empty() {
				out.push(' ');
			}
			out.push_str(if tok == "\"\"" { tok } else { core });
			prev_blank = false;
		} else if !prev_blank {
			if !out.is_empty() {
				out.push(' ');
			}
			out.push('_');
			prev_blank = true;
		}
	}
	out
}

struct JobSpec {
	spec: String,
	from: u64,
	to: u64,
}

fn machinery(msg: &str) -> ! {
	emit(&format!("M {}\n", one_line(msg)));
	// SAFETY: see above
	unsafe { libc::_exit(EXIT_MACHINERY) };
}

fn worker(thorough: bool, page: &Page, jobs: &[JobSpec], scratch: &std::path::Path) {
	IS_WORKER.with(|w| w.set(true));
	if std::env::var_os("C16_PROBE").is_some() {
		install_overflow_probe();
	}
	let mut cid: libc::clockid_t = 0;
	// SAFETY: plain libc call on the current thread
	if unsafe { libc::pthread_getcpuclockid(libc::pthread_self(), &mut cid) } == 0 {
		CLOCK_ID.store(cid, Ordering::SeqCst);
	}
	let mut seen: std::collections::HashSet<u64> = std::collections::HashSet::new();
	let trace = std::env::var_os("C16_TRACE").is_some();
	for (j, job) in jobs.iter().enumerate() {
		let space = Space::open(&job.spec, thorough).unwrap_or_else(|e| machinery(&format!("cannot open space {}: {e}", job.spec)));
		if job.to > space.len() {
			machinery(&format!("job range {}..{} outside space {} of {}", job.from, job.to, job.spec, space.len()));
		}
		page.set(S_IDX, IDLE);
		page.set(S_JOB, j as u64);
		for s in [S_OK, S_OKWR, S_ERR, S_PANIC] {
			page.set(s, 0);
		}
		CUR_JOB.store(j as u64, Ordering::SeqCst);
		for i in job.from..job.to {
			let p = space.parser(i);
			let env = space.env(i);
			let input = space.input(i);
			CUR_IDX.store(i, Ordering::SeqCst);
			page.set(S_IDX, i);
			SEQ.fetch_add(1, Ordering::SeqCst);
			let cpu0 = if trace { thread_cpu_s(CLOCK_ID.load(Ordering::SeqCst)) } else { 0.0 };
			LIMIT.store(LIVE.load(Ordering::SeqCst).saturating_add(input.len().saturating_mul(ALLOC_FACTOR)).saturating_add(ALLOC_SLACK), Ordering::SeqCst);
			let out = run_case(p, env, &input, scratch);
			LIMIT.store(usize::MAX, Ordering::SeqCst);
			SEQ.fetch_add(1, Ordering::SeqCst);
			page.set(S_IDX, IDLE);
			CUR_IDX.store(IDLE, Ordering::SeqCst);
			let verdict = match out {
				Outcome::Ok => {
					page.add(S_OK);
					"ok".to_owned()
				},
				Outcome::OkWriteRefused(w) => {
					page.add(S_OKWR);
					let c = format!("write_class: {}", err_class(&w));
					if seen.insert(vcore::hash64(&(p.id(), &c))) {
						emit(&format!("E {} {}\n", p.id(), c));
					}
					"ok (write_class refused)".to_owned()
				},
				Outcome::Err(e) => {
					if e.starts_with("MACHINERY") {
						machinery(&e);
					}
					page.add(S_ERR);
					let c = err_class(&e);
					if seen.insert(vcore::hash64(&(p.id(), &c))) {
						emit(&format!("E {} {}\n", p.id(), c));
					}
					"err".to_owned()
				},
				Outcome::Panic(pi) => {
					page.add(S_PANIC);
					emit(&format!("V {} {} panic {}\t{}\t{}\t{}\n", j, i, pi.file, pi.line, pi.repo_frame.as_deref().unwrap_or("-"), one_line(&pi.msg.chars().take(300).collect::<String>())));
					"panic".to_owned()
				},
			};
			if trace {
				emit(&format!("S {j} {i} {verdict} cpu={:.3}s len={}\n", thread_cpu_s(CLOCK_ID.load(Ordering::SeqCst)) - cpu0, input.len()));
			} else if i == job.from {
				emit(&format!("S {j} {i} {verdict}\n"));
			}
		}
		emit(&format!("D {} {} {} {} {} {} {}\n", j, job.from, job.to, page.get(S_OK), page.get(S_OKWR), page.get(S_ERR), page.get(S_PANIC)));
	}
}

fn thread_cpu_s(cid: libc::clockid_t) -> f64 {
	let mut ts = libc::timespec { tv_sec: 0, tv_nsec: 0 };
	// SAFETY: plain libc call
	if unsafe { libc::clock_gettime(cid, &mut ts) } != 0 {
		return 0.0;
	}
	ts.tv_sec as f64 + ts.tv_nsec as f64 / 1e9
}

fn set_rlimit(res: libc::__rlimit_resource_t, v: u64) {
	let r = libc::rlimit { rlim_cur: v, rlim_max: v };
	// SAFETY: plain libc call
	unsafe { libc::setrlimit(res, &r) };
}

pub fn main(args: &[String]) -> ! {
	if args.len() != 4 {
		eprintln!("usage: --faultbox <quick|thorough> <page> <jobs> <scratch>");
		std::process::exit(EXIT_MACHINERY);
	}
	std::env::set_var("RUST_BACKTRACE", "0");
	std::env::set_var("RUST_LIB_BACKTRACE", "0");
	set_rlimit(libc::RLIMIT_CORE, 0);
	let probe = std::env::var_os("C16_PROBE").is_some();
	set_rlimit(libc::RLIMIT_AS, if probe { 8 * RLIMIT_AS_BYTES } else { RLIMIT_AS_BYTES });
	// never outlive the parent
	// SAFETY: plain libc call
	unsafe { libc::prctl(libc::PR_SET_PDEATHSIG, libc::SIGKILL) };
	set_rlimit(libc::RLIMIT_CPU, RLIMIT_CPU_S);
	let thorough = args[0] == "thorough";
	let page = Page::map(std::path::Path::new(&args[1]), false).unwrap_or_else(|e| machinery(&e));
	let jobs_text = std::fs::read_to_string(&args[2]).unwrap_or_else(|e| machinery(&format!("jobs file: {e}")));
	let jobs: Vec<JobSpec> = jobs_text.lines().filter(|l| !l.is_empty()).map(|l| {
		let mut it = l.split('\t');
		let spec = it.next().unwrap_or("").to_owned();
		let from = it.next().and_then(|x| x.parse().ok()).unwrap_or_else(|| machinery("bad job line"));
		let to = it.next().and_then(|x| x.parse().ok()).unwrap_or_else(|| machinery("bad job line"));
		JobSpec { spec, from, to }
	}).collect();
	let scratch = std::path::PathBuf::from(&args[3]);
	install_hook();
	page.set(S_IDX, IDLE);
	let page: &'static Page = Box::leak(Box::new(page));
	let jobs: &'static [JobSpec] = Box::leak(jobs.into_boxed_slice());
	let handle = std::thread::Builder::new().name("case".into()).stack_size(STACK_BYTES).spawn(move || {
		worker(thorough, page, jobs, &scratch);
		DONE.store(true, Ordering::SeqCst);
	}).unwrap_or_else(|e| machinery(&format!("cannot spawn the case thread: {e}")));
	// watchdog
	let mut last_seq = 0u64;
	let mut cpu_at = 0.0f64;
	let mut wall_at = std::time::Instant::now();
	let started = std::time::Instant::now();
	loop {
		std::thread::sleep(std::time::Duration::from_millis(20));
		if DONE.load(Ordering::SeqCst) || handle.is_finished() {
			break;
		}
		let seq = SEQ.load(Ordering::SeqCst);
		let cid = CLOCK_ID.load(Ordering::SeqCst);
		if probe {
			// no verdicts in probe mode; only make sure the process ends
			if started.elapsed().as_secs_f64() > 60.0 {
				// SAFETY: see above
				unsafe { libc::_exit(EXIT_MACHINERY) };
			}
			continue;
		}
		if cid < 0 {
			continue;
		}
		let cpu = thread_cpu_s(cid);
		if seq != last_seq {
			last_seq = seq;
			cpu_at = cpu;
			wall_at = std::time::Instant::now();
			continue;
		}
		if seq % 2 == 1 && (cpu - cpu_at > CPU_BUDGET_S || wall_at.elapsed().as_secs_f64() > WALL_BACKSTOP_S) {
			let (j, i) = (CUR_JOB.load(Ordering::SeqCst), CUR_IDX.load(Ordering::SeqCst));
			if SEQ.load(Ordering::SeqCst) == seq && i != IDLE {
				emit(&format!("V {j} {i} timeout {:.2} {:.2}\n", cpu - cpu_at, wall_at.elapsed().as_secs_f64()));
				// SAFETY: see above
				unsafe { libc::_exit(EXIT_TIMEOUT) };
			}
		}
	}
	match handle.join() {
		Ok(()) if DONE.load(Ordering::SeqCst) => std::process::exit(0),
		_ => machinery("the case thread ended outside a case"),
	}
}
