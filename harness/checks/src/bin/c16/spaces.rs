//! The enumerated input spaces of C16. A space is addressed by a spec string and built identically in
//! the parent and in every sandboxed child; a case is (space, index) → (parser, input bytes).
//! Nothing here is random and nothing here calls the code under test.

use cfmodel::parse::{FieldMapEntry, Role};
use std::path::Path;

use super::adversaries;
use super::texts;

#[derive(Clone, Copy, Debug, PartialEq, Eq, Hash, PartialOrd, Ord)]
pub enum P {
	Class,
	Tiny2,
	Tiny3,
	TinyDiff,
	Enigma,
	Nests,
	DescField,
	DescMethod,
	DescReturn,
}

pub const PARSERS: [P; 9] = [P::Class, P::Tiny2, P::Tiny3, P::TinyDiff, P::Enigma, P::Nests, P::DescField, P::DescMethod, P::DescReturn];

impl P {
	pub fn name(self) -> &'static str {
		match self {
			P::Class => "read_class",
			P::Tiny2 => "tiny_v2::read<2>",
			P::Tiny3 => "tiny_v2::read<3>",
			P::TinyDiff => "tiny_v2_diff::read_file",
			P::Enigma => "enigma_file::read_into",
			P::Nests => "Nests::read",
			P::DescField => "FieldDescriptor::parse",
			P::DescMethod => "MethodDescriptor::parse",
			P::DescReturn => "ReturnDescriptor::parse",
		}
	}
	pub fn from_name(s: &str) -> Option<P> {
		PARSERS.iter().copied().find(|p| p.name() == s)
	}
	pub fn id(self) -> usize {
		PARSERS.iter().position(|p| *p == self).unwrap_or(0)
	}
}

/// How the input reaches the parser and where its output goes (fault set (i)): the behaviours `std::io::Read` /
/// `Write` allow besides "everything at once".
#[derive(Clone, Copy, Debug, PartialEq, Eq)]
pub enum Env {
	/// a cursor over the whole input, an unbounded vector for the output
	Plain,
	/// `read` serves at most this many bytes per call
	Chunk(u32),
	/// every `read` is first refused with `ErrorKind::Interrupted`, then serves at most this many bytes
	Interrupted(u32),
	/// `read` serves the input up to this byte offset and fails with an I/O error from there on
	FailAt(u32),
	/// (class) the class is read from a cursor; `write` accepts this many bytes in total and then fails with an I/O error
	WriterFailAt(u32),
	/// (class) `write` accepts at most this many bytes per call
	WriterChunk(u32),
}

impl Env {
	pub fn encode(self) -> (u8, u32) {
		match self {
			Env::Plain => (0, 0),
			Env::Chunk(k) => (1, k),
			Env::Interrupted(k) => (2, k),
			Env::FailAt(n) => (3, n),
			Env::WriterFailAt(n) => (4, n),
			Env::WriterChunk(k) => (5, k),
		}
	}
	pub fn decode(kind: u8, v: u32) -> Option<Env> {
		Some(match kind {
			0 => Env::Plain,
			1 => Env::Chunk(v),
			2 => Env::Interrupted(v),
			3 => Env::FailAt(v),
			4 => Env::WriterFailAt(v),
			5 => Env::WriterChunk(v),
			_ => return None,
		})
	}
	pub fn text(self) -> String {
		let (k, v) = self.encode();
		format!("{k}:{v}")
	}
	pub fn from_text(s: &str) -> Option<Env> {
		let (k, v) = s.split_once(':')?;
		Env::decode(k.parse().ok()?, v.parse().ok()?)
	}
}

pub const FIELD_VALUES: [u64; 11] = [0, 1, 0x7f, 0x80, 0xff, 0x7fff, 0x8000, 0xffff, 0x7fff_ffff, 0x8000_0000, 0xffff_ffff];

fn read_be(b: &[u8], e: &FieldMapEntry) -> u64 {
	let mut v = 0u64;
	for i in 0..e.width as usize {
		v = (v << 8) | b[e.offset + i] as u64;
	}
	v
}

fn write_be(b: &mut [u8], e: &FieldMapEntry, v: u64) {
	for i in 0..e.width as usize {
		b[e.offset + i] = (v >> (8 * (e.width as usize - 1 - i))) as u8;
	}
}

/// the width-appropriate boundary values for one field: {0,1,actual−1,actual+1,0x7f,…} minus the actual value
pub fn values_for(actual: u64, width: u8) -> Vec<u64> {
	let max = if width >= 8 { u64::MAX } else { (1u64 << (8 * width as u32)) - 1 };
	let mut v: Vec<u64> = vec![0, 1, actual.wrapping_sub(1) & max, actual.wrapping_add(1) & max];
	v.extend(FIELD_VALUES.iter().copied().filter(|x| *x <= max));
	let mut out = Vec::new();
	for x in v {
		if x != actual && !out.contains(&x) {
			out.push(x);
		}
	}
	out
}

/// reduced value set used for pairs of faults
fn pair_values(actual: u64, width: u8) -> Vec<u64> {
	let max = (1u64 << (8 * width as u32)) - 1;
	let mut out = Vec::new();
	for x in [0, actual.wrapping_add(1) & max, max, (max >> 1) + 1] {
		if x != actual && !out.contains(&x) {
			out.push(x);
		}
	}
	out
}

pub const PAIR_CAP_FIRST: usize = 16;
pub const PAIR_CAP_LAST: usize = 8;

fn structural(e: &FieldMapEntry) -> bool {
	match e.role {
		Role::PoolCount | Role::PoolTag | Role::PoolIndex | Role::Utf8Length | Role::Count | Role::AttrLength | Role::CodeLength | Role::BranchOffset | Role::SwitchBound | Role::Pc | Role::FrameType | Role::VTypeTag | Role::ElementTag | Role::TargetType | Role::RefKind | Role::LocalIndex => true,
		Role::Other => e.width == 2,
		_ => false,
	}
}

/// Groups the field map into structures: the file header, every constant-pool entry, every member
/// header / the class body header, every attribute (innermost), every instruction.
fn structures(bytes: &[u8], parsed: &cfmodel::Parsed) -> Vec<Vec<usize>> {
	let map = &parsed.map;
	// code ranges
	let mut code_ranges: Vec<(usize, usize)> = Vec::new();
	for e in map {
		if e.role == Role::CodeLength {
			let n = read_be(bytes, e) as usize;
			code_ranges.push((e.offset + 4, e.offset + 4 + n));
		}
	}
	let mut ids: Vec<(u8, usize)> = Vec::with_capacity(map.len());
	let mut run = 0usize;
	let mut insn_start = 0usize;
	let mut prev_opcode_at: Option<usize> = None;
	for e in map {
		let in_code = code_ranges.iter().any(|(a, b)| e.offset >= *a && e.offset < *b);
		if in_code {
			if e.role == Role::Opcode {
				if prev_opcode_at != Some(e.offset.wrapping_sub(1)) {
					insn_start = e.offset;
				}
				prev_opcode_at = Some(e.offset);
			} else {
				prev_opcode_at = None;
			}
			ids.push((2, insn_start));
			continue;
		}
		prev_opcode_at = None;
		let span = parsed.attribute_spans.iter().filter(|s| e.offset >= s.start && e.offset < s.start + s.len).min_by_key(|s| s.len);
		match span {
			Some(s) => ids.push((1, s.start)),
			None => {
				if matches!(e.role, Role::PoolTag | Role::AccessFlags) {
					run += 1;
				}
				ids.push((0, run));
			},
		}
	}
	let mut order: Vec<(u8, usize)> = Vec::new();
	let mut groups: std::collections::BTreeMap<(u8, usize), Vec<usize>> = std::collections::BTreeMap::new();
	for (i, id) in ids.iter().enumerate() {
		if !groups.contains_key(id) {
			order.push(*id);
		}
		groups.entry(*id).or_default().push(i);
	}
	order.into_iter().map(|id| groups.remove(&id).unwrap_or_default()).collect()
}

pub struct ClassSeed {
	pub bytes: Vec<u8>,
	pub parsed: cfmodel::Parsed,
}

/// seed names: `ks<variant>e<encoding>`, `mod<0|1><k>`, `corpus:<relative path>`
pub fn class_seed(name: &str) -> Result<ClassSeed, String> {
	let bytes = if let Some(rest) = name.strip_prefix("ks") {
		let (v, e) = rest.split_once('e').ok_or("bad seed")?;
		let v: usize = v.parse().map_err(|_| "bad seed")?;
		let e: usize = e.parse().map_err(|_| "bad seed")?;
		let enc = cfmodel::gen::basic_encodings().get(e).cloned().ok_or("bad encoding")?;
		let model = cfmodel::gen::kitchen_sink(v);
		let bytes = cfmodel::asm::assemble(&model, &enc).map_err(|e| format!("assembler: {e:?}"))?;
		let back = cfmodel::parse(&bytes).map_err(|e| format!("reference parser rejects the seed: {e}"))?;
		if back.class != model {
			return Err("assembler and reference parser disagree on the seed".into());
		}
		bytes
	} else if let Some(rest) = name.strip_prefix("mod") {
		let open = rest.as_bytes().first() == Some(&b'1');
		let k: usize = rest.get(1..).and_then(|s| s.parse().ok()).ok_or("bad seed")?;
		let model = cfmodel::gen::module_class(open, k);
		let bytes = cfmodel::asm::assemble(&model, &Default::default()).map_err(|e| format!("assembler: {e:?}"))?;
		let back = cfmodel::parse(&bytes).map_err(|e| format!("reference parser rejects the seed: {e}"))?;
		if back.class != model {
			return Err("assembler and reference parser disagree on the seed".into());
		}
		bytes
	} else if name == "cldc" || name.starts_with("utf") {
		let (model, enc) = if name == "cldc" { cldc_seed() } else { (utf_seed(name[3..].parse().map_err(|_| "bad seed")?)?, Default::default()) };
		let bytes = cfmodel::asm::assemble(&model, &enc).map_err(|e| format!("assembler: {e:?}"))?;
		let back = cfmodel::parse(&bytes).map_err(|e| format!("reference parser rejects the seed: {e}"))?;
		if back.class != model {
			return Err("assembler and reference parser disagree on the seed".into());
		}
		bytes
	} else if let Some(rel) = name.strip_prefix("corpus:") {
		std::fs::read(vcore::verif_root().join("corpus").join("classes").join(rel)).map_err(|e| format!("corpus class {rel}: {e}"))?
	} else {
		return Err(format!("unknown seed {name}"));
	};
	let parsed = cfmodel::parse(&bytes).map_err(|e| format!("reference parser rejects seed {name}: {e}"))?;
	Ok(ClassSeed { bytes, parsed })
}

/// A class of the old CLDC flavour: three full frames in a `StackMap` attribute (explicit offsets), the frame offsets being
/// the targets of three jumps that name them out of order, an `Uninitialized` verification type among the locals.
fn cldc_seed() -> (cfmodel::model::SClass, cfmodel::asm::Encoding) {
	use cfmodel::gen::{class_with_method, js, normalize, RETURN};
	use cfmodel::model::{op, Idx, SFrame, SInsn, SVType};
	let frame_at = |k: usize| SFrame::Full {
		locals: vec![SVType::Integer, SVType::Object(js("p/T")), SVType::Uninitialized(5), SVType::Long, SVType::Null][..2 + k].to_vec(),
		stack: vec![SVType::Object(js("[Lp/T;")), SVType::Double, SVType::UninitializedThis, SVType::Float, SVType::Top][..k + 1].to_vec(),
	};
	let targets: [Idx; 3] = [4, 6, 8];
	let mut insns: Vec<SInsn> = [2usize, 0, 1].iter().map(|t| SInsn::Branch(op::IFEQ, targets[*t])).collect();
	insns.extend([SInsn::Simple(op::NOP), SInsn::Simple(op::NOP), SInsn::New(js("p/T")), SInsn::Simple(op::NOP), SInsn::Simple(op::NOP), RETURN]);
	let mut c = class_with_method("p/Cldc", insns);
	c.version = (48, 0);
	if let Some(code) = &mut c.methods[0].code {
		code.frames = targets.iter().enumerate().map(|(k, t)| (*t, frame_at(k))).collect();
	}
	normalize(&mut c);
	(c, cfmodel::asm::Encoding { frames_cldc: true, ..Default::default() })
}

/// A class with the `k`-th modified-UTF-8 boundary string (NUL, 2- and 3-byte characters, a surrogate pair, lone
/// surrogates) in every role a Utf8 constant can have that takes free text, and non-ASCII member names.
fn utf_seed(k: usize) -> Result<cfmodel::model::SClass, String> {
	use cfmodel::gen::{js, method_with, normalize, skeleton, RETURN};
	use cfmodel::model::{SAnnotation, SConst, SElementValue, SField, SInnerClass, SInsn, SLocalVar, SUnknown};
	let s = cfmodel::gen::utf8_samples().into_iter().nth(k).ok_or("no such utf8 sample")?;
	let mut c = skeleton("p/\u{c9}tf\u{20ac}");
	c.source_file = Some(s.clone());
	c.source_debug_extension = Some(s.clone());
	c.signature = Some(s.clone());
	c.unknown.push(SUnknown { name: js("x.\u{c9}mpty"), bytes: vec![1, 2, 3] });
	c.annotations.visible = vec![SAnnotation { type_name: js("Lp/\u{c9};"), pairs: vec![(s.clone(), SElementValue::Str(s.clone())), (js("e"), SElementValue::Enum { type_name: js("Lp/\u{20ac};"), const_name: s.clone() })] }];
	c.inner_classes = Some(vec![SInnerClass { inner: js("p/\u{c9}tf\u{20ac}$\u{ef}"), outer: Some(js("p/\u{c9}tf\u{20ac}")), name: Some(s.clone()), flags: 0 }]);
	c.fields.push(SField { access: 0x0019, name: js("f\u{e9}"), desc: js("Ljava/lang/String;"), constant_value: Some(SConst::Str(s.clone())), ..Default::default() });
	c.fields.push(SField { access: 0, name: js("\u{20ac}"), desc: js("[Lp/\u{c9};"), ..Default::default() });
	c.methods.push(method_with("m\u{e9}", "(Lp/\u{c9};[Lp/\u{20ac};)V", vec![SInsn::Ldc(SConst::Str(s.clone())), SInsn::Ldc(SConst::Class(js("p/\u{c9}"))), RETURN]));
	if let Some(code) = &mut c.methods[0].code {
		code.local_var_types.push(SLocalVar { start: 0, end: 1, name: js("v\u{e9}"), ty: s.clone(), index: 0 });
		code.local_vars.push(SLocalVar { start: 0, end: 2, name: js("\u{20ac}"), ty: js("Lp/\u{c9};"), index: 1 });
	}
	c.methods[0].parameters = Some(vec![(Some(js("p\u{e9}")), 0), (None, 0x10)]);
	normalize(&mut c);
	Ok(c)
}

enum Kind {
	/// (entry index, value)
	Fields { seed: ClassSeed, faults: Vec<(u32, u64)> },
	Trunc { seed: Vec<u8> },
	TextTrunc { p: P, seed: Vec<u8> },
	Pairs { seed: ClassSeed, pairs: Vec<(u32, u64, u32, u64)>, capped_structures: usize, structures: usize },
	/// (the adversaries, cost of one case for batching)
	Adversaries(Vec<adversaries::Adversary>, u64),
	InsnCut(Vec<(String, Vec<u8>)>),
	Seeds(Vec<(String, P, Vec<u8>)>),
	Lines { p: P, alphabet: Vec<Vec<u8>>, min_len: usize, max_len: usize, with_header: bool },
	Tokens { p: P, seed: Vec<u8>, cells: Vec<(usize, usize)>, repl: Vec<Vec<u8>> },
	/// every string of min_len..=max_len characters over a character alphabet, in every cell of a text seed
	Chars { p: P, seed: Vec<u8>, cells: Vec<(usize, usize)>, alphabet: Vec<Vec<u8>>, min_len: usize, max_len: usize },
	/// every single edit of a text seed: at every byte position delete the byte, insert a symbol, replace the byte by a symbol
	TextEdits { p: P, seed: Vec<u8>, symbols: Vec<Vec<u8>> },
	/// every single byte of a class seed set to each of its byte fault values
	ClassBytes { seed: Vec<u8>, faults: Vec<(u32, u8)> },
	/// the contents of every Utf8 constant of a class seed replaced (length field adjusted) by every string of a list
	/// `fault`: bytes (offset in the seed, value) set after the replacement, so that something behind the pool fails and
	/// the reader builds the error contexts that quote names and descriptors
	Utf8 { seed: ClassSeed, entries: Vec<u32>, repl: Vec<Vec<u8>>, fault: Vec<(usize, u8)> },
	Desc { p: P, alphabet: Vec<Vec<u8>>, max_len: usize },
	/// every attribute of a class seed duplicated in place / duplicated at the end of its list / deleted / swapped with its successor
	AttrOps { seed: ClassSeed, ops: Vec<AttrOp> },
	/// every padded text (k ASCII letters and one multi-byte character, for every k) in every cell of a text seed, the line as it is and indented too deep
	Pad { p: P, seed: Vec<u8>, cells: Vec<(usize, usize)>, pads: Vec<Vec<u8>>, variants: usize },
	/// every padded text in the slot of every template (error situations that quote the text)
	Templates { p: P, templates: Vec<Vec<u8>>, pads: Vec<Vec<u8>> },
	/// a seed through every scripted reader / writer behaviour, and every prefix of it through the short-serving readers
	Envs { p: P, seed: Vec<u8>, envs: Vec<Env>, trunc_envs: Vec<Env> },
	File { p: P, env: Env, input: Vec<u8> },
}

/// one structural edit of the attribute lists of a class seed; all patched fields lie before the edited bytes
#[derive(Clone, Debug)]
pub struct AttrOp {
	pub what: &'static str,
	pub name: String,
	pub at: usize,
	/// the bytes start..end are replaced by `with`
	start: usize,
	end: usize,
	with: Vec<u8>,
	/// (offset, width, signed delta) of the count and the attribute_length fields to adjust
	patches: Vec<(usize, u8, i64)>,
}

fn attr_ops(seed: &ClassSeed) -> Vec<AttrOp> {
	let spans = &seed.parsed.attribute_spans;
	let b = &seed.bytes;
	let mut out = Vec::new();
	for s in spans {
		let end = s.start + s.len;
		// the list this attribute stands in: contiguous attributes of the same depth
		let mut first = s;
		while let Some(p) = spans.iter().find(|p| p.depth == first.depth && p.start + p.len == first.start) {
			first = p;
		}
		let mut last = s;
		while let Some(n) = spans.iter().find(|n| n.depth == last.depth && n.start == last.start + last.len) {
			last = n;
		}
		let Some(count_at) = first.start.checked_sub(2) else { continue };
		if !seed.parsed.map.iter().any(|e| e.offset == count_at && e.width == 2 && e.role == Role::Count) {
			continue;
		}
		let enclosing: Vec<usize> = spans.iter().filter(|e| e.depth < s.depth && e.start < s.start && e.start + e.len >= end).map(|e| e.start + 2).collect();
		let patches = |delta_count: i64, delta_len: i64| {
			let mut v = vec![(count_at, 2u8, delta_count)];
			v.extend(enclosing.iter().map(|o| (*o, 4u8, delta_len)));
			v
		};
		let me = b[s.start..end].to_vec();
		let op = |what: &'static str, start: usize, end: usize, with: Vec<u8>, patches: Vec<(usize, u8, i64)>| AttrOp { what, name: s.name.clone(), at: s.start, start, end, with, patches };
		out.push(op("duplicated in place", end, end, me.clone(), patches(1, s.len as i64)));
		if last.start != s.start {
			let le = last.start + last.len;
			out.push(op("duplicated at the end of its list", le, le, me.clone(), patches(1, s.len as i64)));
		}
		if first.start != s.start {
			out.push(op("duplicated at the start of its list", first.start, first.start, me.clone(), patches(1, s.len as i64)));
		}
		out.push(op("deleted", s.start, end, Vec::new(), patches(-1, -(s.len as i64))));
		if let Some(n) = spans.iter().find(|n| n.depth == s.depth && n.start == end) {
			let mut w = b[n.start..n.start + n.len].to_vec();
			w.extend_from_slice(&me);
			out.push(op("swapped with the next one", s.start, n.start + n.len, w, Vec::new()));
		}
	}
	out
}

impl AttrOp {
	fn apply(&self, seed: &[u8]) -> Vec<u8> {
		let mut b = Vec::with_capacity(seed.len() + self.with.len());
		b.extend_from_slice(&seed[..self.start]);
		b.extend_from_slice(&self.with);
		b.extend_from_slice(&seed[self.end..]);
		for &(off, width, delta) in &self.patches {
			let e = FieldMapEntry { offset: off, width, role: Role::Other };
			let v = (read_be(&b, &e) as i64 + delta) as u64;
			write_be(&mut b, &e, v);
		}
		b
	}
}

#[derive(Clone, Copy, Debug)]
enum Edit {
	Delete,
	Insert(usize),
	Replace(usize),
}

/// short description of a padded text
fn pad_name(p: &[u8]) -> String {
	let k = p.iter().filter(|b| **b == b'a').count();
	let rest: Vec<u8> = p.iter().copied().filter(|b| *b != b'a').collect();
	let first = p.first() != Some(&b'a') && k > 0;
	if first { format!("the character {:02x?} and {k} letters", rest) } else { format!("{k} letters and the character {:02x?}", rest) }
}

pub struct Space {
	pub spec: String,
	kind: Kind,
}

/// the descriptor alphabet: one primitive of each width, the object/array/method punctuation, a name character, the
/// characters a class name must not contain, a two-byte character and a lone surrogate (JavaString is "semi" UTF-8)
pub const DESC_ALPHABET: &[&[u8]] = &[b"B", b"D", b"L", b"a", b"/", b";", b"[", b"(", b")", b"V", b".", b"$", "\u{e9}".as_bytes(), &[0xed, 0xa0, 0x80]];
/// every primitive letter (explored to a smaller length)
pub const DESC_ALPHABET_LETTERS: &[&[u8]] = &[b"B", b"C", b"D", b"F", b"I", b"J", b"S", b"Z", b"V", b"L", b"a", b"/", b";", b"[", b"(", b")"];

fn count_between(k: usize, min_len: usize, max_len: usize) -> u64 {
	let all = vcore::enumerate::strings_count(k, max_len);
	if min_len == 0 { all } else { all - vcore::enumerate::strings_count(k, min_len - 1) }
}

/// the `i`-th string of min_len..=max_len symbols (shortest first), symbols concatenated
fn symbols_nth(alphabet: &[Vec<u8>], min_len: usize, max_len: usize, i: u64) -> Vec<u8> {
	let skip = if min_len == 0 { 0 } else { vcore::enumerate::strings_count(alphabet.len(), min_len - 1) };
	let idxs: Vec<usize> = vcore::enumerate::string_nth(&(0..alphabet.len()).collect::<Vec<_>>(), max_len, i + skip);
	idxs.into_iter().flat_map(|k| alphabet[k].iter().copied()).collect()
}

/// the values a single byte is set to: {0, 0xff, b+1, b-1, b with the top bit flipped, b with the case bit flipped} minus b itself
pub fn byte_values(b: u8) -> Vec<u8> {
	let mut out = Vec::new();
	for x in [0u8, 0xff, b.wrapping_add(1), b.wrapping_sub(1), b ^ 0x80, b ^ 0x20] {
		if x != b && !out.contains(&x) {
			out.push(x);
		}
	}
	out
}

pub fn class_seed_names(thorough: bool) -> Vec<String> {
	let mut v: Vec<String> = Vec::new();
	if thorough {
		for variant in 0..6 {
			for e in 0..cfmodel::gen::basic_encodings().len() {
				if variant < 3 || e == 0 {
					v.push(format!("ks{variant}e{e}"));
				}
			}
		}
		for (open, k) in [(0, 0), (0, 1), (0, 2), (1, 1), (1, 2)] {
			v.push(format!("mod{open}{k}"));
		}
	} else {
		v.extend(["ks0e0", "ks1e0", "ks2e2", "mod02", "mod11"].map(String::from));
	}
	v
}

/// class seeds whose Utf8 constants get every padded text (quick: one generated and one compiled class)
pub fn pad_seed_names(thorough: bool) -> Vec<String> {
	let mut v: Vec<String> = vec!["ks0e0".into(), "utf9".into()];
	let corpus = corpus_seed_names(false);
	v.extend(corpus.iter().take(if thorough { corpus.len() } else { 1 }).cloned());
	if thorough {
		v.extend(["ks1e0", "ks2e2", "mod02", "cldc"].map(String::from));
	}
	v
}

/// (fault, seed) of the padded texts with a fault behind the pool
pub fn faulted_pad_seeds(thorough: bool) -> Vec<(&'static str, String)> {
	let lambda = "corpus:main/corpus/lambda/Lambdas$Sup.class".to_owned();
	let mut v = vec![("code", lambda.clone()), ("bsmarg", lambda), ("constvalue", "corpus:main/corpus/misc/Misc$Child.class".to_owned())];
	if thorough {
		for f in ["code", "bsmarg", "constvalue"] {
			v.push((f, "ks0e0".to_owned()));
		}
	}
	v
}

/// class seeds driven through every scripted reader and writer behaviour
pub fn env_seed_names(thorough: bool) -> Vec<String> {
	let mut v: Vec<String> = vec!["cldc".into(), "mod02".into(), "ks0e0".into()];
	let corpus = corpus_seed_names(false);
	v.extend(corpus.iter().take(if thorough { corpus.len() } else { 2 }).cloned());
	if thorough {
		v.extend(["ks1e0", "ks2e2", "utf9"].map(String::from));
	}
	v
}

/// corpus classes used as seeds: quick = the few smallest of each flavour; thorough = every class up to 24 KiB
pub fn corpus_seed_names(thorough: bool) -> Vec<String> {
	let all = cfmodel::corpus::vendored(&vcore::verif_root());
	let mut v: Vec<(usize, String)> = all.iter().map(|(n, b)| (b.len(), n.clone())).collect();
	v.sort();
	if thorough {
		v.into_iter().filter(|(l, _)| *l <= 24 * 1024).map(|(_, n)| format!("corpus:{n}")).collect()
	} else {
		// the smallest class (at most 4 KiB) of each flavour named here, plus the three smallest classes
		let mut out: Vec<String> = Vec::new();
		let wanted = ["mod/module-info.class", "main/corpus/lambda/Lambdas", "main/corpus/rec/Records", "main/corpus/flow/Switches", "main/corpus/flow/TryCatch", "main/corpus/anno/Annos$", "main/corpus/anno/TypeAnnoUse", "main/corpus/nest/Outer$", "main8/", "main11/"];
		let mut add = |n: &str| {
			let s = format!("corpus:{n}");
			if !out.contains(&s) {
				out.push(s);
			}
		};
		for w in wanted {
			if let Some((_, n)) = v.iter().find(|(l, n)| n.starts_with(w) && *l >= 600 && *l <= 4 * 1024) {
				add(n);
			}
		}
		for (_, n) in v.iter().take(3) {
			add(n);
		}
		out
	}
}

impl Space {
	pub fn open(spec: &str, thorough: bool) -> Result<Space, String> {
		let (head, rest) = spec.split_once(':').unwrap_or((spec, ""));
		let kind = match head {
			"fields" => {
				let seed = class_seed(rest)?;
				let mut faults = Vec::new();
				for (i, e) in seed.parsed.map.iter().enumerate() {
					let actual = read_be(&seed.bytes, e);
					for v in values_for(actual, e.width) {
						faults.push((i as u32, v));
					}
				}
				Kind::Fields { seed, faults }
			},
			"trunc" => Kind::Trunc { seed: class_seed(rest)?.bytes },
			"ttrunc" => {
				let (pn, k) = rest.rsplit_once(':').ok_or("bad ttrunc spec")?;
				let p = P::from_name(pn).ok_or("bad parser")?;
				let seed = texts::seeds(p).into_iter().nth(k.parse().map_err(|_| "bad seed number")?).ok_or("no such seed")?;
				Kind::TextTrunc { p, seed }
			},
			"pairs" => {
				let seed = class_seed(rest)?;
				let mut pairs = Vec::new();
				let mut capped = 0;
				let groups = structures(&seed.bytes, &seed.parsed);
				for g in &groups {
					let mut cand: Vec<usize> = g.iter().copied().filter(|i| structural(&seed.parsed.map[*i])).collect();
					if cand.len() > PAIR_CAP_FIRST + PAIR_CAP_LAST {
						capped += 1;
						let tail = cand.split_off(cand.len() - PAIR_CAP_LAST);
						cand.truncate(PAIR_CAP_FIRST);
						cand.extend(tail);
					}
					for a in 0..cand.len() {
						for b in a + 1..cand.len() {
							let (ea, eb) = (&seed.parsed.map[cand[a]], &seed.parsed.map[cand[b]]);
							for va in pair_values(read_be(&seed.bytes, ea), ea.width) {
								for vb in pair_values(read_be(&seed.bytes, eb), eb.width) {
									pairs.push((cand[a] as u32, va, cand[b] as u32, vb));
								}
							}
						}
					}
				}
				Kind::Pairs { seed, pairs, capped_structures: capped, structures: groups.len() }
			},
			"adversaries" => Kind::Adversaries(adversaries::adversaries(thorough), 4_000_000),
			"boundaries" => Kind::Adversaries(adversaries::boundary_adversaries(), 40_000),
			"attrops" => {
				let seed = class_seed(rest)?;
				let ops = attr_ops(&seed);
				Kind::AttrOps { seed, ops }
			},
			"pad" => {
				let (pn, k) = rest.rsplit_once(':').ok_or("bad pad spec")?;
				let p = P::from_name(pn).ok_or("bad parser")?;
				let seed = texts::seeds(p).into_iter().nth(k.parse().map_err(|_| "bad seed number")?).ok_or("no such seed")?;
				let cells = texts::cells(p, &seed);
				Kind::Pad { p, seed, cells, pads: texts::pad_strings(false), variants: if p == P::Nests { 1 } else { 2 } }
			},
			"tmpl" => {
				let p = P::from_name(rest).ok_or("bad parser")?;
				Kind::Templates { p, templates: texts::templates(p), pads: texts::pad_strings(false) }
			},
			"env" => {
				let (pn, sn) = rest.split_once('|').ok_or("bad env spec")?;
				let p = P::from_name(pn).ok_or("bad parser")?;
				let seed = if p == P::Class { class_seed(sn)?.bytes } else { texts::seeds(p).into_iter().nth(sn.parse().map_err(|_| "bad seed number")?).ok_or("no such seed")? };
				let n = seed.len() as u32;
				let mut envs = vec![Env::Chunk(1), Env::Chunk(2), Env::Chunk(3), Env::Chunk(7), Env::Interrupted(1), Env::Interrupted(4), Env::Interrupted(u32::MAX)];
				envs.extend((0..=n).map(Env::FailAt));
				if p == P::Class {
					envs.extend([Env::WriterChunk(1), Env::WriterChunk(3)]);
					envs.extend((0..=n + 512).map(Env::WriterFailAt));
				}
				Kind::Envs { p, seed, envs, trunc_envs: vec![Env::Chunk(1), Env::Interrupted(3)] }
			},
			"insncut" => Kind::InsnCut(adversaries::insn_cut_cases()),
			"seeds" => {
				let mut v = Vec::new();
				for n in class_seed_names(thorough).into_iter().chain(corpus_seed_names(thorough)) {
					v.push((format!("class seed {n}"), P::Class, class_seed(&n)?.bytes));
				}
				for p in [P::Tiny2, P::Tiny3, P::TinyDiff, P::Enigma, P::Nests] {
					for (i, s) in texts::seeds(p).into_iter().enumerate() {
						v.push((format!("text seed {} #{i}", p.name()), p, s));
					}
				}
				for (p, d) in [(P::DescField, "[[Lp/T;"), (P::DescMethod, "(I[JLp/T;)V"), (P::DescReturn, "V")] {
					v.push((format!("descriptor seed {d}"), p, d.as_bytes().to_vec()));
				}
				Kind::Seeds(v)
			},
			"lines" => {
				let (pn, mode) = rest.rsplit_once(':').ok_or("bad lines spec")?;
				let p = P::from_name(pn).ok_or("bad parser")?;
				Kind::Lines { p, alphabet: texts::line_alphabet(p), min_len: 0, max_len: 3, with_header: mode == "header" }
			},
			"linesx" => {
				// linesx:<parser>:<mode>:<n> = every sequence of exactly n lines over the alphabet without the very long lines
				let mut it = rest.rsplitn(3, ':');
				let n: usize = it.next().and_then(|x| x.parse().ok()).ok_or("bad linesx spec")?;
				let mode = it.next().ok_or("bad linesx spec")?;
				let p = it.next().and_then(P::from_name).ok_or("bad parser")?;
				Kind::Lines { p, alphabet: texts::short_line_alphabet(p), min_len: n, max_len: n, with_header: mode == "header" }
			},
			"chars" => {
				// chars:<parser>:<seed>:<full|core>:<min>:<max>
				let f: Vec<&str> = rest.rsplitn(5, ':').collect();
				if f.len() != 5 {
					return Err("bad chars spec".into());
				}
				let p = P::from_name(f[4]).ok_or("bad parser")?;
				let seed = texts::seeds(p).into_iter().nth(f[3].parse().map_err(|_| "bad seed number")?).ok_or("no such seed")?;
				let cells = texts::cells(p, &seed);
				Kind::Chars { p, seed, cells, alphabet: texts::char_alphabet(f[2] == "core"), min_len: f[1].parse().map_err(|_| "bad length")?, max_len: f[0].parse().map_err(|_| "bad length")? }
			},
			"tedit" => {
				let (pn, k) = rest.rsplit_once(':').ok_or("bad tedit spec")?;
				let p = P::from_name(pn).ok_or("bad parser")?;
				let seed = texts::seeds(p).into_iter().nth(k.parse().map_err(|_| "bad seed number")?).ok_or("no such seed")?;
				Kind::TextEdits { p, seed, symbols: texts::edit_symbols() }
			},
			"bytes" => {
				let seed = class_seed(rest)?.bytes;
				let mut faults = Vec::new();
				for (i, b) in seed.iter().enumerate() {
					for v in byte_values(*b) {
						faults.push((i as u32, v));
					}
				}
				Kind::ClassBytes { seed, faults }
			},
			"utf8" | "utf8s" | "utf8pad" | "utf8padf" => {
				// utf8padf:<fault>:<seed>
				let (fault_name, rest) = if head == "utf8padf" { rest.split_once(':').ok_or("bad utf8padf spec")? } else { ("", rest) };
				let seed = class_seed(rest)?;
				let span_body = |name: &str| seed.parsed.attribute_spans.iter().find(|a| a.name == name).map(|a| a.start + 6).ok_or(format!("seed {rest} has no {name} attribute"));
				let fault: Vec<(usize, u8)> = match fault_name {
					"" => Vec::new(),
					// an opcode that does not exist, as the first instruction of the first method with code
					"code" => vec![(seed.parsed.map.iter().find(|e| e.role == Role::Opcode).ok_or("seed without code")?.offset, 0xfe)],
					// a constant value index outside the pool
					"constvalue" => {
						let b = span_body("ConstantValue")?;
						vec![(b, 0xff), (b + 1, 0xff)]
					},
					// the first argument of the first bootstrap method: an index outside the pool
					"bsmarg" => {
						let b = span_body("BootstrapMethods")?;
						if seed.bytes.get(b + 4..b + 6) == Some(&[0, 0]) || seed.bytes.len() < b + 8 {
							return Err(format!("the first bootstrap method of seed {rest} has no argument"));
						}
						vec![(b + 6, 0xff), (b + 7, 0xff)]
					},
					other => return Err(format!("unknown fault {other}")),
				};
				let entries: Vec<u32> = seed.parsed.map.iter().enumerate().filter(|(_, e)| e.role == Role::Utf8Length).map(|(i, _)| i as u32).collect();
				let repl = if head == "utf8" {
					adversaries::class_strings()
				} else if head == "utf8pad" || head == "utf8padf" {
					texts::pad_strings(true)
				} else {
					let alphabet = adversaries::class_char_alphabet();
					(0..count_between(alphabet.len(), 0, 2)).map(|i| symbols_nth(&alphabet, 0, 2, i)).collect()
				};
				Kind::Utf8 { seed, entries, repl, fault }
			},
			"tokens" => {
				let (pn, k) = rest.rsplit_once(':').ok_or("bad tokens spec")?;
				let p = P::from_name(pn).ok_or("bad parser")?;
				let seed = texts::seeds(p).into_iter().nth(k.parse().map_err(|_| "bad seed number")?).ok_or("no such seed")?;
				let cells = texts::cells(p, &seed);
				Kind::Tokens { p, seed, cells, repl: texts::replacements() }
			},
			"desc" => {
				let (pn, l) = rest.rsplit_once(':').ok_or("bad desc spec")?;
				Kind::Desc { p: P::from_name(pn).ok_or("bad parser")?, alphabet: DESC_ALPHABET.iter().map(|s| s.to_vec()).collect(), max_len: l.parse().map_err(|_| "bad length")? }
			},
			"descl" => {
				let (pn, l) = rest.rsplit_once(':').ok_or("bad descl spec")?;
				Kind::Desc { p: P::from_name(pn).ok_or("bad parser")?, alphabet: DESC_ALPHABET_LETTERS.iter().map(|s| s.to_vec()).collect(), max_len: l.parse().map_err(|_| "bad length")? }
			},
			"file" => {
				let b = std::fs::read(Path::new(rest)).map_err(|e| format!("{rest}: {e}"))?;
				if b.len() < 6 {
					return Err("short case file".into());
				}
				let p = *PARSERS.get(b[0] as usize).ok_or("bad parser id")?;
				let env = Env::decode(b[1], u32::from_be_bytes([b[2], b[3], b[4], b[5]])).ok_or("bad environment")?;
				Kind::File { p, env, input: b[6..].to_vec() }
			},
			_ => return Err(format!("unknown space {spec}")),
		};
		Ok(Space { spec: spec.to_owned(), kind })
	}

	pub fn len(&self) -> u64 {
		match &self.kind {
			Kind::Fields { faults, .. } => faults.len() as u64,
			Kind::Trunc { seed } | Kind::TextTrunc { seed, .. } => seed.len() as u64,
			Kind::Pairs { pairs, .. } => pairs.len() as u64,
			Kind::Adversaries(v, _) => v.len() as u64,
			Kind::AttrOps { ops, .. } => ops.len() as u64,
			Kind::Pad { cells, pads, variants, .. } => (cells.len() * pads.len() * variants) as u64,
			Kind::Templates { templates, pads, .. } => (templates.len() * pads.len()) as u64,
			Kind::Envs { seed, envs, trunc_envs, .. } => (envs.len() + trunc_envs.len() * seed.len()) as u64,
			Kind::InsnCut(v) => v.len() as u64,
			Kind::Seeds(v) => v.len() as u64,
			Kind::Lines { alphabet, min_len, max_len, .. } => count_between(alphabet.len(), *min_len, *max_len),
			Kind::Tokens { cells, repl, .. } => (cells.len() * repl.len()) as u64,
			Kind::Chars { cells, alphabet, min_len, max_len, .. } => cells.len() as u64 * count_between(alphabet.len(), *min_len, *max_len),
			Kind::TextEdits { seed, symbols, .. } => seed.len() as u64 * (1 + 2 * symbols.len() as u64) + symbols.len() as u64,
			Kind::ClassBytes { faults, .. } => faults.len() as u64,
			Kind::Utf8 { entries, repl, .. } => (entries.len() * repl.len()) as u64,
			Kind::Desc { alphabet, max_len, .. } => vcore::enumerate::strings_count(alphabet.len(), *max_len),
			Kind::File { .. } => 1,
		}
	}

	/// the family of fault sets this space belongs to (evidence grouping)
	pub fn family(&self) -> &'static str {
		match &self.kind {
			Kind::Fields { .. } => "(a) field-map boundary values",
			Kind::Trunc { .. } | Kind::TextTrunc { .. } => "(b) truncation at every byte",
			Kind::Pairs { .. } => "(c) pairs of field faults within one structure",
			Kind::Adversaries(_, _) => "(d) hand-built adversaries",
			Kind::AttrOps { .. } => "(j) attributes duplicated, deleted, swapped",
			Kind::Pad { .. } | Kind::Templates { .. } => "(h) long texts with a multi-byte character at every offset",
			Kind::Envs { .. } => "(i) scripted readers and writers",
			Kind::InsnCut(_) => "(d) last instruction cut short",
			Kind::Seeds(_) => "unmodified seeds",
			Kind::Lines { .. } => "(e) line sequences",
			Kind::Tokens { .. } => "(e) single-token replacements",
			Kind::Chars { .. } => "(g) short character strings in every cell",
			Kind::TextEdits { .. } => "(f) single byte/character edits at every position (text)",
			Kind::ClassBytes { .. } => "(f) single byte edits at every position (class)",
			Kind::Utf8 { .. } => "(g) Utf8 constant contents replaced",
			Kind::Desc { .. } => "(e) descriptor strings",
			Kind::File { .. } => "replay",
		}
	}

	pub fn bounds(&self) -> Option<vcore::Value> {
		match &self.kind {
			Kind::Pairs { capped_structures, structures, .. } => Some(vcore::json!({"structures": structures, "structures_over_candidate_cap": capped_structures})),
			Kind::Fields { seed, .. } => Some(vcore::json!({"field_map_entries": seed.parsed.map.len(), "seed_bytes": seed.bytes.len()})),
			Kind::Utf8 { entries, repl, fault, .. } => Some(vcore::json!({"utf8_entries": entries.len(), "replacements": repl.len(), "bytes_faulted_behind_the_pool": fault.len()})),
			Kind::Chars { cells, alphabet, min_len, max_len, .. } => Some(vcore::json!({"cells": cells.len(), "characters": alphabet.len(), "min_len": min_len, "max_len": max_len})),
			Kind::ClassBytes { seed, .. } => Some(vcore::json!({"byte_positions": seed.len()})),
			Kind::TextEdits { seed, symbols, .. } => Some(vcore::json!({"edit_positions": seed.len(), "symbols": symbols.len()})),
			Kind::AttrOps { seed, ops } => Some(vcore::json!({"attributes": seed.parsed.attribute_spans.len(), "edits": ops.len()})),
			Kind::Pad { cells, pads, variants, .. } => Some(vcore::json!({"cells": cells.len(), "padded_texts": pads.len(), "line_variants": variants})),
			Kind::Templates { templates, pads, .. } => Some(vcore::json!({"templates": templates.len(), "padded_texts": pads.len()})),
			Kind::Envs { seed, envs, trunc_envs, .. } => Some(vcore::json!({"seed_bytes": seed.len(), "behaviours_on_the_whole_seed": envs.len(), "behaviours_on_every_prefix": trunc_envs.len()})),
			_ => None,
		}
	}

	pub fn parser(&self, i: u64) -> P {
		match &self.kind {
			Kind::Fields { .. } | Kind::Trunc { .. } | Kind::Pairs { .. } | Kind::InsnCut(_) | Kind::ClassBytes { .. } | Kind::Utf8 { .. } | Kind::AttrOps { .. } => P::Class,
			Kind::Adversaries(v, _) => v[i as usize].parser,
			Kind::Pad { p, .. } | Kind::Templates { p, .. } | Kind::Envs { p, .. } => *p,
			Kind::Seeds(v) => v[i as usize].1,
			Kind::Lines { p, .. } | Kind::Tokens { p, .. } | Kind::Desc { p, .. } | Kind::File { p, .. } | Kind::TextTrunc { p, .. } | Kind::Chars { p, .. } | Kind::TextEdits { p, .. } => *p,
		}
	}

	pub fn input(&self, i: u64) -> Vec<u8> {
		match &self.kind {
			Kind::Fields { seed, faults } => {
				let (e, v) = faults[i as usize];
				let mut b = seed.bytes.clone();
				write_be(&mut b, &seed.parsed.map[e as usize], v);
				b
			},
			Kind::Trunc { seed } | Kind::TextTrunc { seed, .. } => seed[..i as usize].to_vec(),
			Kind::Pairs { seed, pairs, .. } => {
				let (a, va, b2, vb) = pairs[i as usize];
				let mut b = seed.bytes.clone();
				write_be(&mut b, &seed.parsed.map[a as usize], va);
				write_be(&mut b, &seed.parsed.map[b2 as usize], vb);
				b
			},
			Kind::Adversaries(v, _) => (v[i as usize].build)(),
			Kind::AttrOps { seed, ops } => ops[i as usize].apply(&seed.bytes),
			Kind::Pad { seed, cells, pads, variants, .. } => {
				let (c, r, variant) = self.pad_of(pads.len(), *variants, i);
				let (s, e) = cells[c];
				let line_start = seed[..s].iter().rposition(|x| *x == b'\n').map(|x| x + 1).unwrap_or(0);
				let mut b = Vec::with_capacity(seed.len() + pads[r].len() + 8);
				b.extend_from_slice(&seed[..line_start]);
				if variant == 1 {
					b.extend_from_slice(b"\t\t\t\t\t\t\t");
				}
				b.extend_from_slice(&seed[line_start..s]);
				b.extend_from_slice(&pads[r]);
				b.extend_from_slice(&seed[e..]);
				b
			},
			Kind::Templates { templates, pads, .. } => texts::fill(&templates[i as usize / pads.len()], &pads[i as usize % pads.len()]),
			Kind::Envs { seed, envs, trunc_envs, .. } => {
				if (i as usize) < envs.len() {
					seed.clone()
				} else {
					let k = i as usize - envs.len();
					seed[..k / trunc_envs.len()].to_vec()
				}
			},
			Kind::InsnCut(v) => v[i as usize].1.clone(),
			Kind::Seeds(v) => v[i as usize].2.clone(),
			Kind::Lines { alphabet, min_len, max_len, with_header, p } => {
				let idxs = self.line_symbols(alphabet.len(), *min_len, *max_len, i);
				let mut b = Vec::new();
				if *with_header {
					if let Some(h) = texts::header(*p) {
						b.extend_from_slice(h);
						b.push(b'\n');
					}
				}
				for k in idxs {
					b.extend_from_slice(&alphabet[k]);
					b.push(b'\n');
				}
				b
			},
			Kind::Tokens { seed, cells, repl, .. } => {
				let (c, r) = (i as usize / repl.len(), i as usize % repl.len());
				let (s, e) = cells[c];
				let mut b = Vec::with_capacity(seed.len() + repl[r].len());
				b.extend_from_slice(&seed[..s]);
				b.extend_from_slice(&repl[r]);
				b.extend_from_slice(&seed[e..]);
				b
			},
			Kind::Chars { seed, cells, alphabet, min_len, max_len, .. } => {
				let n = count_between(alphabet.len(), *min_len, *max_len);
				let (s, e) = cells[(i / n) as usize];
				let r = symbols_nth(alphabet, *min_len, *max_len, i % n);
				let mut b = Vec::with_capacity(seed.len() + r.len());
				b.extend_from_slice(&seed[..s]);
				b.extend_from_slice(&r);
				b.extend_from_slice(&seed[e..]);
				b
			},
			Kind::TextEdits { seed, symbols, .. } => {
				let (pos, op) = self.edit_of(seed.len(), symbols.len(), i);
				let mut b = Vec::with_capacity(seed.len() + 4);
				b.extend_from_slice(&seed[..pos]);
				match op {
					Edit::Delete => b.extend_from_slice(&seed[pos + 1..]),
					Edit::Insert(k) => {
						b.extend_from_slice(&symbols[k]);
						b.extend_from_slice(&seed[pos..]);
					},
					Edit::Replace(k) => {
						b.extend_from_slice(&symbols[k]);
						b.extend_from_slice(&seed[pos + 1..]);
					},
				}
				b
			},
			Kind::ClassBytes { seed, faults } => {
				let (pos, v) = faults[i as usize];
				let mut b = seed.clone();
				b[pos as usize] = v;
				b
			},
			Kind::Utf8 { seed, entries, repl, fault } => {
				let (c, r) = (i as usize / repl.len(), i as usize % repl.len());
				let e = &seed.parsed.map[entries[c] as usize];
				let old = read_be(&seed.bytes, e) as usize;
				let rep = &repl[r];
				let mut b = Vec::with_capacity(seed.bytes.len() + rep.len());
				b.extend_from_slice(&seed.bytes[..e.offset]);
				b.extend_from_slice(&(rep.len() as u16).to_be_bytes());
				b.extend_from_slice(rep);
				b.extend_from_slice(&seed.bytes[e.offset + 2 + old..]);
				for &(off, v) in fault {
					// everything faulted lies behind the constant pool, so it has moved with the replacement
					let at = if off > e.offset { off + rep.len() - old } else { off };
					b[at] = v;
				}
				b
			},
			Kind::Desc { alphabet, max_len, .. } => symbols_nth(alphabet, 0, *max_len, i),
			Kind::File { input, .. } => input.clone(),
		}
	}

	/// (cell, padded text, line variant) of case `i` of a pad space
	fn pad_of(&self, pads: usize, variants: usize, i: u64) -> (usize, usize, usize) {
		let i = i as usize;
		(i / (pads * variants), (i / variants) % pads, i % variants)
	}

	/// how the input of case `i` is served to the parser
	pub fn env(&self, i: u64) -> Env {
		match &self.kind {
			Kind::Envs { envs, trunc_envs, .. } => {
				if (i as usize) < envs.len() {
					envs[i as usize]
				} else {
					trunc_envs[(i as usize - envs.len()) % trunc_envs.len()]
				}
			},
			Kind::File { env, .. } => *env,
			_ => Env::Plain,
		}
	}

	fn line_symbols(&self, k: usize, min_len: usize, max_len: usize, i: u64) -> Vec<usize> {
		let skip = if min_len == 0 { 0 } else { vcore::enumerate::strings_count(k, min_len - 1) };
		vcore::enumerate::string_nth(&(0..k).collect::<Vec<_>>(), max_len, i + skip)
	}

	/// (byte position, edit) of case `i` of a text-edit space: per position [delete, insert each symbol, replace by each
	/// symbol], then the insertions at the very end
	fn edit_of(&self, seed_len: usize, symbols: usize, i: u64) -> (usize, Edit) {
		let per = 1 + 2 * symbols as u64;
		let pos = (i / per) as usize;
		if pos >= seed_len {
			return (seed_len, Edit::Insert((i - seed_len as u64 * per) as usize));
		}
		match i % per {
			0 => (pos, Edit::Delete),
			k if k <= symbols as u64 => (pos, Edit::Insert(k as usize - 1)),
			k => (pos, Edit::Replace(k as usize - 1 - symbols)),
		}
	}

	/// human-readable description of case `i` (what was changed)
	pub fn label(&self, i: u64) -> String {
		match &self.kind {
			Kind::Fields { seed, faults } => {
				let (e, v) = faults[i as usize];
				let m = &seed.parsed.map[e as usize];
				format!("{}: {:?} at offset {} (width {}) {:#x} -> {:#x}", self.spec, m.role, m.offset, m.width, read_be(&seed.bytes, m), v)
			},
			Kind::Trunc { seed } | Kind::TextTrunc { seed, .. } => format!("{}: first {} of {} bytes", self.spec, i, seed.len()),
			Kind::Pairs { seed, pairs, .. } => {
				let (a, va, b, vb) = pairs[i as usize];
				let (ma, mb) = (&seed.parsed.map[a as usize], &seed.parsed.map[b as usize]);
				format!("{}: {:?}@{} {:#x} -> {:#x} and {:?}@{} {:#x} -> {:#x}", self.spec, ma.role, ma.offset, read_be(&seed.bytes, ma), va, mb.role, mb.offset, read_be(&seed.bytes, mb), vb)
			},
			Kind::Adversaries(v, _) => format!("adversary {}", v[i as usize].name),
			Kind::AttrOps { ops, .. } => {
				let o = &ops[i as usize];
				format!("{}: attribute {} at offset {} {}", self.spec, o.name, o.at, o.what)
			},
			Kind::Pad { seed, cells, pads, variants, .. } => {
				let (c, r, variant) = self.pad_of(pads.len(), *variants, i);
				let (s, e) = cells[c];
				format!("{}: cell {} ({:?} at bytes {}..{}) replaced by {}{}", self.spec, c, String::from_utf8_lossy(&seed[s..e]), s, e, pad_name(&pads[r]), if variant == 1 { ", its line indented by 7 more tabs" } else { "" })
			},
			Kind::Templates { templates, pads, .. } => format!("{}: template {:?} filled with {}", self.spec, String::from_utf8_lossy(&templates[i as usize / pads.len()]), pad_name(&pads[i as usize % pads.len()])),
			Kind::Envs { seed, envs, trunc_envs, .. } => {
				if (i as usize) < envs.len() {
					format!("{}: the whole seed, {:?}", self.spec, envs[i as usize])
				} else {
					let k = i as usize - envs.len();
					format!("{}: first {} of {} bytes, {:?}", self.spec, k / trunc_envs.len(), seed.len(), trunc_envs[k % trunc_envs.len()])
				}
			},
			Kind::InsnCut(v) => format!("insncut {}", v[i as usize].0),
			Kind::Seeds(v) => v[i as usize].0.clone(),
			Kind::Lines { alphabet, min_len, max_len, with_header, .. } => {
				let idxs = self.line_symbols(alphabet.len(), *min_len, *max_len, i);
				format!("{}: line symbols {:?}{}", self.spec, idxs, if *with_header { " after the header" } else { "" })
			},
			Kind::Tokens { seed, cells, repl, .. } => {
				let (c, r) = (i as usize / repl.len(), i as usize % repl.len());
				let (s, e) = cells[c];
				let rep = &repl[r];
				format!("{}: cell {} ({:?} at bytes {}..{}) replaced by {:?}{}", self.spec, c, String::from_utf8_lossy(&seed[s..e]), s, e, String::from_utf8_lossy(&rep[..rep.len().min(24)]), if rep.len() > 24 { format!("… ({} bytes)", rep.len()) } else { String::new() })
			},
			Kind::Chars { seed, cells, alphabet, min_len, max_len, .. } => {
				let n = count_between(alphabet.len(), *min_len, *max_len);
				let c = (i / n) as usize;
				let (s, e) = cells[c];
				format!("{}: cell {} ({:?} at bytes {}..{}) replaced by {:?}", self.spec, c, String::from_utf8_lossy(&seed[s..e]), s, e, String::from_utf8_lossy(&symbols_nth(alphabet, *min_len, *max_len, i % n)))
			},
			Kind::TextEdits { seed, symbols, .. } => {
				let (pos, op) = self.edit_of(seed.len(), symbols.len(), i);
				match op {
					Edit::Delete => format!("{}: byte {} ({:#04x}) deleted", self.spec, pos, seed[pos]),
					Edit::Insert(k) => format!("{}: bytes {:02x?} inserted at {}", self.spec, symbols[k], pos),
					Edit::Replace(k) => format!("{}: byte {} ({:#04x}) replaced by {:02x?}", self.spec, pos, seed[pos], symbols[k]),
				}
			},
			Kind::ClassBytes { seed, faults } => {
				let (pos, v) = faults[i as usize];
				format!("{}: byte {} {:#04x} -> {:#04x}", self.spec, pos, seed[pos as usize], v)
			},
			Kind::Utf8 { seed, entries, repl, .. } => {
				let (c, r) = (i as usize / repl.len(), i as usize % repl.len());
				let e = &seed.parsed.map[entries[c] as usize];
				let old = read_be(&seed.bytes, e) as usize;
				let rep = &repl[r];
				format!("{}: Utf8 constant at offset {} ({:?}) replaced by {:?}{}", self.spec, e.offset - 1, String::from_utf8_lossy(&seed.bytes[e.offset + 2..e.offset + 2 + old.min(40)]), String::from_utf8_lossy(&rep[..rep.len().min(40)]), if rep.len() > 40 { format!("… ({} bytes)", rep.len()) } else { String::new() })
			},
			Kind::Desc { .. } => format!("{}: {:?}", self.spec, String::from_utf8_lossy(&self.input(i))),
			Kind::File { .. } => "replay".into(),
		}
	}

	/// short class of the case, used in the key of a death by signal (no call site is available there)
	pub fn death_class(&self, i: u64) -> String {
		match &self.kind {
			Kind::Fields { seed, faults } => format!("field-fault:{:?}", seed.parsed.map[faults[i as usize].0 as usize].role),
			Kind::Trunc { .. } | Kind::TextTrunc { .. } => "truncation".into(),
			Kind::Pairs { seed, pairs, .. } => {
				let p = pairs[i as usize];
				format!("pair-fault:{:?}+{:?}", seed.parsed.map[p.0 as usize].role, seed.parsed.map[p.2 as usize].role)
			},
			Kind::Adversaries(v, _) => v[i as usize].name.split('/').next().unwrap_or("").to_owned(),
			Kind::AttrOps { .. } => "attribute-edit".into(),
			Kind::Pad { .. } => "padded-cell".into(),
			Kind::Templates { .. } => "padded-template".into(),
			Kind::Envs { .. } => "scripted-io".into(),
			Kind::InsnCut(_) => "instruction-cut".into(),
			Kind::Seeds(_) => "seed".into(),
			Kind::Lines { .. } => "line-sequence".into(),
			Kind::Tokens { .. } => "token-replacement".into(),
			Kind::Chars { .. } => "cell-characters".into(),
			Kind::TextEdits { .. } => "text-edit".into(),
			Kind::ClassBytes { .. } => "byte-edit".into(),
			Kind::Utf8 { .. } => "utf8-replacement".into(),
			Kind::Desc { .. } => "descriptor-string".into(),
			Kind::File { .. } => "replay".into(),
		}
	}

	/// rough cost of one case (bytes of input), for batching
	pub fn case_cost(&self) -> u64 {
		match &self.kind {
			Kind::Fields { seed, .. } | Kind::Pairs { seed, .. } => seed.bytes.len() as u64 + 200,
			Kind::Trunc { seed } | Kind::TextTrunc { seed, .. } => seed.len() as u64 / 2 + 200,
			Kind::Adversaries(_, cost) => *cost,
			Kind::AttrOps { seed, .. } => seed.bytes.len() as u64 + 400,
			Kind::Pad { seed, .. } => seed.len() as u64 * 4 + 400,
			Kind::Templates { .. } => 600,
			Kind::Envs { seed, .. } => seed.len() as u64 * 2 + 400,
			Kind::InsnCut(_) => 1_000,
			Kind::Seeds(_) => 20_000,
			Kind::Lines { max_len, .. } => if *max_len > 3 { 2_000 } else { 30_000 },
			Kind::Tokens { .. } => 120_000,
			Kind::Chars { seed, .. } | Kind::TextEdits { seed, .. } => seed.len() as u64 * 4 + 200,
			Kind::ClassBytes { seed, .. } => seed.len() as u64 + 200,
			Kind::Utf8 { seed, .. } => seed.bytes.len() as u64 + 3_000,
			Kind::Desc { .. } => 60,
			Kind::File { .. } => 1,
		}
	}
}
