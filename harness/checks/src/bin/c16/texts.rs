//! Text inputs for C16 (fault set (e)): fixture-like seeds, line alphabets and the token replacement set.

use super::spaces::P;

pub const LONG: usize = 64 * 1024;

fn long(c: u8, n: usize) -> Vec<u8> {
	vec![c; n]
}

fn cat(parts: &[&[u8]]) -> Vec<u8> {
	parts.concat()
}

/// the header line each sequence is (optionally) prefixed with; None = the format has no header
pub fn header(p: P) -> Option<&'static [u8]> {
	match p {
		P::Tiny2 => Some(b"tiny\t2\t0\ta\tb"),
		P::Tiny3 => Some(b"tiny\t2\t0\ta\tb\tc"),
		P::TinyDiff => Some(b"tiny\t2\t0"),
		_ => None,
	}
}

/// The line alphabet of a text parser: well-formed lines of every kind at every depth, plus the
/// malformed shapes the statement names (deep indentation jumps, empty cells, non-numeric indices,
/// non-UTF-8 bytes, very long fields).
pub fn line_alphabet(p: P) -> Vec<Vec<u8>> {
	let l = |s: &str| s.as_bytes().to_vec();
	match p {
		P::Tiny2 | P::Tiny3 => {
			let x = if p == P::Tiny3 { "\tz" } else { "" };
			vec![
				header(p).map(|h| h.to_vec()).unwrap_or_default(),
				l(&format!("c\tA\tB{x}")),
				l(&format!("\tf\tI\tx\ty{x}")),
				l(&format!("\tm\t(I)V\tm\tn{x}")),
				l(&format!("\t\tp\t0\t\tq{x}")),
				l("\t\tc\tcomment \\n \\\\ \\x \\"),
				l("\tc\tclass comment"),
				l("\t\t\tc\tparameter comment"),
				l("\t\t\t\t\t\t\tc\tindentation jump"),
				l(""),
				l(&format!("c\t\t{}", if p == P::Tiny3 { "\t" } else { "" })),
				l(&format!("\t\tp\tx\t\tq{x}")),
				l(&format!("\t\tp\t-1\t\tq{x}")),
				l(&format!("\t\tp\t99999999999999999999\t\tq{x}")),
				cat(&[b"c\t\xff\xfe\tB", x.as_bytes()]),
				cat(&[b"c\t", &long(b'a', LONG), b"\tB", x.as_bytes()]),
				l("c\tA"),
				l(&format!("c\tA\tB\tC\tD{x}")),
				l(&format!("\tm\t(\tm\tn{x}")),
				l(&format!("\tf\t[\tx\ty{x}")),
			]
		},
		P::TinyDiff => vec![
			l("tiny\t2\t0"),
			l("c\tA\tA\tB"),
			l("c\tA\t\tB"),
			l("c\tA\tB\t"),
			l("\tf\tI\tx\tx\ty"),
			l("\tm\t(I)V\tm\tm\tn"),
			l("\t\tp\t0\t\t\tq"),
			l("\t\tp\t0\tsrc\t\tq"),
			l("\t\tc\told \\n\tnew \\\\"),
			l("\tc\t\tadded"),
			l("\t\t\tc\ta\tb"),
			l("\t\t\t\t\t\t\tc\ta\tb"),
			l(""),
			l("c\t\t\t"),
			l("\t\tp\tx\t\t\tq"),
			l("\t\tp\t-1\t\t\tq"),
			cat(&[b"c\t\xff\xfe\tA\tB"]),
			cat(&[b"c\tA\t", &long(b'a', LONG), b"\tB"]),
			l("c"),
			l("c\tA\tA\tB\tC"),
			l("\tm\t(\tm\tm\tn"),
			l("tiny\t2\t0\textra"),
		],
		P::Enigma => vec![
			l("CLASS A B"),
			l("CLASS A"),
			l("\tFIELD x y I"),
			l("\tMETHOD m n (I)V"),
			l("\t\tARG 0 q"),
			l("\t\tCOMMENT text # more"),
			l("\tCOMMENT class comment"),
			l("\tCLASS In Inner"),
			l("\t\tCLASS Deeper"),
			l("\t\t\t\t\t\tCOMMENT indentation jump"),
			l("# comment only"),
			l(""),
			l("CLASS"),
			l("\t\tARG x q"),
			l("\t\tARG -1 q"),
			l("\t\tARG 99999999999999999999 q"),
			cat(&[b"CLASS \xff\xfe B"]),
			cat(&[b"CLASS ", &long(b'a', LONG), b" B"]),
			l("CLASS A B ACC:PUBLIC extra"),
			l("FIELD x I"),
			l("\tMETHOD m ("),
			l("\tFIELD x y z ACC:PRIVATE"),
			l("CLASS A$B C$D"),
		],
		P::Nests => vec![
			l("a/B$1\ta/B\tm\t()V\t1\t0x0008"),
			l("a/B$C\ta/B\t\t\tC\t8"),
			l("a/B$1L\ta/B\tm\t(I)V\t1L\t0b101"),
			l(""),
			l("a/B$C\ta/B\t\t\tC"),
			l("a/B$C\ta/B\t\t\tC\t8\textra"),
			l("\ta/B\t\t\tC\t8"),
			l("a/B$C\t\t\t\tC\t8"),
			l("a/B$C\ta/B\t\t\t\t8"),
			l("a/B$C\ta/B\t\t\tC\tx"),
			l("a/B$C\ta/B\t\t\tC\t0x10000"),
			l("a/B$C\ta/B\t\t\tC\t-1"),
			l("a/B$C\ta/B\t\t\tC\t0x"),
			l("a/B$C\ta/B\t\t\tC\t0b2"),
			l("a/B$C\ta/B\tm\t(\tC\t8"),
			l("a/B$C\ta/B\t<bad>\t()V\tC\t8"),
			cat(&[b"a/B$C\t\xff\xfe\t\t\tC\t8"]),
			cat(&[b"a/B$C\t", &long(b'a', LONG), b"\t\t\tC\t8"]),
			l("a.b\ta/B\t\t\tC\t8"),
			l("a/B$C\ta/B\t\t\t[C\t65535"),
		],
		_ => Vec::new(),
	}
}

/// fixture-like seed texts (a small, fully populated mapping set per format)
pub fn seeds(p: P) -> Vec<Vec<u8>> {
	let l = |s: &str| s.as_bytes().to_vec();
	match p {
		P::Tiny2 => vec![l("tiny\t2\t0\tofficial\tnamed\nc\ta\tpkg/Alpha\n\tc\tA class.\\nSecond line with \\\\ backslash.\n\tf\tI\ta\tcount\n\t\tc\tfield comment\n\tf\tLa;\tb\tself\n\tm\t(ILa;)V\ta\trun\n\t\tc\tmethod comment\n\t\tp\t1\t\tamount\n\t\t\tc\tparameter comment\n\t\tp\t2\t\tother\n\tm\t()V\t<init>\t<init>\nc\ta$b\tpkg/Alpha$Inner\n\tf\t[[J\tc\t\nc\td\t\n")],
		P::Tiny3 => vec![l("tiny\t2\t0\tofficial\tintermediary\tnamed\nc\ta\tnet/C_1\tpkg/Alpha\n\tc\tA class.\n\tf\tI\ta\tf_1\tcount\n\tm\t(ILa;)V\ta\tm_1\trun\n\t\tp\t1\t\tp_1\tamount\n\t\t\tc\tparameter comment\nc\tb\t\tpkg/Beta\n\tm\t()La;\tb\t\tmake\n")],
		P::TinyDiff => vec![l("tiny\t2\t0\nc\ta\tpkg/Alpha\tpkg/Alpha2\n\tc\told class comment\tnew class comment\n\tf\tI\ta\tcount\tcounter\n\t\tc\t\tadded comment\n\tf\tLa;\tb\tself\t\n\tm\t(ILa;)V\ta\trun\trun\n\t\tc\tremoved\t\n\t\tp\t1\t\tamount\tqty\n\t\t\tc\told \\n\tnew \\\\\n\t\tp\t2\t\t\tadded\nc\tb\t\tpkg/Added\nc\tc\tpkg/Removed\t\n")],
		P::Enigma => vec![l("CLASS a pkg/Alpha\n\tCOMMENT A class.\n\tCOMMENT Second line with # hash\n\tFIELD a count I\n\t\tCOMMENT field comment\n\tFIELD b La;\n\tMETHOD a run (ILa;)V\n\t\tCOMMENT method comment\n\t\tARG 1 amount\n\t\t\tCOMMENT parameter comment\n\t\tARG 2 other\n\tMETHOD <init> ()V\n\tCLASS b Inner ACC:PUBLIC\n\t\tFIELD c [[J # trailing comment\n\t\tCLASS c\n\t\t\tMETHOD m ()V\nCLASS d\n")],
		P::Nests => vec![l("a/B$1\ta/B\trun\t(I)V\t1\t0x0008\na/B$C\ta/B\t\t\tC\t9\na/B$1Local\ta/B\tm\t()V\t1Local\t0b1010\nx/Y$Z$W\tx/Y$Z\t\t\tW\t65535\n")],
		_ => Vec::new(),
	}
}

/// the strings every token (cell) of a seed is replaced with, one at a time
pub fn replacements() -> Vec<Vec<u8>> {
	let l = |s: &str| s.as_bytes().to_vec();
	let mut brackets = vec![b'['; 100_000];
	brackets.push(b'I');
	vec![
		l(""),
		l("\t"),
		l("\t\t\t\t\t\t"),
		l(" "),
		l("0"),
		l("-1"),
		l("x"),
		l("99999999999999999999"),
		l("18446744073709551615"),
		l("0x10000"),
		b"\xff\xfe".to_vec(),
		b"\xed\xa0\x80".to_vec(),
		vec![b'a'; 1 << 20],
		brackets,
		l("("),
		l("()"),
		l("(I"),
		l("L;"),
		l("La;"),
		l("a/"),
		l("/a"),
		l("a//b"),
		l("a.b"),
		l("a$"),
		l("$"),
		l("[a"),
		l("<init>"),
		l("<x>"),
		l("\\"),
		l("\\n"),
		l("c"),
		l("tiny"),
		l("CLASS"),
		l("#"),
		l("ACC:"),
		l("\r"),
		l("\u{0}"),
		l("é\u{10000}"),
	]
}

/// The cells of a seed text: (start, end) byte ranges of every separator-delimited token and of every
/// line's indentation (possibly empty), in file order.
pub fn cells(p: P, text: &[u8]) -> Vec<(usize, usize)> {
	let seps: &[u8] = if p == P::Enigma { b"\t " } else { b"\t" };
	let mut out = Vec::new();
	let mut pos = 0;
	for line in text.split(|b| *b == b'\n') {
		let ind = line.iter().take_while(|b| **b == b'\t').count();
		out.push((pos, pos + ind));
		let mut start = ind;
		for i in ind..=line.len() {
			if i == line.len() || seps.contains(&line[i]) {
				if !(i == line.len() && start == i && line.len() == ind) {
					out.push((pos + start, pos + i));
				}
				start = i + 1;
			}
		}
		pos += line.len() + 1;
	}
	out
}
